(* C18: basic facts about the cell heap of CopyModel. *)
From Coq Require Import List Bool Arith PeanoNat Lia.
From MV Require Import Model.ForestModel Model.ForestExec Model.CopyModel
  Proofs.ForestInv Proofs.ForestBase Proofs.ForestCopy.
Import ListNotations.

Lemma lupd_length {A} (l : list A) i v : length (lupd l i v) = length l.
Proof. revert i; induction l; intros [|i]; simpl; auto. Qed.

Lemma nth_lupd {A} (l : list A) i j v d :
  nth j (lupd l i v) d = if Nat.eqb j i && Nat.ltb i (length l) then v else nth j l d.
Proof.
  revert i j; induction l as [|a l IH]; intros i j.
  - simpl. rewrite andb_false_r. destruct i; reflexivity.
  - destruct i as [|i], j as [|j]; simpl; try reflexivity. rewrite IH. reflexivity.
Qed.

Lemma In_lupd {A} (l : list A) i v x : In x (lupd l i v) -> x = v \/ In x l.
Proof.
  revert i; induction l as [|a l IH]; intros [|i] H; simpl in *; auto.
  - destruct H; auto.
  - destruct H; auto. apply IH in H. tauto.
Qed.

(* cells of a live object (dead placeholders and foreign values own nothing) *)
Definition lown (s : cstate) (i : nat) : list nat := if is_junk (fs s) i then [] else owned s i.

Definition Bounded (s : cstate) : Prop := forall i c, In c (lown s i) -> c < length (heap s).

(* an object of the store *)
Definition WF (s : cstate) : Prop :=
  Inv (fs s) /\ length (co s) = length (fs s) /\ Bounded s.

(* the two sides of a copy: objects below n are the originals *)
Definition Sep (n : nat) (u : cstate) : Prop :=
  (forall i j c, i < n -> n <= j -> In c (lown u i) -> ~ In c (lown u j)) /\ Bounded u.

(* ---------------------------------------------------------------- one object is re-equipped *)
Lemma cget_lupd u i o j :
  nth j (lupd (co u) i o) dead_cobj = if Nat.eqb j i && Nat.ltb i (length (co u)) then o else cget u j.
Proof. apply nth_lupd. Qed.

Lemma Sep_step n u u' i o' :
  fs u' = fs u ->
  co u' = lupd (co u) i o' ->
  length (heap u) <= length (heap u') ->
  (forall c, In c (cells_of o') ->
             In c (owned u i) \/ (length (heap u) <= c /\ c < length (heap u'))) ->
  Sep n u -> Sep n u'.
Proof.
  intros Hfs Hco Hh Hc [D B].
  assert (O : forall j c, In c (lown u' j) ->
                In c (lown u j) \/ (j = i /\ length (heap u) <= c /\ c < length (heap u')) \/
                (j = i /\ In c (lown u i))).
  { intros j c H. unfold lown in *. rewrite Hfs in H. destruct (is_junk (fs u) j) eqn:Ej; auto.
    unfold owned, cget in H. rewrite Hco, cget_lupd in H.
    destruct (Nat.eqb j i && Nat.ltb i (length (co u))) eqn:E; auto.
    apply andb_prop in E. destruct E as [E _]. apply Nat.eqb_eq in E. subst j. rewrite Ej.
    apply Hc in H. destruct H; auto. }
  split.
  - intros a b c La Lb Ha Hb. apply O in Ha. apply O in Hb.
    destruct Ha as [Ha|[(-> & Ha1 & Ha2)|(-> & Ha)]]; destruct Hb as [Hb|[(-> & Hb1 & Hb2)|(-> & Hb)]];
      try lia; try (eapply D; eauto; fail).
    + apply B in Ha. lia.
    + apply B in Hb. lia.
  - intros j c H. apply O in H. destruct H as [H|[(_ & _ & H)|(_ & H)]]; auto.
    + apply B in H. lia.
    + apply B in H. lia.
Qed.

Lemma Sep_heap n u h' : length h' = length (heap u) -> Sep n u -> Sep n (mkCstate (fs u) (co u) h').
Proof. intros L [D B]. split; auto. intros i c H. simpl. rewrite L. apply (B i c H). Qed.

Lemma lown_owned u i c : In c (lown u i) -> In c (owned u i).
Proof. unfold lown. destruct (is_junk (fs u) i); [contradiction | auto]. Qed.

(* ---------------------------------------------------------------- the steps keep the tree *)
Lemma fs_touch u i : fs (touch_style u i) = fs u.
Proof. unfold touch_style. destruct (style_cell (cget u i)), (skw_pending (cget u i)); reflexivity. Qed.
Lemma fs_set_label u i l : fs (set_label u i l) = fs u.
Proof. reflexivity. Qed.
Lemma fs_apply_kw u y k : fs (apply_kw u y k) = fs u.
Proof.
  destruct k; simpl; auto.
  - destruct (style_cell (cget (touch_style u y) y)); simpl; rewrite fs_touch; reflexivity.
  - rewrite fs_touch. reflexivity.
Qed.
Lemma fs_fold_kw y ks : forall u, fs (fold_left (fun s k => apply_kw s y k) ks u) = fs u.
Proof. induction ks as [|k ks IH]; intros u; simpl; auto. rewrite IH. apply fs_apply_kw. Qed.

Lemma fs_copy s x kws : fs (copy s x kws) = copy_op (fs s) x.
Proof.
  unfold copy. rewrite !fs_fold_kw.
  destruct (style_cell (cget s x)), (skw_pending (cget s x)); simpl; rewrite ?fs_touch; reflexivity.
Qed.

(* ---------------------------------------------------------------- Sep is kept by every step *)
Lemma cells_of_mk a st k p l c :
  In c (cells_of (mkCobj a st k p l)) <->
  In c a \/ c = k \/ st = Some c.
Proof.
  unfold cells_of. simpl. rewrite in_app_iff. simpl. destruct st as [c'|]; simpl; split; intros H.
  - destruct H as [H|[H|[H|[]]]]; subst; auto.
  - destruct H as [H|[H|H]]; subst; auto. inversion H. auto.
  - destruct H as [H|[H|[]]]; subst; auto.
  - destruct H as [H|[H|H]]; subst; auto. discriminate.
Qed.

Lemma owned_cases u i c : In c (owned u i) <->
  In c (attrs (cget u i)) \/ c = skw_cell (cget u i) \/ style_cell (cget u i) = Some c.
Proof. unfold owned. destruct (cget u i). apply cells_of_mk. Qed.

Lemma Sep_touch n u i : Sep n u -> Sep n (touch_style u i).
Proof.
  intros HS. unfold touch_style.
  destruct (style_cell (cget u i)) as [c0|] eqn:Es, (skw_pending (cget u i)) eqn:Ep; auto.
  - eapply (Sep_step n u _ i); [reflexivity | simpl; reflexivity | | | exact HS]; simpl.
    + rewrite app_length. lia.
    + intros c H. apply cells_of_mk in H. rewrite app_length. simpl.
      destruct H as [H|[H|H]].
      * left. apply owned_cases. auto.
      * right. lia.
      * left. apply owned_cases. inversion H. subst. auto.
  - eapply (Sep_step n u _ i); [reflexivity | simpl; reflexivity | | | exact HS]; simpl.
    + rewrite app_length. lia.
    + intros c H. apply cells_of_mk in H. rewrite app_length. simpl.
      destruct H as [H|[H|H]].
      * left. apply owned_cases. auto.
      * right. lia.
      * right. inversion H. lia.
  - eapply (Sep_step n u _ i); [reflexivity | simpl; reflexivity | | | exact HS]; simpl.
    + rewrite app_length. lia.
    + intros c H. apply cells_of_mk in H. rewrite app_length. simpl.
      destruct H as [H|[H|H]].
      * left. apply owned_cases. auto.
      * left. apply owned_cases. auto.
      * right. inversion H. lia.
Qed.

Lemma Sep_set_label n u i l : Sep n u -> Sep n (set_label u i l).
Proof.
  intros HS. unfold set_label, cupd. eapply (Sep_step n u _ i); [reflexivity | simpl; reflexivity | | | exact HS]; simpl; auto.
Qed.

Lemma Sep_write n u c v : Sep n u -> Sep n (write u c v).
Proof. intros HS. unfold write. apply Sep_heap; auto. apply lupd_length. Qed.

Lemma Sep_apply_kw n u y k : Sep n u -> Sep n (apply_kw u y k).
Proof.
  intros HS. destruct k as [j v|v|l]; simpl.
  - eapply (Sep_step n u _ y); [reflexivity | simpl; reflexivity | | | exact HS]; simpl.
    + rewrite app_length. lia.
    + intros c H. apply cells_of_mk in H. rewrite app_length. simpl.
      destruct H as [H|[H|H]].
      * apply In_lupd in H. destruct H as [->|H]; [right; lia|]. left. apply owned_cases. auto.
      * left. apply owned_cases. auto.
      * left. apply owned_cases. auto.
  - destruct (style_cell (cget (touch_style u y) y)); [apply Sep_write|]; apply Sep_touch; auto.
  - apply Sep_set_label. apply Sep_touch. auto.
Qed.

Lemma Sep_fold_kw n y ks : forall u, Sep n u -> Sep n (fold_left (fun s k => apply_kw s y k) ks u).
Proof. induction ks as [|k ks IH]; intros u H; simpl; auto. apply IH. apply Sep_apply_kw. exact H. Qed.
