(* C10: step and history theorems. *)
From Coq Require Import ZArith List Bool Lia ZifyBool.
From MV Require Import Lib.ListZ Lib.Rigid Gen.GenPath Model.PathModel Proofs.PathProofs
  Model.CompoundModel Proofs.CompoundProofs Proofs.CompoundOps Proofs.CompoundRel.
Import ListNotations.
Open Scope Z_scope.

Section Thm.
Context {O : RigidOps} {L : RigidLaws O}.

(* ---- every operation keeps the whole tree well formed *)
Lemma tree_all_tmap2 (P Q : obj -> Prop) f t :
  (forall o, P o -> Q (f o)) -> tree_all P t -> tree_all Q (tmap f t).
Proof.
  intros Hf. induction t as [o ch IH] using node_ind'. intros H.
  apply tree_all_node in H. destruct H as [Ho Hc]. cbn [tmap]. apply tree_all_node. split; [auto|].
  rewrite Forall_map. rewrite Forall_forall in *. intros c Hin. apply IH; auto.
Qed.

Lemma tree_all_two (P Q : obj -> Prop) F0 F1 o ch :
  Q (F0 o) -> (forall y, P y -> Q (F1 y)) -> tree_all P (Node o ch) ->
  tree_all Q (Node (F0 o) (map (tmap F1) ch)).
Proof.
  intros H0 H1 H. apply tree_all_node in H. destruct H as [_ Hc].
  apply tree_all_node. split; [exact H0|]. rewrite Forall_map.
  rewrite Forall_forall in *. intros c Hin. apply tree_all_tmap2 with (P := P); auto.
Qed.

Lemma wf_fit_top_pos (o : obj) ps : wf o -> 1 <= zlen ps ->
  wf {| pos := ps; ori := pad_slice_path gone ps (ori o) |}.
Proof. intros [Hn He] Hps. unfold wf; cbn [pos ori]. rewrite zlen_pad_slice by lia. lia. Qed.

Lemma wf_fit_top_ori (o : obj) qs : wf o -> 1 <= zlen qs ->
  wf {| pos := pad_slice_path vzero qs (pos o); ori := qs |}.
Proof. intros [Hn He] Hps. unfold wf; cbn [pos ori]. rewrite zlen_pad_slice by lia. lia. Qed.

Lemma wf_setori_obj qs oo (A : list V) y :
  1 <= zlen qs -> 1 <= zlen oo -> zlen A = zlen qs -> wf y -> wf (setori_obj qs oo A y).
Proof. intros H1 H2 H3 H4. apply (setori_obj_spec qs oo A y H1 H2 H3 H4). Qed.

Lemma zlen_as_rows {A} (p : inp A) : wf_inp p -> 1 <= zlen (as_rows p).
Proof. destruct p; cbn [as_rows]; [intros _; cbn; lia | auto]. Qed.

Lemma zlen_ori_rows (r : option (inp G)) :
  match r with Some r => wf_inp r | None => True end ->
  1 <= zlen (match r with None => [gone] | Some r => as_rows r end).
Proof. destruct r as [r|]; [apply zlen_as_rows | intros _; cbn; lia]. Qed.

Lemma wf_set_position_t t ps : wf_tree t -> 1 <= zlen ps -> wf_tree (set_position_t t ps).
Proof.
  intros Hwf Hps. rewrite set_position_t_tmap by assumption. destruct t as [o ch]. cbn [nobj nch].
  pose proof Hwf as Hwf0. apply tree_all_node in Hwf0. destruct Hwf0 as [Ho _].
  apply (tree_all_two wf wf (fun o => {| pos := ps; ori := pad_slice_path gone ps (ori o) |})); auto.
  - apply wf_fit_top_pos; assumption.
  - intros y Hy. apply wf_shift_obj; [lia|destruct Ho; lia|exact Hy].
Qed.

Lemma wf_set_orientation_t t qs : wf_tree t -> 1 <= zlen qs -> wf_tree (set_orientation_t t qs).
Proof.
  intros Hwf Hqs. destruct t as [o ch]. rewrite set_orientation_t_tmap by assumption.
  pose proof Hwf as Hwf0. apply tree_all_node in Hwf0. destruct Hwf0 as [Ho _].
  apply (tree_all_two wf wf (fun o => {| pos := pad_slice_path vzero qs (pos o); ori := qs |})); auto.
  - apply wf_fit_top_ori; assumption.
  - intros y Hy. destruct Ho. apply wf_setori_obj; [lia|lia|apply zlen_pad_slice; lia|exact Hy].
Qed.

Lemma wf_top_step t x : wf_tree t -> wf_op x -> wf_tree (top_step t x).
Proof.
  intros Hwf Hx. destruct x as [d st|r a st|p|r|]; cbn [top_step wf_op] in *.
  - rewrite move_t_tmap. apply tree_all_tmap; [|exact Hwf].
    intros o Ho. rewrite move_spec by assumption. apply wf_spec_move; assumption.
  - destruct Hx as [Hr Ha]. destruct t as [o ch]. rewrite rotate_t_none.
    apply (tree_all_two wf wf (fun o => apply_rotation o r a st None)); auto.
    + apply tree_all_node in Hwf. apply wf_apply_rotation; tauto.
    + intros y Hy. apply wf_apply_rotation; assumption.
  - apply wf_set_position_t; [assumption|apply zlen_as_rows; assumption].
  - apply wf_set_orientation_t; [assumption|apply zlen_ori_rows; assumption].
  - unfold reset_path_t. apply wf_set_orientation_t; [|cbn; lia].
    apply wf_set_position_t; [assumption|cbn; lia].
Qed.

Lemma tree_all_upd_nth P i f : forall (l : list node),
  (forall c, tree_all P c -> tree_all P (f c)) ->
  Forall (tree_all P) l -> Forall (tree_all P) (upd_nth i f l).
Proof.
  induction i as [|i IH]; intros [|x l] Hf H; cbn [upd_nth]; auto;
    inversion H; subst; constructor; auto.
Qed.

Lemma tree_all_at_path P f p : (forall c, tree_all P c -> tree_all P (f c)) ->
  forall t, tree_all P t -> tree_all P (at_path f p t).
Proof.
  intros Hf. induction p as [|i p IH]; intros t H; [apply Hf; exact H|].
  destruct t as [o ch]. cbn [at_path]. apply tree_all_node in H. destruct H as [Ho Hc].
  apply tree_all_node. split; [exact Ho|]. apply tree_all_upd_nth; auto.
Qed.

Lemma wf_tree_step t px : wf_tree t -> wf_op (snd px) -> wf_tree (tree_step t px).
Proof.
  intros Hwf Hx. unfold tree_step. apply tree_all_at_path; [|exact Hwf].
  intros c Hc. apply wf_top_step; assumption.
Qed.

(* ---- all path lengths after a setter *)
Lemma setpos_all_len t ps : wf_tree t -> 1 <= zlen ps ->
  tree_all (fun y => zlen (pos y) = zlen ps) (set_position_t t ps).
Proof.
  intros Hwf Hps. rewrite set_position_t_tmap by assumption. destruct t as [o ch]. cbn [nobj nch].
  pose proof Hwf as Hwf0. apply tree_all_node in Hwf0. destruct Hwf0 as [[Hn He] _].
  apply (tree_all_two wf _ (fun o => {| pos := ps; ori := pad_slice_path gone ps (ori o) |})); auto.
  intros y [Hy _]. unfold shift_obj; cbn [pos]. apply zlen_shift_pos; lia.
Qed.

Lemma setori_all_len t qs : wf_tree t -> 1 <= zlen qs ->
  tree_all (fun y => zlen (pos y) = zlen qs) (set_orientation_t t qs).
Proof.
  intros Hwf Hqs. destruct t as [o ch]. rewrite set_orientation_t_tmap by assumption.
  pose proof Hwf as Hwf0. apply tree_all_node in Hwf0. destruct Hwf0 as [[Hn He] _].
  apply (tree_all_two wf _ (fun o => {| pos := pad_slice_path vzero qs (pos o); ori := qs |})); auto.
  - cbn [pos]. apply zlen_pad_slice; lia.
  - intros y Hy. apply (setori_obj_spec qs (ori o) _ y); auto; try lia. apply zlen_pad_slice; lia.
Qed.

(* ---- two nodes u (the frame) and v of the operated subtree *)
Lemma two_level_keeps (B : Z -> Z) (F0 F1 : obj -> obj) o ch (g1 g2 : tpath) u v :
  wf_tree (Node o ch) ->
  wf (F0 o) ->
  (forall y, wf y -> zlen (pos o) = zlen (pos y) -> keepsb (B (zlen (pos o))) o y (F0 o) (F1 y)) ->
  (forall a b, wf a -> wf b -> zlen (pos a) = zlen (pos b) ->
               keepsb (B (zlen (pos a))) a b (F1 a) (F1 b)) ->
  subtree_at g1 (Node o ch) = Some u -> subtree_at g2 (Node o ch) = Some v ->
  (g2 = [] -> g1 = []) ->
  zlen (pos (nobj u)) = zlen (pos (nobj v)) ->
  exists u' v', subtree_at g1 (Node (F0 o) (map (tmap F1) ch)) = Some u' /\
                subtree_at g2 (Node (F0 o) (map (tmap F1) ch)) = Some v' /\
                keepsb (B (zlen (pos (nobj u)))) (nobj u) (nobj v) (nobj u') (nobj v').
Proof.
  intros Hwf H00 H01 H11 E1 E2 Hg Hlen.
  pose proof (tree_all_subtree wf g1 _ _ Hwf E1) as Hu.
  pose proof (tree_all_subtree wf g2 _ _ Hwf E2) as Hv.
  assert (Hwu : wf (nobj u)) by (destruct u; apply tree_all_node in Hu; tauto).
  assert (Hwv : wf (nobj v)) by (destruct v; apply tree_all_node in Hv; tauto).
  assert (Sub : forall i g x, subtree_at (i :: g) (Node o ch) = Some x ->
            subtree_at (i :: g) (Node (F0 o) (map (tmap F1) ch)) = Some (tmap F1 x)).
  { intros i g x E. cbn [subtree_at nch] in *. rewrite nth_error_map.
    destruct (nth_error ch i) as [c0|]; [|discriminate]. cbn [option_map].
    rewrite subtree_tmap, E. reflexivity. }
  destruct g1 as [|i1 g1], g2 as [|i2 g2].
  - cbn in E1, E2. inversion E1; inversion E2; subst.
    eexists; eexists. split; [reflexivity|]. split; [reflexivity|]. cbn [nobj] in *.
    apply keeps_self; [exact H00|]. apply (H01 o Hwu eq_refl).
  - cbn in E1. inversion E1; subst. exists (Node (F0 o) (map (tmap F1) ch)), (tmap F1 v).
    split; [reflexivity|]. split; [apply Sub; exact E2|]. rewrite nobj_tmap. cbn [nobj] in *.
    apply H01; assumption.
  - specialize (Hg eq_refl). discriminate.
  - exists (tmap F1 u), (tmap F1 v). split; [apply Sub; exact E1|]. split; [apply Sub; exact E2|].
    rewrite !nobj_tmap. apply H11; assumption.
Qed.

(* by how much an operation shifts the path index of a path of length n *)
Definition step_b (x : op) (n : Z) : Z :=
  match x with
  | Move d st => pp_b (is_scalar d) n st
  | Rotate r a st => pp_b (is_scalar (snd (prep a r))) n st
  | SetPos p => fitb n (zlen (as_rows p))
  | SetOri r => fitb n (zlen (match r with None => [gone] | Some r => as_rows r end))
  | Reset => fitb n 1
  end.

Lemma top_step_keeps_noreset X x (g1 g2 : tpath) u v :
  wf_tree X -> wf_op x -> x <> Reset ->
  subtree_at g1 X = Some u -> subtree_at g2 X = Some v -> (g2 = [] -> g1 = []) ->
  zlen (pos (nobj u)) = zlen (pos (nobj v)) ->
  exists u' v', subtree_at g1 (top_step X x) = Some u' /\ subtree_at g2 (top_step X x) = Some v' /\
                keepsb (step_b x (zlen (pos (nobj u)))) (nobj u) (nobj v) (nobj u') (nobj v').
Proof.
  intros Hwf Hx Hnr E1 E2 Hg Hlen. destruct X as [o ch].
  pose proof Hwf as Hwf0. apply tree_all_node in Hwf0. destruct Hwf0 as [Ho _].
  destruct x as [d st|r a st|p|r|]; cbn [top_step wf_op] in *.
  - rewrite move_t_tmap. cbn [tmap].
    apply (two_level_keeps (step_b (Move d st))
             (fun o => apply_move o d st) (fun o => apply_move o d st)); auto.
    + rewrite move_spec by assumption. apply wf_spec_move; assumption.
    + intros y Hy Hl. apply keeps_move; assumption.
    + intros a b Ha Hb Hl. apply keeps_move; assumption.
  - destruct Hx as [Hr Ha]. rewrite rotate_t_none.
    apply (two_level_keeps (step_b (Rotate r a st)) (fun o => apply_rotation o r a st None)
                           (fun y => apply_rotation y r a st (Some (pos o)))); auto.
    + apply wf_apply_rotation; assumption.
    + intros y Hy Hl. destruct a as [a|].
      * apply keeps_rot_top_anchor; assumption.
      * apply keeps_rot_top_none; assumption.
    + intros c d Hc Hd Hl. apply keeps_rot_below; assumption.
  - pose proof (zlen_as_rows p Hx) as Hps.
    rewrite set_position_t_tmap by assumption. cbn [nobj nch].
    apply (two_level_keeps (step_b (SetPos p))
             (fun o => {| pos := as_rows p; ori := pad_slice_path gone (as_rows p) (ori o) |})
             (shift_obj (as_rows p) (pos o))); auto.
    + apply wf_fit_top_pos; assumption.
    + intros y Hy Hl. apply keeps_setpos_top; assumption.
    + intros c d Hc Hd Hl. apply keeps_setpos_below; auto. destruct Ho; lia.
  - pose proof (zlen_ori_rows r Hx) as Hqs.
    change (step_b (SetOri r) (zlen (pos (nobj u)))) with
      (fitb (zlen (pos (nobj u))) (zlen (match r with None => [gone] | Some r0 => as_rows r0 end))).
    set (qs := match r with None => [gone] | Some r0 => as_rows r0 end) in *.
    rewrite set_orientation_t_tmap by assumption.
    apply (two_level_keeps (fun n => fitb n (zlen qs))
             (fun o => {| pos := pad_slice_path vzero qs (pos o); ori := qs |})
             (setori_obj qs (ori o) (pad_slice_path vzero qs (pos o)))); auto.
    + apply wf_fit_top_ori; assumption.
    + intros y Hy Hl. apply keeps_setori_top; assumption.
    + intros c d Hc Hd Hl. destruct Ho. apply keeps_setori_below; auto; try lia.
      apply zlen_pad_slice; lia.
  - congruence.
Qed.

Lemma top_step_keeps X x (g1 g2 : tpath) u v :
  wf_tree X -> wf_op x ->
  subtree_at g1 X = Some u -> subtree_at g2 X = Some v -> (g2 = [] -> g1 = []) ->
  zlen (pos (nobj u)) = zlen (pos (nobj v)) ->
  exists u' v', subtree_at g1 (top_step X x) = Some u' /\ subtree_at g2 (top_step X x) = Some v' /\
                keepsb (step_b x (zlen (pos (nobj u)))) (nobj u) (nobj v) (nobj u') (nobj v').
Proof.
  intros Hwf Hx E1 E2 Hg Hlen.
  destruct x as [d st|r a st|p|r|];
    try (apply top_step_keeps_noreset; auto; discriminate).
  (* reset_path = position setter, then orientation setter *)
  change (top_step X Reset) with
    (top_step (top_step X (SetPos (Scalar vzero))) (SetOri None)).
  assert (Hx1 : wf_op (SetPos (Scalar vzero))) by (cbn; unfold wf_inp; cbn; lia).
  assert (Hx2 : wf_op (SetOri None)) by exact I.
  destruct (top_step_keeps_noreset X _ g1 g2 u v Hwf Hx1 ltac:(discriminate) E1 E2 Hg Hlen)
    as (u1 & v1 & E11 & E12 & K1).
  pose proof (wf_top_step X _ Hwf Hx1) as Hwf1.
  set (X1 := top_step X (SetPos (Scalar vzero))) in *.
  assert (Hl1 : zlen (pos (nobj u1)) = zlen (pos (nobj v1))) by apply K1.
  destruct (top_step_keeps_noreset X1 _ g1 g2 u1 v1 Hwf1 Hx2 ltac:(discriminate) E11 E12 Hg Hl1)
    as (u2 & v2 & E21 & E22 & K2).
  exists u2, v2. split; [exact E21|]. split; [exact E22|].
  apply (keeps_trans_same _ _ _ _ (nobj u1) (nobj v1) _ _ K1 K2).
  (* both setters assign paths of length 1 *)
  assert (A1 : zlen (pos (nobj u1)) = 1).
  { pose proof (setpos_all_len X [vzero] Hwf ltac:(cbn; lia)) as H.
    pose proof (tree_all_subtree _ g1 _ _ H E11) as H1. destruct u1; apply tree_all_node in H1.
    cbn [nobj]. destruct H1 as [-> _]. reflexivity. }
  assert (A2 : zlen (pos (nobj u2)) = 1).
  { pose proof (setori_all_len X1 [gone] Hwf1 ltac:(cbn; lia)) as H.
    pose proof (tree_all_subtree _ g1 _ _ H E21) as H1. destruct u2; apply tree_all_node in H1.
    cbn [nobj]. destruct H1 as [-> _]. reflexivity. }
  lia.
Qed.

(* ---- one user call somewhere in the tree *)
Lemma is_prefix_app p : forall q, is_prefix p q = true -> exists r, q = p ++ r.
Proof.
  induction p as [|i p IH]; intros q H; [exists q; reflexivity|].
  destruct q as [|j q]; [discriminate|]. cbn [is_prefix] in H.
  apply andb_true_iff in H. destruct H as [Hij H]. apply Nat.eqb_eq in Hij. subst j.
  destruct (IH q H) as [r ->]. exists r. reflexivity.
Qed.

Lemma is_prefix_app_r p q r : is_prefix p q = true -> is_prefix p (q ++ r) = true.
Proof.
  revert q. induction p as [|i p IH]; intros q H; [reflexivity|].
  destruct q as [|j q]; [discriminate|]. cbn [is_prefix app] in *.
  apply andb_true_iff in H. destruct H as [-> H]. cbn [andb]. apply IH. exact H.
Qed.

Lemma is_prefix_self_app p r : is_prefix p (p ++ r) = true.
Proof. induction p as [|i p IH]; [reflexivity|]. cbn. rewrite Nat.eqb_refl. exact IH. Qed.

(* two prefixes of one list are comparable *)
Lemma is_prefix_comparable p : forall g dl,
  is_prefix p (g ++ dl) = true -> is_prefix p g = true \/ is_prefix g p = true.
Proof.
  induction p as [|i p IH]; intros g dl H; [left; reflexivity|].
  destruct g as [|j g]; [right; reflexivity|]. cbn [app is_prefix] in *.
  apply andb_true_iff in H. destruct H as [Hij H].
  rewrite Hij. apply Nat.eqb_eq in Hij. subst j. rewrite Nat.eqb_refl. cbn [andb].
  apply (IH g dl H).
Qed.

Lemma keeps_refl (c d : obj) : wf c -> wf d -> zlen (pos c) = zlen (pos d) -> keepsb 0 c d c d.
Proof.
  intros Hc Hd Hl. unfold keepsb. split; [exact Hc|]. split; [exact Hd|]. split; [exact Hl|].
  split; [|reflexivity]. intros i Hi. f_equal. unfold clampZ. lia.
Qed.

Definition moves_together (gu gv p : tpath) : Prop :=
  (is_prefix p gu = true /\ is_prefix p gv = true /\ (p = gv -> gu = gv)) \/
  (is_prefix p gu = false /\ is_prefix p gv = false).

(* the index shift of one user call at p for a node at gu with path length n *)
Definition call_b (p gu : tpath) (x : op) (n : Z) : Z :=
  if is_prefix p gu then step_b x n else 0.

Lemma tree_step_keeps t p x (gu gv : tpath) u v :
  wf_tree t -> wf_op x ->
  subtree_at gu t = Some u -> subtree_at gv t = Some v ->
  zlen (pos (nobj u)) = zlen (pos (nobj v)) ->
  moves_together gu gv p ->
  exists u' v', subtree_at gu (tree_step t (p, x)) = Some u' /\
                subtree_at gv (tree_step t (p, x)) = Some v' /\
                keepsb (call_b p gu x (zlen (pos (nobj u)))) (nobj u) (nobj v) (nobj u') (nobj v').
Proof.
  intros Hwf Hx Eu Ev Hlen [(Pu & Pv & Hg)|(Pu & Pv)]; unfold tree_step, call_b; rewrite Pu;
    cbn [fst snd].
  - destruct (is_prefix_app p gu Pu) as [g1 ->]. destruct (is_prefix_app p gv Pv) as [g2 ->].
    rewrite subtree_app in Eu, Ev. rewrite !subtree_at_path_prefix.
    destruct (subtree_at p t) as [X|] eqn:EX; [|discriminate].
    pose proof (tree_all_subtree wf p _ _ Hwf EX) as HwX.
    apply (top_step_keeps X x g1 g2 u v); auto.
    intros ->. rewrite app_nil_r in Hg. specialize (Hg eq_refl).
    rewrite <- (app_nil_r p) in Hg at 2. apply app_inv_head in Hg. exact Hg.
  - destruct (nobj_at_path_other (fun s => top_step s x) p gu t u Pu Eu) as (u' & Eu' & Hu').
    destruct (nobj_at_path_other (fun s => top_step s x) p gv t v Pv Ev) as (v' & Ev' & Hv').
    exists u', v'. split; [exact Eu'|]. split; [exact Ev'|]. rewrite Hu', Hv'.
    pose proof (tree_all_subtree wf gu _ _ Hwf Eu) as Hu.
    pose proof (tree_all_subtree wf gv _ _ Hwf Ev) as Hv.
    apply keeps_refl; auto.
    + destruct u; apply tree_all_node in Hu; tauto.
    + destruct v; apply tree_all_node in Hv; tauto.
Qed.

End Thm.
