(* C16 -- proofs about fix_trimesh_orientation / get_inwards_mask (model in Model/MeshModel.v):
   whatever the seed test answers, reorientation only changes the winding of faces, so the mesh as a
   set of undirected faces, its open edges and its connectivity are unchanged.  The consistency of the
   propagated orientation is NOT proved here for all meshes (only decided on a bounded family). *)
From Coq Require Import NArith List Bool Arith Lia Permutation.
From MV Require Import Model.MeshModel Model.MeshSpec Proofs.MeshOpenProofs Proofs.MeshCompProofs.
Import ListNotations.

Lemma vperm_refl f : vperm f f.
Proof. unfold vperm. reflexivity. Qed.

Lemma vperm_flip f : vperm f (flip_face f).
Proof. destruct f as [[a b] c]. unfold vperm, flip_face, verts, f0, f1, f2. simpl. apply perm_skip, perm_swap. Qed.

Lemma apply_mask_vperm fs : forall m, Forall2 vperm fs (apply_mask fs m).
Proof.
  induction fs as [| f fs IH]; intros m; simpl.
  - destruct m; constructor.
  - destruct m as [| b m].
    + constructor; [apply vperm_refl |]. clear. induction fs; constructor; [apply vperm_refl | assumption].
    + constructor; [destruct b; [apply vperm_flip | apply vperm_refl] | apply IH].
Qed.

Lemma apply_mask_equiv fs m : mesh_equiv fs (apply_mask fs m).
Proof. exists fs. split; [reflexivity | apply apply_mask_vperm]. Qed.

Lemma apply_mask_each fs : forall m i, i < length fs -> length m = length fs ->
  nth i (apply_mask fs m) dface = if nth i m false then flip_face (nth i fs dface) else nth i fs dface.
Proof.
  induction fs as [| f fs IH]; intros m i Hi Hl; simpl in Hi; [lia |].
  destruct m as [| b m]; simpl in Hl; [lia |].
  destruct i as [| i]; simpl; [reflexivity |]. apply IH; lia.
Qed.

(* the mask has one entry per face *)
Lemma upd_length i f m : length (upd i f m) = length m.
Proof. revert i. induction m as [| b m IH]; intros [| i]; simpl; auto. Qed.

Lemma set_all_length inds b : forall m, length (set_all inds b m) = length m.
Proof.
  unfold set_all. induction inds as [| i inds IH]; intros m; simpl; [reflexivity |].
  rewrite IH. apply upd_length.
Qed.

Lemma pstep_mask_length tris orc s : length (p_mask (pstep tris orc s)) = length (p_mask s).
Proof.
  unfold pstep. destruct (p_any s); simpl.
  - destruct (find_tri tris (p_free s) (p_indices s)) as [[[i fl] es] |]; simpl; [| reflexivity].
    destruct fl; [apply upd_length | reflexivity].
  - destruct (find_tri tris [] (p_indices s)) as [[[i fl] es] |]; simpl.
    + destruct fl; [rewrite upd_length |]; apply set_all_length.
    + apply set_all_length.
Qed.

Lemma ploop_mask_length tris orc fuel : forall s, length (p_mask (ploop fuel tris orc s)) = length (p_mask s).
Proof.
  induction fuel as [| fuel IH]; intros s; simpl; [reflexivity |].
  destruct (p_indices s); [reflexivity |]. rewrite IH. apply pstep_mask_length.
Qed.

Lemma mask_length tris (orc : face -> bool) : length (get_inwards_mask tris orc) = length tris.
Proof.
  unfold get_inwards_mask, pfinal. rewrite ploop_mask_length. unfold pinit. simpl. apply repeat_length.
Qed.

Lemma F2_length {A B} (P : A -> B -> Prop) l l' : Forall2 P l l' -> length l = length l'.
Proof. induction 1; simpl; congruence. Qed.

(* reorientation, for every answer of the geometric seed test *)
Theorem reorientation_preserves fs (oracle : face -> bool) :
  let fs' := fix_trimesh_orientation fs oracle in
  mesh_equiv fs fs' /\
  length fs' = length fs /\
  (forall i, i < length fs ->
     nth i fs' dface = if nth i (get_inwards_mask fs oracle) false then flip_face (nth i fs dface) else nth i fs dface) /\
  get_open_edges fs' = get_open_edges fs /\
  status_open fs' = status_open fs /\
  status_disconnected fs' = status_disconnected fs.
Proof.
  unfold fix_trimesh_orientation.
  pose proof (apply_mask_equiv fs (get_inwards_mask fs oracle)) as HE.
  split; [exact HE |]. split; [| split; [| split; [| split]]].
  - symmetry. destruct HE as [x [HP HF]]. rewrite (Permutation_length HP). exact (F2_length _ _ _ HF).
  - intros i Hi. apply apply_mask_each; [exact Hi | apply mask_length].
  - symmetry. apply open_edges_equiv, HE.
  - symmetry. apply status_open_equiv, HE.
  - symmetry. apply status_disconnected_equiv, HE.
Qed.

(* bounded decision: the tetrahedron under each of the 16 subsets of flipped faces and either answer of the
   seed test is reoriented to a consistently wound mesh (no directed edge used twice), and the two answers
   give opposite windings of every face *)
Fixpoint masks (n : nat) : list (list bool) :=
  match n with O => [[]] | S k => map (cons false) (masks k) ++ map (cons true) (masks k) end.

Fixpoint nodupb (l : list edge) : bool :=
  match l with [] => true | e :: r => negb (emem e r) && nodupb r end.

Lemma nodupb_NoDup l : nodupb l = true -> NoDup l.
Proof.
  induction l as [| e r IH]; simpl; [constructor |].
  intros H. apply andb_true_iff in H. destruct H as [H1 H2]. constructor; [| apply IH, H2].
  apply negb_true_iff in H1. apply emem_false in H1. exact H1.
Qed.

Fixpoint list_eqb_face (a b : list face) : bool :=
  match a, b with
  | [], [] => true
  | x :: a', y :: b' => N.eqb (f0 x) (f0 y) && N.eqb (f1 x) (f1 y) && N.eqb (f2 x) (f2 y) && list_eqb_face a' b'
  | _, _ => false
  end.

Definition tet_ok (m : list bool) : bool :=
  let fs := apply_mask tet m in
  nodupb (directed_edges (fix_trimesh_orientation fs (fun _ => false))) &&
  nodupb (directed_edges (fix_trimesh_orientation fs (fun _ => true))) &&
  list_eqb_face (fix_trimesh_orientation fs (fun _ => true)) (map flip_face (fix_trimesh_orientation fs (fun _ => false))).

Lemma tet_orientation_bounded : forall m, In m (masks 4) ->
  let fs := apply_mask tet m in
  consistent (fix_trimesh_orientation fs (fun _ => false)) /\ consistent (fix_trimesh_orientation fs (fun _ => true)) /\
  list_eqb_face (fix_trimesh_orientation fs (fun _ => true)) (map flip_face (fix_trimesh_orientation fs (fun _ => false))) = true.
Proof.
  assert (H : forallb tet_ok (masks 4) = true) by (vm_compute; reflexivity).
  rewrite forallb_forall in H. intros m Hm. specialize (H m Hm). unfold tet_ok in H.
  apply andb_true_iff in H. destruct H as [H H3]. apply andb_true_iff in H. destruct H as [H1 H2].
  repeat split; [apply nodupb_NoDup, H1 | apply nodupb_NoDup, H2 | exact H3].
Qed.

(* ------------------------------------------------------------------ the local propagation step *)
Definition rev_e (e : edge) : edge := (snd e, fst e).

Lemma eset_acc l : forall acc e, In e (fold_left (fun acc e => if emem e acc then acc else acc ++ [e]) l acc) <-> In e acc \/ In e l.
Proof.
  induction l as [| x l IH]; intros acc e; simpl; [tauto |].
  rewrite IH. destruct (emem x acc) eqn:E.
  - apply emem_In in E. split; [intros [H | H]; auto | intros [H | [<- | H]]; auto].
  - rewrite in_app_iff. simpl. tauto.
Qed.

Lemma In_eset l e : In e (eset l) <-> In e l.
Proof. unfold eset. rewrite eset_acc. simpl. tauto. Qed.

Lemma einter_spec s t : einter s t = true <-> exists e, In e t /\ In e s.
Proof.
  unfold einter. rewrite existsb_exists. split; intros [e [H1 H2]]; exists e; split; auto; apply emem_In; exact H2.
Qed.

Lemma rev_in_r tri e : In e (edges_of tri) <-> In (rev_e e) (edges_r_of tri).
Proof.
  destruct tri as [[a b] c], e as [x y]. unfold edges_of, edges_r_of, rev_e, f0, f1, f2. simpl.
  split; intros [H | [H | [H | []]]]; inversion H; subst; auto.
Qed.

Lemma rev_rev e : rev_e (rev_e e) = e.
Proof. destruct e. reflexivity. Qed.

Lemma edges_flip tri e : In e (edges_of (flip_face tri)) <-> In e (edges_r_of tri).
Proof.
  destruct tri as [[a b] c]. unfold edges_of, edges_r_of, flip_face, f0, f1, f2. simpl. tauto.
Qed.

(* when a face is attached to the processed region (free_edges non-empty): the edge set xor-ed into free_edges is
   the set of directed edges of the face AS IT WILL BE WOUND (reversed iff `flip`), and that winding traverses
   some free edge in the opposite direction; a face that is skipped has no edge in common with free_edges in
   either direction *)
Lemma try_tri_local free tri : free <> [] ->
  match try_tri free tri with
  | Some (fl, es) =>
      let t' := if fl then flip_face tri else tri in
      (forall e, In e es <-> In e (edges_of t')) /\ (exists e, In e free /\ In (rev_e e) (edges_of t'))
  | None => forall e, In e free -> ~ In e (edges_of tri) /\ ~ In (rev_e e) (edges_of tri)
  end.
Proof.
  intros Hne. unfold try_tri. destruct free as [| e0 free']; [congruence |]. set (free := e0 :: free') in *.
  destruct (einter free (eset (edges_of tri))) eqn:E1.
  - apply einter_spec in E1. destruct E1 as [e [He Hf]]. rewrite In_eset in He. split.
    + intros x. rewrite In_eset. symmetry. apply edges_flip.
    + exists e. split; [exact Hf |]. apply edges_flip. apply rev_in_r. exact He.
  - destruct (einter free (eset (edges_r_of tri))) eqn:E2.
    + apply einter_spec in E2. destruct E2 as [e [He Hf]]. rewrite In_eset in He. split.
      * intros x. apply In_eset.
      * exists e. split; [exact Hf |]. apply rev_in_r. rewrite rev_rev. exact He.
    + intros e He. split; intros Hin.
      * assert (einter free (eset (edges_of tri)) = true); [| congruence].
        apply einter_spec. exists e. split; [apply In_eset, Hin | exact He].
      * assert (einter free (eset (edges_r_of tri)) = true); [| congruence].
        apply einter_spec. exists e. split; [| exact He]. apply In_eset.
        apply rev_in_r in Hin. rewrite rev_rev in Hin. exact Hin.
Qed.
