(* C05 -- polyline segment: linear in the current (the heavy one; split from LinearExc.v) *)
From Coq Require Import Reals Lra ZArith Bool List Field.
From MV Require Import Model.CoreNum Model.CoreModel Model.CoreSpec Proofs.CoreProofs Proofs.LinearExcBase.
Open Scope R_scope.

Theorem polyline_linear (f : field) (mu0 : R) (o p1 p2 : RV3) (i1 i2 a b : R) :
  polyline_BH NumR f mu0 o p1 p2 (a * i1 + b * i2)
  = lin a b (polyline_BH NumR f mu0 o p1 p2 i1) (polyline_BH NumR f mu0 o p1 p2 i2).
Proof.
  destruct o as [[x y] z], p1 as [[a1 a2] a3], p2 as [[b1 b2] b3].
  unfold lin, Rvadd, Rvscale. destruct f; unfold_all; unfold Rdiv;
    (* abstract the geometry-only subterms first (norms, absolute values, inverses, branch conditions):
       they do not mention the current, and the goal becomes small *)
    repeat match goal with
           | |- context [sqrt ?x] => generalize (sqrt x); intro
           end;
    repeat match goal with
           | |- context [Rabs ?x] => generalize (Rabs x); intro
           | |- context [/ ?x] => generalize (/ x); intro
           end;
    repeat match goal with
           | |- context [Rltb ?x ?y] => generalize (Rltb x y); intro
           | |- context [Reqb ?x ?y] => generalize (Reqb x y); intro
           end;
    destr_ifs; apply triple_eq; ring.
Qed.

