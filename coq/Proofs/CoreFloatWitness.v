(* C01 -- the former finding biot-savart/Polyline:outside:edge-extension (fixed in /repo by ed8562c)
   replayed on the binary64 instance of the model (the instance that is compared with numpy on every
   run).  Segment (0,0,0)-(1,2,3), current 1, observer 100.3*(1,2,3) as numpy computes it: the
   observer lies on the extension of the segment up to one rounding (3*100.3); the Biot-Savart field
   there is below 1e-20.  With the old |sinTh1 - sinTh2| branches the model (like the implementation)
   returned |Hx| > 5e-4; with the cancellation-free deltaSin_beyond it returns |Hx| < 2^-60. *)
From Coq Require Import ZArith List Bool.
From Coq Require Import Floats.PrimFloat.
From MV Require Import Model.CoreNum Model.CoreModel Model.CoreExec.
Import ListNotations.

Definition ext_obs : FV3 := (0x1.9133333333333p+6, 0x1.9133333333333p+7, 0x1.2ce6666666666p+8)%float.
Definition ext_p1 : FV3 := (0, 0, 0)%float.
Definition ext_p2 : FV3 := (1, 2, 3)%float.

Definition polyline_ext_regression : bool :=
  match run_polyline FH 1%float ext_obs ext_p1 ext_p2 1%float with
  | [br; hx; _; _] => negb (PrimFloat.eqb br 1%float) && PrimFloat.ltb (PrimFloat.abs hx) 0x1.0p-60%float
  | _ => false
  end.

Lemma polyline_ext_regression_true : polyline_ext_regression = true.
Proof. vm_compute. reflexivity. Qed.
