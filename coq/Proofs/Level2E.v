(* Level-2 data flow, part E: assembly.  For every list of sources (bare or collections), every
   list of sensors (any pixel layouts, path kinds, handedness), every aggregator: the vectorised
   computation equals the element-by-element specification. *)
From Coq Require Import List Arith Bool Lia.
From MV Require Import Lib.ListZ Lib.Rigid Lib.ListIdx Model.Level2Model
  Proofs.Level2A Proofs.Level2B Proofs.Level2C Proofs.Level2D.
Import ListNotations.

Section Misc.
Context {A B C : Type}.

Lemma map_flat_map (g : B -> C) (f : A -> list B) (l : list A) :
  map g (flat_map f l) = flat_map (fun x => map g (f x)) l.
Proof.
  induction l as [|x l IH]; [reflexivity|]. cbn [flat_map]. rewrite map_app, IH. reflexivity.
Qed.

Lemma flat_map_map (f : B -> list C) (g : A -> B) (l : list A) :
  flat_map f (map g l) = flat_map (fun x => f (g x)) l.
Proof. induction l as [|x l IH]; [reflexivity|]. cbn [map flat_map]. rewrite IH. reflexivity. Qed.

Lemma combine_map_r (g : A -> B) (l : list A) : combine l (map g l) = map (fun x => (x, g x)) l.
Proof. induction l as [|x l IH]; [reflexivity|]. cbn [map combine]. rewrite IH. reflexivity. Qed.

Lemma flat_map_ext_in (f g : A -> list B) (l : list A) :
  (forall x, In x l -> f x = g x) -> flat_map f l = flat_map g l.
Proof.
  induction l as [|x l IH]; intros H; [reflexivity|]. cbn [flat_map].
  rewrite (H x (or_introl eq_refl)), IH; [reflexivity|]. intros y Hy. apply H. right. exact Hy.
Qed.

Lemma fold_max_ge (l : list nat) x : In x l -> x <= fold_right Nat.max 0 l.
Proof.
  induction l as [|y l IH]; intros H; [destruct H|]. cbn [fold_right].
  destruct H as [->|H]; [lia|]. specialize (IH H). lia.
Qed.

End Misc.

Section Assembly.
Context {O : RigidOps} {L : RigidLaws O}.
Variable P : Type.
Variable F : nat -> P -> V -> V.
Variable g_eqb : G -> G -> bool.
Variable flipx : V -> V.
Hypothesis g_eqb_sound : forall a b, g_eqb a b = true -> a = b.

Notation leaf := (@leaf O P).
Notation srcin := (@srcin O P).

(* ---- tiled objects *)
Lemma tile_leaf_spec M (x : leaf) : wf_leaf P x -> length (l_pos x) <= M -> 1 <= M ->
  length (l_pos (tile_leaf P M x)) = M /\ length (l_ori (tile_leaf P M x)) = M /\
  l_key (tile_leaf P M x) = l_key x /\ l_prop (tile_leaf P M x) = l_prop x /\
  forall m, m < M -> nth m (l_pos (tile_leaf P M x)) vzero = clip_nth vzero (l_pos x) m /\
                     nth m (l_ori (tile_leaf P M x)) gone = clip_nth gone (l_ori x) m.
Proof.
  intros [H1 Heq] HM H1M. unfold tile_leaf. destruct (Nat.ltb_spec 1 M) as [Hlt|Hge]; cbn [l_pos l_ori l_key l_prop].
  - rewrite !length_tile_path by lia. repeat split; try reflexivity.
    + apply nth_tile_path; lia.
    + apply nth_tile_path; lia.
  - assert (M = 1) by lia. subst M. repeat split; try lia; try reflexivity.
    + symmetry. apply clip_nth_lt. lia.
    + symmetry. apply clip_nth_lt. lia.
Qed.

Lemma tile_sensor_spec M (s : sensor) : wf_sensor s -> length (s_pos s) <= M -> 1 <= M ->
  length (s_pos (tile_sensor M s)) = M /\ length (s_ori (tile_sensor M s)) = M /\
  s_pix (tile_sensor M s) = s_pix s /\ s_left (tile_sensor M s) = s_left s /\
  forall m, m < M -> nth m (s_pos (tile_sensor M s)) vzero = clip_nth vzero (s_pos s) m /\
                     nth m (s_ori (tile_sensor M s)) gone = clip_nth gone (s_ori s) m.
Proof.
  intros (H1 & Heq & _) HM H1M. unfold tile_sensor.
  destruct (Nat.ltb_spec 1 M) as [Hlt|Hge]; cbn [s_pos s_ori s_pix s_left].
  - rewrite !length_tile_path by lia. repeat split; try reflexivity.
    + apply nth_tile_path; lia.
    + apply nth_tile_path; lia.
  - assert (M = 1) by lia. subst M. repeat split; try lia; try reflexivity.
    + symmetry. apply clip_nth_lt. lia.
    + symmetry. apply clip_nth_lt. lia.
Qed.

(* ---- the three back-rotation code paths agree with "rotate by the inverse of the sensor's own
        (clipped) orientation at this path index" *)
Lemma forallb_clip (q0 : G) (l : list G) m :
  forallb (fun q => g_eqb q q0) l = true -> 1 <= length l -> clip_nth gone l m = q0.
Proof.
  intros H Hl. rewrite forallb_forall in H. apply g_eqb_sound, H. unfold clip_nth.
  apply nth_In. lia.
Qed.

Lemma mv_is_view M (s : sensor) m v : wf_sensor s -> length (s_pos s) <= M -> 1 <= M -> m < M ->
  mv g_eqb flipx s (tile_sensor M s) m v = sensor_view flipx s m v.
Proof.
  intros Hwf HM H1M Hm. destruct (tile_sensor_spec M s Hwf HM H1M) as (_ & _ & _ & Hleft & Hnth).
  destruct Hwf as (H1 & Heq & _).
  unfold mv, sensor_view. rewrite Hleft.
  assert (E : (if unrotated g_eqb s then v
               else act (ginv (if static_rot g_eqb s then nth 0 (s_ori (tile_sensor M s)) gone
                               else nth m (s_ori (tile_sensor M s)) gone)) v)
              = act (ginv (clip_nth gone (s_ori s) m)) v).
  { destruct (unrotated g_eqb s) eqn:EU.
    - unfold unrotated in EU. rewrite (forallb_clip gone) by (try exact EU; lia).
      rewrite ginv_one, act_one. reflexivity.
    - destruct (static_rot g_eqb s) eqn:ES.
      + destruct (Hnth 0 ltac:(lia)) as [_ ->]. f_equal. f_equal.
        unfold static_rot in ES. apply orb_true_iff in ES as [ES|ES].
        * apply Nat.eqb_eq in ES. unfold clip_nth. f_equal. lia.
        * rewrite (forallb_clip (hd gone (s_ori s)) (s_ori s) 0) by (try exact ES; lia).
          rewrite (forallb_clip (hd gone (s_ori s)) (s_ori s) m) by (try exact ES; lia). reflexivity.
      + destruct (Hnth m Hm) as [_ ->]. reflexivity. }
  rewrite E. reflexivity.
Qed.

(* ---- sizes *)
Definition npix (sens : list sensor) : nat := length (flat_map s_pix sens).

Lemma length_poso_m (sens : list sensor) m : length (poso_m sens m) = npix sens.
Proof.
  unfold poso_m, npix. induction sens as [|s sens IH]; [reflexivity|].
  cbn [flat_map]. rewrite !app_length, IH. unfold sens_obs. rewrite map_length. reflexivity.
Qed.

Lemma npix_tile M (sens : list sensor) : Forall wf_sensor sens ->
  (forall s, In s sens -> length (s_pos s) <= M) -> 1 <= M ->
  npix (map (tile_sensor M) sens) = npix sens.
Proof.
  intros Hwf HM H1M. unfold npix. rewrite flat_map_map. f_equal. apply flat_map_ext_in.
  intros s Hs. rewrite Forall_forall in Hwf.
  destruct (tile_sensor_spec M s (Hwf s Hs) (HM s Hs) H1M) as (_ & _ & E & _). exact E.
Qed.

(* ---- the theorem *)
Theorem getBH_is_spec (srcs : list srcin) (sens : list sensor) (agg : option (list V -> V)) :
  srcs <> [] -> Forall (wf_src P) srcs -> Forall wf_sensor sens -> wf_shapes sens agg ->
  getBH P F g_eqb flipx srcs sens agg false = spec P F flipx srcs sens agg.
Proof.
  intros Hne Hsrc Hsens [Hsame _].
  unfold getBH, spec. cbv zeta.
  set (sl0 := src_list srcs). set (M := max_path_len P sl0 sens).
  rewrite Forall_forall in Hsrc, Hsens.
  assert (Hleaf : forall x, In x sl0 -> wf_leaf P x).
  { intros x Hx. unfold sl0, src_list in Hx. apply in_flat_map in Hx as [s [Hs Hx]].
    destruct (Hsrc s Hs) as [Hf _]. rewrite Forall_forall in Hf. apply Hf, Hx. }
  assert (HMleaf : forall x, In x sl0 -> length (l_pos x) <= M).
  { intros x Hx. unfold M, max_path_len. apply fold_max_ge, in_app_iff. left.
    apply in_map_iff. exists x. split; [reflexivity|exact Hx]. }
  assert (HMsens : forall s, In s sens -> length (s_pos s) <= M).
  { intros s Hs. unfold M, max_path_len. apply fold_max_ge, in_app_iff. right.
    apply in_map_iff. exists s. split; [reflexivity|exact Hs]. }
  assert (H1M : 1 <= M).
  { destruct srcs as [|s0 srcs']; [congruence|].
    destruct (Hsrc s0 (or_introl eq_refl)) as [_ Hl].
    destruct (leaves s0) as [|x r] eqn:E; [congruence|].
    assert (Hin : In x sl0) by (unfold sl0; cbn [src_list flat_map]; rewrite E; left; reflexivity).
    destruct (Hleaf x Hin) as [H1 _]. specialize (HMleaf x Hin). lia. }
  set (sens' := map (tile_sensor M) sens).
  set (pm := poso_m sens').
  assert (Hpm : forall m, m < M -> length (pm m) = npix sens).
  { intros m _. unfold pm, sens'. rewrite length_poso_m. apply npix_tile; auto. apply Forall_forall. exact Hsens. }
  assert (Hpo : poso sens' M = flat_map pm (seq 0 M)) by reflexivity.
  assert (Hnpp : length (poso sens' M) = M * npix sens).
  { rewrite Hpo, (length_flat_map_const (npix sens)), seq_length; [reflexivity|].
    intros m Hm. apply in_seq in Hm. apply Hpm. lia. }
  rewrite Hnpp. replace (M * npix sens / M) with (npix sens)
    by (rewrite Nat.mul_comm, Nat.div_mul; [reflexivity|lia]).
  rewrite Hpo.
  (* groups + scatter *)
  rewrite (eval_groups_spec P F M (npix sens) pm Hpm).
  2:{ intros y Hy. apply in_map_iff in Hy as [x [<- Hx]].
      destruct (tile_leaf_spec M x (Hleaf x Hx) (HMleaf x Hx) H1M) as (A1 & A2 & _). split; assumption. }
  (* collections *)
  rewrite map_map. unfold sl0.
  rewrite (reduce_collections_spec P (fun x => blockof P F M pm (tile_leaf P M x)) srcs).
  2:{ intros s Hs. apply (Hsrc s Hs). }
  (* rows as comprehension over (path index, sensor, pixel) *)
  set (fx := fun (x : leaf) (m : nat) (o : V) =>
     level1 P F (l_key x) (nth m (l_pos (tile_leaf P M x)) vzero)
            (nth m (l_ori (tile_leaf P M x)) gone) o (l_prop x)).
  assert (Hblk : forall s, In s srcs ->
     sum_blocks (map (fun x => blockof P F M pm (tile_leaf P M x)) (leaves s))
     = map (fun m => [] ++ flat_map (fun p : sensor * sensor =>
              map (fun o => vsum (map (fun x => fx x m o) (leaves s))) (sens_obs (snd p) m))
              (combine sens sens')) (seq 0 M)).
  { intros s Hs.
    erewrite map_ext_in.
    2:{ intros x Hx. unfold blockof, leaf_block.
        assert (Hx0 : In x sl0) by (unfold sl0, src_list; apply in_flat_map; exists s; split; assumption).
        destruct (tile_leaf_spec M x (Hleaf x Hx0) (HMleaf x Hx0) H1M) as (_ & _ & -> & -> & _).
        reflexivity. }
    change (sum_blocks (map (fun x => map (fun m => map (fun o => fx x m o) (pm m)) (seq 0 M)) (leaves s)) = 
            map (fun m => [] ++ flat_map (fun p : sensor * sensor =>
              map (fun o => vsum (map (fun x => fx x m o) (leaves s))) (sens_obs (snd p) m))
              (combine sens sens')) (seq 0 M)).
    rewrite (sum_blocks_comprehension fx (leaves s) pm M) by (apply (Hsrc s Hs)).
    apply map_ext. intros m. cbn [app]. unfold pm, poso_m. rewrite map_flat_map.
    unfold sens'. rewrite combine_map_r, flat_map_map. cbn [snd]. rewrite flat_map_map. reflexivity. }
  erewrite map_ext_in; [|intros s Hs; apply (Hblk s Hs)].
  (* sensor rotations *)
  pose proof (rotate_sensors_rows P g_eqb flipx (combine sens sens') 0 srcs M (fun _ _ => [])
             (fun p src m => map (fun o => vsum (map (fun x => fx x m o) (leaves src))) (sens_obs (snd p) m))) as HR.
  cbv beta in HR. unfold block in *. rewrite HR; clear HR.
  2:{ reflexivity. }
  2:{ intros p src m Hp. rewrite map_length. unfold sens_obs. apply map_length. }
  (* pixels *)
  unfold shape_pixels. rewrite map_map.
  apply map_ext_in. intros src Hsrc0. rewrite map_map. apply map_ext_in. intros m Hm.
  apply in_seq in Hm. cbn [app].
  unfold sens' at 1. rewrite combine_map_r, flat_map_map. cbn [fst snd].
  rewrite (shape_row_split sens
     (fun s => map (mv g_eqb flipx s (tile_sensor M s) m)
                (map (fun o => vsum (map (fun x => fx x m o) (leaves src))) (sens_obs (tile_sensor M s) m)))).
  2:{ intros s Hs. rewrite !map_length. unfold sens_obs. rewrite map_length.
      destruct (tile_sensor_spec M s (Hsens s Hs) (HMsens s Hs) H1M) as (_ & _ & -> & _). reflexivity. }
  2:{ exact Hsame. }
  rewrite map_map. apply map_ext_in. intros s Hs.
  assert (Hvals : map (mv g_eqb flipx s (tile_sensor M s) m)
            (map (fun o => vsum (map (fun x => fx x m o) (leaves src))) (sens_obs (tile_sensor M s) m))
          = map (spec_elem P F flipx src m s) (s_pix s)).
  { destruct (tile_sensor_spec M s (Hsens s Hs) (HMsens s Hs) H1M) as (_ & _ & Epix & _ & Hnth).
    unfold sens_obs. rewrite Epix, !map_map. apply map_ext. intros pix.
    rewrite mv_is_view by (auto; lia). unfold spec_elem. f_equal. f_equal.
    destruct (Hnth m ltac:(lia)) as [-> ->]. fold (pixel_point s m pix).
    apply map_ext_in. intros x Hx. unfold fx, leaf_field.
    assert (Hx0 : In x sl0) by (unfold sl0, src_list; apply in_flat_map; exists src; split; assumption).
    destruct (tile_leaf_spec M x (Hleaf x Hx0) (HMleaf x Hx0) H1M) as (_ & _ & _ & _ & Hn).
    destruct (Hn m ltac:(lia)) as [-> ->]. reflexivity. }
  rewrite Hvals. reflexivity.
Qed.

End Assembly.
