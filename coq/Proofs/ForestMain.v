(* The forest invariant holds after every prefix of every history (repaired = current semantics). *)
From Coq Require Import List Bool Arith PeanoNat Lia.
From MV Require Import Model.ForestModel Model.ForestExec Proofs.ForestInv Proofs.ForestBase
  Proofs.ForestOps Proofs.ForestRm Proofs.ForestDepth Proofs.ForestStep Proofs.ForestStep2
  Proofs.ForestCopy.
Import ListNotations.

Lemma step_inv s o : Inv s -> Inv (fst (step repaired s o)).
Proof.
  intros HI. destruct o as [k|c objs ov|c objs r e|x p|c objs|k c objs|a b|objs ov|x]; simpl.
  - destruct k; try (apply Inv_new; exact HI). apply ctor_inv. exact HI.
  - destruct (is_coll s c) eqn:E; auto. apply add_inv; auto.
  - destruct (is_coll s c) eqn:E; auto. apply remove_inv; auto.
  - destruct (live s x) eqn:E; auto. apply set_parent_op_inv; auto.
  - destruct (is_coll s c) eqn:E; auto. apply set_children_op_inv; auto.
  - destruct k; auto; destruct (is_coll s c) eqn:E; auto; apply set_typed_op_inv; auto.
  - destruct (live s a) eqn:E; auto. apply ctor_inv. exact HI.
  - apply ctor_inv. exact HI.
  - destruct (live s x) eqn:E; auto. simpl. apply copy_inv; auto.
Qed.

Lemma run_inv : forall h s, Inv s -> Inv (run repaired s h).
Proof.
  induction h as [|o h IH]; intros s HI; simpl; auto.
  apply IH. apply step_inv. exact HI.
Qed.

Theorem forest_invariant : forall (h : list op) (k : nat), Inv (run repaired [] (firstn k h)).
Proof. intros h k. apply run_inv. apply inv_nil. Qed.

(* consequences spelled out as in the property text *)
Lemma one_parent s x p q : Inv s -> In x (chl s p) -> In x (chl s q) -> p = q.
Proof.
  intros HI Hp Hq. destruct (inv_child _ HI p x Hp) as (_ & _ & A).
  destruct (inv_child _ HI q x Hq) as (_ & _ & B). congruence.
Qed.

Lemma no_self_containment s c d : Inv s -> ~ below s d c c.
Proof.
  intros HI B. apply (inv_acyclic _ HI c). apply (upn_anc s d). apply below_upn; auto.
Qed.

(* ---------------------------------------------------------------- the *_all views *)
Lemma flat_filter s want : forall f l,
  flat f s want l = filter want (flat f s (fun _ => true) l).
Proof.
  induction f as [|f IH]; intros l; simpl.
  - rewrite filter_true. reflexivity.
  - induction l as [|o r IHl]; simpl; auto.
    rewrite filter_app, <- IHl. f_equal.
    simpl. destruct (want o); destruct (is_coll s o); simpl; rewrite ?IH; reflexivity.
Qed.

Lemma flat_Flat s : forall f l,
  (forall q d x, In q l -> is_coll s q = true -> below s d q x -> d <= f) ->
  Flat s l (flat f s (fun _ => true) l).
Proof.
  induction f as [|f IH]; intros l Hb.
  - simpl. rewrite filter_true. induction l as [|o r IHl]; [constructor|].
    assert (Hr : Flat s r r) by (apply IHl; intros; eapply Hb; eauto; right; auto).
    destruct (is_coll s o) eqn:Co.
    + assert (E : chl s o = []).
      { destruct (chl s o) as [|y ys] eqn:E; auto. exfalso.
        assert (B : below s 1 o y) by (apply below_child; rewrite E; left; reflexivity).
        specialize (Hb o 1 y (or_introl eq_refl) Co B). lia. }
      change (o :: r) with (o :: [] ++ r) at 2. apply Flat_coll; auto.
      * apply is_coll_kd. exact Co.
      * rewrite E. constructor.
    + apply Flat_leaf; auto. intros K. apply is_coll_kd in K. congruence.
  - induction l as [|o r IHl]; [constructor|]. simpl.
    assert (Hr : Flat s r (flat (S f) s (fun _ => true) r)).
    { apply IHl. intros; eapply Hb; eauto; right; auto. }
    destruct (is_coll s o) eqn:Co.
    + apply Flat_coll; auto.
      * apply is_coll_kd. exact Co.
      * apply IH. intros q d y Hq Cq B.
        assert (B' : below s (S d) o y) by (eapply below_step; eauto).
        specialize (Hb o (S d) y (or_introl eq_refl) Co B'). lia.
    + simpl. apply Flat_leaf; auto. intros K. apply is_coll_kd in K. congruence.
Qed.

Lemma filter_all_id {A} (f : A -> bool) l : (forall y, In y l -> f y = true) -> filter f l = l.
Proof.
  induction l as [|y r IH]; intros H; simpl; auto.
  rewrite H by (left; reflexivity). rewrite IH; auto. intros; apply H; right; auto.
Qed.

Lemma all_views s c : Inv s ->
  exists r, Flat s (chl s c) r /\ children_all s c = r /\
            sources_all s c = filter (is_k KSource s) r /\
            sensors_all s c = filter (is_k KSensor s) r /\
            collections_all s c = filter (is_k KColl s) r.
Proof.
  intros HI. exists (flat (length s) s (fun _ => true) (chl s c)). split; [|split; [|repeat split]].
  - apply flat_Flat. intros q d y Hq Cq B.
    assert (B' : below s (S d) c y) by (eapply below_step; eauto).
    pose proof (upn_bound s _ _ _ HI (below_upn s HI _ _ _ B')). lia.
  - unfold children_all, fuel_of. rewrite flat_filter.
    apply filter_all_id. intros y Hy. apply flat_sound in Hy.
    assert (L : exists q, In y (chl s q)).
    { destruct Hy as [Hy|(q & d & _ & _ & B & _)]; [eauto | eapply below_listed; eauto]. }
    destruct L as (q & Hq). destruct (inv_child _ HI q y Hq) as (_ & K & _).
    unfold w_all. apply is_junk_kd in K. rewrite K. reflexivity.
  - unfold sources_all, fuel_of. apply flat_filter.
  - unfold sensors_all, fuel_of. apply flat_filter.
  - unfold collections_all, fuel_of. apply flat_filter.
Qed.

Lemma inv_reachable h : Inv (run repaired [] h).
Proof. apply run_inv. exact inv_nil. Qed.

Lemma one_parent_run : forall (h : list op) (x p q : nat),
  let s := run repaired [] h in
  In x (children (get s p)) -> In x (children (get s q)) -> p = q.
Proof. intros h x p q s. apply one_parent. apply inv_reachable. Qed.

Lemma no_self_containment_run : forall (h : list op) (c d : nat),
  ~ below (run repaired [] h) d c c.
Proof. intros h c d. apply no_self_containment. apply inv_reachable. Qed.

Lemma all_views_run : forall (h : list op) (c : nat),
  let s := run repaired [] h in
  exists r, Flat s (children (get s c)) r /\ children_all s c = r /\
            sources_all s c = filter (is_k KSource s) r /\
            sensors_all s c = filter (is_k KSensor s) r /\
            collections_all s c = filter (is_k KColl s) r.
Proof. intros h c s. apply all_views. apply inv_reachable. Qed.
