(* C20 -- several leaves in ONE call: all notation pairs and both orders, on the whole generated schema *)
From Coq Require Import ZArith List Bool String Ascii.
From MV Require Import Lib.STree Model.StyleModel Gen.GenStyle Model.StyleExec Model.StyleSpec.
Import ListNotations.
Open Scope string_scope.
Open Scope list_scope.

Lemma one_call_all_ok : one_call_all = true.
Proof. vm_cast_no_check (eq_refl true). Qed.

(* record of the forms before 812b0e7 (shallow merge, a plain key overwrites): update(path_line_width=5,
   path={"marker": {"size": 9}}) and update({"path": {"line": {"width": 5}}, "path_line": {"color": "red"}})
   lost path.line.width; with the generated form both calls keep both leaves *)
Definition env_shallow : env := mkEnv colors MFresh.
Definition st_base : tree := fresh_state schema_BaseStyle.

Lemma one_call_shallow_witness :
  one_call_pair env_shallow schema_BaseStyle st_base ["path"; "line"; "width"] ["path"; "marker"; "size"]
                (VInt 5) (VInt 9) = false /\
  one_call_pair env_shallow schema_BaseStyle st_base ["path"; "line"; "width"] ["path"; "line"; "color"]
                (VInt 5) (VStr "red") = false /\
  one_call_pair cenv schema_BaseStyle st_base ["path"; "line"; "width"] ["path"; "marker"; "size"]
                (VInt 5) (VInt 9) = true /\
  one_call_pair cenv schema_BaseStyle st_base ["path"; "line"; "width"] ["path"; "line"; "color"]
                (VInt 5) (VStr "red") = true.
Proof. repeat split; vm_compute; reflexivity. Qed.
