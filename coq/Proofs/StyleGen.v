(* C20 -- generic facts about the dictionary mechanisms (all inputs, by induction) + non-vacuity *)
From Coq Require Import ZArith List Bool String Ascii Lia.
From MV Require Import Lib.STree Model.StyleModel Gen.GenStyle Model.StyleExec Model.StyleSpec.
Import ListNotations.
Open Scope string_scope.
Open Scope list_scope.

(* ---------------------------------------------------------------- split / join *)
Lemma split_aux_free sep s : forall cur, has_char sep s = false -> split_aux sep s cur = [cur s].
Proof.
  induction s as [|c s IH]; intros cur Hf; simpl in *.
  - reflexivity.
  - apply orb_false_elim in Hf. destruct Hf as [Hc Hs].
    destruct (Ascii.eqb_spec c sep) as [E|E].
    + subst c. rewrite Ascii.eqb_refl in Hc. discriminate Hc.
    + rewrite (IH (fun x => cur (String c x)) Hs). reflexivity.
Qed.

Lemma split_aux_app sep s rest : forall cur, has_char sep s = false ->
  split_aux sep (String.append s (String sep rest)) cur = cur s :: split_aux sep rest (fun x => x).
Proof.
  induction s as [|c s IH]; intros cur Hf; simpl in *.
  - rewrite Ascii.eqb_refl. reflexivity.
  - apply orb_false_elim in Hf. destruct Hf as [Hc Hs].
    destruct (Ascii.eqb_spec c sep) as [E|E].
    + subst c. rewrite Ascii.eqb_refl in Hc. discriminate Hc.
    + rewrite (IH (fun x => cur (String c x)) Hs). reflexivity.
Qed.

Lemma split_join k0 rest :
  Forall (fun seg => has_char us seg = false) (k0 :: rest) ->
  split_on us (join_with "_" (k0 :: rest)) = k0 :: rest.
Proof.
  revert k0. induction rest as [|k1 r IH]; intros k0 Hf.
  - simpl. unfold split_on. apply split_aux_free. inversion Hf; assumption.
  - inversion Hf as [|x l Hk0 Hrest]; subst.
    change (join_with "_" (k0 :: k1 :: r)) with (String.append k0 (String us (join_with "_" (k1 :: r)))).
    unfold split_on. rewrite (split_aux_app us k0 _ (fun x => x) Hk0).
    f_equal. exact (IH k1 Hrest).
Qed.

Lemma m2d_join (e : env) rest : forall k0 n o,
  Forall (fun seg => has_char us seg = false) (k0 :: rest) -> (List.length rest <= n)%nat ->
  m2d e n us [(join_with "_" (k0 :: rest), Leaf o)] = [(k0, nest rest (Leaf o))].
Proof.
  induction rest as [|k1 r IH]; intros k0 n o Hf Hn.
  - pose proof (split_join k0 [] Hf) as S0. cbn [join_with] in S0.
    assert (E : fold_left (magic_step e us) [(k0, Leaf o)] [] = [(k0, Leaf o)]).
    { cbn [fold_left]. unfold magic_step. cbn [fst snd]. rewrite S0. destruct (e_mm e); reflexivity. }
    cbn [join_with]. destruct n; cbn [m2d]; rewrite E; reflexivity.
  - inversion Hf as [|x l Hk0 Hrest]; subst.
    assert (E : fold_left (magic_step e us) [(join_with "_" (k0 :: k1 :: r), Leaf o)] []
                = [(k0, Node [(join_with "_" (k1 :: r), Leaf o)])]).
    { cbn [fold_left]. unfold magic_step. cbn [fst snd]. rewrite (split_join k0 (k1 :: r) Hf).
      destruct (e_mm e); reflexivity. }
    destruct n as [|n]; [simpl in Hn; lia|].
    cbn [m2d]. rewrite E. cbn [map fst snd].
    rewrite (IH k1 n o Hrest) by (simpl in Hn; lia). reflexivity.
Qed.

Lemma append_length a b : String.length (String.append a b) = (String.length a + String.length b)%nat.
Proof. induction a; simpl; auto. Qed.

Lemma join_length rest : forall k0, (List.length rest <= String.length (join_with "_" (k0 :: rest)))%nat.
Proof.
  induction rest as [|k1 r IH]; intros k0.
  - simpl. lia.
  - change (join_with "_" (k0 :: k1 :: r)) with (String.append k0 (String us (join_with "_" (k1 :: r)))).
    rewrite append_length. cbn [String.length List.length]. specialize (IH k1). lia.
Qed.

Lemma magic_to_dict_join (e : env) (k0 : string) (rest : path) (o : option val) :
  Forall (fun seg => has_char us seg = false) (k0 :: rest) ->
  magic_to_dict e [(join_with "_" (k0 :: rest), Leaf o)] = [(k0, nest rest (Leaf o))].
Proof.
  intros Hf. unfold magic_to_dict. apply m2d_join; [exact Hf|].
  change (tfuel (Node [(join_with "_" (k0 :: rest), Leaf o)]))
    with (S (String.length (join_with "_" (k0 :: rest)) + 0 + 0)).
  pose proof (join_length rest k0). lia.
Qed.

(* ---------------------------------------------------------------- update_nested_dict *)
Lemma tget_nest p v : tget p (nest p v) = Some v.
Proof. induction p as [|k p IH]; simpl; [reflexivity|]. rewrite String.eqb_refl. exact IH. Qed.

Lemma und_nest_get : forall (p : path) (d : tree) (o : option val), p <> [] ->
  tget p (und false false d (nest p (Leaf o))) = Some (Leaf o).
Proof.
  induction p as [|k p IH]; intros d o Hne; [congruence|].
  destruct p as [|k' p'].
  - (* single key *)
    destruct d as [x|dd]; simpl.
    + rewrite orb_true_r. simpl. rewrite String.eqb_refl. reflexivity.
    + rewrite !orb_true_r. simpl. rewrite dget_dset_same. reflexivity.
  - assert (Hne' : k' :: p' <> []) by congruence.
    destruct d as [x|dd].
    + simpl. rewrite orb_true_r. simpl. rewrite String.eqb_refl.
      exact (tget_nest (k' :: p') (Leaf o)).
    + change (nest (k :: k' :: p') (Leaf o)) with (Node [(k, Node [(k', nest p' (Leaf o))])]).
      simpl und. rewrite orb_true_r.
      cbn [tget]. rewrite dget_dset_same.
      exact (IH (match dget k dd with Some t => t | None => Node [] end) o Hne').
Qed.

Lemma und_fill_keeps : forall (p : path) (d u : tree) (x : val) (sko : bool),
  tget p d = Some (Leaf (Some x)) -> tget p (und sko true d u) = Some (Leaf (Some x)).
Proof.
  induction p as [|k p IH]; intros d u x sko Hd.
  - simpl in Hd. inversion Hd; subst. destruct u; simpl; reflexivity.
  - destruct d as [y|dd]; [simpl in Hd; discriminate Hd|].
    destruct u as [y|ud]; [simpl; exact Hd|].
    simpl in Hd. destruct (dget k dd) as [t|] eqn:Ek; [|discriminate Hd].
    (* invariant over the loop: key k keeps a subtree holding x at p *)
    assert (Inv : forall ud new t0, dget k new = Some t0 -> tget p t0 = Some (Leaf (Some x)) ->
                    tget (k :: p) (und sko true (Node new) (Node ud)) = Some (Leaf (Some x))).
    { clear dd Ek Hd t ud. induction ud as [|[k1 v1] r IHr]; intros new t0 Hk Ht.
      - simpl. rewrite Hk. exact Ht.
      - set (new' := if dmem k1 new || negb sko then
                       match v1 with
                       | Node _ => dset k1 (und sko true (match dget k1 new with Some t => t | None => Node [] end) v1) new
                       | Leaf _ => if is_none_tree (dget k1 new) || negb true
                                   then (if negb sko || dmem k1 new then dset k1 v1 new else new) else new
                       end
                     else new).
        assert (E : und sko true (Node new) (Node ((k1, v1) :: r)) = und sko true (Node new') (Node r))
          by reflexivity.
        rewrite E. clear E.
        destruct (String.eqb_spec k1 k) as [Ekk|Ekk].
        + subst k1.
          assert (Hn : is_none_tree (Some t0) = false).
          { destruct p; simpl in Ht.
            - inversion Ht; subst; reflexivity.
            - destruct t0; [discriminate Ht|reflexivity]. }
          assert (Hnew' : exists t1, dget k new' = Some t1 /\ tget p t1 = Some (Leaf (Some x))).
          { unfold new'. rewrite Hk. rewrite Hn. cbn [orb negb].
            destruct (dmem k new || negb sko); [|exists t0; split; assumption].
            destruct v1 as [ov|dv].
            - exists t0; split; assumption.
            - exists (und sko true t0 (Node dv)). split; [apply dget_dset_same|].
              apply IH. exact Ht. }
          destruct Hnew' as [t1 [H1 H2]]. exact (IHr new' t1 H1 H2).
        + assert (Hnew' : dget k new' = Some t0).
          { unfold new'. destruct (dmem k1 new || negb sko); [|exact Hk].
            destruct v1 as [ov|dv].
            - destruct (is_none_tree (dget k1 new) || negb true); [|exact Hk].
              destruct (negb sko || dmem k1 new); [|exact Hk].
              rewrite (dget_dset_other k1 k _ _ Ekk). exact Hk.
            - rewrite (dget_dset_other k1 k _ _ Ekk). exact Hk. }
          exact (IHr new' t0 Hnew' Ht). }
    exact (Inv ud dd t Ek Hd).
Qed.

(* ---------------------------------------------------------------- non-vacuity of the schema-wide theorems *)
Definition p_color : path := ["color"].
Definition p_color0 : path := ["display"; "style"; "base"; "color"].
Definition p_blabel : path := ["display"; "style"; "markers"; "color"].

Definition p_asize0 : path := ["magnetization"; "arrow"; "size"].
Definition p_mshow : path := ["magnetization"; "show"].

Lemma alookup_In {A} (k : string) (l : list (string * A)) (v : A) : alookup k l = Some v -> In (k, v) l.
Proof.
  induction l as [|[k0 v0] r IH]; simpl; [discriminate|].
  destruct (String.eqb k k0) eqn:E.
  - apply String.eqb_eq in E. subst. intros H. inversion H. left. reflexivity.
  - intros H. right. exact (IH H).
Qed.

Lemma nv1 : exists cs p k al, In cs style_classes /\ In (p, k, al) (sleaves (snd cs)) /\
                     shadowed (snd cs) p = true /\ two k <> [] /\ notations p <> [] /\ bad_vals k <> [].
Proof.
  exists ("MagnetStyle", schema_MagnetStyle), p_asize0, KNumGe0, false.
  split; [apply alookup_In; vm_compute; reflexivity|].
  split; [apply (nth_error_In _ (leaf_index schema_MagnetStyle p_asize0)); vm_compute; reflexivity|].
  split; [vm_compute; reflexivity|]. split; [vm_compute; congruence|]. split; vm_compute; congruence.
Qed.

Lemma nv2 : exists p k al, In (p, k, al) (sleaves defaults_schema) /\ in_literal p = true /\
                  two k <> [] /\ notations_coarse p <> [].
Proof.
  exists p_color0, KColor, false.
  split; [apply (nth_error_In _ (leaf_index defaults_schema p_color0)); vm_compute; reflexivity|].
  split; [vm_compute; reflexivity|]. split; vm_compute; congruence.
Qed.

Lemma nv3 : exists p k al, In (p, k, al) (sleaves defaults_schema) /\ in_literal p = false /\ two k <> [].
Proof.
  exists p_blabel, KColor, false.
  split; [apply (nth_error_In _ (leaf_index defaults_schema p_blabel)); vm_compute; reflexivity|].
  split; [vm_compute; reflexivity|vm_compute; congruence].
Qed.

Lemma nv4 : exists cls p k, In cls public_classes /\ In (p, k, false) (sleaves (class_schema cls)) /\
                   prec_leaf k p = true /\ (2 <= List.length (spec_families cls p))%nat.
Proof.
  exists "TriangularMesh", p_mshow, KBool.
  split; [vm_compute; tauto|].
  split; [apply (nth_error_In _ (leaf_index (class_schema "TriangularMesh") p_mshow)); vm_compute; reflexivity|].
  split; [vm_compute; reflexivity|]. vm_compute. apply le_n.
Qed.

Lemma nv5 : all_sources <> [] /\ gen_sources <> [] /\ prec_variants <> [] /\ ctor_style <> [].
Proof. split; [|split; [|split]]; vm_compute; congruence. Qed.

Definition c20_nonvacuous_proof := conj nv1 (conj nv2 (conj nv3 (conj nv4 nv5))).
