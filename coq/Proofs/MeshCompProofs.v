(* C16 -- proofs about get_disconnected_faces_subsets (model in Model/MeshModel.v, notions in Model/MeshSpec.v):
   the returned subsets are exactly the classes of the vertex-sharing relation. *)
From Coq Require Import NArith List Bool Arith Lia Permutation Relations.
From MV Require Import Model.MeshModel Model.MeshSpec.
Import ListNotations.

(* ------------------------------------------------------------------ vertex sets *)
Lemma vmem_In v s : vmem v s = true <-> In v s.
Proof.
  unfold vmem. rewrite existsb_exists. split.
  - intros [x [Hx He]]. apply N.eqb_eq in He. subst. exact Hx.
  - intros H. exists v. split; [exact H | apply N.eqb_refl].
Qed.

Lemma In_vadd x v s : In x (vadd v s) <-> x = v \/ In x s.
Proof.
  unfold vadd. destruct (vmem v s) eqn:E.
  - apply vmem_In in E. split; [auto | intros [-> | H]; assumption].
  - rewrite in_app_iff. simpl. split; [intros [H | [H | []]]; auto | intros [H | H]; auto].
Qed.

Lemma In_vunion x l : forall s, In x (vunion s l) <-> In x s \/ In x l.
Proof.
  unfold vunion. induction l as [| a l IH]; intros s; simpl.
  - tauto.
  - rewrite IH, In_vadd. split; [intros [[-> | H] | H]; auto | intros [H | [-> | H]]; auto].
Qed.

Lemma len_vadd v s : length s <= length (vadd v s).
Proof. unfold vadd. destruct (vmem v s); [lia | rewrite app_length; simpl; lia]. Qed.

Lemma len_vunion l : forall s, length s <= length (vunion s l).
Proof.
  unfold vunion. induction l as [| a l IH]; intros s; simpl; [lia |].
  specialize (IH (vadd a s)). pose proof (len_vadd a s). lia.
Qed.

Lemma vadd_same v s : length (vadd v s) = length s -> vadd v s = s.
Proof. unfold vadd. destruct (vmem v s); [reflexivity | rewrite app_length; simpl; lia]. Qed.

Lemma vunion_same l : forall s, length (vunion s l) = length s -> vunion s l = s.
Proof.
  induction l as [| a l IH]; intros s H; [reflexivity |].
  change (vunion s (a :: l)) with (vunion (vadd a s) l) in *.
  pose proof (len_vadd a s). pose proof (len_vunion l (vadd a s)).
  assert (E : vadd a s = s) by (apply vadd_same; lia).
  rewrite E in *. apply IH. exact H.
Qed.

Lemma intersects_spec s f : intersects s f = true <-> exists v, In v (verts f) /\ In v s.
Proof.
  unfold intersects. rewrite existsb_exists. split; intros [v [H1 H2]]; exists v; split; auto;
    apply vmem_In; exact H2.
Qed.

Lemma intersects_false s f : intersects s f = false <-> forall v, In v (verts f) -> ~ In v s.
Proof.
  split.
  - intros H v Hv Hs. assert (intersects s f = true) by (apply intersects_spec; eauto). congruence.
  - intros H. destruct (intersects s f) eqn:E; [| reflexivity].
    apply intersects_spec in E. destruct E as [v [H1 H2]]. exfalso. eapply H; eassumption.
Qed.

Lemma all_in_spec s f : all_in s f = true <-> forall v, In v (verts f) -> In v s.
Proof.
  unfold all_in. rewrite forallb_forall. split; intros H v Hv; [apply vmem_In | apply vmem_In]; auto.
Qed.

Lemma f0_in_verts f : In (f0 f) (verts f).
Proof. left. reflexivity. Qed.

Lemma all_in_intersects s f : all_in s f = true -> intersects s f = true.
Proof.
  intros H. apply intersects_spec. exists (f0 f). split; [apply f0_in_verts |].
  eapply all_in_spec; [exact H | apply f0_in_verts].
Qed.

(* ------------------------------------------------------------------ the relation *)
Lemma share_sym f g : share f g -> share g f.
Proof. intros [v [H1 H2]]. exists v. auto. Qed.

Lemma share_refl f : share f f.
Proof. exists (f0 f). split; apply f0_in_verts. Qed.

Lemma connected_sym T f g : connected T f g -> connected T g f.
Proof.
  induction 1 as [x y H | x | x y z H1 IH1 H2 IH2].
  - apply rt_step. destruct H as [Hx [Hy Hs]]. repeat split; auto. apply share_sym, Hs.
  - apply rt_refl.
  - eapply rt_trans; eassumption.
Qed.

Lemma connected_mono T1 T2 f g : (forall x, In x T1 -> In x T2) -> connected T1 f g -> connected T2 f g.
Proof.
  intros Hin. induction 1 as [x y H | x | x y z H1 IH1 H2 IH2].
  - apply rt_step. destruct H as [Hx [Hy Hs]]. repeat split; auto.
  - apply rt_refl.
  - eapply rt_trans; eassumption.
Qed.

(* ------------------------------------------------------------------ one pass: absorb *)
(* Q is preserved when a face of T that touches the set is merged into it *)
Definition stepc (T : list face) (Q : list N -> Prop) : Prop :=
  forall s r, Q s -> In r T -> intersects s r = true -> Q (vunion s (verts r)).

Lemma absorb_facts T Q rest : forall first S R,
  absorb first rest = (S, R) ->
  (forall v, In v first -> In v S) /\
  length first <= length S /\
  (forall f, In f R -> In f rest) /\
  length R <= length rest /\
  (forall f, In f rest -> In f R \/ all_in S f = true) /\
  (length S = length first -> S = first /\ forall f, In f R -> intersects S f = false) /\
  (length first < length S -> length R < length rest) /\
  (stepc T Q -> (forall f, In f rest -> In f T) -> Q first -> Q S).
Proof.
  induction rest as [| r rest IH]; intros first S R HA; cbn [absorb] in HA.
  - inversion HA; subst. repeat split; auto; try lia. intros f [].
  - destruct (intersects first r) eqn:E.
    + specialize (IH _ _ _ HA). destruct IH as [I1 [I2 [I3 [I4 [I5 [I6 [I7 I8]]]]]]].
      pose proof (len_vunion (verts r) first) as Hl.
      repeat split.
      * intros v Hv. apply I1. apply In_vunion. auto.
      * lia.
      * intros f Hf. right. apply I3, Hf.
      * simpl. lia.
      * intros f [<- | Hf]; [| apply I5, Hf]. right.
        apply all_in_spec. intros v Hv. apply I1. apply In_vunion. auto.
      * assert (E1 : length (vunion first (verts r)) = length first) by lia.
        apply vunion_same in E1. rewrite E1 in *. apply I6. exact H.
      * assert (E1 : length (vunion first (verts r)) = length first) by lia.
        apply vunion_same in E1. rewrite E1 in *. apply I6. exact H.
      * intros _. simpl. lia.
      * intros Hs HT HQ. apply I8; [exact Hs | intros f Hf; apply HT; right; exact Hf |].
        apply Hs; [exact HQ | apply HT; left; reflexivity | exact E].
    + destruct (absorb first rest) as [S' R'] eqn:EA. inversion HA; subst. clear HA.
      specialize (IH _ _ _ EA). destruct IH as [I1 [I2 [I3 [I4 [I5 [I6 [I7 I8]]]]]]].
      repeat split.
      * exact I1.
      * exact I2.
      * intros f [<- | Hf]; [left; reflexivity | right; apply I3, Hf].
      * simpl. lia.
      * intros f [<- | Hf]; [left; left; reflexivity |].
        destruct (I5 f Hf) as [H | H]; [left; right; exact H | right; exact H].
      * apply I6. exact H.
      * destruct (I6 H) as [-> Hc]. intros f [<- | Hf]; [exact E | apply Hc, Hf].
      * intros H. specialize (I7 H). simpl. lia.
      * intros Hs HT HQ. apply I8; [exact Hs | intros f Hf; apply HT; right; exact Hf | exact HQ].
Qed.

(* ------------------------------------------------------------------ the closure loop: grow *)
Definition closed_wrt (s : list N) (rest : list face) : Prop := forall f, In f rest -> intersects s f = false.

Definition grow_pre (fuel : nat) (first : list N) (lf : option nat) (rest : list face) : Prop :=
  match lf with
  | None => length rest + 2 <= fuel
  | Some k => (k < length first -> length rest + 2 <= fuel) /\ (~ k < length first -> closed_wrt first rest)
  end.

Lemma all_in_mono s s' f : (forall v, In v s -> In v s') -> all_in s f = true -> all_in s' f = true.
Proof. intros Hi H. apply all_in_spec. intros v Hv. apply Hi. eapply all_in_spec; eassumption. Qed.

Lemma grow_facts T Q fuel : forall first lf rest S R,
  grow fuel first lf rest = (S, R) ->
  (forall v, In v first -> In v S) /\
  (forall f, In f R -> In f rest) /\
  length R <= length rest /\
  (forall f, In f rest -> In f R \/ all_in S f = true) /\
  (grow_pre fuel first lf rest -> closed_wrt S R) /\
  (stepc T Q -> (forall f, In f rest -> In f T) -> Q first -> Q S).
Proof.
  induction fuel as [| fuel IH]; intros first lf rest S R HG; cbn [grow] in HG.
  - inversion HG; subst. repeat split; auto.
    intros Hp. destruct lf as [k |]; simpl in Hp; [| lia].
    destruct Hp as [H1 H2]. apply H2. intros Hk. specialize (H1 Hk). lia.
  - destruct (len_gt first lf) eqn:EL.
    + destruct (absorb first rest) as [S1 R1] eqn:EA.
      destruct (absorb_facts T Q rest first S1 R1 EA) as [A1 [A2 [A3 [A4 [A5 [A6 [A7 A8]]]]]]].
      specialize (IH _ _ _ _ _ HG). destruct IH as [G1 [G2 [G3 [G4 [G5 G6]]]]].
      repeat split.
      * intros v Hv. apply G1, A1, Hv.
      * intros f Hf. apply A3, G2, Hf.
      * lia.
      * intros f Hf. destruct (A5 f Hf) as [H | H]; [apply G4, H | right].
        eapply all_in_mono; [exact G1 | exact H].
      * intros Hp. apply G5. simpl. split.
        -- intros Hk. specialize (A7 Hk).
           destruct lf as [k |]; simpl in Hp.
           ++ destruct Hp as [H1 _]. simpl in EL. apply Nat.ltb_lt in EL. specialize (H1 EL). lia.
           ++ lia.
        -- intros Hk. assert (E1 : length S1 = length first) by lia.
           destruct (A6 E1) as [_ Hc]. exact Hc.
      * intros Hs HT HQ. apply G6; [exact Hs | intros f Hf; apply HT, A3, Hf | apply A8; assumption].
    + inversion HG; subst. repeat split; auto.
      intros Hp. destruct lf as [k |]; simpl in EL; [| discriminate].
      apply Nat.ltb_ge in EL. destruct Hp as [_ H2]. apply H2. lia.
Qed.

(* ------------------------------------------------------------------ the outer loop *)
Definition disjoint_sets (a b : list N) : Prop := forall v, In v a -> In v b -> False.

Record cspec (T : list face) (R : list (list N)) : Prop := mkCS {
  cs_cover : forall f, In f T -> exists ps, In ps R /\ all_in ps f = true;
  cs_closed : forall ps f, In ps R -> In f T -> all_in ps f = true \/ intersects ps f = false;
  cs_conn : forall ps f g, In ps R -> In f T -> In g T -> all_in ps f = true -> all_in ps g = true -> connected T f g;
  cs_src : forall ps v, In ps R -> In v ps -> exists f, In f T /\ In v (verts f) /\ all_in ps f = true;
  cs_nonempty : forall ps, In ps R -> exists f, In f T /\ all_in ps f = true;
  cs_disj : ForallOrdPairs disjoint_sets R
}.

(* the invariant carried through grow: every vertex of the set comes from a face of T that lies
   inside the set and is connected to the seed face *)
Definition reach (T : list face) (seed : face) (s : list N) : Prop :=
  forall v, In v s -> exists h, In h T /\ In v (verts h) /\ (forall w, In w (verts h) -> In w s) /\ connected T seed h.

Lemma reach_stepc T seed : stepc T (reach T seed).
Proof.
  intros s r HQ Hr Hi v Hv. apply In_vunion in Hv.
  apply intersects_spec in Hi. destruct Hi as [v0 [Hv0 Hs0]].
  destruct (HQ v0 Hs0) as [h0 [Hh0 [Hvh0 [_ Hc0]]]].
  destruct Hv as [Hv | Hv].
  - destruct (HQ v Hv) as [h [Hh [Hvh [Hsub Hc]]]]. exists h. repeat split; auto.
    intros w Hw. apply In_vunion. left. apply Hsub, Hw.
  - exists r. repeat split; auto.
    + intros w Hw. apply In_vunion. right. exact Hw.
    + eapply rt_trans; [exact Hc0 |]. apply rt_step. repeat split; auto. exists v0. auto.
Qed.

Lemma reach_init T seed : In seed T -> reach T seed (mkset (verts seed)).
Proof.
  intros Hs v Hv. unfold mkset in Hv. apply In_vunion in Hv. destruct Hv as [[] | Hv].
  exists seed. repeat split; auto.
  - intros w Hw. unfold mkset. apply In_vunion. right. exact Hw.
  - apply rt_refl.
Qed.

Lemma subsets_inds_spec fuel : forall T, length T <= fuel -> cspec T (subsets_inds fuel T).
Proof.
  induction fuel as [| fuel IH]; intros T Hl.
  - destruct T; [| simpl in Hl; lia]. simpl.
    constructor; try (intros; contradiction); try (intros ? []). constructor.
  - destruct T as [| first rest].
    + simpl. constructor; try (intros; contradiction); try (intros ? []). constructor.
    + cbn [subsets_inds]. destruct (grow (S (S (length rest))) (mkset (verts first)) None rest) as [S0 R0] eqn:EG.
      destruct (grow_facts (first :: rest) (reach (first :: rest) first) _ _ _ _ _ _ EG)
        as [G1 [G2 [G3 [G4 [G5 G6]]]]].
      assert (Hclosed : closed_wrt S0 R0) by (apply G5; simpl; lia).
      assert (Hreach : reach (first :: rest) first S0).
      { apply G6; [apply reach_stepc | intros f Hf; right; exact Hf | apply reach_init; left; reflexivity]. }
      assert (Hfirst : all_in S0 first = true).
      { apply all_in_spec. intros v Hv. apply G1. unfold mkset. apply In_vunion. right. exact Hv. }
      assert (Hl0 : length R0 <= fuel) by (simpl in Hl; lia).
      specialize (IH R0 Hl0). destruct IH as [C1 C2 C3 C4 C5 C6].
      assert (Hsub : forall x, In x R0 -> In x (first :: rest)) by (intros x Hx; right; apply G2, Hx).
      (* a face inside S0 is connected to the seed *)
      assert (Hconn0 : forall f, In f (first :: rest) -> all_in S0 f = true -> connected (first :: rest) first f).
      { intros f Hf Ha.
        assert (Hv : In (f0 f) S0) by (eapply all_in_spec; [exact Ha | apply f0_in_verts]).
        destruct (Hreach _ Hv) as [h [Hh [Hvh [_ Hc]]]].
        eapply rt_trans; [exact Hc |]. apply rt_step. repeat split; auto.
        exists (f0 f). split; [exact Hvh | apply f0_in_verts]. }
      (* the later sets avoid S0 *)
      assert (Hdis : forall ps, In ps (subsets_inds fuel R0) -> disjoint_sets S0 ps).
      { intros ps Hps v Hv0 Hvp. destruct (C4 ps v Hps Hvp) as [f [Hf [Hvf _]]].
        pose proof (Hclosed f Hf) as Hc. rewrite intersects_false in Hc. eapply Hc; eassumption. }
      (* every face of T is inside S0 or in R0 (and then avoids S0) *)
      assert (Hsplit : forall f, In f (first :: rest) -> all_in S0 f = true \/ In f R0).
      { intros f [<- | Hf]; [left; exact Hfirst |]. destruct (G4 f Hf); auto. }
      constructor.
      * intros f Hf. destruct (Hsplit f Hf) as [H | H].
        -- exists S0. split; [left; reflexivity | exact H].
        -- destruct (C1 f H) as [ps [Hps Ha]]. exists ps. split; [right; exact Hps | exact Ha].
      * intros ps f [<- | Hps] Hf.
        -- destruct (Hsplit f Hf) as [H | H]; [left; exact H | right; apply Hclosed, H].
        -- destruct (Hsplit f Hf) as [H | H]; [| apply C2; assumption].
           right. apply intersects_false. intros v Hv Hvp.
           eapply (Hdis ps Hps v); [| exact Hvp]. eapply all_in_spec; eassumption.
      * intros ps f g [<- | Hps] Hf Hg Haf Hag.
        -- eapply rt_trans; [apply connected_sym, Hconn0; assumption | apply Hconn0; assumption].
        -- assert (HfR : In f R0).
           { destruct (Hsplit f Hf) as [H | H]; [| exact H]. exfalso.
             apply (Hdis ps Hps (f0 f)); [apply (proj1 (all_in_spec S0 f) H), f0_in_verts
                                         | apply (proj1 (all_in_spec ps f) Haf), f0_in_verts]. }
           assert (HgR : In g R0).
           { destruct (Hsplit g Hg) as [H | H]; [| exact H]. exfalso.
             apply (Hdis ps Hps (f0 g)); [apply (proj1 (all_in_spec S0 g) H), f0_in_verts
                                         | apply (proj1 (all_in_spec ps g) Hag), f0_in_verts]. }
           eapply connected_mono; [exact Hsub |]. eapply C3; eassumption.
      * intros ps v [<- | Hps] Hv.
        -- destruct (Hreach v Hv) as [h [Hh [Hvh [Hin _]]]]. exists h. repeat split; auto.
           apply all_in_spec. exact Hin.
        -- destruct (C4 ps v Hps Hv) as [f [Hf [Hvf Ha]]]. exists f. repeat split; auto.
      * intros ps [<- | Hps].
        -- exists first. split; [left; reflexivity | exact Hfirst].
        -- destruct (C5 ps Hps) as [f [Hf Ha]]. exists f. split; auto.
      * constructor; [| exact C6]. rewrite Forall_forall. exact Hdis.
Qed.

Lemma components_cspec fs : cspec fs (subsets_inds (length fs) fs).
Proof. apply subsets_inds_spec. lia. Qed.

(* a set of the result is closed under the relation *)
Lemma cspec_closed_conn T R ps f g : cspec T R -> In ps R -> In f T ->
  all_in ps f = true -> connected T f g -> all_in ps g = true.
Proof.
  intros [C1 C2 C3 C4 C5 C6] Hps Hf Ha Hc. revert Hf Ha.
  apply clos_rt_rt1n in Hc. induction Hc as [x | x y z Hxy Hyz IH]; intros Hf Ha; [exact Ha |].
  destruct Hxy as [Hx [Hy [v [Hvx Hvy]]]]. apply IH; [exact Hy |].
  destruct (C2 ps y Hps Hy) as [H | H]; [exact H |]. exfalso.
  rewrite intersects_false in H. apply (H v Hvy). eapply all_in_spec; eassumption.
Qed.

Lemma connected_in_r T f g : connected T f g -> In f T -> In g T.
Proof.
  induction 1 as [x y H | x | x y z H1 IH1 H2 IH2]; intros Hf; auto.
  destruct H as [_ [Hy _]]. exact Hy.
Qed.

(* ------------------------------------------------------------------ the theorem *)
Lemma together_iff fs f g : In f fs -> In g fs ->
  (together (get_disconnected_faces_subsets fs) f g <->
   exists ps, In ps (subsets_inds (length fs) fs) /\ all_in ps f = true /\ all_in ps g = true).
Proof.
  intros Hf Hg. unfold together, get_disconnected_faces_subsets. split.
  - intros [s [Hs [Hfs Hgs]]]. apply in_map_iff in Hs. destruct Hs as [ps [<- Hps]].
    apply filter_In in Hfs. apply filter_In in Hgs. exists ps. tauto.
  - intros [ps [Hps [Ha Hb]]]. exists (filter (all_in ps) fs). split; [| split].
    + apply in_map_iff. exists ps. auto.
    + apply filter_In. auto.
    + apply filter_In. auto.
Qed.

Theorem components_spec fs f g : In f fs -> In g fs ->
  (together (get_disconnected_faces_subsets fs) f g <-> connected fs f g).
Proof.
  intros Hf Hg. rewrite (together_iff fs f g Hf Hg).
  pose proof (components_cspec fs) as CS. split.
  - intros [ps [Hps [Ha Hb]]]. eapply (cs_conn _ _ CS); eassumption.
  - intros Hc. destruct (cs_cover _ _ CS f Hf) as [ps [Hps Ha]]. exists ps. split; [exact Hps | split; [exact Ha |]].
    exact (cspec_closed_conn fs _ ps f g CS Hps Hf Ha Hc).
Qed.

(* the subsets cover the mesh, contain only faces of the mesh, are non-empty and pairwise disjoint *)
Definition disjoint_faces (s s' : list face) : Prop := forall f, In f s -> In f s' -> False.

Lemma FOP_map {A B} (P : A -> A -> Prop) (Q : B -> B -> Prop) (h : A -> B) l :
  (forall a b, In a l -> In b l -> P a b -> Q (h a) (h b)) -> ForallOrdPairs P l -> ForallOrdPairs Q (map h l).
Proof.
  intros Hpq H. induction H as [| a l Ha Hl IH]; simpl; constructor.
  - rewrite Forall_forall in *. intros y Hy. apply in_map_iff in Hy. destruct Hy as [b [<- Hb]].
    apply Hpq; [left; reflexivity | right; exact Hb | apply Ha, Hb].
  - apply IH. intros a' b' Ha' Hb'. apply Hpq; right; assumption.
Qed.

Theorem components_partition fs :
  let P := get_disconnected_faces_subsets fs in
  (forall f, In f fs -> exists s, In s P /\ In f s) /\
  (forall s f, In s P -> In f s -> In f fs) /\
  (forall s, In s P -> s <> []) /\
  ForallOrdPairs disjoint_faces P.
Proof.
  pose proof (components_cspec fs) as CS. unfold get_disconnected_faces_subsets. repeat split.
  - intros f Hf. destruct (cs_cover _ _ CS f Hf) as [ps [Hps Ha]].
    exists (filter (all_in ps) fs). split; [apply in_map_iff; exists ps; auto | apply filter_In; auto].
  - intros s f Hs Hfs. apply in_map_iff in Hs. destruct Hs as [ps [<- _]]. apply filter_In in Hfs. tauto.
  - intros s Hs. apply in_map_iff in Hs. destruct Hs as [ps [<- Hps]].
    destruct (cs_nonempty _ _ CS ps Hps) as [f [Hf Ha]]. intros E.
    assert (Hin : In f (filter (all_in ps) fs)) by (apply filter_In; auto). rewrite E in Hin. exact Hin.
  - eapply FOP_map; [| exact (cs_disj _ _ CS)].
    intros a b _ _ Hd f Hfa Hfb. apply filter_In in Hfa. apply filter_In in Hfb.
    apply (Hd (f0 f)); eapply all_in_spec; try apply f0_in_verts; tauto.
Qed.

(* ------------------------------------------------------------------ the flag *)
Theorem status_disconnected_iff fs :
  status_disconnected fs = true <-> exists f g, In f fs /\ In g fs /\ ~ connected fs f g.
Proof.
  pose proof (components_cspec fs) as CS.
  unfold status_disconnected, get_disconnected_faces_subsets. rewrite map_length, Nat.ltb_lt.
  remember (subsets_inds (length fs) fs) as R eqn:ER. split.
  - intros Hl. destruct R as [| p1 [| p2 R']]; simpl in Hl; try lia.
    destruct (cs_nonempty _ _ CS p1 (or_introl eq_refl)) as [f [Hf Ha]].
    destruct (cs_nonempty _ _ CS p2 (or_intror (or_introl eq_refl))) as [g [Hg Hb]].
    exists f, g. repeat split; auto. intros Hc.
    assert (Hag : all_in p1 g = true).
    { eapply cspec_closed_conn; [exact CS | left; reflexivity | exact Hf | exact Ha | exact Hc]. }
    pose proof (cs_disj _ _ CS) as Hd. inversion Hd as [| ? ? Hd1 _]; subst.
    rewrite Forall_forall in Hd1. apply (Hd1 p2 (or_introl eq_refl) (f0 g));
      eapply all_in_spec; try apply f0_in_verts; eassumption.
  - intros [f [g [Hf [Hg Hn]]]].
    destruct R as [| p1 [| p2 R']]; simpl; try lia.
    + destruct (cs_cover _ _ CS f Hf) as [ps [[] _]].
    + exfalso. apply Hn.
      destruct (cs_cover _ _ CS f Hf) as [ps [[<- | []] Ha]].
      destruct (cs_cover _ _ CS g Hg) as [ps' [[<- | []] Hb]].
      eapply (cs_conn _ _ CS); [left; reflexivity | | | |]; eassumption.
Qed.

(* ------------------------------------------------------------------ invariance *)
(* a correspondence rho between the faces of two meshes that preserves vertex sharing *)
Section Transfer.
Variables (l l' : list face) (rho : face -> face -> Prop).
Hypothesis rho_share : forall f f' g g', rho f f' -> rho g g' -> (share f g <-> share f' g').
Hypothesis rho_total : forall f, In f l -> exists f', In f' l' /\ rho f f'.

Lemma connected_transfer f g : connected l f g ->
  forall f' g', In f' l' -> In g' l' -> rho f f' -> rho g g' -> In f l -> connected l' f' g'.
Proof.
  induction 1 as [x y H | x | x y z H1 IH1 H2 IH2]; intros f' g' Hf' Hg' Rf Rg Hin.
  - destruct H as [Hx [Hy Hs]]. apply rt_step. repeat split; auto.
    apply (proj1 (rho_share x f' y g' Rf Rg)), Hs.
  - apply rt_step. repeat split; auto. apply (proj1 (rho_share x f' x g' Rf Rg)), share_refl.
  - assert (Hy : In y l) by (eapply connected_in_r; eassumption).
    destruct (rho_total y Hy) as [y' [Hy' Ry]].
    eapply rt_trans; [eapply IH1 | eapply IH2]; eassumption.
Qed.
End Transfer.

Lemma status_disconnected_transfer l l' (rho : face -> face -> Prop) :
  (forall f f' g g', rho f f' -> rho g g' -> (share f g <-> share f' g')) ->
  (forall f, In f l -> exists f', In f' l' /\ rho f f') ->
  (forall f', In f' l' -> exists f, In f l /\ rho f f') ->
  status_disconnected l = status_disconnected l'.
Proof.
  intros Hs Ht Ht'.
  assert (Hs' : forall f' f g' g, rho f f' -> rho g g' -> (share f' g' <-> share f g)).
  { intros. symmetry. eapply Hs; eassumption. }
  apply eq_true_iff_eq. rewrite !status_disconnected_iff. split.
  - intros [f [g [Hf [Hg Hn]]]].
    destruct (Ht f Hf) as [f' [Hf' Rf]]. destruct (Ht g Hg) as [g' [Hg' Rg]].
    exists f', g'. repeat split; auto. intros Hc. apply Hn.
    exact (connected_transfer l' l (fun a b => rho b a) Hs' Ht' f' g' Hc f g Hf Hg Rf Rg Hf').
  - intros [f' [g' [Hf' [Hg' Hn]]]].
    destruct (Ht' f' Hf') as [f [Hf Rf]]. destruct (Ht' g' Hg') as [g [Hg Rg]].
    exists f, g. repeat split; auto. intros Hc. apply Hn.
    exact (connected_transfer l l' rho Hs Ht f g Hc f' g' Hf' Hg' Rf Rg Hf).
Qed.

Lemma vperm_verts f g : vperm f g -> forall v, In v (verts f) <-> In v (verts g).
Proof. intros H v. split; apply Permutation_in; [exact H | apply Permutation_sym, H]. Qed.

Lemma status_disconnected_perm l l' : Permutation l l' -> status_disconnected l = status_disconnected l'.
Proof.
  intros HP. apply (status_disconnected_transfer l l' eq).
  - intros f f' g g' <- <-. reflexivity.
  - intros f Hf. exists f. split; [eapply Permutation_in; eassumption | reflexivity].
  - intros f Hf. exists f. split; [eapply Permutation_in; [apply Permutation_sym|]; eassumption | reflexivity].
Qed.

Lemma Forall2_In_l {A B} (P : A -> B -> Prop) l l' x : Forall2 P l l' -> In x l -> exists y, In y l' /\ P x y.
Proof.
  induction 1 as [| a b l l' Hab H IH]; intros Hx; [destruct Hx |].
  destruct Hx as [<- | Hx]; [exists b; split; [left; reflexivity | exact Hab] |].
  destruct (IH Hx) as [y [Hy Py]]. exists y. split; [right; exact Hy | exact Py].
Qed.

Lemma Forall2_In_r {A B} (P : A -> B -> Prop) l l' y : Forall2 P l l' -> In y l' -> exists x, In x l /\ P x y.
Proof.
  induction 1 as [| a b l l' Hab H IH]; intros Hy; [destruct Hy |].
  destruct Hy as [<- | Hy]; [exists a; split; [left; reflexivity | exact Hab] |].
  destruct (IH Hy) as [x [Hx Px]]. exists x. split; [right; exact Hx | exact Px].
Qed.

Lemma status_disconnected_winding l l' : Forall2 vperm l l' -> status_disconnected l = status_disconnected l'.
Proof.
  intros HF. apply (status_disconnected_transfer l l' vperm).
  - intros f f' g g' Hf Hg. unfold share. split; intros [v [H1 H2]]; exists v.
    + split; [apply (vperm_verts f f' Hf), H1 | apply (vperm_verts g g' Hg), H2].
    + split; [apply (vperm_verts f f' Hf), H1 | apply (vperm_verts g g' Hg), H2].
  - intros f Hf. eapply Forall2_In_l; eassumption.
  - intros f Hf. eapply Forall2_In_r; eassumption.
Qed.

Lemma status_disconnected_equiv fs fs' : mesh_equiv fs fs' -> status_disconnected fs = status_disconnected fs'.
Proof.
  intros [fs'' [HP HF]]. rewrite (status_disconnected_perm fs fs'' HP). apply status_disconnected_winding, HF.
Qed.

Lemma verts_rename r f : verts (rename_face r f) = map r (verts f).
Proof. destruct f as [[a b] c]. reflexivity. Qed.

Lemma share_rename r f g : injective r -> (share f g <-> share (rename_face r f) (rename_face r g)).
Proof.
  intros Hr. unfold share. rewrite !verts_rename. split.
  - intros [v [H1 H2]]. exists (r v). split; apply in_map; assumption.
  - intros [w [H1 H2]]. apply in_map_iff in H1. destruct H1 as [v [<- H1]].
    apply in_map_iff in H2. destruct H2 as [v' [E H2]]. apply Hr in E. subst. exists v. auto.
Qed.

Lemma status_disconnected_rename r fs : injective r ->
  status_disconnected (map (rename_face r) fs) = status_disconnected fs.
Proof.
  intros Hr. symmetry. apply (status_disconnected_transfer _ _ (fun f f' => f' = rename_face r f)).
  - intros f f' g g' -> ->. apply share_rename, Hr.
  - intros f Hf. exists (rename_face r f). split; [apply in_map, Hf | reflexivity].
  - intros f' Hf'. apply in_map_iff in Hf'. destruct Hf' as [f [<- Hf]]. exists f. auto.
Qed.

(* the partition itself under renumbering: two faces lie together before iff their images do after *)
Lemma together_rename r fs f g : injective r -> In f fs -> In g fs ->
  (together (get_disconnected_faces_subsets (map (rename_face r) fs)) (rename_face r f) (rename_face r g)
   <-> together (get_disconnected_faces_subsets fs) f g).
Proof.
  intros Hr Hf Hg.
  rewrite components_spec by (apply in_map; assumption). rewrite components_spec by assumption.
  assert (Hsh : forall a a' b b', a' = rename_face r a -> b' = rename_face r b -> (share a b <-> share a' b'))
    by (intros a a' b b' -> ->; apply share_rename, Hr).
  split; intros Hc.
  - eapply (connected_transfer _ fs (fun a' a => a' = rename_face r a)); try eassumption; try reflexivity.
    + intros a' a b' b Ha Hb. symmetry. eapply Hsh; eassumption.
    + intros a' Ha'. apply in_map_iff in Ha'. destruct Ha' as [a [<- Ha]]. exists a. auto.
    + apply in_map, Hf.
  - eapply (connected_transfer fs _ (fun a a' => a' = rename_face r a)); try eassumption; try reflexivity.
    + intros a Ha. exists (rename_face r a). split; [apply in_map, Ha | reflexivity].
    + apply in_map, Hf.
    + apply in_map, Hg.
Qed.

(* ------------------------------------------------------------------ non-vacuity *)
Definition two_tets : list face :=
  [(0, 1, 2); (0, 3, 1); (1, 3, 2); (2, 3, 0); (4, 5, 6); (4, 7, 5); (5, 7, 6); (6, 7, 4)]%N.

Lemma components_nonvacuous :
  status_disconnected two_tets = true /\ status_disconnected (firstn 4 two_tets) = false /\
  length (get_disconnected_faces_subsets two_tets) = 2.
Proof. vm_compute. repeat split; reflexivity. Qed.
