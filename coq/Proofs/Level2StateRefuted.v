(* C08 -- (1) the statement used by Props/C08.v, (2) machine-checked witnesses that the code before
   commit 7b53805 (no try/finally) violated the property, (3) non-vacuity. *)
From Coq Require Import ZArith List Bool Arith.
From MV Require Import Model.Level2State Model.Level2StateExec Proofs.Level2StateProofs.
Import ListNotations.

Lemma restored_and_repeat
  (V Q A GV Val : Type) (dV : V) (dQ : Q) (renorm : Q -> Q) (key_of : A -> option nat) (dim_ok exc_ok : A -> bool)
  (pix_shape : A -> list nat) (post : list GV -> Val) (F : nat -> nat -> ginput V Q -> gres GV)
  (w : wrapper) (p : list instr) (c : call) (sch : sched) (cnt : nat) (st : list (obj V Q A)) :
  wrapper_ok w p = true -> wf_store V Q A st -> (w = WFinallyTrim -> fix_store V Q A renorm st) ->
  r_store V Q A Val (getBH_level2 V Q A GV Val dV dQ renorm key_of dim_ok exc_ok pix_shape post F
                                  w p c sch cnt st) = st /\
  getBH_level2 V Q A GV Val dV dQ renorm key_of dim_ok exc_ok pix_shape post F w p c sch cnt
    (r_store V Q A Val (getBH_level2 V Q A GV Val dV dQ renorm key_of dim_ok exc_ok pix_shape post F
                                     w p c sch cnt st))
  = getBH_level2 V Q A GV Val dV dQ renorm key_of dim_ok exc_ok pix_shape post F w p c sch cnt st.
Proof.
  intros Hp Hw Hf. split.
  - apply state_restored; assumption.
  - apply second_call_identical; assumption.
Qed.

(* a static source without field function, a sensor with a two-step path *)
Definition w_src (k : option nat) : xobj := mkX [(1, 2, 3)%Z] [0%Z] (mkAttr k true true [1; 3]).
Definition w_sens : xobj := mkX [(0, 0, 1)%Z; (0, 0, 2)%Z] [0%Z; 5%Z] (mkAttr None true true [1; 3]).
Definition w_call : call := mkCall None false [SBare 0] (OList [OSens 1]) PNone true false.

Lemma w_wf k : wf_store XV XQ xattr [w_src k; w_sens].
Proof. repeat constructor. Qed.

Definition changed (w : wrapper) (p : list instr) (c : call) (sch : sched) (tab : list beh) (st : list xobj) : bool :=
  negb (store_eqb (r_store XV XQ xattr (list nat) (xrun w p c sch tab 0 st))
                  (map (fun o => (o_pos XV XQ xattr o, o_ori XV XQ xattr o)) st)).

Lemma store_eqb_refl (st : list xobj) :
  store_eqb st (map (fun o => (o_pos XV XQ xattr o, o_ori XV XQ xattr o)) st) = true.
Proof.
  induction st as [|o r IH]; simpl; auto. unfold store_eqb in *. simpl. rewrite IH.
  assert (H1 : forall l : list XV, list_eqb v_eqb l l = true).
  { induction l as [|[[x y] z] l IHl]; simpl; auto. rewrite !Z.eqb_refl, IHl. reflexivity. }
  assert (H2 : forall l : list XQ, list_eqb Z.eqb l l = true).
  { induction l as [|x l IHl]; simpl; auto. rewrite Z.eqb_refl, IHl. reflexivity. }
  rewrite H1, H2. reflexivity.
Qed.

Lemma changed_neq w p c sch tab st :
  changed w p c sch tab st = true -> r_store XV XQ xattr (list nat) (xrun w p c sch tab 0 st) <> st.
Proof.
  unfold changed. intros H E. rewrite E in H. rewrite store_eqb_refl in H. discriminate.
Qed.

(* pre-fix code, field_func None: MagpylibMissingInput after tiling, the source keeps 2 path steps *)
Lemma prefix_refuted_field_func_none :
  exists (c : call) (tab : list beh) (st : list xobj),
    wf_store XV XQ xattr st /\
    r_out XV XQ xattr (list nat) (xrun WPlain prog_prefix c no_sched tab 0 st) = Raised (list nat) EMissing /\
    r_store XV XQ xattr (list nat) (xrun WPlain prog_prefix c no_sched tab 0 st) <> st.
Proof.
  exists w_call, [], [w_src None; w_sens]. split; [apply w_wf|]. split; [vm_compute; reflexivity|].
  apply changed_neq. vm_compute. reflexivity.
Qed.

(* pre-fix code, a custom field function that raises / returns None / a wrong shape on its first call *)
Lemma prefix_refuted_field_func_faults :
  forall b, In b [BNone; BRaise; BWrong] ->
    r_store XV XQ xattr (list nat) (xrun WPlain prog_prefix w_call no_sched [b] 0 [w_src (Some 3); w_sens])
    <> [w_src (Some 3); w_sens].
Proof.
  intros b Hb. apply changed_neq. simpl in Hb.
  destruct Hb as [<-|[<-|[<-|[]]]]; vm_compute; reflexivity.
Qed.

(* pre-fix code, a crash at ANY statement between the tiling loop and the reset loop *)
Lemma prefix_refuted_any_crash_point :
  forall pc, In pc (seq 25 12) ->
    r_store XV XQ xattr (list nat) (xrun WPlain prog_prefix w_call (anon_at pc) [] 0 [w_src (Some 3); w_sens])
    <> [w_src (Some 3); w_sens].
Proof.
  intros pc Hpc. apply changed_neq.
  assert (H : forallb (fun pc => changed WPlain prog_prefix w_call (anon_at pc) [] [w_src (Some 3); w_sens])
                      (seq 25 12) = true) by (vm_compute; reflexivity).
  rewrite forallb_forall in H. apply H, Hpc.
Qed.

(* both repaired shapes are accepted by the static check, the old one is not *)
Definition prog_trim : list instr := firstn 24 prog_prefix ++ IRecord :: skipn 24 prog_prefix.
Definition prog_restore : list instr := firstn 24 prog_prefix ++ IRecordOrig :: skipn 24 prog_prefix.
Lemma shapes_accepted :
  wrapper_ok WFinallyTrim prog_trim = true /\ wrapper_ok WFinallyRestore prog_restore = true /\
  wrapper_ok WPlain prog_prefix = false /\ wrapper_ok WFinallyTrim prog_prefix = false /\
  wrapper_ok WFinallyTrim prog_restore = false /\ wrapper_ok WFinallyRestore prog_trim = false.
Proof. vm_compute. repeat split. Qed.

(* the same inputs under the current shape of the code: restored *)
Lemma current_shape_witness :
  forallb (fun pc => negb (changed WFinallyTrim (firstn 24 prog_prefix ++ IRecord :: skipn 24 prog_prefix)
                                   w_call (anon_at pc) [] [w_src (Some 3); w_sens])) (seq 0 45) = true.
Proof. vm_compute. reflexivity. Qed.

(* the finding repaired by commit e5d1a5c: with a re-normalisation that is not the identity on a stored
   quaternion, the TRIMMING finally returns normally and leaves that quaternion changed (a SUCCESSFUL
   call changes the object), while the restoring finally gives the store back *)
Definition rn_bump (q : XQ) : XQ := (q + 1)%Z.
Lemma trimming_finally_renorm_refuted :
  r_out XV XQ xattr (list nat) (xrun_r rn_bump WFinallyTrim prog_trim w_call no_sched [] 0 [w_src (Some 3); w_sens])
    = Returned (list nat) (Some [3]) /\
  r_store XV XQ xattr (list nat) (xrun_r rn_bump WFinallyTrim prog_trim w_call no_sched [] 0 [w_src (Some 3); w_sens])
    <> [w_src (Some 3); w_sens] /\
  r_store XV XQ xattr (list nat) (xrun_r rn_bump WFinallyRestore prog_restore w_call no_sched [] 0 [w_src (Some 3); w_sens])
    = [w_src (Some 3); w_sens].
Proof.
  split; [vm_compute; reflexivity|]. split; [|vm_compute; reflexivity].
  intros E.
  assert (H : store_eqb (r_store XV XQ xattr (list nat)
                 (xrun_r rn_bump WFinallyTrim prog_trim w_call no_sched [] 0 [w_src (Some 3); w_sens]))
                (map (fun o => (o_pos XV XQ xattr o, o_ori XV XQ xattr o)) [w_src (Some 3); w_sens]) = false)
    by (vm_compute; reflexivity).
  rewrite E in H. rewrite store_eqb_refl in H. discriminate.
Qed.
