(* Constructor, list setters, parent setter; the step function without copy. *)
From Coq Require Import List Bool Arith PeanoNat Lia.
From MV Require Import Model.ForestModel Model.ForestExec Proofs.ForestInv Proofs.ForestBase
  Proofs.ForestOps Proofs.ForestRm Proofs.ForestDepth Proofs.ForestStep.
Import ListNotations.

(* ---------------------------------------------------------------- a new object *)
Lemma get_app_cases s o x :
  get (s ++ [o]) x = if Nat.ltb x (length s) then get s x
                     else if Nat.eqb x (length s) then o else junk_obj.
Proof.
  destruct (Nat.ltb_spec x (length s)).
  - apply get_app_l. exact H.
  - destruct (Nat.eqb_spec x (length s)).
    + subst. apply get_app_new.
    + apply get_oob. rewrite app_length. simpl. lia.
Qed.

Lemma get_new_fields s k x :
  par (s ++ [new_obj k]) x = par s x /\ chl (s ++ [new_obj k]) x = chl s x /\
  sources (get (s ++ [new_obj k]) x) = sources (get s x) /\
  sensors (get (s ++ [new_obj k]) x) = sensors (get s x) /\
  collections (get (s ++ [new_obj k]) x) = collections (get s x).
Proof.
  rewrite get_app_cases. destruct (Nat.ltb_spec x (length s)); auto.
  rewrite (get_oob s x) by exact H. destruct (Nat.eqb x (length s)); simpl; auto.
Qed.

Lemma kd_new s k x : kd s x <> KJunk -> kd (s ++ [new_obj k]) x = kd s x.
Proof.
  intros H. apply nonjunk_lt in H. unfold kd. rewrite get_app_l by exact H. reflexivity.
Qed.

Lemma kd_new_lt s k x : x < length s -> kd (s ++ [new_obj k]) x = kd s x.
Proof. intros H. unfold kd. rewrite get_app_l by exact H. reflexivity. Qed.

Lemma Inv_new s k : Inv s -> Inv (s ++ [new_obj k]).
Proof.
  intros HI. set (t := s ++ [new_obj k]).
  assert (P : forall x, par t x = par s x) by (intros; apply get_new_fields).
  assert (C : forall x, chl t x = chl s x) by (intros; apply get_new_fields).
  assert (L : length t = S (length s)) by (unfold t; rewrite app_length; simpl; lia).
  split.
  - intros x p Hp. rewrite P in Hp. destruct (inv_parent _ HI x p Hp) as (A & B & D).
    rewrite L, C. repeat split; auto. unfold t. rewrite kd_new_lt; auto.
  - intros p x Hx. rewrite C in Hx. destruct (inv_child _ HI p x Hx) as (A & B & D).
    rewrite L, P. repeat split; auto. unfold t. rewrite kd_new_lt; auto.
  - intros i Hi. rewrite C. destruct (Nat.lt_ge_cases i (length s)).
    + apply (inv_leaf _ HI). unfold t in Hi. rewrite kd_new_lt in Hi; auto.
    + rewrite get_oob; auto.
  - eapply acyclic_sub; [|exact (inv_acyclic _ HI)]. intros x p. rewrite P. auto.
  - intros c. unfold views_ok. destruct (get_new_fields s k c) as (_ & E2 & E3 & E4 & E5).
    fold t in E2, E3, E4, E5. rewrite E2, E3, E4, E5.
    destruct (inv_views _ HI c) as (V1 & V2 & V3).
    assert (F : forall kk, filter (is_k kk t) (chl s c) = filter (is_k kk s) (chl s c)).
    { intros kk. apply filter_ext_in. intros x Hx. unfold is_k, t. rewrite kd_new_lt; auto.
      apply (inv_child _ HI c x Hx). }
    rewrite !F. auto.
Qed.

Lemma ctor_inv s objs ov : Inv s -> Inv (fst (ctor repaired s objs ov)).
Proof.
  intros HI. unfold ctor. apply add_inv.
  - apply Inv_new. exact HI.
  - unfold is_coll, is_k, kd. rewrite get_app_new. reflexivity.
Qed.

(* ---------------------------------------------------------------- detaching several children *)
Lemma detach_all_props l : forall s,
  length (detach_all s l) = length s /\
  (forall y, kd (detach_all s l) y = kd s y) /\
  (forall y, chl (detach_all s l) y = chl s y) /\
  (forall y, par (detach_all s l) y = if mem y l && Nat.ltb y (length s) then None else par s y) /\
  (Views s -> Views (detach_all s l)).
Proof.
  induction l as [|a l IH]; intros s.
  - unfold detach_all. simpl. split; [|split; [|split; [|split]]]; auto.
  - destruct (IH (set_parent s a None)) as (A & B & C & D & E). unfold detach_all in *. simpl.
    simpl in A, B, C, D, E.
    rewrite A, sp_length. split; [|split; [|split; [|split]]]; auto.
    + intros y. rewrite B, sp_kd. reflexivity.
    + intros y. rewrite C, sp_chl. reflexivity.
    + intros y. rewrite D, sp_par, sp_length.
      destruct (Nat.eqb_spec a y).
      * subst a. rewrite Nat.eqb_refl. simpl.
        destruct (Nat.ltb y (length s)); simpl; [destruct (mem y l); reflexivity|].
        rewrite andb_false_r. reflexivity.
      * destruct (Nat.eqb_spec y a); [congruence|]. simpl. reflexivity.
    + intros V. apply E. apply views_set_parent. exact V.
Qed.

(* detach the children selected by P, keep the others (children setter: all; typed setters:
   the members of the cached typed list) *)
Lemma split_off s c (P : nat -> bool) : Inv s ->
  Inv (setch (detach_all s (filter P (chl s c))) c (filter (fun x => negb (P x)) (chl s c))).
Proof.
  intros HI. set (Lp := filter P (chl s c)). set (Ln := filter (fun x => negb (P x)) (chl s c)).
  destruct (detach_all_props Lp s) as (A & B & C & D & E). set (s1 := detach_all s Lp) in *.
  assert (Psub : forall x q, par s1 x = Some q -> par s x = Some q /\ ~ In x Lp).
  { intros x q H. rewrite D in H. destruct (mem x Lp && Nat.ltb x (length s)) eqn:M; [discriminate|].
    split; auto. intros I. apply mem_In in I. rewrite I in M. simpl in M.
    apply par_lt in H. apply Nat.ltb_lt in H. congruence. }
  split.
  - intros x q Hq. rewrite setch_par in Hq. destruct (Psub x q Hq) as (Hq' & Hn).
    destruct (inv_parent _ HI x q Hq') as (A1 & A2 & A3).
    rewrite setch_length, setch_kd, setch_chl, A, B, C. repeat split; auto.
    destruct (Nat.eqb q c && Nat.ltb c (length s)) eqn:Eq; auto.
    eqb_true Eq. subst q. unfold Ln. rewrite count_filter.
    destruct (P x) eqn:Px; simpl; auto. exfalso. apply Hn. apply filter_In. split; auto.
    apply count_pos. lia.
  - intros q x Hx. rewrite setch_chl, A, C in Hx. rewrite setch_length, setch_kd, setch_par, A, B, D.
    destruct (Nat.eqb q c && Nat.ltb c (length s)) eqn:Eq.
    + eqb_true Eq. subst q. apply filter_In in Hx. destruct Hx as [Hx Px].
      destruct (inv_child _ HI c x Hx) as (A1 & A2 & A3). repeat split; auto.
      replace (mem x Lp) with false; auto. symmetry. apply mem_false. intros I.
      apply filter_In in I. destruct I as [_ I]. rewrite I in Px. discriminate.
    + destruct (inv_child _ HI q x Hx) as (A1 & A2 & A3). repeat split; auto.
      replace (mem x Lp) with false; auto. symmetry. apply mem_false. intros I.
      apply filter_In in I. destruct I as [I _].
      destruct (inv_child _ HI c x I) as (_ & _ & A4). rewrite A3 in A4. inversion A4. subst q.
      rewrite Nat.eqb_refl in Eq. simpl in Eq. apply chl_lt in I. apply Nat.ltb_lt in I. congruence.
  - intros i Hi. rewrite setch_kd, B in Hi. rewrite setch_chl, A, C.
    destruct (Nat.eqb i c && Nat.ltb c (length s)) eqn:Eq.
    + eqb_true Eq. subst i. unfold Ln. rewrite (inv_leaf _ HI c Hi). reflexivity.
    + apply (inv_leaf _ HI). exact Hi.
  - eapply acyclic_sub; [|exact (inv_acyclic _ HI)]. intros x q Hq. rewrite setch_par in Hq.
    apply (Psub x q Hq).
  - apply views_setch. apply E. exact (inv_views _ HI).
Qed.

Lemma filter_true {A} (l : list A) : filter (fun _ => true) l = l.
Proof. induction l; simpl; congruence. Qed.
Lemma filter_false {A} (l : list A) : filter (fun _ => negb true) l = [].
Proof. induction l; simpl; auto. Qed.

Lemma set_children_op_inv s c objs : Inv s -> is_coll s c = true ->
  Inv (fst (set_children_op repaired s c objs)).
Proof.
  intros HI Cc. unfold set_children_op, maybe_refresh. cbn [v_refresh repaired].
  pose proof (split_off s c (fun _ => true) HI) as H.
  rewrite filter_true, filter_false in H. unfold setch in H.
  apply add_inv; auto.
  unfold is_coll, is_k. rewrite rf_kd, sc_kd.
  destruct (detach_all_props (chl s c) s) as (_ & B & _). rewrite B. exact Cc.
Qed.

Lemma set_typed_op_inv s c k objs : Inv s -> is_coll s c = true ->
  Inv (fst (set_typed_op repaired s c k objs)).
Proof.
  intros HI Cc. unfold set_typed_op, maybe_refresh, drop_typed. cbn [v_refresh repaired].
  set (typed := match k with KSource => sources (get s c) | KSensor => sensors (get s c)
                           | _ => collections (get s c) end).
  pose proof (split_off s c (fun x => mem x typed) HI) as H. unfold setch in H.
  set (s1 := refresh _ c) in *.
  assert (C1 : is_coll s1 c = true).
  { unfold s1, is_coll, is_k. rewrite rf_kd, sc_kd.
    destruct (detach_all_props (filter (fun x => mem x typed) (chl s c)) s) as (_ & B & _).
    rewrite B. exact Cc. }
  destruct k; try (destruct (format_typed s1 _ objs); [apply add_inv; auto | exact H]);
    apply add_inv; auto.
Qed.

(* ---------------------------------------------------------------- parent setter *)
Lemma upd_upd s i f g : upd (upd s i f) i g = upd s i (fun o => g (f o)).
Proof. revert i. induction s as [|o r IH]; intros [|i]; simpl; auto. rewrite IH. reflexivity. Qed.

Lemma set_parent_twice s x p : set_parent (set_parent s x p) x p = set_parent s x p.
Proof. unfold set_parent. rewrite upd_upd. reflexivity. Qed.

Lemma set_parent_op_inv s x p : Inv s -> live s x = true ->
  Inv (fst (set_parent_op repaired s x p)).
Proof.
  intros HI Lx. unfold set_parent_op. destruct p as [c|].
  - destruct (is_coll s c) eqn:Cc; auto. apply add_inv; auto.
  - destruct (par s x) as [q|] eqn:Hq; auto.
    unfold live in Lx. apply andb_prop in Lx. destruct Lx as [_ Lx].
    assert (Kx : kd s x <> KJunk) by (apply is_junk_kd; destruct (is_junk s x); auto; discriminate).
    rewrite (remove_single s q [] x q (Inv_J s q HI) Hq (fun f => f) Kx). simpl.
    unfold detach. rewrite set_parent_twice. apply (J_Inv _ q). apply (J_detach s q [] q x); auto.
    apply Inv_J. exact HI.
Qed.
