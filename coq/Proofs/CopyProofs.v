(* C18: copy = deepcopy (modelled) + label iteration + keyword overrides. *)
From Coq Require Import List Bool Arith PeanoNat Lia.
From MV Require Import Model.ForestModel Model.ForestExec Model.CopyModel
  Proofs.ForestInv Proofs.ForestBase Proofs.ForestStep Proofs.ForestCopy Proofs.ForestMain Proofs.CopyBase.
Import ListNotations.

(* what reading an object shows depends on its record and on its own cells only *)
Lemma view_stable u u' i :
  cget u' i = cget u i -> (forall c, In c (owned u i) -> hget u' c = hget u c) ->
  view u' i = view u i.
Proof.
  intros E Hh. unfold view.
  assert (A : map (hget u') (attrs (cget u' i)) = map (hget u) (attrs (cget u i))).
  { rewrite E. apply map_ext_in. intros c Hc. apply Hh. apply owned_cases. auto. }
  assert (B : style_view u' i = style_view u i).
  { unfold style_view. rewrite E. destruct (style_cell (cget u i)) as [c|] eqn:Es.
    - apply Hh. apply owned_cases. auto.
    - destruct (skw_pending (cget u i)); auto. apply Hh. apply owned_cases. auto. }
  rewrite A, B, E. reflexivity.
Qed.

Lemma hget_ext u u' l c : heap u' = heap u ++ l -> c < length (heap u) -> hget u' c = hget u c.
Proof. intros E L. unfold hget. rewrite E. apply app_nth1. exact L. Qed.

(* object k gets a new record with the same attribute cells and label, the heap only grows, and
   the style of k still shows the same value: no reading of any object changes *)
Lemma view_realloc u u' k o' l j :
  co u' = lupd (co u) k o' -> heap u' = heap u ++ l ->
  attrs o' = attrs (cget u k) -> lab o' = lab (cget u k) ->
  (k < length (co u) -> style_view u' k = style_view u k) ->
  (forall c, In c (owned u j) -> c < length (heap u)) ->
  view u' j = view u j.
Proof.
  intros Hco Hh Ha Hl Hs B.
  assert (G : cget u' j = if Nat.eqb j k && Nat.ltb k (length (co u)) then o' else cget u j).
  { unfold cget at 1. rewrite Hco. apply cget_lupd. }
  destruct (Nat.eqb j k && Nat.ltb k (length (co u))) eqn:E.
  - apply andb_prop in E. destruct E as [E1 E2]. apply Nat.eqb_eq in E1. subst j.
    apply Nat.ltb_lt in E2. unfold view. rewrite (Hs E2), G, Ha, Hl. f_equal. f_equal.
    apply map_ext_in. intros c Hc. apply (hget_ext u u' l); auto. apply B. apply owned_cases. auto.
  - apply view_stable; auto. intros c Hc. apply (hget_ext u u' l); auto.
Qed.

Lemma view_touch u k j : (forall c, In c (owned u k) -> c < length (heap u)) ->
  (forall c, In c (owned u j) -> c < length (heap u)) ->
  view (touch_style u k) j = view u j.
Proof.
  intros Bk B. unfold touch_style.
  destruct (style_cell (cget u k)) as [c0|] eqn:Es, (skw_pending (cget u k)) eqn:Ep; auto.
  - eapply view_realloc; simpl; eauto. intros L. unfold style_view, cget. simpl.
    rewrite cget_lupd, Nat.eqb_refl. apply Nat.ltb_lt in L. rewrite L. simpl.
    fold (cget u k). rewrite Es. unfold hget. simpl. apply app_nth1. apply Bk. apply owned_cases. auto.
  - eapply view_realloc; simpl; eauto. intros L. unfold style_view, cget. simpl.
    rewrite cget_lupd, Nat.eqb_refl. apply Nat.ltb_lt in L. rewrite L. simpl.
    fold (cget u k). rewrite Es, Ep. unfold hget at 1. simpl.
    rewrite app_nth2 by lia. rewrite Nat.sub_diag. reflexivity.
  - eapply view_realloc; simpl; eauto. intros L. unfold style_view, cget. simpl.
    rewrite cget_lupd, Nat.eqb_refl. apply Nat.ltb_lt in L. rewrite L. simpl.
    fold (cget u k). rewrite Es, Ep. unfold hget at 1. simpl.
    rewrite app_nth2 by lia. rewrite Nat.sub_diag. reflexivity.
Qed.

Lemma view_set_label u k l j : j <> k -> view (set_label u k l) j = view u j.
Proof.
  intros H. apply view_stable; auto. unfold set_label, cupd, cget. simpl. rewrite cget_lupd.
  destruct (Nat.eqb_spec j k); [contradiction | reflexivity].
Qed.

Lemma view_set_label_same u k l : k < length (co u) ->
  view (set_label u k l) k = (fst (view u k), l).
Proof.
  intros L. unfold view, style_view, set_label, cupd, cget. simpl. rewrite cget_lupd, Nat.eqb_refl.
  apply Nat.ltb_lt in L. rewrite L. simpl. reflexivity.
Qed.

Lemma live_lown u i c : is_junk (fs u) i = false -> In c (owned u i) -> In c (lown u i).
Proof. intros H. unfold lown. rewrite H. auto. Qed.

(* ---------------------------------------------------------------- the copy *)
Section CopyThm.
Variables (s : cstate) (x : nat).
Hypothesis HW : WF s.
Hypothesis Hx : live (fs s) x = true.
Let n := length (fs s).
Let H := length (heap s).
Let y := n + x.
Let s1 := deepcopy s x.
Let S o := in_subtree (fs s) x o = true.

Lemma HI : Inv (fs s). Proof. apply HW. Qed.
Lemma Hlen : length (co s) = n. Proof. apply HW. Qed.
Lemma HB : Bounded s. Proof. apply HW. Qed.

Lemma s1_old i : i < n -> cget s1 i = cget s i.
Proof.
  intros L. unfold s1, deepcopy, cget. simpl. apply app_nth1. rewrite Hlen. exact L.
Qed.

Lemma s1_clone o : o < n -> cget s1 (n + o) =
  if in_subtree (fs s) x o then clone_cobj H (cget s o) else dead_cobj.
Proof.
  intros L. unfold s1, deepcopy, cget. simpl. rewrite app_nth2 by (rewrite Hlen; fold n; lia).
  rewrite Hlen. fold n. replace (n + o - n) with o by lia.
  set (f := fun o0 => if in_subtree (fs s) x o0 then clone_cobj (length (heap s)) (nth o0 (co s) dead_cobj)
                      else dead_cobj).
  rewrite (nth_indep _ dead_cobj (f 0)) by (rewrite map_length, seq_length; exact L).
  rewrite map_nth. rewrite seq_nth by exact L. reflexivity.
Qed.

Lemma s1_hget_old c : c < H -> hget s1 c = hget s c.
Proof. intros L. unfold s1, deepcopy, hget. simpl. apply app_nth1. exact L. Qed.
Lemma s1_hget_new c : c < H -> hget s1 (H + c) = hget s c.
Proof.
  intros L. unfold s1, deepcopy, hget. simpl. rewrite app_nth2 by (fold H; lia).
  f_equal. fold H. lia.
Qed.

Lemma fs_s1 : fs s1 = copy_op (fs s) x. Proof. reflexivity. Qed.

Lemma junk_old i : i < n -> is_junk (fs s1) i = is_junk (fs s) i.
Proof. intros L. unfold is_junk, is_k. rewrite fs_s1. rewrite (kd_t_old (fs s) x i L). reflexivity. Qed.

Lemma y_live : is_junk (fs s1) y = false.
Proof.
  unfold is_junk, is_k, y, n. rewrite fs_s1, (kd_t_clone (fs s) x HI Hx x (S_x (fs s) x HI)).
  pose proof (x_nonjunk (fs s) x Hx). destruct (kd (fs s) x); auto; congruence.
Qed.

Lemma old_bound i c : i < n -> is_junk (fs s) i = false -> In c (owned s i) -> c < H.
Proof. intros L J Hc. apply (HB i c). apply live_lown; auto. Qed.

(* the two sides are separated right after the deepcopy *)
Lemma sep_s1 : Sep n s1.
Proof.
  assert (O1 : forall i c, i < n -> In c (lown s1 i) -> c < H).
  { intros i c L Hc. unfold lown in Hc. rewrite junk_old in Hc by exact L.
    destruct (is_junk (fs s) i) eqn:J; [contradiction|].
    unfold owned in Hc. rewrite s1_old in Hc by exact L. eapply old_bound; eauto. }
  assert (O2 : forall j c, n <= j -> In c (lown s1 j) -> H <= c /\ c < H + H).
  { intros j c L Hc. unfold lown in Hc. destruct (is_junk (fs s1) j) eqn:J; [contradiction|].
    destruct (Nat.lt_ge_cases j (n + n)) as [L2|L2].
    - replace j with (n + (j - n)) in Hc, J by lia. unfold owned in Hc.
      rewrite s1_clone in Hc by lia. destruct (in_subtree (fs s) x (j - n)) eqn:E.
      + pose proof (S_lt (fs s) x HI Hx (j - n) E) as (Lo & Ko). apply is_junk_kd in Ko.
        assert (Bo : forall c', In c' (owned s (j - n)) -> c' < H) by (intros; eapply old_bound; eauto).
        unfold clone_cobj in Hc. apply cells_of_mk in Hc. destruct Hc as [Hc|[Hc|Hc]].
        * apply In_shift in Hc. destruct Hc as (c' & -> & Hc'). 
          assert (c' < H) by (apply Bo; apply owned_cases; auto). lia.
        * assert (skw_cell (cget s (j - n)) < H) by (apply Bo; apply owned_cases; auto). lia.
        * destruct (style_cell (cget s (j - n))) as [c'|] eqn:Es; [|discriminate]. simpl in Hc.
          inversion Hc. assert (c' < H) by (apply Bo; apply owned_cases; auto). lia.
      + exfalso. unfold is_junk, is_k in J. rewrite fs_s1 in J. unfold kd in J.
        pose proof (t_dead (fs s) x (j - n)) as TD. fold n in TD.
        rewrite TD in J; [discriminate | lia | congruence].
    - exfalso. unfold is_junk, is_k, kd in J. rewrite get_oob in J; [discriminate|].
      rewrite fs_s1, copy_length. fold n. lia. }
  split.
  - intros i j c Li Lj Hi Hj. apply O1 in Hi; auto. apply O2 in Hj; auto. lia.
  - intros i c Hc. unfold s1, deepcopy. simpl. rewrite app_length. fold H.
    destruct (Nat.lt_ge_cases i n) as [L|L]; [apply O1 in Hc; auto; lia | apply O2 in Hc; auto; lia].
Qed.

(* right after the deepcopy the originals read the same ... *)
Lemma view_s1_old i : i < n -> is_junk (fs s) i = false -> view s1 i = view s i.
Proof.
  intros L J. apply view_stable.
  - apply s1_old. exact L.
  - intros c Hc. apply s1_hget_old. eapply old_bound; eauto.
Qed.

(* ... and every clone reads like its original *)
Lemma view_s1_clone o : S o -> view s1 (n + o) = view s o.
Proof.
  intros So. pose proof (S_lt (fs s) x HI Hx o So) as (Lo & Ko). apply is_junk_kd in Ko.
  assert (Bo : forall c', In c' (owned s o) -> c' < H) by (intros; eapply old_bound; eauto).
  unfold view, style_view. rewrite s1_clone by exact Lo. unfold S in So. rewrite So.
  unfold clone_cobj. simpl. f_equal. f_equal.
  - unfold shift. rewrite map_map. apply map_ext_in. intros c Hc. apply s1_hget_new.
    apply Bo. apply owned_cases. auto.
  - destruct (style_cell (cget s o)) as [c|] eqn:Es; simpl.
    + apply s1_hget_new. apply Bo. apply owned_cases. auto.
    + destruct (skw_pending (cget s o)); auto. apply s1_hget_new. apply Bo. apply owned_cases. auto.
Qed.

(* ---- the steps after the deepcopy *)
Definition live1 (i : nat) : Prop := is_junk (fs s1) i = false.

Record PO (u : cstate) : Prop := mkPO {
  po_sep : Sep n u;
  po_fs : fs u = fs s1;
  po_old : forall i, i < n -> live1 i -> view u i = view s i }.

Record PF (u : cstate) : Prop := mkPF {
  pf_po : PO u;
  pf_len : length (co u) = n + n;
  pf_clone : forall o, S o -> o <> x -> view u (n + o) = view s o;
  pf_root : fst (view u y) = fst (view s x) }.

Lemma bounded_live u i : PO u -> live1 i -> forall c, In c (owned u i) -> c < length (heap u).
Proof.
  intros [[_ B] F _] L c Hc. apply (B i c). apply live_lown; auto. rewrite F. exact L.
Qed.

Lemma clone_live o : S o -> live1 (n + o).
Proof.
  intros So. unfold live1, is_junk, is_k, n. rewrite fs_s1, (kd_t_clone (fs s) x HI Hx o So).
  destruct (S_lt (fs s) x HI Hx o So) as (_ & K). destruct (kd (fs s) o); auto; congruence.
Qed.

Lemma old_live i : i < n -> live1 i <-> is_junk (fs s) i = false.
Proof. intros L. unfold live1. rewrite junk_old by exact L. tauto. Qed.

Lemma x_lt_n : x < n. Proof. apply (x_lt (fs s) x Hx). Qed.
Lemma x_live1 : live1 x.
Proof.
  apply old_live; [apply x_lt_n|]. apply is_junk_kd. apply (x_nonjunk (fs s) x Hx).
Qed.

Lemma PF_s1 : PF s1.
Proof.
  split; [split|..].
  - apply sep_s1.
  - reflexivity.
  - intros i L Li. apply view_s1_old; auto. apply old_live; auto.
  - unfold s1, deepcopy. simpl. rewrite app_length, map_length, seq_length, Hlen. reflexivity.
  - intros o So _. apply view_s1_clone. exact So.
  - unfold y. rewrite view_s1_clone; auto. apply (S_x (fs s) x HI).
Qed.

Lemma PO_touch u k : live1 k -> PO u -> PO (touch_style u k).
Proof.
  intros Lk HP. split.
  - apply Sep_touch. apply HP.
  - rewrite fs_touch. apply HP.
  - intros i L Li. rewrite view_touch; [apply HP; auto | |]; apply bounded_live; auto.
Qed.

Lemma touch_len u k : length (co (touch_style u k)) = length (co u).
Proof.
  unfold touch_style. destruct (style_cell (cget u k)), (skw_pending (cget u k)); simpl;
    rewrite ?lupd_length; reflexivity.
Qed.

Lemma PF_touch u k : live1 k -> PF u -> PF (touch_style u k).
Proof.
  intros Lk [HP Hl Hc Hr]. split.
  - apply PO_touch; auto.
  - rewrite touch_len. exact Hl.
  - intros o So Ho. rewrite view_touch; [apply Hc; auto | |]; apply bounded_live; auto.
    apply clone_live. exact So.
  - rewrite view_touch; [exact Hr | |]; apply bounded_live; auto;
      apply clone_live; apply (S_x (fs s) x HI).
Qed.

Lemma PO_set_label u l : PO u -> PO (set_label u y l).
Proof.
  intros HP. split.
  - apply Sep_set_label. apply HP.
  - apply HP.
  - intros i L Li. rewrite view_set_label; [apply HP; auto | unfold y; lia].
Qed.

Lemma PF_set_label u l : PF u -> PF (set_label u y l) /\ snd (view (set_label u y l) y) = l.
Proof.
  intros [HP Hl Hc Hr].
  assert (Ly : y < length (co u)) by (rewrite Hl; unfold y; pose proof x_lt_n; lia).
  split; [split|].
  - apply PO_set_label. exact HP.
  - unfold set_label, cupd. simpl. rewrite lupd_length. exact Hl.
  - intros o So Ho. rewrite view_set_label; [apply Hc; auto | unfold y; lia].
  - rewrite view_set_label_same by exact Ly. exact Hr.
  - rewrite view_set_label_same by exact Ly. reflexivity.
Qed.

Lemma hget_write u c v c' : c' <> c -> hget (write u c v) c' = hget u c'.
Proof.
  intros Hne. unfold hget, write. simpl. rewrite nth_lupd.
  destruct (Nat.eqb_spec c' c); [contradiction | reflexivity].
Qed.

Lemma PO_apply_kw u k : PO u -> PO (apply_kw u y k).
Proof.
  intros HP. pose proof (clone_live x (S_x (fs s) x HI)) as Ly. fold y in Ly.
  destruct k as [j v|v|l].
  - split.
    + apply (Sep_apply_kw n u y (KwAttr j v)). apply HP.
    + apply HP.
    + intros i L Li. rewrite <- (po_old u HP i L Li). apply view_stable.
      * unfold cget. simpl. rewrite cget_lupd.
        destruct (Nat.eqb_spec i y); [unfold y in *; lia | reflexivity].
      * intros c Hc. unfold hget. simpl. apply app_nth1. eapply bounded_live; eauto.
  - simpl. pose proof (PO_touch u y Ly HP) as HP1.
    destruct (style_cell (cget (touch_style u y) y)) as [c|] eqn:Es; auto.
    split.
    + apply Sep_write. apply HP1.
    + apply HP1.
    + intros i L Li. rewrite <- (po_old _ HP1 i L Li). apply view_stable; auto.
      intros c' Hc'. apply hget_write. intros ->.
      destruct (po_sep _ HP1) as [D _]. apply (D i y c L); [unfold y; lia | |].
      * apply live_lown; auto. rewrite (po_fs _ HP1). exact Li.
      * apply live_lown; [rewrite (po_fs _ HP1); exact Ly | apply owned_cases; auto].
  - simpl. apply PO_set_label. apply PO_touch; auto.
Qed.

Lemma PO_fold ks : forall u, PO u -> PO (fold_left (fun s k => apply_kw s y k) ks u).
Proof. induction ks as [|k ks IH]; intros u HP; simpl; auto. apply IH. apply PO_apply_kw. exact HP. Qed.

(* the state after deepcopy + label iteration *)
Definition s2 : cstate :=
  match style_cell (cget s x), skw_pending (cget s x) with
  | None, false => s1
  | _, _ => set_label (touch_style (touch_style s1 x) y) y (iterate_label (lab (cget s x)))
  end.

Lemma PF_s2 : PF s2 /\
  snd (view s2 y) = match style_cell (cget s x), skw_pending (cget s x) with
                    | None, false => lab (cget s x)
                    | _, _ => iterate_label (lab (cget s x)) end.
Proof.
  pose proof (clone_live x (S_x (fs s) x HI)) as Ly. fold y in Ly.
  assert (G : forall l, PF (set_label (touch_style (touch_style s1 x) y) y l) /\
                        snd (view (set_label (touch_style (touch_style s1 x) y) y l) y) = l).
  { intros l. apply PF_set_label. apply PF_touch; auto. apply PF_touch; [apply x_live1 | apply PF_s1]. }
  unfold s2. destruct (style_cell (cget s x)), (skw_pending (cget s x)); auto.
  split; [apply PF_s1|]. unfold y. rewrite view_s1_clone by apply (S_x (fs s) x HI). reflexivity.
Qed.

Lemma copy_unfold kws : copy s x kws =
  fold_left (fun s k => apply_kw s y k) (filter is_style_kw kws)
    (fold_left (fun s k => apply_kw s y k) (filter (fun k => negb (is_style_kw k)) kws) s2).
Proof. unfold copy, s2, s1, y, n. destruct (style_cell (cget s x)), (skw_pending (cget s x)); reflexivity. Qed.

Lemma PO_copy kws : PO (copy s x kws).
Proof. rewrite copy_unfold. apply PO_fold. apply PO_fold. apply PF_s2. Qed.

(* ---- the cells of the ORIGINAL objects: nothing is added to them by a copy except the fresh
   cells of the lazily created style of x *)
Record PC (u : cstate) : Prop := mkPC {
  pc_fs : fs u = fs s1;
  pc_heap : H <= length (heap u);
  pc_cells : forall i c, i < n -> In c (lown u i) -> In c (lown s i) \/ (i = x /\ H <= c) }.

Lemma PC_s1 : PC s1.
Proof.
  split.
  - reflexivity.
  - unfold s1, deepcopy. simpl. rewrite app_length. fold H. lia.
  - intros i c L Hc. left. unfold lown in *. rewrite junk_old in Hc by exact L.
    destruct (is_junk (fs s) i); auto. unfold owned in *. rewrite s1_old in Hc by exact L. exact Hc.
Qed.

Lemma PC_realloc u u' k o' :
  fs u' = fs u -> co u' = lupd (co u) k o' -> length (heap u) <= length (heap u') ->
  (k = x \/ n <= k) ->
  (forall c, In c (cells_of o') -> In c (owned u k) \/ length (heap u) <= c) ->
  PC u -> PC u'.
Proof.
  intros Hfs Hco Hh Hk Hc [P1 P2 P3]. split.
  - congruence.
  - lia.
  - intros i c L Hi. unfold lown in Hi. rewrite Hfs in Hi.
    destruct (is_junk (fs u) i) eqn:Ej; [contradiction|].
    unfold owned, cget in Hi. rewrite Hco, cget_lupd in Hi.
    destruct (Nat.eqb i k && Nat.ltb k (length (co u))) eqn:E.
    + apply andb_prop in E. destruct E as [E _]. apply Nat.eqb_eq in E. subst k.
      destruct Hk as [->|Hk]; [|lia]. apply Hc in Hi. destruct Hi as [Hi|Hi].
      * apply (P3 x c L). unfold lown. rewrite Ej. exact Hi.
      * right. split; auto. lia.
    + apply (P3 i c L). unfold lown. rewrite Ej. exact Hi.
Qed.

Lemma PC_touch u k : (k = x \/ n <= k) -> PC u -> PC (touch_style u k).
Proof.
  intros Hk HP. unfold touch_style.
  destruct (style_cell (cget u k)) as [c0|] eqn:Es, (skw_pending (cget u k)) eqn:Ep; auto.
  - eapply (PC_realloc u _ k); [reflexivity | simpl; reflexivity | | exact Hk | | exact HP]; simpl.
    + rewrite app_length. lia.
    + intros c Hc. apply cells_of_mk in Hc. destruct Hc as [Hc|[Hc|Hc]].
      * left. apply owned_cases. auto.
      * right. lia.
      * left. apply owned_cases. inversion Hc. subst. auto.
  - eapply (PC_realloc u _ k); [reflexivity | simpl; reflexivity | | exact Hk | | exact HP]; simpl.
    + rewrite app_length. lia.
    + intros c Hc. apply cells_of_mk in Hc. destruct Hc as [Hc|[Hc|Hc]].
      * left. apply owned_cases. auto.
      * right. lia.
      * right. inversion Hc. lia.
  - eapply (PC_realloc u _ k); [reflexivity | simpl; reflexivity | | exact Hk | | exact HP]; simpl.
    + rewrite app_length. lia.
    + intros c Hc. apply cells_of_mk in Hc. destruct Hc as [Hc|[Hc|Hc]].
      * left. apply owned_cases. auto.
      * left. apply owned_cases. auto.
      * right. inversion Hc. lia.
Qed.

Lemma PC_set_label u k l : (k = x \/ n <= k) -> PC u -> PC (set_label u k l).
Proof.
  intros Hk HP. unfold set_label, cupd.
  eapply (PC_realloc u _ k); [reflexivity | simpl; reflexivity | | exact Hk | | exact HP]; simpl; auto.
Qed.

Lemma PC_write u c v : PC u -> PC (write u c v).
Proof.
  intros [P1 P2 P3]. split; auto. unfold write. simpl. rewrite lupd_length. exact P2.
Qed.

Lemma PC_apply_kw u k : PC u -> PC (apply_kw u y k).
Proof.
  intros HP. assert (Hy : y = x \/ n <= y) by (right; unfold y; lia).
  destruct k as [j v|v|l]; simpl.
  - eapply (PC_realloc u _ y); [reflexivity | simpl; reflexivity | | exact Hy | | exact HP]; simpl.
    + rewrite app_length. lia.
    + intros c Hc. apply cells_of_mk in Hc. destruct Hc as [Hc|[Hc|Hc]].
      * apply In_lupd in Hc. destruct Hc as [->|Hc]; [right; lia|]. left. apply owned_cases. auto.
      * left. apply owned_cases. auto.
      * left. apply owned_cases. auto.
  - destruct (style_cell (cget (touch_style u y) y)); [apply PC_write|]; apply PC_touch; auto.
  - apply PC_set_label; auto. apply PC_touch; auto.
Qed.

Lemma PC_fold ks : forall u, PC u -> PC (fold_left (fun s k => apply_kw s y k) ks u).
Proof. induction ks as [|k ks IH]; intros u HP; simpl; auto. apply IH. apply PC_apply_kw. exact HP. Qed.

Lemma PC_copy kws : PC (copy s x kws).
Proof.
  rewrite copy_unfold. apply PC_fold. apply PC_fold. unfold s2.
  assert (Hy : y = x \/ n <= y) by (right; unfold y; lia).
  destruct (style_cell (cget s x)), (skw_pending (cget s x)); try apply PC_s1;
    apply PC_set_label; auto; apply PC_touch; auto; apply PC_touch; auto; apply PC_s1.
Qed.
End CopyThm.

(* ---------------------------------------------------------------- the theorems of C18 *)
Theorem copy_parentless s x kws : WF s -> live (fs s) x = true ->
  parent (get (fs (copy s x kws)) (length (fs s) + x)) = None.
Proof. intros HW Hx. rewrite fs_copy. apply copy_root_parentless; auto. apply HW. Qed.

Theorem copy_subtree_consistent s x kws : WF s -> live (fs s) x = true ->
  let t := fs (copy s x kws) in let n := length (fs s) in
  Inv t /\
  forall o, in_subtree (fs s) x o = true ->
    kd t (n + o) = kd (fs s) o /\
    children (get t (n + o)) = shift n (children (get (fs s) o)) /\
    (o <> x -> parent (get t (n + o)) = option_map (Nat.add n) (parent (get (fs s) o))).
Proof.
  intros HW Hx t n. unfold t. rewrite fs_copy. split.
  - apply copy_inv; auto. apply HW.
  - intros o So. apply copy_iso; auto. apply HW.
Qed.

Theorem copy_leaves_original s x kws : WF s -> live (fs s) x = true ->
  forall i, i < length (fs s) ->
    get (fs (copy s x kws)) i = get (fs s) i /\
    (is_junk (fs s) i = false -> view (copy s x kws) i = view s i).
Proof.
  intros HW Hx i L. split.
  - rewrite fs_copy. apply copy_old_untouched. exact L.
  - intros J. apply (po_old s x (copy s x kws) (PO_copy s x HW Hx kws) i L).
    apply (old_live s x i L). exact J.
Qed.

Theorem copy_separated s x kws : WF s -> live (fs s) x = true ->
  forall i j c, i < length (fs s) -> length (fs s) <= j ->
    In c (lown (copy s x kws) i) -> ~ In c (lown (copy s x kws) j).
Proof. intros HW Hx. apply (po_sep s x (copy s x kws) (PO_copy s x HW Hx kws)). Qed.

(* a write into any cell of one side is invisible on the other side *)
Theorem mutation_frame s x kws : WF s -> live (fs s) x = true ->
  let s' := copy s x kws in
  forall i j c v, i < length (fs s) -> length (fs s) <= j ->
    (In c (lown s' i) -> is_junk (fs s') j = false -> view (write s' c v) j = view s' j) /\
    (In c (lown s' j) -> is_junk (fs s') i = false -> view (write s' c v) i = view s' i).
Proof.
  intros HW Hx s' i j c v Li Lj.
  pose proof (copy_separated s x kws HW Hx i j) as D. fold s' in D.
  split; intros Hc J; apply view_stable; auto; intros c' Hc'; apply hget_write; intros ->.
  - apply (D c Li Lj Hc). apply live_lown; auto.
  - apply (D c Li Lj); auto. apply live_lown; auto.
Qed.

(* without keyword overrides every object of the copy reads like its original; only the label
   of the root is iterated, and only when a style exists or is pending *)
Theorem copy_equal s x : WF s -> live (fs s) x = true ->
  let s' := copy s x [] in let n := length (fs s) in
  forall o, in_subtree (fs s) x o = true ->
    fst (view s' (n + o)) = fst (view s o) /\
    snd (view s' (n + o)) =
      if Nat.eqb o x then
        match style_cell (cget s x), skw_pending (cget s x) with
        | None, false => lab (cget s x)
        | _, _ => iterate_label (lab (cget s x)) end
      else lab (cget s o).
Proof.
  intros HW Hx s' n o So. unfold s'. subst n. rewrite copy_unfold. cbn [filter fold_left].
  destruct (PF_s2 s x HW Hx) as (HP & Hl).
  destruct (Nat.eqb_spec o x) as [Eo|No].
  - subst o. split; [apply (pf_root s x _ HP) | exact Hl].
  - rewrite (pf_clone s x _ HP o So No). split; reflexivity.
Qed.


(* ---------------------------------------------------------------- a concrete well-formed world *)
Definition ex_world : cstate :=
  crun cinit [CNew KSensor [5; 6] 1 9 (Some (1, 0)); CNew KColl [1; 2] 0 0 None;
              CTree (Add 1 [0] false)].

Lemma ex_world_wf : WF ex_world /\ live (fs ex_world) 1 = true /\
  in_subtree (fs ex_world) 1 0 = true /\ skw_pending (cget ex_world 0) = true.
Proof.
  split; [|vm_compute; auto]. split; [|split].
  - change (fs ex_world) with (run repaired [] [NewObj KSensor; NewObj KColl; Add 1 [0] false]).
    apply ForestMain.inv_reachable.
  - reflexivity.
  - intros i c Hc. assert (E : length (heap ex_world) = 6) by reflexivity. rewrite E.
    destruct i as [|[|[|i]]]; vm_compute in Hc; intuition lia.
Qed.
(* ---------------------------------------------------------------- keyword overrides land in fresh cells *)
Lemma nth_lupd_same {A} (l : list A) j v d : j < length l -> nth j (lupd l j v) d = v.
Proof. intros L. rewrite nth_lupd, Nat.eqb_refl. apply Nat.ltb_lt in L. rewrite L. reflexivity. Qed.

(* setattr(obj_copy, name, value): the slot is rebound to a cell that did not exist before - it
   is the value that is stored, never the buffer that was passed *)
Lemma override_step_fresh u y j v : y < length (co u) -> j < length (attrs (cget u y)) ->
  let u' := apply_kw u y (KwAttr j v) in
  nth j (attrs (cget u' y)) 0 = length (heap u) /\
  hget u' (length (heap u)) = v /\
  (Bounded u -> forall i, ~ In (length (heap u)) (lown u i)).
Proof.
  intros Ly Lj u'. unfold u', apply_kw, cget. simpl. rewrite cget_lupd, Nat.eqb_refl.
  apply Nat.ltb_lt in Ly. rewrite Ly. simpl. repeat split.
  - apply nth_lupd_same. exact Lj.
  - unfold hget. simpl. rewrite app_nth2 by lia. rewrite Nat.sub_diag. reflexivity.
  - intros B i Hi. apply B in Hi. lia.
Qed.

(* after the whole copy: no attribute cell of the clone - overridden or not - can be reached from
   an original object *)
Theorem override_cells_separated s x kws : WF s -> live (fs s) x = true ->
  let s' := copy s x kws in let y := length (fs s) + x in
  forall c, In c (attrs (cget s' y)) ->
  forall i, i < length (fs s) -> ~ In c (lown s' i).
Proof.
  intros HW Hx s' y c Hc i Li Hi.
  apply (copy_separated s x kws HW Hx i y c Li); [unfold y; lia | exact Hi |].
  apply live_lown; [|apply owned_cases; auto].
  unfold s'. rewrite fs_copy. unfold is_junk, is_k, y.
  rewrite (kd_t_clone (fs s) x (proj1 HW) Hx x (S_x (fs s) x (proj1 HW))).
  pose proof (x_nonjunk (fs s) x Hx). destruct (kd (fs s) x); auto; congruence.
Qed.
