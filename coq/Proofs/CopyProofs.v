(* C18: copy = deepcopy (modelled) + label iteration + keyword overrides. *)
From Coq Require Import List Bool Arith PeanoNat Lia.
From MV Require Import Model.ForestModel Model.ForestExec Model.CopyModel
  Proofs.ForestInv Proofs.ForestBase Proofs.ForestStep Proofs.ForestCopy Proofs.CopyBase.
Import ListNotations.

(* what reading an object shows depends on its record and on its own cells only *)
Lemma view_stable u u' i :
  cget u' i = cget u i -> (forall c, In c (owned u i) -> hget u' c = hget u c) ->
  view u' i = view u i.
Proof.
  intros E Hh. unfold view.
  assert (A : map (hget u') (attrs (cget u' i)) = map (hget u) (attrs (cget u i))).
  { rewrite E. apply map_ext_in. intros c Hc. apply Hh. apply owned_cases. auto. }
  assert (B : style_view u' i = style_view u i).
  { unfold style_view. rewrite E. destruct (style_cell (cget u i)) as [c|] eqn:Es.
    - apply Hh. apply owned_cases. auto.
    - destruct (skw_pending (cget u i)); auto. apply Hh. apply owned_cases. auto. }
  rewrite A, B, E. reflexivity.
Qed.

Lemma hget_ext u u' l c : heap u' = heap u ++ l -> c < length (heap u) -> hget u' c = hget u c.
Proof. intros E L. unfold hget. rewrite E. apply app_nth1. exact L. Qed.

(* object k gets a new record with the same attribute cells and label, the heap only grows, and
   the style of k still shows the same value: no reading of any object changes *)
Lemma view_realloc u u' k o' l j :
  co u' = lupd (co u) k o' -> heap u' = heap u ++ l ->
  attrs o' = attrs (cget u k) -> lab o' = lab (cget u k) ->
  (k < length (co u) -> style_view u' k = style_view u k) ->
  (forall c, In c (owned u j) -> c < length (heap u)) ->
  view u' j = view u j.
Proof.
  intros Hco Hh Ha Hl Hs B.
  assert (G : cget u' j = if Nat.eqb j k && Nat.ltb k (length (co u)) then o' else cget u j).
  { unfold cget at 1. rewrite Hco. apply cget_lupd. }
  destruct (Nat.eqb j k && Nat.ltb k (length (co u))) eqn:E.
  - apply andb_prop in E. destruct E as [E1 E2]. apply Nat.eqb_eq in E1. subst j.
    apply Nat.ltb_lt in E2. unfold view. rewrite (Hs E2), G, Ha, Hl. f_equal. f_equal.
    apply map_ext_in. intros c Hc. apply (hget_ext u u' l); auto. apply B. apply owned_cases. auto.
  - apply view_stable; auto. intros c Hc. apply (hget_ext u u' l); auto.
Qed.

Lemma view_touch u k j : (forall c, In c (owned u k) -> c < length (heap u)) ->
  (forall c, In c (owned u j) -> c < length (heap u)) ->
  view (touch_style u k) j = view u j.
Proof.
  intros Bk B. unfold touch_style.
  destruct (style_cell (cget u k)) as [c0|] eqn:Es, (skw_pending (cget u k)) eqn:Ep; auto.
  - eapply view_realloc; simpl; eauto. intros L. unfold style_view, cget. simpl.
    rewrite cget_lupd, Nat.eqb_refl. apply Nat.ltb_lt in L. rewrite L. simpl.
    fold (cget u k). rewrite Es. unfold hget. simpl. apply app_nth1. apply Bk. apply owned_cases. auto.
  - eapply view_realloc; simpl; eauto. intros L. unfold style_view, cget. simpl.
    rewrite cget_lupd, Nat.eqb_refl. apply Nat.ltb_lt in L. rewrite L. simpl.
    fold (cget u k). rewrite Es, Ep. unfold hget at 1. simpl.
    rewrite app_nth2 by lia. rewrite Nat.sub_diag. reflexivity.
  - eapply view_realloc; simpl; eauto. intros L. unfold style_view, cget. simpl.
    rewrite cget_lupd, Nat.eqb_refl. apply Nat.ltb_lt in L. rewrite L. simpl.
    fold (cget u k). rewrite Es, Ep. unfold hget at 1. simpl.
    rewrite app_nth2 by lia. rewrite Nat.sub_diag. reflexivity.
Qed.

Lemma view_set_label u k l j : j <> k -> view (set_label u k l) j = view u j.
Proof.
  intros H. apply view_stable; auto. unfold set_label, cupd, cget. simpl. rewrite cget_lupd.
  destruct (Nat.eqb_spec j k); [contradiction | reflexivity].
Qed.

Lemma view_set_label_same u k l : k < length (co u) ->
  view (set_label u k l) k = (fst (view u k), l).
Proof.
  intros L. unfold view, style_view, set_label, cupd, cget. simpl. rewrite cget_lupd, Nat.eqb_refl.
  apply Nat.ltb_lt in L. rewrite L. simpl. reflexivity.
Qed.

Lemma live_lown u i c : is_junk (fs u) i = false -> In c (owned u i) -> In c (lown u i).
Proof. intros H. unfold lown. rewrite H. auto. Qed.

(* ---------------------------------------------------------------- the copy *)
Section CopyThm.
Variables (s : cstate) (x : nat).
Hypothesis HW : WF s.
Hypothesis Hx : live (fs s) x = true.
Let n := length (fs s).
Let H := length (heap s).
Let y := n + x.
Let s1 := deepcopy s x.
Let S o := in_subtree (fs s) x o = true.

Lemma HI : Inv (fs s). Proof. apply HW. Qed.
Lemma Hlen : length (co s) = n. Proof. apply HW. Qed.
Lemma HB : Bounded s. Proof. apply HW. Qed.

Lemma s1_old i : i < n -> cget s1 i = cget s i.
Proof.
  intros L. unfold s1, deepcopy, cget. simpl. apply app_nth1. rewrite Hlen. exact L.
Qed.

Lemma s1_clone o : o < n -> cget s1 (n + o) =
  if in_subtree (fs s) x o then clone_cobj H (cget s o) else dead_cobj.
Proof.
  intros L. unfold s1, deepcopy, cget. simpl. rewrite app_nth2 by (rewrite Hlen; fold n; lia).
  rewrite Hlen. fold n. replace (n + o - n) with o by lia.
  set (f := fun o0 => if in_subtree (fs s) x o0 then clone_cobj (length (heap s)) (nth o0 (co s) dead_cobj)
                      else dead_cobj).
  rewrite (nth_indep _ dead_cobj (f 0)) by (rewrite map_length, seq_length; exact L).
  rewrite map_nth. rewrite seq_nth by exact L. reflexivity.
Qed.

Lemma s1_hget_old c : c < H -> hget s1 c = hget s c.
Proof. intros L. unfold s1, deepcopy, hget. simpl. apply app_nth1. exact L. Qed.
Lemma s1_hget_new c : c < H -> hget s1 (H + c) = hget s c.
Proof.
  intros L. unfold s1, deepcopy, hget. simpl. rewrite app_nth2 by (fold H; lia).
  f_equal. fold H. lia.
Qed.

Lemma fs_s1 : fs s1 = copy_op (fs s) x. Proof. reflexivity. Qed.

Lemma junk_old i : i < n -> is_junk (fs s1) i = is_junk (fs s) i.
Proof. intros L. unfold is_junk, is_k. rewrite fs_s1. rewrite (kd_t_old (fs s) x i L). reflexivity. Qed.

Lemma y_live : is_junk (fs s1) y = false.
Proof.
  unfold is_junk, is_k, y, n. rewrite fs_s1, (kd_t_clone (fs s) x HI Hx x (S_x (fs s) x HI)).
  pose proof (x_nonjunk (fs s) x Hx). destruct (kd (fs s) x); auto; congruence.
Qed.

Lemma old_bound i c : i < n -> is_junk (fs s) i = false -> In c (owned s i) -> c < H.
Proof. intros L J Hc. apply (HB i c). apply live_lown; auto. Qed.

(* the two sides are separated right after the deepcopy *)
Lemma sep_s1 : Sep n s1.
Proof.
  assert (O1 : forall i c, i < n -> In c (lown s1 i) -> c < H).
  { intros i c L Hc. unfold lown in Hc. rewrite junk_old in Hc by exact L.
    destruct (is_junk (fs s) i) eqn:J; [contradiction|].
    unfold owned in Hc. rewrite s1_old in Hc by exact L. eapply old_bound; eauto. }
  assert (O2 : forall j c, n <= j -> In c (lown s1 j) -> H <= c /\ c < H + H).
  { intros j c L Hc. unfold lown in Hc. destruct (is_junk (fs s1) j) eqn:J; [contradiction|].
    destruct (Nat.lt_ge_cases j (n + n)) as [L2|L2].
    - replace j with (n + (j - n)) in Hc, J by lia. unfold owned in Hc.
      rewrite s1_clone in Hc by lia. destruct (in_subtree (fs s) x (j - n)) eqn:E.
      + pose proof (S_lt (fs s) x HI Hx (j - n) E) as (Lo & Ko). apply is_junk_kd in Ko.
        assert (Bo : forall c', In c' (owned s (j - n)) -> c' < H) by (intros; eapply old_bound; eauto).
        unfold clone_cobj in Hc. apply cells_of_mk in Hc. destruct Hc as [Hc|[Hc|Hc]].
        * apply In_shift in Hc. destruct Hc as (c' & -> & Hc'). 
          assert (c' < H) by (apply Bo; apply owned_cases; auto). lia.
        * assert (skw_cell (cget s (j - n)) < H) by (apply Bo; apply owned_cases; auto). lia.
        * destruct (style_cell (cget s (j - n))) as [c'|] eqn:Es; [|discriminate]. simpl in Hc.
          inversion Hc. assert (c' < H) by (apply Bo; apply owned_cases; auto). lia.
      + exfalso. unfold is_junk, is_k in J. rewrite fs_s1 in J. unfold kd in J.
        pose proof (t_dead (fs s) x (j - n)) as TD. fold n in TD.
        rewrite TD in J; [discriminate | lia | congruence].
    - exfalso. unfold is_junk, is_k, kd in J. rewrite get_oob in J; [discriminate|].
      rewrite fs_s1, copy_length. fold n. lia. }
  split.
  - intros i j c Li Lj Hi Hj. apply O1 in Hi; auto. apply O2 in Hj; auto. lia.
  - intros i c Hc. unfold s1, deepcopy. simpl. rewrite app_length. fold H.
    destruct (Nat.lt_ge_cases i n) as [L|L]; [apply O1 in Hc; auto; lia | apply O2 in Hc; auto; lia].
Qed.

(* right after the deepcopy the originals read the same ... *)
Lemma view_s1_old i : i < n -> is_junk (fs s) i = false -> view s1 i = view s i.
Proof.
  intros L J. apply view_stable.
  - apply s1_old. exact L.
  - intros c Hc. apply s1_hget_old. eapply old_bound; eauto.
Qed.

(* ... and every clone reads like its original *)
Lemma view_s1_clone o : S o -> view s1 (n + o) = view s o.
Proof.
  intros So. pose proof (S_lt (fs s) x HI Hx o So) as (Lo & Ko). apply is_junk_kd in Ko.
  assert (Bo : forall c', In c' (owned s o) -> c' < H) by (intros; eapply old_bound; eauto).
  unfold view, style_view. rewrite s1_clone by exact Lo. unfold S in So. rewrite So.
  unfold clone_cobj. simpl. f_equal. f_equal.
  - unfold shift. rewrite map_map. apply map_ext_in. intros c Hc. apply s1_hget_new.
    apply Bo. apply owned_cases. auto.
  - destruct (style_cell (cget s o)) as [c|] eqn:Es; simpl.
    + apply s1_hget_new. apply Bo. apply owned_cases. auto.
    + destruct (skw_pending (cget s o)); auto. apply s1_hget_new. apply Bo. apply owned_cases. auto.
Qed.
End CopyThm.
