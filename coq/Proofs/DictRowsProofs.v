(* C07 -- the functional interface and the object interface hand the same rows to getBH_level1 (static poses, position
   observers).  Level2Model.v is builder l2a's model of _getBH_level2 (proved against its declarative spec in
   Proofs/Level2*.v and tied to the source there); it is only imported here. *)
From Coq Require Import List Arith Lia.
From MV Require Import Lib.Rigid Lib.ListIdx Model.Level2Model Model.DictRows.
Import ListNotations.

Section Lemmas.
Context {A : Type}.

Lemma repeat_each_1 (l : list A) : repeat_each 1 l = l.
Proof. induction l as [|x l IH]; [reflexivity|]. change (x :: repeat_each 1 l = x :: l). now rewrite IH. Qed.

Lemma tile_singleton (n : nat) (x : A) : tile n [x] = repeat x n.
Proof. induction n as [|n IH]; [reflexivity|]. simpl. now rewrite IH. Qed.

Lemma tile_1 (l : list A) : tile 1 l = l.
Proof. simpl. apply app_nil_r. Qed.

Lemma repeat_each_singleton (n : nat) (x : A) : repeat_each n [x] = repeat x n.
Proof. unfold repeat_each. simpl. apply app_nil_r. Qed.

Lemma chunks_ones (l : list A) : map (chunks 1 1) (chunks 1 (length l) l) = map (fun v => [[v]]) l.
Proof.
  induction l as [|x l IH]; [reflexivity|].
  change (chunks 1 1 [x] :: map (chunks 1 1) (chunks 1 (length l) l) = [[x]] :: map (fun v => [[v]]) l).
  now rewrite IH.
Qed.
End Lemmas.

Section Same.
Context {O : RigidOps}.
Variable P : Type.
Variable F : nat -> P -> V -> V.

(* (0) l2_rows IS the row list of Level2Model.group_field *)
Lemma group_field_rows : forall k gr M n_pix n_pp po,
  group_field P F k gr M n_pix n_pp po
  = map (chunks n_pix M) (chunks (M * n_pix) (length gr) (map (row_field P F k) (l2_rows P gr n_pix n_pp po))).
Proof. reflexivity. Qed.

Lemma flat_static {B} (f : @leaf O P -> list B) (g : @leaf O P -> B) (gr : list (@leaf O P)) :
  (forall x, In x gr -> f x = [g x]) -> flat_map f gr = map g gr.
Proof.
  induction gr as [|x gr IH]; intros H; [reflexivity|].
  simpl. rewrite (H x (or_introl eq_refl)). simpl. f_equal. apply IH. intros y Hy. apply H. now right.
Qed.

(* (1) n static sources of one class, ONE observer position: the functional call with per-instance position /
   orientation / parameters and the observer given once (so it is tiled n times) *)
Theorem rows_sources_one_observer : forall (gr : list (@leaf O P)) (o : V),
  dict_rows P (length gr) (Many (flat_map l_pos gr)) (Many (flat_map l_ori gr)) (One o) (Many (map l_prop gr))
  = l2_rows P gr 1 1 [o].
Proof.
  intros gr o. unfold dict_rows, l2_rows, tiled. now rewrite !repeat_each_1, tile_singleton.
Qed.

(* (2) ONE static source, observer positions po: the functional call with position / orientation / parameters given
   once (tiled to len(po)) and per-instance observers *)
Theorem rows_one_source_observers : forall (p : V) (q : G) (k : nat) (pr : P) (po : list V),
  dict_rows P (length po) (One p) (One q) (Many po) (One pr)
  = l2_rows P [mkLeaf [p] [q] k pr] (length po) (length po) po.
Proof.
  intros p q k pr po. unfold dict_rows, l2_rows, tiled. simpl flat_map. simpl map. simpl length.
  now rewrite !repeat_each_singleton, tile_1.
Qed.

(* (3) n static sources x observer positions po in one functional call of n * len(po) instances: what the user has
   to write (np.repeat of the per-source arrays, np.tile of the observers) to get the object interface's rows *)
Theorem rows_sources_observers : forall (gr : list (@leaf O P)) (po : list V),
  let np_ := length po in
  dict_rows P (length gr * np_) (Many (repeat_each np_ (flat_map l_pos gr))) (Many (repeat_each np_ (flat_map l_ori gr)))
            (Many (tile (length gr) po)) (Many (repeat_each np_ (map l_prop gr)))
  = l2_rows P gr np_ np_ po.
Proof. reflexivity. Qed.

(* consequences on the level-1 results: the same field vectors, the object interface only reshapes them *)
Corollary field_sources_one_observer : forall k (gr : list (@leaf O P)) (o : V),
  Forall (static_leaf P) gr ->
  group_field P F k gr 1 1 1 [o]
  = map (fun v => [[v]])
        (dict_field P F k (length gr) (Many (flat_map l_pos gr)) (Many (flat_map l_ori gr)) (One o)
                    (Many (map l_prop gr))).
Proof.
  intros k gr o Hst. rewrite group_field_rows. unfold dict_field. rewrite rows_sources_one_observer.
  set (fl := map (row_field P F k) (l2_rows P gr 1 1 [o])).
  assert (Hlen : length fl = length gr).
  { assert (H1 : length (flat_map l_pos gr) = length gr).
    { clear -Hst. induction Hst as [|x gr [Hp _] _ IH]; [reflexivity|]. simpl. rewrite app_length, IH, Hp. reflexivity. }
    assert (H2 : length (flat_map l_ori gr) = length gr).
    { clear -Hst. induction Hst as [|x gr [_ Hq] _ IH]; [reflexivity|]. simpl. rewrite app_length, IH, Hq. reflexivity. }
    unfold fl, l2_rows. rewrite map_length.
    rewrite (repeat_each_1 (flat_map l_pos gr)), (repeat_each_1 (flat_map l_ori gr)), (repeat_each_1 (map l_prop gr)).
    rewrite tile_singleton.
    unfold row. repeat rewrite combine_length. rewrite repeat_length, map_length, H1, H2. lia. }
  rewrite <- Hlen. simpl Nat.mul. apply chunks_ones.
Qed.

Corollary field_one_source_observers : forall (p : V) (q : G) (k : nat) (pr : P) (po : list V),
  group_field P F k [mkLeaf [p] [q] k pr] 1 (length po) (length po) po
  = [[dict_field P F k (length po) (One p) (One q) (Many po) (One pr)]].
Proof.
  intros p q k pr po. rewrite group_field_rows. unfold dict_field. rewrite (rows_one_source_observers p q k pr po).
  set (fl := map (row_field P F k) _).
  assert (Hlen : length fl = length po).
  { unfold fl. rewrite <- (rows_one_source_observers p q k pr po). unfold dict_rows, tiled. rewrite map_length.
    unfold row. repeat rewrite combine_length. rewrite !repeat_length. lia. }
  simpl length at 1. simpl Nat.mul. rewrite Nat.add_0_r. simpl chunks at 2.
  rewrite <- Hlen, firstn_all. simpl. rewrite Hlen. rewrite <- Hlen at 1. now rewrite firstn_all.
Qed.
End Same.
