(* C07 -- proofs about the interface wrappers as READ from the source on this run (Gen/GenIfaces.v). *)
From Coq Require Import ZArith List Bool String Lia.
From MV Require Import Model.InputTypes Model.DictIface Gen.GenIfaces.
Import ListNotations.

(* every getB/getH/getJ/getM of BaseSource, Sensor, BaseCollection and of the module is `return getBH_level2(<roles>,
   field=<its letter>, <five flags>)`; all 16 are there and no other *)
Lemma wrappers_ok : forallb wrapper_ok wrappers = true /\ wrappers_complete wrappers = true.
Proof. vm_compute. split; reflexivity. Qed.

(* ---- what a wrapper hands to getBH_level2 for a flag, given the caller's explicit keyword arguments ---- *)
Definition caller := string -> option warg.

Definition param_value (r : wrapper_row) (env : caller) (p : string) : warg :=
  match env p with
  | Some v => v
  | None => match assoc p (w_params r) with Some d => d | None => WNone end
  end.

Definition passed (r : wrapper_row) (env : caller) (k : string) : warg :=
  match assoc k (w_kw r) with
  | Some (WParam p) => param_value r env p
  | Some c => c
  | None => WNone
  end.

(* the caller only uses keywords the method has *)
Definition accepts (r : wrapper_row) (env : caller) : Prop :=
  forall k, env k <> None -> str_mem k (map fst (w_params r)) = true.

Lemma passed_flag (r : wrapper_row) (env : caller) (k : string) (dflt : warg) :
  flag_ok r (k, dflt) = true -> accepts r env ->
  passed r env k = match env k with Some v => v | None => dflt end.
Proof.
  intros Hf Hacc. unfold flag_ok in Hf. unfold passed.
  destruct (assoc k (w_kw r)) as [[p|b|s|]|] eqn:Ek; try discriminate.
  - apply andb_true_iff in Hf. destruct Hf as [Hp Hd]. apply String.eqb_eq in Hp. subst p.
    unfold param_value. destruct (env k); [reflexivity|].
    destruct (assoc k (w_params r)) as [d|]; [|discriminate].
    destruct d, dflt; simpl in Hd; try discriminate.
    + apply String.eqb_eq in Hd. now subst.
    + apply Bool.eqb_prop in Hd. now subst.
    + apply String.eqb_eq in Hd. now subst.
    + reflexivity.
  - apply andb_true_iff in Hf. destruct Hf as [Hc Hn].
    destruct (env k) eqn:Ee.
    + assert (Hm : str_mem k (map fst (w_params r)) = true) by (apply Hacc; rewrite Ee; discriminate).
      rewrite Hm in Hn. discriminate.
    + destruct dflt; simpl in Hc; try discriminate. apply Bool.eqb_prop in Hc. now subst.
  - apply andb_true_iff in Hf. destruct Hf as [Hc Hn].
    destruct (env k) eqn:Ee.
    + assert (Hm : str_mem k (map fst (w_params r)) = true) by (apply Hacc; rewrite Ee; discriminate).
      rewrite Hm in Hn. discriminate.
    + destruct dflt; simpl in Hc; try discriminate. apply String.eqb_eq in Hc. now subst.
  - apply andb_true_iff in Hf. destruct Hf as [Hc Hn].
    destruct (env k) eqn:Ee.
    + assert (Hm : str_mem k (map fst (w_params r)) = true) by (apply Hacc; rewrite Ee; discriminate).
      rewrite Hm in Hn. discriminate.
    + destruct dflt; simpl in Hc; try discriminate. reflexivity.
Qed.

(* THE statement about the wrappers: whichever of the 16 entry points is used, and whatever keyword arguments the
   caller gives (among those the entry point has), getBH_level2 receives for every flag exactly what the caller gave,
   or the one common default -- so two entry points called with the same explicit flags pass the same flags on; and
   the field letter is the one in the method's name *)
Theorem wrappers_forward : forall r, In r wrappers -> forall (env : caller), accepts r env ->
  w_method r = ("get" ++ w_field r)%string /\
  forall k dflt, In (k, dflt) level2_flags ->
    passed r env k = match env k with Some v => v | None => dflt end.
Proof.
  intros r Hin env Hacc.
  destruct wrappers_ok as [Hok _]. rewrite forallb_forall in Hok. specialize (Hok r Hin).
  unfold wrapper_ok in Hok. repeat (apply andb_true_iff in Hok; destruct Hok as [Hok ?]).
  split; [now apply String.eqb_eq|].
  intros k dflt Hk. apply passed_flag; [|exact Hacc].
  match goal with H : forallb (flag_ok r) level2_flags = true |- _ => rewrite forallb_forall in H; now apply H end.
Qed.

Corollary wrappers_agree : forall r1 r2, In r1 wrappers -> In r2 wrappers ->
  forall env, accepts r1 env -> accepts r2 env ->
  forall k dflt, In (k, dflt) level2_flags -> passed r1 env k = passed r2 env k.
Proof.
  intros r1 r2 H1 H2 env A1 A2 k dflt Hk.
  rewrite (proj2 (wrappers_forward r1 H1 env A1) k dflt Hk).
  now rewrite (proj2 (wrappers_forward r2 H2 env A2) k dflt Hk).
Qed.

(* EVERY keyword of EVERY entry point: each parameter of the method is a role or reaches getBH_level2 under its own
   name, and the call passes no keyword besides the five flags (and `field`) -- no parameter is dropped or renamed *)
Lemma wrappers_params_ok : forallb params_forwarded wrappers = true.
Proof. vm_compute. reflexivity. Qed.

Theorem wrappers_every_keyword : forall r, In r wrappers ->
  (forall p d, In (p, d) (w_params r) -> In p (role_params r) \/ In (p, WParam p) (w_kw r)) /\
  (forall k v, In (k, v) (w_kw r) -> In k (map fst level2_flags)).
Proof.
  intros r Hin. pose proof wrappers_params_ok as H. rewrite forallb_forall in H. specialize (H r Hin).
  unfold params_forwarded in H. apply andb_true_iff in H. destruct H as [H1 H2].
  rewrite forallb_forall in H1, H2. split.
  - intros p d Hp. specialize (H1 _ Hp). cbn [fst snd] in H1. apply orb_true_iff in H1. destruct H1 as [H1|H1].
    + left. unfold str_mem in H1. apply existsb_exists in H1. destruct H1 as (x & Hx & E).
      apply String.eqb_eq in E. now subst.
    + right. unfold passes_param in H1. apply existsb_exists in H1. destruct H1 as ([k v] & Hkv & E).
      simpl in E. apply andb_true_iff in E. destruct E as [E1 E2]. apply String.eqb_eq in E1. subst k.
      destruct v; simpl in E2; try discriminate. apply String.eqb_eq in E2. now subst.
  - intros k v Hk. specialize (H2 _ Hk). cbn [fst snd] in H2. unfold str_mem in H2. apply existsb_exists in H2.
    destruct H2 as (x & Hx & E). apply String.eqb_eq in E. now subst.
Qed.

(* the parameter ORDER of all 16 signatures is the documented one, identical for the four fields *)
Lemma list_str_eqb_eq (a b : list string) : list_str_eqb a b = true -> a = b.
Proof.
  unfold list_str_eqb. revert b. induction a as [|x a IH]; intros [|y b] H; simpl in H; try discriminate; [reflexivity|].
  apply andb_true_iff in H. destruct H as [Hl H]. apply andb_true_iff in H. destruct H as [Hx H].
  apply String.eqb_eq in Hx. subst y. f_equal. apply IH. now rewrite Hl, H.
Qed.

Theorem wrappers_param_order : forall r, In r wrappers ->
  map fst (w_params r) = documented_params (w_owner r).
Proof.
  intros r Hin. apply list_str_eqb_eq.
  assert (H : forallb param_order_ok wrappers = true) by (vm_compute; reflexivity).
  rewrite forallb_forall in H. exact (H r Hin).
Qed.

(* the translated _validate_getBH_inputs is the hand model of Model/DictIface.v on every collection tree *)
Lemma gen_validate_model : forall (self : mobj) (n : nat),
  gen_validate (negb (is_nil (flat_sensors self))) (negb (is_nil (flat_sources self))) n
  = validate_getBH_inputs self n.
Proof.
  intros self n. unfold gen_validate, validate_getBH_inputs.
  destruct (flat_sensors self); destruct (flat_sources self); simpl; destruct n as [|[|n]]; reflexivity.
Qed.

(* the dataframe is assembled in the order the model assumes *)
Lemma df_source_order :
  df_product = df_product_expected /\ df_columns = df_columns_expected /\
  df_sumup_cond = "sumup and len(sources) > 1"%string /\ star_input_single_is_bare = true.
Proof. repeat split; reflexivity. Qed.
