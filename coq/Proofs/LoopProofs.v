(* C15 -- proofs about the fuelled loop models (Model/LoopModel.v over Gen/GenLoop.v).
   Real-number statements: the AGM-type iterations of special_cel.py terminate within N steps, N a
   function of the start ratio; the general-case masks of the circle / cylinder wrappers put every
   divisor, sqrt argument and loop start value in its domain.  Float statements (vm_compute on
   primitive binary64): the same masks do NOT do so in binary64 -- machine-checked divergence. *)
From Coq Require Import ZArith Reals Lra Lia Psatz List Bool.
From MV Require Import Model.LoopNum Gen.GenLoop Model.LoopModel Model.LoopExec Model.LoopPins.
Import ListNotations.
Local Open Scope R_scope.

(* ------------------------------------------------------------------ generic fuelled while *)
Lemma iter_shift {A} (f : A -> A) k x : Nat.iter (S k) f x = Nat.iter k f (f x).
Proof. induction k; [reflexivity|]. change (f (Nat.iter (S k) f x) = f (Nat.iter k f (f x))). rewrite IHk. reflexivity. Qed.

Section Generic.
Variables (St : Type) (cond : St -> bool) (step : St -> St) (B : nat -> St -> Prop).
Hypothesis B0 : forall s, B 0 s -> cond s = false.
Hypothesis BS : forall n s, B (S n) s -> B n (step s).

Lemma while_terminates : forall N n0 s, B N s ->
  exists k, (k <= N)%nat /\ while_loop cond step N n0 s = Done (n0 + k) (Nat.iter k step s)
            /\ cond (Nat.iter k step s) = false.
Proof.
  induction N as [|N IH]; intros n0 s HB; simpl.
  - exists 0%nat. rewrite (B0 s HB). rewrite Nat.add_0_r. simpl. repeat split; auto.
  - destruct (cond s) eqn:Hc.
    + destruct (IH (S n0) (step s) (BS _ _ HB)) as [k [Hk [Hw Hf]]].
      exists (S k). split; [lia|]. rewrite Hw. split.
      * rewrite iter_shift. f_equal. lia.
      * rewrite iter_shift. exact Hf.
    + exists 0%nat. rewrite Nat.add_0_r. simpl. repeat split; auto. lia.
Qed.
End Generic.

Lemma existsb_false_Forall {A} (f : A -> bool) l : Forall (fun x => f x = false) l -> existsb f l = false.
Proof. induction 1; simpl; auto. rewrite H, IHForall. reflexivity. Qed.

Lemma Forall_map' {A B} (f : A -> B) (P : B -> Prop) l : Forall (fun x => P (f x)) l -> Forall P (map f l).
Proof. induction 1; simpl; constructor; auto. Qed.

(* ------------------------------------------------------------------ the arithmetic of one AGM step *)
Lemma agm_step (g q t : R) : 0 < q -> q <= g -> 0 <= t -> g * (t * t) < q ->
  0 < 2 * sqrt (g * q) /\ 2 * sqrt (g * q) <= g + q /\ (g + q) * t < 2 * sqrt (g * q).
Proof.
  intros Hq Hqg Ht Hr.
  assert (Hg : 0 < g) by lra.
  assert (Hgq : 0 < g * q) by (apply Rmult_lt_0_compat; lra).
  pose proof (sqrt_lt_R0 _ Hgq) as Hs.
  pose proof (sqrt_sqrt (g * q) (Rlt_le _ _ Hgq)) as Hss.
  set (s := sqrt (g * q)) in *. clearbody s.
  split; [lra|]. split.
  - (* (g+q)^2 - 4 s^2 = (g-q)^2 >= 0 *)
    destruct (Rle_or_lt (2 * s) (g + q)) as [|Hc]; auto. exfalso.
    assert (0 <= (g - q) * (g - q)) by apply Rle_0_sqr.
    assert ((g + q) * (g + q) < (2 * s) * (2 * s)) by (apply Rmult_le_0_lt_compat; lra).
    nra.
  - destruct (Rlt_or_le ((g + q) * t) (2 * s)) as [|Hc]; auto. exfalso.
    assert (H1 : (2 * s) * (2 * s) <= ((g + q) * t) * ((g + q) * t)) by (apply Rmult_le_compat; lra).
    assert (H2 : (g + q) * (g + q) <= (2 * g) * (2 * g)) by (apply Rmult_le_compat; lra).
    assert (H3 : 0 <= t * t) by apply Rle_0_sqr.
    assert (H4 : ((g + q) * t) * ((g + q) * t) <= (2 * g) * (2 * g) * (t * t)).
    { replace (((g + q) * t) * ((g + q) * t)) with ((g + q) * (g + q) * (t * t)) by ring.
      apply Rmult_le_compat_r; auto. }
    assert (H5 : 4 * g * (g * (t * t)) < 4 * g * q) by (apply Rmult_lt_compat_l; lra).
    nra.
Qed.

(* thresholds: theta ^ (2 ^ N) *)
Definition thr (theta : R) (N : nat) : R := theta ^ (2 ^ N).

Lemma thr_S theta N : thr theta (S N) = thr theta N * thr theta N.
Proof. unfold thr. simpl. rewrite Nat.add_0_r. apply pow_add. Qed.

Lemma thr_pos theta N : 0 < theta -> 0 < thr theta N.
Proof. intros. unfold thr. apply pow_lt; auto. Qed.

Lemma thr_le1 theta N : 0 < theta <= 1 -> thr theta N <= 1.
Proof. intros [H0 H1]. unfold thr. rewrite <- (pow1 (2 ^ N)). apply pow_incr. lra. Qed.

Lemma thr_mono theta N : 0 < theta <= 1 -> thr theta (S N) <= thr theta N.
Proof.
  intros H. rewrite thr_S. pose proof (thr_pos theta N (proj1 H)). pose proof (thr_le1 theta N H).
  nra.
Qed.

Lemma thr_mono_le theta N M : 0 < theta <= 1 -> (N <= M)%nat -> thr theta M <= thr theta N.
Proof.
  intros H. induction 1; [lra|]. eapply Rle_trans; [apply thr_mono; auto|auto].
Qed.

(* ------------------------------------------------------------------ literals over R *)
Lemma lit8 : Rlit 1 (-8) = / 100000000.
Proof. unfold Rlit. replace (Z.pow_pos 10 8) with 100000000%Z by reflexivity. lra. Qed.
Lemma lit6 : Rlit 1 (-6) = / 1000000.
Proof. unfold Rlit. replace (Z.pow_pos 10 6) with 1000000%Z by reflexivity. lra. Qed.
Lemma lit15 : Rlit 1 (-15) = / 1000000000000000.
Proof. unfold Rlit. replace (Z.pow_pos 10 15) with 1000000000000000%Z by reflexivity. lra. Qed.

Definition theta8 : R := / (1 + / 100000000).      (* exit of cel_iter: g - qc < qc * 1e-8  <->  qc / g > theta8 *)
Definition theta6 : R := 1 - / 1000000.            (* exit of cel:      g - k <= g * 1e-6   <->  k / g >= theta6 *)

Lemma theta8_range : 0 < theta8 <= 1.
Proof.
  unfold theta8. split.
  - apply Rinv_0_lt_compat. lra.
  - replace 1 with (/ 1) at 2 by apply Rinv_1. apply Rinv_le_contravar; lra.
Qed.
Lemma theta6_range : 0 < theta6 <= 1.
Proof. unfold theta6. lra. Qed.

(* ------------------------------------------------------------------ cel_iter0 / cel_iterv over R *)
Definition st7R := (R * R * R * R * R * R * R)%type.

(* invariant of the Bulirsch iteration as the callers start it, with the ratio bound for N more steps *)
Definition inv_iter (N : nat) (st : st7R) : Prop :=
  let '(qc, p, g, cc, ss, em, kk) := st in
  0 < qc /\ qc <= g /\ 0 < p /\ em = g + qc /\ kk = g * qc /\ g * thr theta8 N < qc.

Lemma Rleb_false a b : b < a -> Rleb a b = false.
Proof. intros. unfold Rleb. destruct (Rle_dec a b); auto. lra. Qed.
Lemma Rltb_false a b : b <= a -> Rltb a b = false.
Proof. intros. unfold Rltb. destruct (Rlt_dec a b); auto. lra. Qed.
Lemma Rltb_true_iff a b : Rltb a b = true <-> a < b.
Proof. unfold Rltb. destruct (Rlt_dec a b); split; auto; discriminate. Qed.
Lemma Rleb_true_iff a b : Rleb a b = true <-> a <= b.
Proof. unfold Rleb. destruct (Rle_dec a b); split; auto; discriminate. Qed.
Lemma Reqb_true_iff a b : Reqb a b = true <-> a = b.
Proof. unfold Reqb. destruct (Req_EM_T a b); split; auto; discriminate. Qed.
Lemma Reqb_false_iff a b : Reqb a b = false <-> a <> b.
Proof. unfold Reqb. destruct (Req_EM_T a b); split; auto; try discriminate. intros; contradiction. Qed.

Lemma iter_exit_gen (qc g e : R) : e = / 100000000 -> 0 < qc -> qc <= g -> g * thr theta8 0 < qc ->
  Rleb (qc * e) (Rabs (g - qc)) = false.
Proof.
  intros -> Hq Hqg Hr. apply Rleb_false.
  rewrite Rabs_right by lra.
  unfold thr, theta8 in Hr. simpl in Hr. rewrite Rmult_1_r in Hr.
  assert (H1 : 0 < 1 + / 100000000) by lra.
  assert (g < qc * (1 + / 100000000)).
  { apply (Rmult_lt_compat_r (1 + / 100000000)) in Hr; auto.
    rewrite Rmult_assoc, Rinv_l in Hr by lra. lra. }
  lra.
Qed.

Lemma inv_iter_step_arith N qc p g :
  0 < qc -> qc <= g -> 0 < p -> g * thr theta8 (S N) < qc ->
  let q' := 2 * sqrt (g * qc) in
  0 < q' /\ q' <= g + qc /\ 0 < p + q' * (g + qc) / p /\ (g + qc) * thr theta8 N < q'.
Proof.
  intros Hq Hqg Hp Hr. rewrite thr_S in Hr.
  pose proof (thr_pos theta8 N (proj1 theta8_range)) as Ht.
  destruct (agm_step g qc (thr theta8 N) Hq Hqg (Rlt_le _ _ Ht) Hr) as [H1 [H2 H3]].
  cbv zeta. repeat split; auto.
  assert (0 < 2 * sqrt (g * qc) * (g + qc) / p).
  { unfold Rdiv. apply Rmult_lt_0_compat; [apply Rmult_lt_0_compat; lra|apply Rinv_0_lt_compat; auto]. }
  lra.
Qed.

Lemma cel_iter0_B0 s : inv_iter 0 s -> cel_iter0_cond NumR s = false.
Proof.
  destruct s as [[[[[[qc p] g] cc] ss] em] kk]. intros (Hq & Hqg & Hp & He & Hk & Hr).
  unfold cel_iter0_cond. simpl. apply iter_exit_gen; auto using lit8.
Qed.

Lemma cel_iter0_BS N s : inv_iter (S N) s -> inv_iter N (cel_iter0_step NumR s).
Proof.
  destruct s as [[[[[[qc p] g] cc] ss] em] kk]. intros (Hq & Hqg & Hp & He & Hk & Hr).
  unfold cel_iter0_step, inv_iter. simpl. subst em kk.
  destruct (inv_iter_step_arith N qc p g Hq Hqg Hp Hr) as (H1 & H2 & H3 & H4). cbv zeta in *.
  repeat split; auto; try lra; try ring.
Qed.

Lemma cel_iterv_B0 s : inv_iter 0 s -> cel_iterv_cond NumR s = false.
Proof.
  destruct s as [[[[[[qc p] g] cc] ss] em] kk]. intros (Hq & Hqg & Hp & He & Hk & Hr).
  unfold cel_iterv_cond. simpl. apply iter_exit_gen; auto using lit8.
Qed.

Lemma cel_iterv_BS N s : inv_iter (S N) s -> inv_iter N (cel_iterv_step NumR s).
Proof.
  destruct s as [[[[[[qc p] g] cc] ss] em] kk]. intros (Hq & Hqg & Hp & He & Hk & Hr).
  unfold cel_iterv_step, inv_iter. simpl. subst em kk.
  destruct (inv_iter_step_arith N qc p g Hq Hqg Hp Hr) as (H1 & H2 & H3 & H4). cbv zeta in *.
  repeat split; auto; try lra; try ring.
Qed.

Lemma inv_iter_mono N M s : (N <= M)%nat -> inv_iter N s -> inv_iter M s.
Proof.
  destruct s as [[[[[[qc p] g] cc] ss] em] kk]. intros HNM (Hq & Hqg & Hp & He & Hk & Hr).
  repeat split; auto.
  pose proof (thr_mono_le theta8 N M theta8_range HNM).
  assert (0 < g) by lra. nra.
Qed.

Theorem cel_iter0_terminates_lemma : forall N s, inv_iter N s ->
  exists n v, (n <= N)%nat /\ cel_iter0 NumR N s = Done n v.
Proof.
  intros N s H.
  destruct (while_terminates _ (cel_iter0_cond NumR) (cel_iter0_step NumR) inv_iter
              cel_iter0_B0 cel_iter0_BS N 0%nat s H) as [k [Hk [Hw _]]].
  unfold cel_iter0. rewrite Hw. simpl. eauto.
Qed.

Theorem cel_iterv_terminates_lemma : forall N rows, Forall (inv_iter N) rows ->
  exists n v, (n <= N)%nat /\ cel_iterv NumR N rows = Done n v /\ length v = length rows.
Proof.
  intros N rows H.
  destruct (while_terminates _ (existsb (cel_iterv_cond NumR)) (map (cel_iterv_step NumR))
              (fun n => Forall (inv_iter n))) with (N := N) (n0 := 0%nat) (s := rows) as [k [Hk [Hw _]]]; auto.
  - intros s Hs. apply existsb_false_Forall. eapply Forall_impl; [|exact Hs]. apply cel_iterv_B0.
  - intros n s Hs. apply Forall_map'. eapply Forall_impl; [|exact Hs]. apply cel_iterv_BS.
  - unfold cel_iterv. rewrite Hw. simpl. do 2 eexists. split; [exact Hk|]. split; [reflexivity|].
    rewrite map_length. clear. induction k; simpl; auto. rewrite map_length. auto.
Qed.

(* res_all of runs that are all Done *)
Lemma res_all_done {A} (l : list (res A)) :
  Forall (fun r => exists n v, r = Done n v) l -> exists n vs, res_all l = Done n vs.
Proof.
  induction 1 as [|r l [n [v Hr]] _ [m [vs IH]]]; simpl; eauto.
  subst r. rewrite IH. eauto.
Qed.

(* the dispatcher, whatever the thresholds and fall-through flags of the current source are *)
Theorem cel_iter_terminates_lemma : forall N rows, Forall (inv_iter N) rows ->
  exists n v, cel_iter NumR N rows = Done n v.
Proof.
  intros N rows H. unfold cel_iter.
  destruct (cel_iterv_terminates_lemma N rows H) as [n [v [_ [Hv _]]]].
  assert (Hall : exists m vs, res_all (map (cel_iter0 NumR N) rows) = Done m vs).
  { apply res_all_done. apply Forall_map'. eapply Forall_impl; [|exact H]. intros s Hs.
    destruct (cel_iter0_terminates_lemma N s Hs) as [a [b [_ Hb]]]. eauto. }
  destruct Hall as [m [vs Hm]].
  destruct (Nat.ltb _ _).
  - rewrite Hm. destruct cel_iter_small_returns; eauto.
  - eauto.
Qed.

(* ------------------------------------------------------------------ N as an explicit function of the ratio *)
Lemma theta8_pow27 : theta8 ^ (2 ^ 27) <= / 2.
Proof.
  unfold theta8. rewrite pow_inv.
  apply Rinv_le_contravar; [lra|].
  pose proof (poly (2 ^ 27) (/ 100000000)) as Hb.
  assert (Hi : INR (2 ^ 27) = 134217728).
  { rewrite pow_INR. change (INR 2) with (1 + 1). simpl pow. lra. }
  rewrite Hi in Hb. assert (H : 0 < / 100000000) by lra. specialize (Hb H). lra.
Qed.

Lemma thr_theta8_27 k : thr theta8 (27 + k) <= thr (/ 2) k.
Proof.
  unfold thr. rewrite Nat.pow_add_r, pow_mult.
  apply pow_incr. split.
  - apply pow_le. apply Rlt_le. apply theta8_range.
  - apply theta8_pow27.
Qed.

(* for every positive ratio some N works *)
Lemma thr_half_small (rho : R) : 0 < rho -> exists k, thr (/ 2) k < rho.
Proof.
  intros Hr. destruct (pow_lt_1_zero (/ 2)) with (y := rho) as [N0 HN]; auto.
  { rewrite Rabs_right; lra. }
  exists N0. unfold thr. specialize (HN (2 ^ N0)%nat).
  assert (Hge : (2 ^ N0 >= N0)%nat) by (apply Nat.lt_le_incl, Nat.pow_gt_lin_r; lia).
  specialize (HN Hge). rewrite Rabs_right in HN; auto.
  apply Rle_ge, pow_le. lra.
Qed.

Lemma ratio_has_N (q g : R) : 0 < q -> 0 < g -> exists N, g * thr theta8 N < q.
Proof.
  intros Hq Hg. destruct (thr_half_small (q / g)) as [k Hk].
  { unfold Rdiv. apply Rmult_lt_0_compat; auto. apply Rinv_0_lt_compat; auto. }
  exists (27 + k)%nat. pose proof (thr_theta8_27 k).
  assert (thr theta8 (27 + k) < q / g) by lra.
  apply (Rmult_lt_compat_l g) in H0; auto. unfold Rdiv in H0.
  replace (g * (q * / g)) with q in H0 by (field; lra). exact H0.
Qed.

(* ------------------------------------------------------------------ cel0 over R *)
Definition inv_cel (N : nat) (st : st7R) : Prop :=
  let '(k, kk, cc, ss, pp, g, em) := st in
  0 < k /\ k <= g /\ 0 < pp /\ em = g + k /\ kk = g * k /\ g * thr theta6 N < k.

Lemma cel_exit_gen (k g e : R) : e = / 1000000 -> 0 < k -> k <= g -> g * thr theta6 0 < k ->
  Rltb (g * e) (Rabs (g - k)) = false.
Proof.
  intros -> Hq Hqg Hr. apply Rltb_false. rewrite Rabs_right by lra.
  unfold thr, theta6 in Hr. simpl in Hr. lra.
Qed.

Lemma inv_cel_step_arith N k pp g :
  0 < k -> k <= g -> 0 < pp -> g * thr theta6 (S N) < k ->
  let q' := 2 * sqrt (g * k) in
  0 < q' /\ q' <= g + k /\ 0 < q' * (g + k) / pp + pp /\ (g + k) * thr theta6 N < q'.
Proof.
  intros Hq Hqg Hp Hr. rewrite thr_S in Hr.
  pose proof (thr_pos theta6 N (proj1 theta6_range)) as Ht.
  destruct (agm_step g k (thr theta6 N) Hq Hqg (Rlt_le _ _ Ht) Hr) as [H1 [H2 H3]].
  cbv zeta. repeat split; auto.
  assert (0 < 2 * sqrt (g * k) * (g + k) / pp).
  { unfold Rdiv. apply Rmult_lt_0_compat; [apply Rmult_lt_0_compat; lra|apply Rinv_0_lt_compat; auto]. }
  lra.
Qed.

Lemma cel0_B0 s : inv_cel 0 s -> cel0_cond NumR s = false.
Proof.
  destruct s as [[[[[[k kk] cc] ss] pp] g] em]. intros (Hq & Hqg & Hp & He & Hk & Hr).
  unfold cel0_cond. simpl. apply cel_exit_gen; auto using lit6.
Qed.

Lemma cel0_BS N s : inv_cel (S N) s -> inv_cel N (cel0_step NumR s).
Proof.
  destruct s as [[[[[[k kk] cc] ss] pp] g] em]. intros (Hq & Hqg & Hp & He & Hk & Hr).
  unfold cel0_step, inv_cel. simpl. subst em kk.
  destruct (inv_cel_step_arith N k pp g Hq Hqg Hp Hr) as (H1 & H2 & H3 & H4). cbv zeta in *.
  repeat split; auto; try lra; try ring.
Qed.

(* the prologue of cel0 establishes the invariant: kc <> 0, |kc| <= 1, and p > 0 or p <= 0 *)
Lemma cel_init_inv (eb : bool) kc p c s N :
  kc <> 0 -> Rabs kc <= 1 -> (eb = false -> 0 < p) -> (eb = true -> p <= 0) ->
  thr theta6 N < Rabs kc -> inv_cel N (cel_init NumR eb kc p c s).
Proof.
  intros Hk Hk1 Hp1 Hp2 Hr. pose proof (Rabs_pos_lt kc Hk) as Hka.
  unfold cel_init, inv_cel. simpl.
  destruct eb; simpl.
  - specialize (Hp2 eq_refl).
    assert (Hf : 0 < (kc * kc - p) / (1 - p)).
    { assert (0 < kc * kc) by (destruct (Rtotal_order kc 0) as [|[|]]; nra).
      unfold Rdiv. apply Rmult_lt_0_compat; [lra|apply Rinv_0_lt_compat; lra]. }
    pose proof (sqrt_lt_R0 _ Hf) as Hs.
    assert (0 < Rabs kc / sqrt ((kc * kc - p) / (1 - p))).
    { unfold Rdiv at 1. apply Rmult_lt_0_compat; auto. apply Rinv_0_lt_compat; auto. }
    repeat split; auto; try lra.
  - specialize (Hp1 eq_refl). pose proof (sqrt_lt_R0 _ Hp1) as Hs.
    assert (0 < Rabs kc / sqrt p).
    { unfold Rdiv. apply Rmult_lt_0_compat; auto. apply Rinv_0_lt_compat; auto. }
    repeat split; auto; try lra.
Qed.

Theorem cel0_terminates_lemma : forall N kc p c s,
  kc <> 0 -> Rabs kc <= 1 -> thr theta6 N < Rabs kc ->
  exists n v, (n <= N)%nat /\ cel0 NumR N kc p c s = Done n v.
Proof.
  intros N kc p c s Hk Hk1 Hr. unfold cel0.
  assert (Hz : leqb NumR kc (c0 NumR) = false) by (simpl; apply Reqb_false_iff; exact Hk).
  rewrite Hz, andb_false_r.
  assert (Hi : inv_cel N (cel_init NumR (negb (lltb NumR (c0 NumR) p)) kc p c s)).
  { apply cel_init_inv; auto; simpl; intros Hb.
    - apply negb_false_iff in Hb. apply Rltb_true_iff in Hb. exact Hb.
    - apply negb_true_iff in Hb. unfold Rltb in Hb. destruct (Rlt_dec 0 p); [discriminate|lra]. }
  destruct (while_terminates _ (cel0_cond NumR) (cel0_step NumR) inv_cel cel0_B0 cel0_BS N 0%nat _ Hi)
    as [k [Hkk [Hw _]]].
  rewrite Hw. simpl. eauto.
Qed.

(* ------------------------------------------------------------------ statements in their final form *)
Theorem cel_iter0_terminates : forall (N : nat) (qc p g cc ss em kk : R),
  0 < qc -> qc <= g -> 0 < p -> em = g + qc -> kk = g * qc -> g * theta8 ^ (2 ^ N) < qc ->
  exists n v, (n <= N)%nat /\ cel_iter0 NumR N (qc, p, g, cc, ss, em, kk) = Done n v.
Proof. intros. apply cel_iter0_terminates_lemma. repeat split; auto. Qed.

Theorem cel_iter0_terminates_explicit : forall (k : nat) (qc p g cc ss em kk : R),
  0 < qc -> qc <= g -> 0 < p -> em = g + qc -> kk = g * qc -> g * (/ 2) ^ (2 ^ k) < qc ->
  exists n v, (n <= 27 + k)%nat /\ cel_iter0 NumR (27 + k) (qc, p, g, cc, ss, em, kk) = Done n v.
Proof.
  intros k qc p g cc ss em kk Hq Hqg Hp He Hk Hr. apply cel_iter0_terminates_lemma. repeat split; auto.
  pose proof (thr_theta8_27 k) as Ht. change ((/ 2) ^ (2 ^ k)) with (thr (/ 2) k) in Hr.
  assert (0 < g) by lra. nra.
Qed.

Definition iter_start_ok (st : st7R) : Prop :=
  let '(qc, p, g, cc, ss, em, kk) := st in 0 < qc /\ qc <= g /\ 0 < p /\ em = g + qc /\ kk = g * qc.

Lemma iter_start_has_N st : iter_start_ok st -> exists N, inv_iter N st.
Proof.
  destruct st as [[[[[[qc p] g] cc] ss] em] kk]. intros (Hq & Hqg & Hp & He & Hk).
  destruct (ratio_has_N qc g) as [N HN]; auto; try lra.
  exists N. repeat split; auto.
Qed.

Lemma Forall_has_N rows : Forall iter_start_ok rows -> exists N, Forall (inv_iter N) rows.
Proof.
  induction 1 as [|s l Hs _ [N IH]].
  - exists 0%nat. constructor.
  - destruct (iter_start_has_N s Hs) as [M HM]. exists (Nat.max N M). constructor.
    + eapply inv_iter_mono; [|exact HM]. lia.
    + eapply Forall_impl; [|exact IH]. intros a Ha. eapply inv_iter_mono; [|exact Ha]. lia.
Qed.

(* batch version: every row in the callers' domain -> some fuel suffices for cel_iter (scalar pass,
   vector pass, whatever the dispatcher of the current source does) *)
Theorem cel_iter_terminates : forall rows : list st7R, Forall iter_start_ok rows ->
  exists N n v, cel_iter NumR N rows = Done n v.
Proof.
  intros rows H. destruct (Forall_has_N rows H) as [N HN]. exists N. apply cel_iter_terminates_lemma. exact HN.
Qed.

Theorem cel_iterv_terminates : forall (N : nat) (rows : list st7R),
  Forall (fun st => iter_start_ok st /\ let '(qc, _, g, _, _, _, _) := st in g * theta8 ^ (2 ^ N) < qc) rows ->
  exists n v, (n <= N)%nat /\ cel_iterv NumR N rows = Done n v /\ length v = length rows.
Proof.
  intros N rows H. apply cel_iterv_terminates_lemma. eapply Forall_impl; [|exact H].
  intros [[[[[[qc p] g] cc] ss] em] kk] [(Hq & Hqg & Hp & He & Hk) Hr]. repeat split; auto.
Qed.

(* ------------------------------------------------------------------ cel0: N from |kc| *)
Lemma theta6_pow20 : theta6 ^ (2 ^ 20) <= / 2.
Proof.
  assert (H1 : theta6 <= / (1 + / 1000000)).
  { unfold theta6. apply (Rmult_le_reg_r (1 + / 1000000)); [lra|]. rewrite Rinv_l by lra. nra. }
  eapply Rle_trans; [apply pow_incr; split; [apply Rlt_le, theta6_range|exact H1]|].
  rewrite pow_inv. apply Rinv_le_contravar; [lra|].
  pose proof (poly (2 ^ 20) (/ 1000000)) as Hb.
  assert (Hi : INR (2 ^ 20) = 1048576).
  { rewrite pow_INR. change (INR 2) with (1 + 1). simpl pow. lra. }
  rewrite Hi in Hb. assert (H : 0 < / 1000000) by lra. specialize (Hb H). lra.
Qed.

Lemma thr_theta6_20 k : thr theta6 (20 + k) <= thr (/ 2) k.
Proof.
  unfold thr. rewrite Nat.pow_add_r, pow_mult.
  apply pow_incr. split.
  - apply pow_le. apply Rlt_le. apply theta6_range.
  - apply theta6_pow20.
Qed.

Theorem cel0_terminates : forall (N : nat) (kc p c s : R),
  kc <> 0 -> Rabs kc <= 1 -> theta6 ^ (2 ^ N) < Rabs kc ->
  exists n v, (n <= N)%nat /\ cel0 NumR N kc p c s = Done n v.
Proof. exact cel0_terminates_lemma. Qed.

Theorem cel0_terminates_ex : forall (kc p c s : R), kc <> 0 -> Rabs kc <= 1 ->
  exists N n v, (n <= N)%nat /\ cel0 NumR N kc p c s = Done n v.
Proof.
  intros kc p c s Hk Hk1. destruct (thr_half_small (Rabs kc)) as [k Hkk]; [apply Rabs_pos_lt; auto|].
  exists (20 + k)%nat. apply cel0_terminates_lemma; auto.
  pose proof (thr_theta6_20 k). lra.
Qed.

(* cel0 raises exactly when kc = 0 (if the guard is present in the current source) *)
Theorem cel0_zero_raises : forall fuel p c s, cel0_raises_on_zero = true -> cel0 NumR fuel 0 p c s = Raised.
Proof.
  intros fuel p c s H. unfold cel0. rewrite H. simpl.
  assert (E : Reqb 0 0 = true) by (apply Reqb_true_iff; reflexivity). rewrite E. reflexivity.
Qed.

(* ------------------------------------------------------------------ guards: BHJM_circle -> current_circle_Hfield *)
Lemma sq_pos_nz x : x <> 0 -> 0 < x * x.
Proof. intros. destruct (Rtotal_order x 0) as [|[|]]; nra. Qed.

Lemma div_pos a b : 0 < a -> 0 < b -> 0 < a / b.
Proof. intros. unfold Rdiv. apply Rmult_lt_0_compat; auto. apply Rinv_0_lt_compat; auto. Qed.

Lemma div_le_1 a b : 0 < b -> a <= b -> a / b <= 1.
Proof. intros. unfold Rdiv. apply (Rmult_le_reg_r b); auto. rewrite Rmult_assoc, Rinv_l by lra. lra. Qed.

Lemma sqrt_01 x : 0 < x -> x <= 1 -> 0 < sqrt x <= 1.
Proof. intros. split; [apply sqrt_lt_R0; auto|]. rewrite <- sqrt_1. apply sqrt_le_1; lra. Qed.

Theorem circle_guards : forall (r z d i0 : R),
  let w := Build_cir_row NumR r z d i0 in
  0 <= r -> cir_mask5 NumR w = true ->
  let m := circle_mid NumR (cir_core_in NumR w) in
  0 < cw_r0 NumR w /\ 0 < cm_r NumR m /\ 0 < sqrt (cm_r NumR m) /\ 0 < cm_x0 NumR m /\ 0 < cm_k2 NumR m /\
  0 < cm_q2 NumR m /\ cm_q2 NumR m <= 1 /\ 0 < cm_q NumR m /\ cm_q NumR m <= 1 /\ 0 < cm_p NumR m /\
  iter_start_ok (circle_start1 NumR m) /\ iter_start_ok (circle_start2 NumR m).
Proof.
  intros r z d i0 w Hr0 Hm.
  unfold cir_mask5, cir_mask1, cir_mask2, cir_mask3, cw_r0, w in Hm. simpl in Hm.
  apply negb_true_iff in Hm. apply orb_false_iff in Hm. destruct Hm as [Hm12 Hm3].
  apply orb_false_iff in Hm12. destruct Hm12 as [Hm1 Hm2].
  apply Reqb_false_iff in Hm1. apply Reqb_false_iff in Hm3.
  assert (Hr0p : 0 < Rabs (d / 2)) by (pose proof (Rabs_pos (d / 2)); lra).
  assert (Hrp : 0 < r) by lra.
  set (r0 := Rabs (d / 2)) in *.
  assert (Hgap : z <> 0 \/ r <> r0).
  { apply andb_false_iff in Hm2. destruct Hm2 as [H|H].
    - right. unfold Rltb in H. destruct (Rlt_dec _ _) as [|Hn]; [discriminate|].
      intros E. apply Hn. rewrite E. replace (r0 - r0) with 0 by ring. rewrite Rabs_R0, lit15. lra.
    - left. unfold Rltb in H. destruct (Rlt_dec _ _) as [|Hn]; [discriminate|].
      intros E. apply Hn. rewrite E, Rabs_R0, lit15. lra. }
  unfold circle_mid, cir_core_in, circle_start1, circle_start2, iter_start_ok, cw_r0, w, sq. simpl.
  fold r0.
  assert (Hr' : 0 < r / r0) by (apply div_pos; auto).
  assert (Hx0 : 0 < z / r0 * (z / r0) + (r / r0 + 1) * (r / r0 + 1)).
  { assert (0 <= z / r0 * (z / r0)) by apply Rle_0_sqr. nra. }
  assert (Hnum : 0 < z / r0 * (z / r0) + (r / r0 - 1) * (r / r0 - 1)).
  { assert (0 <= z / r0 * (z / r0)) by apply Rle_0_sqr.
    assert (0 <= (r / r0 - 1) * (r / r0 - 1)) by apply Rle_0_sqr.
    destruct Hgap as [Hz|Hrr].
    - assert (z / r0 <> 0).
      { intros E. apply Hz. apply (Rmult_eq_compat_r r0) in E. unfold Rdiv in E.
        rewrite Rmult_assoc, Rinv_l, Rmult_0_l, Rmult_1_r in E by lra. exact E. }
      pose proof (sq_pos_nz _ H1). lra.
    - assert (r / r0 - 1 <> 0).
      { intros E. apply Hrr. assert (E2 : r / r0 = 1) by lra.
        apply (Rmult_eq_compat_r r0) in E2. unfold Rdiv in E2.
        rewrite Rmult_assoc, Rinv_l, Rmult_1_l, Rmult_1_r in E2 by lra. exact E2. }
      pose proof (sq_pos_nz _ H1). lra. }
  assert (Hle : z / r0 * (z / r0) + (r / r0 - 1) * (r / r0 - 1) <=
                z / r0 * (z / r0) + (r / r0 + 1) * (r / r0 + 1)) by nra.
  set (x0 := z / r0 * (z / r0) + (r / r0 + 1) * (r / r0 + 1)) in *.
  set (nm := z / r0 * (z / r0) + (r / r0 - 1) * (r / r0 - 1)) in *.
  assert (Hq2 : 0 < nm / x0) by (apply div_pos; auto).
  assert (Hq2le : nm / x0 <= 1) by (apply div_le_1; auto).
  destruct (sqrt_01 _ Hq2 Hq2le) as [Hq Hq1].
  assert (Hk2 : 0 < 4 * (r / r0) / x0) by (apply div_pos; lra).
  repeat split; auto; try lra; try (apply sqrt_lt_R0; auto).
Qed.

(* together: every general-case row of BHJM_circle reaches the core with start values for which the
   iteration terminates *)
Theorem circle_rows_terminate : forall rows : list (cir_row NumR),
  Forall (fun w => 0 <= cw_r NumR w) rows ->
  exists N n1 v1 n2 v2,
    let mids := map (circle_mid NumR) (map (cir_core_in NumR) (filter (cir_mask5 NumR) rows)) in
    cel_iter NumR N (map (circle_start1 NumR) mids) = Done n1 v1 /\
    cel_iter NumR N (map (circle_start2 NumR) mids) = Done n2 v2.
Proof.
  intros rows Hr.
  set (mids := map (circle_mid NumR) (map (cir_core_in NumR) (filter (cir_mask5 NumR) rows))).
  assert (H12 : Forall iter_start_ok (map (circle_start1 NumR) mids) /\
                Forall iter_start_ok (map (circle_start2 NumR) mids)).
  { unfold mids. clear mids. induction rows as [|w rows IH]; simpl; [split; constructor|].
    inversion Hr as [|? ? Hw Hrest]; subst. specialize (IH Hrest).
    destruct (cir_mask5 NumR w) eqn:Hm; [|exact IH].
    destruct w as [r z d i0].
    pose proof (circle_guards r z d i0 Hw Hm) as G. cbv zeta in G.
    destruct G as (_ & _ & _ & _ & _ & _ & _ & _ & _ & _ & G1 & G2).
    simpl. split; constructor; tauto. }
  destruct H12 as [H1 H2].
  destruct (Forall_has_N _ H1) as [N1 HN1]. destruct (Forall_has_N _ H2) as [N2 HN2].
  exists (Nat.max N1 N2).
  destruct (cel_iter_terminates_lemma (Nat.max N1 N2) (map (circle_start1 NumR) mids)) as [n1 [v1 E1]].
  { eapply Forall_impl; [|exact HN1]. intros a Ha. eapply inv_iter_mono; [|exact Ha]. lia. }
  destruct (cel_iter_terminates_lemma (Nat.max N1 N2) (map (circle_start2 NumR) mids)) as [n2 [v2 E2]].
  { eapply Forall_impl; [|exact HN2]. intros a Ha. eapply inv_iter_mono; [|exact Ha]. lia. }
  exists n1, v1, n2, v2. split; assumption.
Qed.

(* ------------------------------------------------------------------ guards: BHJM_magnet_cylinder -> axial core *)
Theorem cylinder_axial_guards : forall (z0 r z : R),
  let i := Build_cyl_in NumR z0 r z in
  0 < z0 -> 0 <= r -> cyl_on_edge NumR i = false ->
  let m := cyl_mid_of NumR i in
  0 < ym_dpr NumR m /\ 0 < ym_sq0 NumR m /\ 0 < ym_sq1 NumR m /\
  0 < ym_k0 NumR m /\ ym_k0 NumR m <= 1 /\ 0 < ym_k1 NumR m /\ ym_k1 NumR m <= 1.
Proof.
  intros z0 r z i Hz0 Hr He.
  assert (Hgap : r <> 1 \/ Rabs z <> z0).
  { unfold cyl_on_edge, isclose15, i in He. simpl in He.
    apply andb_false_iff in He. destruct He as [H|H].
    - left. intros E. subst r. unfold Rleb in H.
      destruct (Rle_dec _ _) as [|Hn]; [discriminate|].
      apply Hn. replace (1 - 1) with 0 by ring. rewrite Rabs_R0, Rabs_R1, lit15. lra.
    - right. intros E. rewrite E in H. unfold Rleb in H.
      destruct (Rle_dec _ _) as [|Hn]; [discriminate|].
      apply Hn. replace (z0 - z0) with 0 by ring. rewrite Rabs_R0, lit15. pose proof (Rabs_pos z0). nra. }
  unfold cyl_mid_of, i, sq. simpl.
  assert (Hp2 : 0 < (1 + r) * (1 + r)) by nra.
  assert (A0 : 0 <= (z - z0) * (z - z0)) by apply Rle_0_sqr.
  assert (A1 : 0 <= (z + z0) * (z + z0)) by apply Rle_0_sqr.
  assert (Am : 0 <= (1 - r) * (1 - r)) by apply Rle_0_sqr.
  assert (Hmp : (1 - r) * (1 - r) <= (1 + r) * (1 + r)) by nra.
  assert (N0 : 0 < (z - z0) * (z - z0) + (1 - r) * (1 - r)).
  { destruct Hgap as [H|H].
    - assert (1 - r <> 0) by lra. pose proof (sq_pos_nz _ H0). lra.
    - assert (z - z0 <> 0). { intros E. apply H. replace z with z0 by lra. apply Rabs_right. lra. }
      pose proof (sq_pos_nz _ H0). lra. }
  assert (N1 : 0 < (z + z0) * (z + z0) + (1 - r) * (1 - r)).
  { destruct Hgap as [H|H].
    - assert (1 - r <> 0) by lra. pose proof (sq_pos_nz _ H0). lra.
    - assert (z + z0 <> 0). { intros E. apply H. replace z with (- z0) by lra. rewrite Rabs_Ropp. apply Rabs_right. lra. }
      pose proof (sq_pos_nz _ H0). lra. }
  assert (D0 : 0 < (z - z0) * (z - z0) + (1 + r) * (1 + r)) by lra.
  assert (D1 : 0 < (z + z0) * (z + z0) + (1 + r) * (1 + r)) by lra.
  destruct (sqrt_01 _ (div_pos _ _ N0 D0)) as [K0 K0']; [apply div_le_1; lra|].
  destruct (sqrt_01 _ (div_pos _ _ N1 D1)) as [K1 K1']; [apply div_le_1; lra|].
  repeat split; auto; try lra; apply sqrt_lt_R0; auto.
Qed.

(* hence each of the cel0 calls of the axial core terminates (some fuel suffices) and does not raise *)
Theorem cylinder_axial_cel0_terminates : forall (z0 r z p c s : R),
  let m := cyl_mid_of NumR (Build_cyl_in NumR z0 r z) in
  0 < z0 -> 0 <= r -> cyl_on_edge NumR (Build_cyl_in NumR z0 r z) = false ->
  exists N n0 v0 n1 v1, cel0 NumR N (ym_k0 NumR m) p c s = Done n0 v0 /\ cel0 NumR N (ym_k1 NumR m) p c s = Done n1 v1.
Proof.
  intros z0 r z p c s m Hz0 Hr He.
  destruct (cylinder_axial_guards z0 r z Hz0 Hr He) as (_ & _ & _ & K0 & K0' & K1 & K1'). fold m in K0, K0', K1, K1'.
  destruct (thr_half_small (ym_k0 NumR m)) as [a Ha]; auto.
  destruct (thr_half_small (ym_k1 NumR m)) as [b Hb]; auto.
  pose (N := (20 + Nat.max a b)%nat). exists N.
  assert (Ta : thr theta6 N < ym_k0 NumR m).
  { eapply Rle_lt_trans; [apply (thr_mono_le theta6 (20 + a) N theta6_range); unfold N; lia|].
    pose proof (thr_theta6_20 a). lra. }
  assert (Tb : thr theta6 N < ym_k1 NumR m).
  { eapply Rle_lt_trans; [apply (thr_mono_le theta6 (20 + b) N theta6_range); unfold N; lia|].
    pose proof (thr_theta6_20 b). lra. }
  destruct (cel0_terminates_lemma N (ym_k0 NumR m) p c s) as [n0 [v0 [_ E0]]]; try (rewrite Rabs_right; lra); try lra.
  destruct (cel0_terminates_lemma N (ym_k1 NumR m) p c s) as [n1 [v1 [_ E1]]]; try (rewrite Rabs_right; lra); try lra.
  exists n0, v0, n1, v1. split; assumption.
Qed.

(* ------------------------------------------------------------------ non-vacuity witnesses *)
Example iter_nonvacuous : exists n v,
  (n <= 28)%nat /\ cel_iter0 NumR 28 (/ 2, 3 / 2, 1, 0, 0, 3 / 2, / 2) = Done n v.
Proof. apply (cel_iter0_terminates_explicit 1); simpl; lra. Qed.

Example circle_guards_nonvacuous : cir_mask5 NumR (Build_cir_row NumR 1 1 2 1) = true /\ 0 <= 1.
Proof.
  split; [|lra]. unfold cir_mask5, cir_mask1, cir_mask2, cir_mask3, cw_r0. simpl.
  assert (E : Rabs (2 / 2) = 1) by (replace (2 / 2) with 1 by lra; apply Rabs_R1).
  rewrite E.
  assert (R1 : Reqb 1 0 = false) by (apply Reqb_false_iff; lra).
  rewrite R1. simpl.
  assert (R2 : Rltb (Rabs 1) (Rlit 1 (-15) * 1) = false) by (apply Rltb_false; rewrite Rabs_R1, lit15; lra).
  rewrite R2, andb_false_r. reflexivity.
Qed.

Example cylinder_guards_nonvacuous : cyl_on_edge NumR (Build_cyl_in NumR 1 1 2) = false /\ 0 < 1 /\ 0 <= 1.
Proof.
  split; [|lra]. unfold cyl_on_edge, isclose15. simpl.
  apply andb_false_iff. right. unfold Rleb.
  destruct (Rle_dec _ _) as [H|]; auto.
  exfalso. rewrite Rabs_R1, lit15 in H. rewrite (Rabs_right 2) in H by lra.
  replace (2 - 1) with 1 in H by ring. rewrite Rabs_R1 in H. lra.
Qed.

(* ------------------------------------------------------------------ celv (vectorised cel): masked do-while *)
Lemma agm_step_le (g q t : R) : 0 < q -> q <= g -> 0 <= t -> g * (t * t) <= q ->
  (g + q) * t <= 2 * sqrt (g * q).
Proof.
  intros Hq Hqg Ht Hr.
  assert (Hg : 0 < g) by lra.
  assert (Hgq : 0 < g * q) by (apply Rmult_lt_0_compat; lra).
  pose proof (sqrt_lt_R0 _ Hgq) as Hs.
  pose proof (sqrt_sqrt (g * q) (Rlt_le _ _ Hgq)) as Hss.
  set (s := sqrt (g * q)) in *. clearbody s.
  destruct (Rle_or_lt ((g + q) * t) (2 * s)) as [|Hc]; auto. exfalso.
  assert (H1 : (2 * s) * (2 * s) < ((g + q) * t) * ((g + q) * t)) by (apply Rmult_le_0_lt_compat; lra).
  assert (H2 : (g + q) * (g + q) <= (2 * g) * (2 * g)) by (apply Rmult_le_compat; lra).
  assert (H3 : 0 <= t * t) by apply Rle_0_sqr.
  assert (H4 : ((g + q) * t) * ((g + q) * t) <= (2 * g) * (2 * g) * (t * t)).
  { replace (((g + q) * t) * ((g + q) * t)) with ((g + q) * (g + q) * (t * t)) by ring.
    apply Rmult_le_compat_r; auto. }
  assert (H5 : 4 * g * (g * (t * t)) <= 4 * g * q) by (apply Rmult_le_compat_l; lra).
  nra.
Qed.

(* same invariant as for cel0, with a non-strict ratio bound (a row that has passed the test keeps it) *)
Definition inv_celv (N : nat) (st : st7R) : Prop :=
  let '(k, kk, cc, ss, pp, g, em) := st in
  0 < k /\ k <= g /\ 0 < pp /\ em = g + k /\ kk = g * k /\ g * thr theta6 N <= k.

Lemma inv_cel_celv N s : inv_cel N s -> inv_celv N s.
Proof. destruct s as [[[[[[k kk] cc] ss] pp] g] em]. intros (A & B & C & D & E & F). repeat split; auto. lra. Qed.

Lemma thr_le_theta theta N : 0 < theta <= 1 -> thr theta N <= theta.
Proof.
  intros H. replace theta with (thr theta 0) at 2 by (unfold thr; simpl; ring).
  apply thr_mono_le; auto. lia.
Qed.

Lemma celv_exit_iff (k g e : R) : e = / 1000000 -> 0 < k -> k <= g ->
  (Rltb (g * e) (Rabs (g - k)) = false <-> g * theta6 <= k).
Proof.
  intros -> Hk Hkg. rewrite Rabs_right by lra. unfold theta6, Rltb.
  destruct (Rlt_dec (g * / 1000000) (g - k)); split; intros; try discriminate; auto; lra.
Qed.

Lemma celv_B0 s : inv_celv 0 s -> celv_cond NumR s = false.
Proof.
  destruct s as [[[[[[k kk] cc] ss] pp] g] em]. intros (Hq & Hqg & Hp & He & Hk & Hr).
  unfold celv_cond. simpl. apply (celv_exit_iff k g _ lit6 Hq Hqg).
  unfold thr in Hr. simpl in Hr. lra.
Qed.

Lemma celv_BS N s : inv_celv (S N) s -> inv_celv N (celv_step NumR s).
Proof.
  destruct s as [[[[[[k kk] cc] ss] pp] g] em]. intros (Hq & Hqg & Hp & He & Hk & Hr).
  unfold celv_step, inv_celv. simpl. subst em kk.
  rewrite thr_S in Hr.
  pose proof (thr_pos theta6 N (proj1 theta6_range)) as Ht.
  pose proof (agm_step_le g k (thr theta6 N) Hq Hqg (Rlt_le _ _ Ht) Hr) as H4.
  assert (Hgk : 0 < g * k) by (apply Rmult_lt_0_compat; lra).
  pose proof (sqrt_lt_R0 _ Hgk) as Hs.
  destruct (agm_step g k 0 Hq Hqg (Rle_refl 0)) as (_ & H2 & _); [lra|].
  assert (0 < 2 * sqrt (g * k) * (g + k) / pp).
  { unfold Rdiv. apply Rmult_lt_0_compat; [apply Rmult_lt_0_compat; lra|apply Rinv_0_lt_compat; auto]. }
  repeat split; auto; try lra; try ring.
Qed.

Lemma celv_masked_BS N s : inv_celv (S N) s -> inv_celv N (celv_masked_step NumR s).
Proof.
  intros H. unfold celv_masked_step. destruct (celv_cond NumR s) eqn:Hc.
  - apply celv_BS; auto.
  - destruct s as [[[[[[k kk] cc] ss] pp] g] em]. destruct H as (Hq & Hqg & Hp & He & Hk & Hr).
    unfold celv_cond in Hc. simpl in Hc. apply (celv_exit_iff k g _ lit6 Hq Hqg) in Hc.
    repeat split; auto. pose proof (thr_le_theta theta6 N theta6_range). assert (0 < g) by lra. nra.
Qed.

Definition cel_row_ok (N : nat) (r : R * R * R * R) : Prop :=
  let '(kc, _, _, _) := r in kc <> 0 /\ Rabs kc <= 1 /\ thr theta6 N < Rabs kc.

Lemma celv_init_inv N (r : R * R * R * R) : cel_row_ok N r ->
  inv_cel N (let '(kc, p, c, s) := r in cel_init NumR (lleb NumR p (c0 NumR)) kc p c s).
Proof.
  destruct r as [[[kc p] c] s]. intros (Hk & Hk1 & Hr).
  apply cel_init_inv; auto; unfold c0; simpl; intros Hb.
  - unfold Rleb in Hb. destruct (Rle_dec _ _) as [|Hn]; [discriminate|]. apply Rnot_le_lt in Hn. exact Hn.
  - apply Rleb_true_iff in Hb. exact Hb.
Qed.

Theorem celv_terminates : forall (N : nat) (rows : list (R * R * R * R)),
  Forall (cel_row_ok (S N)) rows ->
  exists n v, (n <= S N)%nat /\ celv NumR (S N) rows = Done n v /\ length v = length rows.
Proof.
  intros N rows H. unfold celv.
  match goal with |- context [existsb ?f rows] => assert (Hz : existsb f rows = false) end.
  { apply existsb_false_Forall. eapply Forall_impl; [|exact H].
    intros [[[kc p] c] s] (Hk & _). simpl. apply Reqb_false_iff. exact Hk. }
  rewrite Hz, andb_false_r.
  destruct rows as [|r0 rows'].
  - exists 0%nat, []. repeat split; auto. lia.
  - match goal with |- context [while_loop ?c ?f N 1 ?st] =>
      destruct (while_terminates _ c f (fun n => Forall (inv_celv n))) with (N := N) (n0 := 1%nat) (s := st)
        as [k [Hk [Hw _]]] end.
    + intros s Hs. apply existsb_false_Forall. eapply Forall_impl; [|exact Hs]. apply celv_B0.
    + intros n s Hs. apply Forall_map'. eapply Forall_impl; [|exact Hs]. apply celv_masked_BS.
    + apply Forall_map'. apply Forall_map'. eapply Forall_impl; [|exact H].
      intros r Hr. apply celv_BS. apply inv_cel_celv. apply (celv_init_inv (S N) r Hr).
    + rewrite Hw. simpl. do 2 eexists. split; [|split; [reflexivity|]]; [lia|].
      rewrite map_length.
      assert (L : forall j (l : list (celv_state NumR)), length (Nat.iter j (map (celv_masked_step NumR)) l) = length l).
      { induction j; intros l; simpl; auto. rewrite map_length. auto. }
      rewrite L. simpl. rewrite !map_length. reflexivity.
Qed.

(* the dispatcher cel: scalar loop below the threshold of the current source, vector loop above; some fuel suffices *)
Theorem cel_terminates : forall rows : list (R * R * R * R),
  Forall (fun r => let '(kc, _, _, _) := r in kc <> 0 /\ Rabs kc <= 1) rows ->
  exists N n v, cel NumR N rows = Done n v.
Proof.
  intros rows H.
  assert (HN : exists N, Forall (cel_row_ok (S N)) rows).
  { induction H as [|r l Hr _ [N IH]].
    - exists 0%nat. constructor.
    - destruct r as [[[kc p] c] s]. destruct Hr as [Hk Hk1].
      destruct (thr_half_small (Rabs kc)) as [k Hkk]; [apply Rabs_pos_lt; auto|].
      exists (Nat.max N (20 + k)). constructor.
      + repeat split; auto.
        eapply Rle_lt_trans; [apply (thr_mono_le theta6 (20 + k)); [apply theta6_range|lia]|].
        pose proof (thr_theta6_20 k). lra.
      + eapply Forall_impl; [|exact IH]. intros [[[kc' p'] c'] s'] (A & B & C). repeat split; auto.
        eapply Rle_lt_trans; [apply (thr_mono_le theta6 (S N)); [apply theta6_range|lia]|]. exact C. }
  destruct HN as [N HN]. exists (S N). unfold cel.
  destruct (celv_terminates N rows HN) as [n [v [_ [Hv _]]]].
  match goal with |- context [res_all ?l] => assert (Hall : exists m vs, res_all l = Done m vs) end.
  { apply res_all_done. apply Forall_map'. eapply Forall_impl; [|exact HN].
    intros [[[kc p] c] s] (A & B & C).
    destruct (cel0_terminates_lemma (S N) kc p c s A B C) as [a [b [_ E]]]. eauto. }
  destruct Hall as [m [vs Hm]].
  destruct (Nat.ltb _ _).
  - rewrite Hm. destruct cel_small_returns; eauto.
  - eauto.
Qed.

(* ------------------------------------------------------------------ pinned, unmodelled: special_el3.py *)
Lemma special_el3_pinned : special_el3_fingerprint = special_el3_expected_fingerprint.
Proof. reflexivity. Qed.
