(* C15 -- guards_sufficient for further wrappers, over the reals, stated on models owned by other
   properties (imported read-only): Model/CoreModel.v (dipole, sphere, polyline; tied to /repo by the C01
   correspondence) and Gen/GenCuboid.v (cuboid terms TRANSLATED from /repo on every run).
   "Guard" = under the wrapper's general-case mask every divisor is non-zero / every ln argument is positive.
   Real-number statements: the hypotheses that fail in binary64 (|q1-q2| = 1 after normalisation, squares
   of non-zero numbers positive, u + sqrt(u^2+s) > 0 for s > 0) are where the search points. *)
From Coq Require Import Reals Lra Psatz ZArith Bool List.
From MV Require Import Model.CoreNum Model.CoreModel Gen.GenCuboid.
Import ListNotations.
Local Open Scope R_scope.

Lemma sq_pos_nz' x : x <> 0 -> 0 < x * x.
Proof. intros. destruct (Rtotal_order x 0) as [|[|]]; [nra|contradiction|nra]. Qed.

Lemma sumsq_pos (a b c : R) : (a <> 0 \/ b <> 0 \/ c <> 0) -> 0 < a * a + b * b + c * c.
Proof.
  intros H. assert (0 <= a * a) by nra. assert (0 <= b * b) by nra. assert (0 <= c * c) by nra.
  destruct H as [H|[H|H]]; pose proof (sq_pos_nz' _ H); lra.
Qed.

Lemma sumsq_zero (a b c : R) : a * a + b * b + c * c = 0 -> a = 0 /\ b = 0 /\ c = 0.
Proof. intros H. repeat split; nra. Qed.

Lemma Reqb_false a b : Reqb a b = false -> a <> b.
Proof. unfold Reqb. destruct (Req_EM_T a b); [discriminate|auto]. Qed.
Lemma Rltb_true a b : Rltb a b = true -> a < b.
Proof. unfold Rltb. destruct (Rlt_dec a b); [auto|discriminate]. Qed.
Lemma Rltb_false a b : Rltb a b = false -> b <= a.
Proof. unfold Rltb. destruct (Rlt_dec a b); [discriminate|lra]. Qed.

(* ------------------------------------------------------------------ Dipole: r != 0 off the (documented) singular point *)
Theorem dipole_guards : forall x y z : R,
  let r := sqrt (x * x + y * y + z * z) in
  (Reqb r 0 = false -> 0 < r /\ pow5 NumR r <> 0 /\ pow3 NumR r <> 0 /\ c4 NumR <> 0 /\ cpi NumR <> 0) /\
  (r = 0 <-> x = 0 /\ y = 0 /\ z = 0).
Proof.
  intros x y z r. split.
  - intros H. apply Reqb_false in H.
    assert (Hr : 0 < r) by (pose proof (sqrt_pos (x * x + y * y + z * z)); fold r in H0; lra).
    unfold pow5, pow3, c4, cpi. simpl. split; [exact Hr|split; [|split; [|split]]].
    + apply Rgt_not_eq. repeat apply Rmult_lt_0_compat; auto.
    + apply Rgt_not_eq. repeat apply Rmult_lt_0_compat; auto.
    + lra.
    + apply Rgt_not_eq, PI_RGT_0.
  - unfold r. split.
    + intros H. apply sumsq_zero. apply sqrt_eq_0; auto. nra.
    + intros (-> & -> & ->). replace (0 * 0 + 0 * 0 + 0 * 0) with 0 by ring. apply sqrt_0.
Qed.

(* the model takes exactly this branch *)
Lemma dipole_general_branch : forall o m : V3 NumR,
  let '(x, y, z) := o in
  Reqb (sqrt (x * x + y * y + z * z)) 0 = true ->
  dipole_H NumR o m = (let '(mx, my, mz) := m in (dipole_inf NumR mx, dipole_inf NumR my, dipole_inf NumR mz)).
Proof.
  intros [[x y] z] [[mx my] mz] H. unfold dipole_H, sq, c0. simpl. simpl in H. rewrite H. reflexivity.
Qed.

(* ------------------------------------------------------------------ Sphere: outside branch divides by r^5 with r > |d|/2 >= 0 *)
Theorem sphere_guards : forall (x y z d : R),
  sphere_out NumR (x, y, z) d = true ->
  let r := sqrt (x * x + y * y + z * z) in 0 < r /\ pow5 NumR r <> 0 /\ c3 NumR <> 0.
Proof.
  intros x y z d H r. unfold sphere_out, sq, c2 in H. simpl in H. apply Rltb_true in H. fold r in H.
  assert (0 <= Rabs d / 2) by (pose proof (Rabs_pos d); lra).
  assert (Hr : 0 < r) by lra.
  unfold pow5, c3. simpl. split; [exact Hr|split; [|lra]].
  apply Rgt_not_eq. repeat apply Rmult_lt_0_compat; auto.
Qed.

(* ------------------------------------------------------------------ Polyline (after `make dimensionless`): |q1 - q2| = 1 *)
Section Polyline.
Variables qo q1 q2 : V3 NumR.
Let d := vsub NumR q1 q2.
Let t := vdot NumR (vsub NumR qo q1) d.
Let q4 := vadd NumR q1 (vscale NumR t d).
Let w := vsub NumR qo q4.
Let no4 := vnorm NumR w.
Let nc := vnorm NumR (vcross NumR (vsub NumR q2 q1) w).
Let no1 := vnorm NumR (vsub NumR qo q1).
Let no2 := vnorm NumR (vsub NumR qo q2).
Let n41 := vnorm NumR (vsub NumR q4 q1).
Let n42 := vnorm NumR (vsub NumR q4 q2).

Definition sumsq3 (v : V3 NumR) : R := let '(a, b, c) := v in a * a + b * b + c * c.

Theorem polyline_guards :
  sumsq3 d = 1 ->                          (* the segment has unit length after the division by norm_12 *)
  Rltb no4 (e15 NumR) = false ->           (* not mask1: norm_o4 >= 1e-15 *)
  0 < no4 /\ 0 < nc /\ 0 < no1 /\ 0 < no2 /\ 0 <= n41 /\ 0 <= n42 /\ 1 <= n41 + n42 /\
  0 < no1 * no2 * (n41 * no2 + n42 * no1).
Proof.
  destruct qo as [[ox oy] oz], q1 as [[ax ay] az], q2 as [[bx by_] bz].
  unfold sumsq3, no4, nc, no1, no2, n41, n42, w, q4, t, d, vnorm, vcross, vsub, vadd, vscale, vdot, e15, c1. simpl.
  intros Hd Hm. apply Rltb_false in Hm.
  set (dx := ax - bx) in *. set (dy := ay - by_) in *. set (dz := az - bz) in *.
  clear d t q4 w no4 nc no1 no2 n41 n42.
  set (ux := ox - ax) in *. set (uy := oy - ay) in *. set (uz := oz - az) in *.
  set (tt := ux * dx + uy * dy + uz * dz) in *.
  (* w = u - tt d *)
  replace (ox - (ax + tt * dx)) with (ux - tt * dx) in * by (unfold ux; ring).
  replace (oy - (ay + tt * dy)) with (uy - tt * dy) in * by (unfold uy; ring).
  replace (oz - (az + tt * dz)) with (uz - tt * dz) in * by (unfold uz; ring).
  set (wx := ux - tt * dx) in *. set (wy := uy - tt * dy) in *. set (wz := uz - tt * dz) in *.
  assert (Hwd : wx * dx + wy * dy + wz * dz = 0).
  { unfold wx, wy, wz. replace ((ux - tt * dx) * dx + (uy - tt * dy) * dy + (uz - tt * dz) * dz)
      with (tt - tt * (dx * dx + dy * dy + dz * dz)) by (unfold tt; ring). rewrite Hd. ring. }
  set (W := wx * wx + wy * wy + wz * wz) in *.
  assert (HW0 : 0 <= W) by (unfold W; nra).
  assert (Hno4 : 0 < sqrt W).
  { assert (0 < 1 / 1000000000000000) by lra. lra. }
  assert (HW : 0 < W).
  { destruct (Rle_lt_or_eq_dec 0 W HW0) as [|E]; auto. rewrite <- E, sqrt_0 in Hno4. lra. }
  (* |(q2-q1) x w|^2 = |d|^2 |w|^2 - (d.w)^2 = W *)
  assert (Hcross : ((by_ - ay) * wz - (bz - az) * wy) * ((by_ - ay) * wz - (bz - az) * wy) +
                   ((bz - az) * wx - (bx - ax) * wz) * ((bz - az) * wx - (bx - ax) * wz) +
                   ((bx - ax) * wy - (by_ - ay) * wx) * ((bx - ax) * wy - (by_ - ay) * wx) = W).
  { replace (by_ - ay) with (- dy) by (unfold dy; ring). replace (bz - az) with (- dz) by (unfold dz; ring).
    replace (bx - ax) with (- dx) by (unfold dx; ring).
    transitivity ((dx * dx + dy * dy + dz * dz) * W - (wx * dx + wy * dy + wz * dz) * (wx * dx + wy * dy + wz * dz)).
    - unfold W. ring.
    - rewrite Hd, Hwd. ring. }
  rewrite Hcross.
  (* |qo - q1|^2 = W + tt^2 ; qo - q2 = w + (tt + 1) d ; q4 - q1 = tt d ; q4 - q2 = (tt + 1) d *)
  assert (Hu : ux * ux + uy * uy + uz * uz = W + tt * tt).
  { replace ux with (wx + tt * dx) by (unfold wx; ring). replace uy with (wy + tt * dy) by (unfold wy; ring).
    replace uz with (wz + tt * dz) by (unfold wz; ring).
    transitivity (W + 2 * tt * (wx * dx + wy * dy + wz * dz) + tt * tt * (dx * dx + dy * dy + dz * dz)).
    - unfold W. ring.
    - rewrite Hd, Hwd. ring. }
  rewrite Hu.
  assert (Hv : (ox - bx) * (ox - bx) + (oy - by_) * (oy - by_) + (oz - bz) * (oz - bz) = W + (tt + 1) * (tt + 1)).
  { replace (ox - bx) with (wx + (tt + 1) * dx) by (unfold wx, ux, dx; ring).
    replace (oy - by_) with (wy + (tt + 1) * dy) by (unfold wy, uy, dy; ring).
    replace (oz - bz) with (wz + (tt + 1) * dz) by (unfold wz, uz, dz; ring).
    transitivity (W + 2 * (tt + 1) * (wx * dx + wy * dy + wz * dz) + (tt + 1) * (tt + 1) * (dx * dx + dy * dy + dz * dz)).
    - unfold W. ring.
    - rewrite Hd, Hwd. ring. }
  rewrite Hv.
  assert (H41 : (ax + tt * dx - ax) * (ax + tt * dx - ax) + (ay + tt * dy - ay) * (ay + tt * dy - ay) +
                (az + tt * dz - az) * (az + tt * dz - az) = tt * tt).
  { transitivity (tt * tt * (dx * dx + dy * dy + dz * dz)); [ring|rewrite Hd; ring]. }
  rewrite H41.
  assert (H42 : (ax + tt * dx - bx) * (ax + tt * dx - bx) + (ay + tt * dy - by_) * (ay + tt * dy - by_) +
                (az + tt * dz - bz) * (az + tt * dz - bz) = (tt + 1) * (tt + 1)).
  { transitivity ((tt + 1) * (tt + 1) * (dx * dx + dy * dy + dz * dz)); [unfold dx, dy, dz; ring|rewrite Hd; ring]. }
  rewrite H42.
  assert (S1 : sqrt (tt * tt) = Rabs tt) by apply sqrt_Rsqr_abs.
  assert (S2 : sqrt ((tt + 1) * (tt + 1)) = Rabs (tt + 1)) by apply sqrt_Rsqr_abs.
  rewrite S1, S2.
  assert (Q1 : 0 <= tt * tt) by apply Rle_0_sqr.
  assert (Q2 : 0 <= (tt + 1) * (tt + 1)) by apply Rle_0_sqr.
  assert (P1 : 0 < sqrt (W + tt * tt)) by (apply sqrt_lt_R0; lra).
  assert (P2 : 0 < sqrt (W + (tt + 1) * (tt + 1))) by (apply sqrt_lt_R0; lra).
  pose proof (Rabs_pos tt) as A1. pose proof (Rabs_pos (tt + 1)) as A2.
  assert (A3 : 1 <= Rabs tt + Rabs (tt + 1)).
  { unfold Rabs. destruct (Rcase_abs tt), (Rcase_abs (tt + 1)); lra. }
  repeat split; auto.
  apply Rmult_lt_0_compat; [apply Rmult_lt_0_compat; auto|].
  destruct (Rle_lt_or_eq_dec 0 (Rabs tt) A1) as [L|E].
  - assert (0 < Rabs tt * sqrt (W + (tt + 1) * (tt + 1))) by (apply Rmult_lt_0_compat; auto).
    assert (0 <= Rabs (tt + 1) * sqrt (W + tt * tt)) by (apply Rmult_le_pos; lra). lra.
  - assert (0 < Rabs (tt + 1)) by lra.
    assert (0 < Rabs (tt + 1) * sqrt (W + tt * tt)) by (apply Rmult_lt_0_compat; auto).
    assert (0 <= Rabs tt * sqrt (W + (tt + 1) * (tt + 1))) by (apply Rmult_le_pos; lra). lra.
Qed.
End Polyline.

(* ------------------------------------------------------------------ Cuboid: the six ln arguments of the TRANSLATED cuboid_ff *)
Definition cub_ln_args (x y z a b c : R) : (R * R) * (R * R) * (R * R) :=
  let xma := (x - a) in
  let xpa := (x + a) in
  let ymb := (y - b) in
  let ypb := (y + b) in
  let zmc := (z - c) in
  let zpc := (z + c) in
  let xma2 := (xma ^ 2) in
  let xpa2 := (xpa ^ 2) in
  let ymb2 := (ymb ^ 2) in
  let ypb2 := (ypb ^ 2) in
  let zmc2 := (zmc ^ 2) in
  let zpc2 := (zpc ^ 2) in
  let mmm := (sqrt ((xma2 + ymb2) + zmc2)) in
  let pmp := (sqrt ((xpa2 + ymb2) + zpc2)) in
  let pmm := (sqrt ((xpa2 + ymb2) + zmc2)) in
  let mmp := (sqrt ((xma2 + ymb2) + zpc2)) in
  let mpm := (sqrt ((xma2 + ypb2) + zmc2)) in
  let ppp := (sqrt ((xpa2 + ypb2) + zpc2)) in
  let ppm := (sqrt ((xpa2 + ypb2) + zmc2)) in
  let mpp := (sqrt ((xma2 + ypb2) + zpc2)) in
  (((((xma + mmm) * (xpa + ppm)) * (xpa + pmp)) * (xma + mpp),
    (((xpa + pmm) * (xma + mpm)) * (xma + mmp)) * (xpa + ppp)),
   (((((- ymb) + mmm) * ((- ypb) + ppm)) * ((- ymb) + pmp)) * ((- ypb) + mpp),
    ((((- ymb) + pmm) * ((- ypb) + mpm)) * (ymb - mmp)) * (ypb - ppp)),
   (((((- zmc) + mmm) * ((- zmc) + ppm)) * ((- zpc) + pmp)) * ((- zpc) + mpp),
    ((((- zmc) + pmm) * (zmc - mpm)) * ((- zpc) + mmp)) * (zpc - ppp))).

(* the terms ff2x, ff2y, ff2z of the generated function are exactly ln(arg) - ln(arg) of these (by computation:
   this lemma stops compiling when the translated expressions change) *)
Lemma cuboid_ff_ln_args at2 x y z a b c :
  let '(_, _, _, f2x, f2y, f2z) := cuboid_ff at2 x y z a b c in
  let '((X1, X2), (Y1, Y2), (Z1, Z2)) := cub_ln_args x y z a b c in
  f2x = ln X1 - ln X2 /\ f2y = ln Y1 - ln Y2 /\ f2z = ln Z1 - ln Z2.
Proof. unfold cuboid_ff, cub_ln_args. cbv zeta. repeat split; reflexivity. Qed.

Lemma add_sqrt_pos u s : u * u < s -> 0 < u + sqrt s.
Proof.
  intros H. assert (Hs : 0 <= u * u) by apply Rle_0_sqr.
  assert (H1 : sqrt (u * u) < sqrt s) by (apply sqrt_lt_1; lra).
  replace (sqrt (u * u)) with (Rabs u) in H1 by (symmetry; apply sqrt_Rsqr_abs). unfold Rabs in H1. destruct (Rcase_abs u); lra.
Qed.
Lemma add_sqrt_pos' u s : 0 < u -> 0 < u + sqrt s.
Proof. intros. pose proof (sqrt_pos s). lra. Qed.
Lemma opp_add_sqrt_pos u s : u * u < s -> 0 < - u + sqrt s.
Proof. intros H. apply add_sqrt_pos. lra. Qed.
Lemma sub_sqrt_neg u s : u * u < s -> u - sqrt s < 0.
Proof. intros H. pose proof (opp_add_sqrt_pos u s H). lra. Qed.
Lemma sub_sqrt_neg' u s : u < 0 -> u - sqrt s < 0.
Proof. intros. pose proof (sqrt_pos s). lra. Qed.
Lemma mul_neg_neg p q : p < 0 -> q < 0 -> 0 < p * q.
Proof. intros. nra. Qed.

Ltac fac := first [assumption | solve [apply add_sqrt_pos'; lra] | solve [apply add_sqrt_pos; lra]
                   | solve [apply opp_add_sqrt_pos; lra]].

(* observer folded into the octant x >= 0, y <= 0, z <= 0 (what magnet_cuboid_Bfield does first); off the three
   (extended) edge lines through the corner (a, -b, -c) every ln argument is positive *)
Theorem cuboid_ln_guards : forall x y z a b c : R,
  0 < a -> 0 < b -> 0 < c -> 0 <= x -> y <= 0 -> z <= 0 ->
  ~ (y + b = 0 /\ z + c = 0 /\ x - a <= 0) ->
  ~ (x - a = 0 /\ z + c = 0 /\ 0 <= y + b) ->
  ~ (x - a = 0 /\ y + b = 0 /\ 0 <= z + c) ->
  let '((X1, X2), (Y1, Y2), (Z1, Z2)) := cub_ln_args x y z a b c in
  0 < X1 /\ 0 < X2 /\ 0 < Y1 /\ 0 < Y2 /\ 0 < Z1 /\ 0 < Z2.
Proof.
  intros x y z a b c Ha Hb Hc Hx Hy Hz Ex Ey Ez.
  unfold cub_ln_args. cbv zeta.
  set (X := x - a). set (P := x + a). set (Ym := y - b). set (Yp := y + b). set (Zm := z - c). set (Zp := z + c).
  fold X in Ex, Ey, Ez. fold Yp in Ex, Ey, Ez. fold Zp in Ex, Ey, Ez.
  assert (HP : 0 < P) by (unfold P; lra). assert (HYm : Ym < 0) by (unfold Ym; lra). assert (HZm : Zm < 0) by (unfold Zm; lra).
  assert (EX : X ^ 2 = X * X) by ring. assert (EP : P ^ 2 = P * P) by ring.
  assert (EYm : Ym ^ 2 = Ym * Ym) by ring. assert (EYp : Yp ^ 2 = Yp * Yp) by ring.
  assert (EZm : Zm ^ 2 = Zm * Zm) by ring. assert (EZp : Zp ^ 2 = Zp * Zp) by ring.
  rewrite EX, EP, EYm, EYp, EZm, EZp.
  assert (SX : 0 <= X * X) by apply Rle_0_sqr. assert (SP : 0 < P * P) by nra.
  assert (SYm : 0 < Ym * Ym) by nra. assert (SYp : 0 <= Yp * Yp) by apply Rle_0_sqr.
  assert (SZm : 0 < Zm * Zm) by nra. assert (SZp : 0 <= Zp * Zp) by apply Rle_0_sqr.
  (* the three factors that can vanish: each needs the corresponding edge hypothesis *)
  assert (Fx : 0 < X + sqrt (X * X + Yp * Yp + Zp * Zp)).
  { destruct (Rlt_or_le 0 X) as [|HX]; [apply add_sqrt_pos'; auto|].
    apply add_sqrt_pos.
    destruct (Req_dec Yp 0) as [E1|N1]; [destruct (Req_dec Zp 0) as [E2|N2]|].
    - exfalso. apply Ex. auto.
    - pose proof (sq_pos_nz' _ N2). lra.
    - pose proof (sq_pos_nz' _ N1). lra. }
  assert (Fy : 0 < - Yp + sqrt (X * X + Yp * Yp + Zp * Zp)).
  { destruct (Rlt_or_le Yp 0) as [|HY]; [apply add_sqrt_pos'; lra|].
    apply opp_add_sqrt_pos.
    destruct (Req_dec X 0) as [E1|N1]; [destruct (Req_dec Zp 0) as [E2|N2]|].
    - exfalso. apply Ey. auto.
    - pose proof (sq_pos_nz' _ N2). lra.
    - pose proof (sq_pos_nz' _ N1). lra. }
  assert (Fz : 0 < - Zp + sqrt (X * X + Yp * Yp + Zp * Zp)).
  { destruct (Rlt_or_le Zp 0) as [|HZ]; [apply add_sqrt_pos'; lra|].
    apply opp_add_sqrt_pos.
    destruct (Req_dec X 0) as [E1|N1]; [destruct (Req_dec Yp 0) as [E2|N2]|].
    - exfalso. apply Ez. auto.
    - pose proof (sq_pos_nz' _ N2). lra.
    - pose proof (sq_pos_nz' _ N1). lra. }
  repeat match goal with |- _ /\ _ => split end.
  - repeat apply Rmult_lt_0_compat; fac.
  - repeat apply Rmult_lt_0_compat; fac.
  - repeat apply Rmult_lt_0_compat; fac.
  - apply mul_neg_neg.
    + assert (0 < (- Ym + sqrt (P * P + Ym * Ym + Zm * Zm)) * (- Yp + sqrt (X * X + Yp * Yp + Zm * Zm))).
      { apply Rmult_lt_0_compat; [apply add_sqrt_pos'; lra|apply opp_add_sqrt_pos; lra]. }
      pose proof (sub_sqrt_neg' Ym (X * X + Ym * Ym + Zp * Zp) HYm). nra.
    + apply sub_sqrt_neg. lra.
  - repeat apply Rmult_lt_0_compat; fac.
  - apply mul_neg_neg.
    + assert (N : (- Zm + sqrt (P * P + Ym * Ym + Zm * Zm)) * (Zm - sqrt (X * X + Yp * Yp + Zm * Zm)) < 0).
      { pose proof (add_sqrt_pos' (- Zm) (P * P + Ym * Ym + Zm * Zm)). pose proof (sub_sqrt_neg' Zm (X * X + Yp * Yp + Zm * Zm) HZm).
        assert (0 < - Zm) by lra. specialize (H H1). nra. }
      assert (Q : 0 < - Zp + sqrt (X * X + Ym * Ym + Zp * Zp)) by (apply opp_add_sqrt_pos; lra).
      nra.
    + apply sub_sqrt_neg. lra.
Qed.

Example cuboid_ln_guards_nonvacuous :
  let '((X1, X2), (Y1, Y2), (Z1, Z2)) := cub_ln_args 2 (-3) (-3) 1 1 1 in
  0 < X1 /\ 0 < X2 /\ 0 < Y1 /\ 0 < Y2 /\ 0 < Z1 /\ 0 < Z2.
Proof. apply (cuboid_ln_guards 2 (-3) (-3) 1 1 1); try lra; intros (H1 & H2 & H3); lra. Qed.
