(* C05 -- shared vocabulary of the LinearExc* files.  B and H are linear in the excitation, over R, for the closed-form cores modelled in
   CoreModel.v (dipole: moment; sphere: polarization; polyline segment and circle (modelled
   branches): current) and, for the BHJM wrappers of WrapModel.v, in any field, given that the
   (opaque) core is linear in the excitation.
   Division is Coq's total division (x / 0 = x * / 0), so no side conditions are needed: every
   branch condition of these models is independent of the excitation. *)
From Coq Require Import Reals Lra ZArith Bool List Field.
From MV Require Import Model.CoreNum Model.CoreModel Model.CoreSpec Proofs.CoreProofs.
Open Scope R_scope.

(* a J1 + b J2 *)
Definition lin (a b : R) (u v : RV3) : RV3 := Rvadd (Rvscale a u) (Rvscale b v).

Ltac destr_ifs :=
  repeat match goal with |- context [if ?c then _ else _] => destruct c end.

(* unfold the model completely, whatever helper definitions CoreModel.v is split into (it is another
   builder's file and gets refactored): everything except the primitives of the reals *)
Ltac unfold_all :=
  cbv beta iota zeta delta -[Rplus Rminus Rmult Rdiv Rinv Ropp sqrt Rabs Rltb Reqb PI IZR].

