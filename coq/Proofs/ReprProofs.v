(* C13 -- proofs about the models of Model/ReprModel.v (sphere = dipole outside, the full-cylinder shortcut of
   CylinderSegment, np.unique/return_inverse mesh construction, to_TriangleCollection, corner-sum additivity). *)
From Coq Require Import ZArith Reals List Bool Lra Lia Psatz.
From MV Require Import Lib.Rigid Model.ReprModel.
Import ListNotations.

(* ---------------- masks, full-cylinder shortcut (any numeric carrier) *)

Section MaskLemmas.
Context {A : Type}.

Fixpoint rank (mask : list bool) (i : nat) : nat :=
  match mask, i with
  | b :: m, S j => (if b then 1 else 0) + rank m j
  | _, _ => 0
  end.

Lemma scatter_length (mask : list bool) (vals base : list A) : length (scatter mask vals base) = length base.
Proof.
  revert vals base. induction mask as [|b m IH]; intros vals [|x t]; simpl; auto.
  destruct b; [destruct vals|]; simpl; rewrite IH; reflexivity.
Qed.

Lemma scatter_nth_false (mask : list bool) (vals base : list A) i :
  nth i mask false = false -> nth_error (scatter mask vals base) i = nth_error base i.
Proof.
  revert vals base i. induction mask as [|b m IH]; intros vals base i Hm.
  - destruct base; reflexivity.
  - destruct base as [|x t]; [reflexivity|]. destruct i as [|i]; simpl in *.
    + subst b. reflexivity.
    + destruct b; [destruct vals|]; simpl; apply IH; exact Hm.
Qed.

Lemma scatter_nth_true (mask : list bool) (vals base : list A) i v :
  nth i mask false = true -> i < length base -> nth_error vals (rank mask i) = Some v ->
  nth_error (scatter mask vals base) i = Some v.
Proof.
  revert vals base i. induction mask as [|b m IH]; intros vals base i Hm Hi Hv.
  - destruct i; discriminate.
  - destruct base as [|x t]; [simpl in Hi; lia|]. destruct i as [|i]; simpl in *.
    + subst b. destruct vals; [discriminate|]. simpl in *. exact Hv.
    + destruct b; simpl in Hv.
      * destruct vals as [|v0 vs]; [discriminate|]. simpl. apply IH; auto. lia.
      * simpl. apply IH; auto. lia.
Qed.

Lemma gather_nth (mask : list bool) (l : list A) i x :
  nth i mask false = true -> nth_error l i = Some x -> nth_error (gather mask l) (rank mask i) = Some x.
Proof.
  revert l i. induction mask as [|b m IH]; intros l i Hm Hx.
  - destruct i; discriminate.
  - destruct l as [|y t]; [destruct i; discriminate|]. destruct i as [|i]; simpl in *.
    + subst b. exact Hx.
    + destruct b; simpl; apply IH; auto.
Qed.

Lemma gather_length_le (mask : list bool) (l : list A) : length (gather mask l) <= length l.
Proof.
  revert l. induction mask as [|b m IH]; intros [|y t]; simpl; try lia.
  specialize (IH t). destruct b; simpl; lia.
Qed.
End MaskLemmas.

Lemma gather_map {A B} (f : A -> B) mask (l : list A) : gather mask (map f l) = map f (gather mask l).
Proof.
  revert l. induction mask as [|b m IH]; intros [|y t]; simpl; auto.
  destruct b; simpl; rewrite IH; reflexivity.
Qed.

Lemma nth_map_default {A} (f : A -> bool) (l : list A) i x :
  nth_error l i = Some x -> nth i (map f l) false = f x.
Proof.
  revert i. induction l as [|y t IH]; intros [|i] H; simpl in *; try discriminate.
  - congruence.
  - apply IH; exact H.
Qed.

Lemma nth_error_combine {A B} (l : list A) (l' : list B) i a b :
  nth_error l i = Some a -> nth_error l' i = Some b -> nth_error (combine l l') i = Some (a, b).
Proof.
  revert l' i. induction l as [|x t IH]; intros [|y t'] [|i] Ha Hb; simpl in *; try discriminate.
  - congruence.
  - apply IH; assumption.
Qed.

Section FullSegment.
Context {N : NumOps}.
Variable seg : fieldT -> list (@srow N) -> list (@vec N).
Variable cyl1 : fieldT -> @crow N -> @vec N.       (* BHJM_magnet_cylinder is row-wise *)
Let cyl := fun f rows => map (cyl1 f) rows.


Theorem full_segment_is_cylinder_gen (fld : fieldT) (rows : list srow) i x :
  nth_error rows i = Some x -> mask_segment x = false ->
  nth_error (seg_internal seg cyl fld rows) i = Some (full_cylinder_spec cyl1 fld x).
Proof.
  intros Hx Hm. unfold seg_internal.
  set (mask1 := map mask_segment rows).
  set (bh0 := map (fun _ => vzero3) rows).
  set (bh1 := scatter mask1 (seg fld (gather mask1 rows)) bh0).
  set (mask1x := map negb mask1).
  set (bh2 := scatter mask1x (cyl fld (map outer_row (gather mask1x rows))) bh1).
  set (mask2 := map mask_hollow rows).
  assert (Hi : i < length rows) by (apply nth_error_Some; congruence).
  assert (Hlen1 : length bh1 = length rows) by (unfold bh1; rewrite scatter_length; unfold bh0; apply map_length).
  assert (Hlen2 : length bh2 = length rows) by (unfold bh2; rewrite scatter_length; exact Hlen1).
  assert (Hm1x : nth i mask1x false = true).
  { unfold mask1x, mask1. rewrite map_map. rewrite (nth_map_default _ rows i x Hx). rewrite Hm. reflexivity. }
  assert (Hbh2 : nth_error bh2 i = Some (cyl1 fld (outer_row x))).
  { unfold bh2. apply scatter_nth_true; [exact Hm1x|lia|].
    unfold cyl. rewrite <- !gather_map. rewrite !map_map.
    apply gather_nth; [exact Hm1x|]. rewrite nth_error_map, Hx. reflexivity. }
  assert (Hm2 : nth i mask2 false = mask_hollow x) by (apply nth_map_default; exact Hx).
  unfold full_cylinder_spec. destruct x as [[o p] [[[[r1 r2] h] phi1] phi2]].
  unfold mask_hollow in Hm2. rewrite Hm in Hm2. simpl negb in Hm2. rewrite andb_true_r in Hm2.
  destruct (neqb N r1 (nofZ N 0)) eqn:Hr1; simpl in Hm2.
  - rewrite scatter_nth_false by exact Hm2. exact Hbh2.
  - apply scatter_nth_true; [exact Hm2|lia|].
    rewrite nth_error_map.
    erewrite nth_error_combine; [reflexivity| |].
    + apply gather_nth; [exact Hm2|exact Hbh2].
    + unfold cyl. rewrite <- !gather_map, map_map. apply gather_nth; [exact Hm2|].
      rewrite nth_error_map, Hx. reflexivity.
Qed.

(* rows with phi2 - phi1 < 360 get exactly what BHJM_cylinder_segment returned for them *)
Theorem segment_rows_pass_through (fld : fieldT) (rows : list srow) i x v :
  nth_error rows i = Some x -> mask_segment x = true ->
  nth_error (seg fld (gather (map mask_segment rows) rows)) (rank (map mask_segment rows) i) = Some v ->
  nth_error (seg_internal seg cyl fld rows) i = Some v.
Proof.
  intros Hx Hm Hv. unfold seg_internal.
  set (mask1 := map mask_segment rows) in *.
  set (bh0 := map (fun _ => vzero3) rows).
  set (bh1 := scatter mask1 (seg fld (gather mask1 rows)) bh0).
  set (mask1x := map negb mask1).
  set (bh2 := scatter mask1x (cyl fld (map outer_row (gather mask1x rows))) bh1).
  set (mask2 := map mask_hollow rows).
  assert (Hi : i < length rows) by (apply nth_error_Some; congruence).
  assert (Hm1 : nth i mask1 false = true) by (unfold mask1; rewrite (nth_map_default _ rows i x Hx); exact Hm).
  assert (Hm1x : nth i mask1x false = false).
  { unfold mask1x, mask1. rewrite map_map. rewrite (nth_map_default _ rows i x Hx). rewrite Hm. reflexivity. }
  assert (Hm2 : nth i mask2 false = false).
  { unfold mask2. rewrite (nth_map_default _ rows i x Hx). unfold mask_hollow.
    destruct x as [[o p] [[[[r1 r2] h] phi1] phi2]]. rewrite Hm. apply andb_false_r. }
  rewrite scatter_nth_false by exact Hm2.
  unfold bh2. rewrite scatter_nth_false by exact Hm1x.
  unfold bh1. apply scatter_nth_true; [exact Hm1| |exact Hv].
  unfold bh0. rewrite map_length. exact Hi.
Qed.
End FullSegment.

(* ---------------- np.unique / mesh constructors / to_TriangleCollection *)

Section UniqueProofs.
Context {A : Type}.
Variable eqb : A -> A -> bool.
Variable ltb : A -> A -> bool.
Hypothesis eqb_spec : forall x y, eqb x y = true <-> x = y.

Lemma insert_u_in x y l : In y (insert_u eqb ltb x l) <-> y = x \/ In y l.
Proof.
  induction l as [|z t IH]; simpl.
  - intuition.
  - destruct (eqb x z) eqn:E.
    + apply eqb_spec in E. subst z. simpl. intuition.
    + destruct (ltb x z); simpl; [intuition|]. rewrite IH. intuition.
Qed.

Lemma unique_rows_in y l : In y (unique_rows eqb ltb l) <-> In y l.
Proof.
  induction l as [|x t IH]; simpl; [reflexivity|].
  rewrite insert_u_in, IH. intuition.
Qed.

Lemma index_of_nth d x l : In x l -> nth (index_of eqb x l) l d = x.
Proof.
  induction l as [|y t IH]; simpl; [tauto|]. intros H.
  destruct (eqb x y) eqn:E.
  - apply eqb_spec in E. congruence.
  - apply IH. destruct H as [H|H]; [|exact H]. subst y.
    assert (eqb x x = true) by (apply eqb_spec; reflexivity). congruence.
Qed.

Lemma index_of_lt x l : In x l -> index_of eqb x l < length l.
Proof.
  induction l as [|y t IH]; simpl; [tauto|]. intros H.
  destruct (eqb x y) eqn:E; [lia|].
  assert (In x t).
  { destruct H as [H|H]; [|exact H]. subst y.
    assert (eqb x x = true) by (apply eqb_spec; reflexivity). congruence. }
  specialize (IH H0). lia.
Qed.

(* vertices[inverse] = rows, for every list of rows *)
Lemma unique_inverse_roundtrip d (l : list A) :
  map (fun i => nth i (unique_rows eqb ltb l) d) (inverse_rows eqb ltb l) = l.
Proof.
  unfold inverse_rows. rewrite map_map.
  etransitivity; [|apply map_id]. apply map_ext_in. intros x Hx.
  apply index_of_nth. apply unique_rows_in. exact Hx.
Qed.

Lemma inverse_in_range (l : list A) :
  Forall (fun i => i < length (unique_rows eqb ltb l)) (inverse_rows eqb ltb l).
Proof.
  unfold inverse_rows. apply Forall_forall. intros i Hi. apply in_map_iff in Hi.
  destruct Hi as [x [<- Hx]]. apply index_of_lt. apply unique_rows_in. exact Hx.
Qed.



Lemma chunk3_map_flatten {B C} (f : B -> C) (m : list (tri3 B)) :
  chunk3 (map f (flatten3 m)) = map (fun '(a, b, c) => (f a, f b, f c)) m.
Proof.
  induction m as [|[[a b] c] t IH]; simpl; [reflexivity|]. rewrite IH. reflexivity.
Qed.

Theorem mesh_roundtrip_gen d (mesh : list (tri3 A)) :
  index_faces d (mesh_vertices eqb ltb mesh) (mesh_faces eqb ltb mesh) = mesh.
Proof.
  unfold index_faces, mesh_faces, mesh_vertices, inverse_rows.
  rewrite chunk3_map_flatten, map_map.
  etransitivity; [|apply map_id]. apply map_ext_in. intros [[a b] c] Hx.
  assert (Hin : forall v, In v [a; b; c] -> In v (unique_rows eqb ltb (flatten3 mesh))).
  { intros v Hv. apply unique_rows_in. unfold flatten3. apply in_flat_map.
    exists (a, b, c). split; [exact Hx|exact Hv]. }
  rewrite !index_of_nth by (apply Hin; simpl; tauto). reflexivity.
Qed.

Theorem mesh_faces_shape (mesh : list (tri3 A)) :
  length (mesh_faces eqb ltb mesh) = length mesh /\
  Forall (fun '(i, j, k) => let n := length (mesh_vertices eqb ltb mesh) in i < n /\ j < n /\ k < n)
         (mesh_faces eqb ltb mesh).
Proof.
  unfold mesh_faces, mesh_vertices, inverse_rows. rewrite chunk3_map_flatten. split; [apply map_length|].
  apply Forall_forall. intros [[i j] k] H. apply in_map_iff in H.
  destruct H as [[[a b] c] [E Hx]]. inversion E; subst.
  assert (Hin : forall v, In v [a; b; c] -> In v (unique_rows eqb ltb (flatten3 mesh))).
  { intros v Hv. apply unique_rows_in. unfold flatten3. apply in_flat_map.
    exists (a, b, c). split; [exact Hx|exact Hv]. }
  repeat split; apply index_of_lt; apply Hin; simpl; tauto.
Qed.
End UniqueProofs.

Lemma z3_eqb_spec x y : z3_eqb x y = true <-> x = y.
Proof.
  destruct x as [[a b] c], y as [[a' b'] c']. unfold z3_eqb.
  rewrite !andb_true_iff, !Z.eqb_eq. split; [intros [[? ?] ?]; congruence|intros E; inversion E; auto].
Qed.

Section ToCollProofs.
Context {O : RigidOps} {L : RigidLaws O}.
Variable Pol : Type.

Theorem to_collection_spec (pol : Pol) (mesh : list (tri3 V)) (pos : V) (ori : G) :
  to_triangle_collection Pol pol mesh pos ori =
  ((pos, ori), map (fun v => mkTri Pol v pol pos ori) mesh).
Proof.
  unfold to_triangle_collection, coll_set_orientation, coll_set_position, new_triangles.
  rewrite !map_map. f_equal. apply map_ext. intros v. simpl.
  rewrite ginv_one, gmul_1_r, gmul_1_r.
  f_equal.
  rewrite vsub_self. rewrite vadd_0_r. rewrite vsub_self, act_zero, vadd_0_l. reflexivity.
Qed.
End ToCollProofs.

Local Open Scope R_scope.

(* ---------------- Sphere outside = Dipole *)


Lemma Rnltb_true a b : nltb RNum a b = true <-> a < b.
Proof. simpl. destruct (Rlt_dec a b); split; intros; auto; try discriminate; contradiction. Qed.

Lemma norm3_R (x y z : R) : @norm3 RNum (x, y, z) = sqrt (x*x + y*y + z*z).
Proof. reflexivity. Qed.

Lemma sphere_outside_is_dipole_R (fld : fieldT) (mu0 d : R) (p o : @vec RNum) :
  mu0 <> 0 -> @sphere_out RNum o d = true ->
  @sphere_row RNum fld mu0 o d p = @bhjm_dipole RNum fld mu0 o (@sphere_moment RNum mu0 d p).
Proof.
  intros Hmu Hout. unfold sphere_out in Hout.
  destruct o as [[x y] z], p as [[px py] pz].
  unfold sphere_row, bhjm_dipole, dipole_H. rewrite Hout.
  apply Rnltb_true in Hout. 
  set (r := @norm3 RNum (x, y, z)) in *.
  assert (Hr : 0 < r).
  { eapply Rle_lt_trans; [|exact Hout]. simpl. pose proof (Rabs_pos d). lra. }
  assert (Hne : neqb RNum r (nofZ RNum 0) = false).
  { simpl. destruct (Req_EM_T r 0); [lra|reflexivity]. }
  pose proof PI_RGT_0 as Hpi.
  destruct fld; try reflexivity.
  - rewrite Hne. clearbody r. simpl. unfold pow5, pow3. simpl.
    repeat (apply (f_equal2 (@pair _ _))); change (num RNum) with R in *; field; repeat split; lra.
  - rewrite Hne. clearbody r. simpl. unfold pow5, pow3. simpl.
    repeat (apply (f_equal2 (@pair _ _))); change (num RNum) with R in *; field; repeat split; lra.
  - simpl. repeat (apply (f_equal2 (@pair _ _))); change (num RNum) with R in *; cbn [nofZ RNum]; unfold Rdiv; ring.
Qed.

(* ---------------- J, M of the full-angle segment; corner sums *)
Lemma Rnleb_true a b : nleb RNum a b = true <-> a <= b.
Proof. simpl. destruct (Rle_dec a b); split; intros; auto; try discriminate; contradiction. Qed.

Lemma cyl_inside_gen_R (pre : bool) (r z d h : R) : 0 < d ->
  @cyl_inside_gen RNum pre r z d h = true <-> (Rabs z <= h / 2 /\ r <= d / 2).
Proof.
  intros Hd. unfold cyl_inside_gen.
  assert (H0 : 0 < d / 2) by lra.
  assert (Hz : Rabs (z / (d / 2)) = Rabs z / (d / 2)).
  { unfold Rdiv at 1. rewrite Rabs_mult, Rabs_inv, (Rabs_pos_eq (d / 2)) by lra. reflexivity. }
  assert (Hs : Rabs z / (d / 2) <= h / 2 / (d / 2) <-> Rabs z <= h / 2).
  { split; intros H.
    - apply (Rmult_le_reg_r (/ (d / 2))); [apply Rinv_0_lt_compat; lra|exact H].
    - apply Rmult_le_compat_r; [left; apply Rinv_0_lt_compat; lra|exact H]. }
  assert (Hr : r / (d / 2) <= 1 <-> r <= d / 2).
  { split; intros H.
    - apply (Rmult_le_reg_r (/ (d / 2))); [apply Rinv_0_lt_compat; lra|]. unfold Rdiv in H. rewrite Rinv_r by lra. exact H.
    - apply (Rmult_le_reg_r (d / 2)); [lra|]. unfold Rdiv. rewrite Rmult_assoc, Rinv_l by lra. lra. }
  rewrite andb_true_iff. destruct pre; rewrite !Rnleb_true; cbn [ndiv nabs nofZ RNum].
  - rewrite Hr. tauto.
  - rewrite Hz, Hs, Hr. tauto.
Qed.

Lemma cyl_inside_R (r z d h : R) : 0 < d ->
  @cyl_inside RNum r z d h = true <-> (Rabs z <= h / 2 /\ r <= d / 2).
Proof. apply cyl_inside_gen_R. Qed.

Lemma Rneqb_false a b : neqb RNum a b = true <-> a = b.
Proof. simpl. destruct (Req_EM_T a b); split; intros; auto; try discriminate; contradiction. Qed.

Lemma vsub3_self_R (p : @vec RNum) : vsub3 p p = vzero3.
Proof. destruct p as [[a b] c]. simpl. repeat (apply (f_equal2 (@pair _ _))); change (num RNum) with R in *; cbn [nofZ RNum]; ring. Qed.
Lemma vsub3_zero_R (p : @vec RNum) : vsub3 p vzero3 = p.
Proof. destruct p as [[a b] c]. simpl. repeat (apply (f_equal2 (@pair _ _))); change (num RNum) with R in *; cbn [nofZ RNum]; ring. Qed.

(* J of the full-angle CylinderSegment, through the shortcut and the J branch of BHJM_magnet_cylinder:
   the polarization exactly in the annulus r1 < r <= r2, |z| <= h/2 (bore excluded), zero elsewhere *)
Theorem full_segment_J_R (mu0 : R) (ox oy oz : R) (p : @vec RNum) (r1 r2 h phi1 phi2 : R) :
  let x : @srow RNum := ((ox, oy, oz), p, (r1, r2, h, phi1, phi2)) in
  let r := sqrt (ox * ox + oy * oy) in
  0 <= r1 <= r2 -> 0 < r2 ->
  (((r1 = 0 \/ r1 < r) /\ r <= r2 /\ Rabs oz <= h / 2) -> @full_cylinder_spec RNum (@cyl_JM_row RNum mu0) FJ x = p) /\
  (((0 < r1 /\ r <= r1) \/ r2 < r \/ h / 2 < Rabs oz) -> @full_cylinder_spec RNum (@cyl_JM_row RNum mu0) FJ x = vzero3).
Proof.
  intros x r Hr1 Hr2. unfold x, full_cylinder_spec, outer_row, inner_row, cyl_JM_row, cyl_JM_row_gen, cyl_JM_gen. fold (@cyl_inside RNum).
  cbn [nmul nofZ nsqrt nadd RNum]. fold r.
  pose proof (cyl_inside_R r oz (2 * r2) h ltac:(lra)) as Ho.
  replace (2 * r2 / 2) with r2 in Ho by lra.
  destruct (neqb RNum r1 0) eqn:E.
  - apply Rneqb_false in E. subst r1. split.
    + intros [_ [Ha Hb]]. destruct (@cyl_inside RNum r oz (2 * r2) h) eqn:Ei; [reflexivity|].
      assert (false = true) by (apply Ho; tauto). discriminate.
    + intros [[Ha _]|Hb]; [lra|]. destruct (@cyl_inside RNum r oz (2 * r2) h) eqn:Ei; [|reflexivity].
      assert (Rabs oz <= h / 2 /\ r <= r2) by (apply Ho; reflexivity). lra.
  - assert (Hr1' : 0 < r1).
    { destruct (Req_EM_T r1 0) as [e|n]; [|lra]. apply Rneqb_false in e. simpl in E, e. congruence. }
    pose proof (cyl_inside_R r oz (2 * r1) h ltac:(lra)) as Hi.
    replace (2 * r1 / 2) with r1 in Hi by lra.
    destruct (@cyl_inside RNum r oz (2 * r2) h) eqn:Eo; destruct (@cyl_inside RNum r oz (2 * r1) h) eqn:Ei;
      rewrite ?vsub3_self_R, ?vsub3_zero_R; split; intros Hc; try reflexivity; exfalso.
    + assert (Rabs oz <= h / 2 /\ r <= r1) by (apply Hi; reflexivity). lra.
    + assert (Rabs oz <= h / 2 /\ r <= r2) by (apply Ho; reflexivity).
      assert (~ (Rabs oz <= h / 2 /\ r <= r1)) by (intros Hn; apply Hi in Hn; discriminate). lra.
    + assert (Rabs oz <= h / 2 /\ r <= r1) by (apply Hi; reflexivity).
      assert (~ (Rabs oz <= h / 2 /\ r <= r2)) by (intros Hn; apply Ho in Hn; discriminate). lra.
    + assert (Rabs oz <= h / 2 /\ r <= r1) by (apply Hi; reflexivity).
      assert (~ (Rabs oz <= h / 2 /\ r <= r2)) by (intros Hn; apply Ho in Hn; discriminate). lra.
    + assert (~ (Rabs oz <= h / 2 /\ r <= r2)) by (intros Hn; apply Ho in Hn; discriminate). lra.
Qed.

(* M = J / mu0 for the shortcut, whatever the point *)
Theorem full_segment_M_R (mu0 : R) (x : @srow RNum) : mu0 <> 0 ->
  @full_cylinder_spec RNum (@cyl_JM_row RNum mu0) FM x = vdivs (@full_cylinder_spec RNum (@cyl_JM_row RNum mu0) FJ x) mu0.
Proof.
  intros Hmu. destruct x as [[[[ox oy] oz] p] [[[[r1 r2] h] phi1] phi2]].
  unfold full_cylinder_spec, outer_row, inner_row, cyl_JM_row, cyl_JM_row_gen, cyl_JM_gen.
  destruct (neqb RNum r1 (nofZ RNum 0)); [reflexivity|].
  destruct p as [[a b] c].
  repeat match goal with |- context[if ?c then _ else _] => destruct c end; simpl;
  repeat (apply (f_equal2 (@pair _ _))); change (num RNum) with R in *; cbn [nofZ RNum]; field; exact Hmu.
Qed.

(* B = mu0 H + J is inherited by the shortcut from the Cylinder computation (any cylinder function) *)
Theorem full_segment_BHJ_R (cyl1 : fieldT -> @crow RNum -> @vec RNum) (mu0 : R) (x : @srow RNum) :
  (forall y, cyl1 FB y = @vmap2 RNum Rplus (@vmuls RNum (cyl1 FH y) mu0) (cyl1 FJ y)) ->
  full_cylinder_spec cyl1 FB x = @vmap2 RNum Rplus (@vmuls RNum (full_cylinder_spec cyl1 FH x) mu0) (full_cylinder_spec cyl1 FJ x).
Proof.
  intros Hc. destruct x as [[o p] [[[[r1 r2] h] phi1] phi2]]. unfold full_cylinder_spec.
  destruct (neqb RNum r1 (nofZ RNum 0)); [apply Hc|].
  rewrite !Hc. simpl.
  repeat match goal with |- context[cyl1 ?f ?y] => destruct (cyl1 f y) as [[? ?] ?] end.
  simpl. repeat (apply (f_equal2 (@pair _ _))); change (num RNum) with R in *; ring.
Qed.

Lemma corner_sum_cut_x F x0 xm x1 y0 y1 z0 z1 :
  corner_sum F x0 x1 y0 y1 z0 z1 = corner_sum F x0 xm y0 y1 z0 z1 + corner_sum F xm x1 y0 y1 z0 z1.
Proof. unfold corner_sum. ring. Qed.
Lemma corner_sum_cut_y F x0 x1 y0 ym y1 z0 z1 :
  corner_sum F x0 x1 y0 y1 z0 z1 = corner_sum F x0 x1 y0 ym z0 z1 + corner_sum F x0 x1 ym y1 z0 z1.
Proof. unfold corner_sum. ring. Qed.
Lemma corner_sum_cut_z F x0 x1 y0 y1 z0 zm z1 :
  corner_sum F x0 x1 y0 y1 z0 z1 = corner_sum F x0 x1 y0 y1 z0 zm + corner_sum F x0 x1 y0 y1 zm z1.
Proof. unfold corner_sum. ring. Qed.
Lemma corner_sum_empty F x0 y0 y1 z0 z1 : corner_sum F x0 x0 y0 y1 z0 z1 = 0.
Proof. unfold corner_sum. ring. Qed.

Lemma last_default_irrelevant {A} (l : list A) d d' : l <> [] -> last l d = last l d'.
Proof.
  induction l as [|a [|b t] IH]; intros H; [congruence|reflexivity|].
  change (last (b :: t) d = last (b :: t) d'). apply IH. discriminate.
Qed.
Lemma last_cons {A} (c x0 : A) t : last (c :: t) x0 = last t c.
Proof.
  destruct t as [|a t]; [reflexivity|].
  change (last (a :: t) x0 = last (a :: t) c). apply last_default_irrelevant. discriminate.
Qed.

Lemma slab_sum_telescopes F cuts : forall x0 y0 y1 z0 z1,
  slab_sum F x0 cuts y0 y1 z0 z1 = corner_sum F x0 (last cuts x0) y0 y1 z0 z1.
Proof.
  induction cuts as [|c t IH]; intros x0 y0 y1 z0 z1.
  - simpl. symmetry. apply corner_sum_empty.
  - cbn [slab_sum]. rewrite IH. rewrite last_cons. symmetry. apply corner_sum_cut_x.
Qed.

(* ---------------- completeness of the vertex list; non-vacuity witness *)
Lemma mesh_vertices_complete {A} (eqb ltb : A -> A -> bool) :
  (forall x y, eqb x y = true <-> x = y) ->
  forall (mesh : list (tri3 A)) (v : A), In v (mesh_vertices eqb ltb mesh) <-> In v (flatten3 mesh).
Proof. intros H mesh v. unfold mesh_vertices. apply unique_rows_in. exact H. Qed.
