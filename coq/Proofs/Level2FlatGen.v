(* C05 -- the control flow of format_obj_input / filter_objects / format_src_inputs TRANSLATED from /repo
   on this run (Gen/GenFlat.v, objects stay objects) is the hand model of Model/Level2Flat.v (which
   collects `item`s and has no "collections" flag): equal for every object tree, with a_coll = false. *)
From Coq Require Import List Arith Bool Lia.
From MV Require Import Lib.Rigid Model.Level2Model Model.Level2Flat Gen.GenFlat Proofs.Level2C05.
Import ListNotations.

Section FlatGen.
Context {O : RigidOps}.
Variable P : Type.
Notation node := (@node O P).
Notation item := (@item O P).

Definition node_of_item (i : item) : node := match i with ISrc _ x => NSrc x | ISens _ s => NSens s end.

Lemma allowed_gen s e i : gen_allowed P s e false (node_of_item i) = allowed P s e i.
Proof. destruct i; reflexivity. Qed.

Lemma filter_items_gen s e (l : list item) :
  gen_filter P s e false (map node_of_item l) = map node_of_item (filter (allowed P s e) l).
Proof.
  unfold gen_filter. induction l as [|i l IH]; [reflexivity|]. cbn [map filter]. rewrite allowed_gen.
  destruct (allowed P s e i); cbn [map]; rewrite IH; reflexivity.
Qed.

Lemma flat_map_items_gen (f : node -> list node) (g : node -> list item) (cs : list node) :
  Forall (fun c => f c = map node_of_item (g c)) cs -> flat_map f cs = map node_of_item (flat_map g cs).
Proof.
  induction 1 as [|c cs Hc _ IH]; [reflexivity|]. cbn [flat_map]. rewrite map_app, Hc, IH. reflexivity.
Qed.

Theorem gen_fmt_obj_is_model s e (n : node) : gen_fmt_obj P s e false n = map node_of_item (fmt_obj P s e n).
Proof.
  induction n as [x|sn|cs IH] using (node_ind' P); [reflexivity|reflexivity|].
  cbn [gen_fmt_obj fmt_obj negb]. rewrite (flat_map_items_gen _ (fmt_obj P s e) cs IH). apply filter_items_gen.
Qed.

Theorem gen_format_obj_input_is_model s e (objs : list node) :
  gen_format_obj_input P s e false objs = map node_of_item (format_obj_input P s e objs).
Proof.
  unfold gen_format_obj_input, format_obj_input.
  rewrite (flat_map_items_gen _ (fmt_obj P s e) objs); [apply filter_items_gen|].
  apply Forall_forall. intros c _. apply gen_fmt_obj_is_model.
Qed.

Lemma sources_only (l : list item) :
  map node_of_item (filter (allowed P true false) l) = map NSrc (item_sources P l).
Proof.
  induction l as [|[x|sn] l IH]; [reflexivity| |]; cbn [filter allowed].
  - change (item_sources P (ISrc P x :: l)) with (x :: item_sources P l). cbn [map node_of_item]. rewrite IH. reflexivity.
  - exact IH.
Qed.

Lemma gen_child_sources (n : node) : gen_format_obj_input P true false false [n] = map NSrc (child_sources P n).
Proof.
  rewrite gen_format_obj_input_is_model. unfold child_sources, format_obj_input.
  rewrite sources_only, item_sources_filter. reflexivity.
Qed.

Theorem gen_src_loop_is_model (nodes : list node) :
  gen_src_loop P nodes = option_map (map NSrc) (format_src_loop P nodes).
Proof.
  induction nodes as [|n nodes IH]; [reflexivity|].
  cbn [gen_src_loop]. rewrite IH. destruct n as [x|sn|cs]; cbn [gen_src_step format_src_loop].
  - destruct (format_src_loop P nodes); reflexivity.
  - reflexivity.
  - rewrite gen_child_sources. destruct (child_sources P (NColl cs)) as [|c0 ch]; [reflexivity|].
    cbn [map]. destruct (format_src_loop P nodes) as [sl|]; cbn [option_map]; [|reflexivity].
    rewrite map_app. reflexivity.
Qed.

Theorem gen_format_src_inputs_is_model (nodes : list node) :
  gen_format_src_inputs P nodes
  = option_map (fun r : list node * list (leaf P) => (fst r, map NSrc (snd r))) (format_src_inputs P nodes).
Proof.
  unfold gen_format_src_inputs, format_src_inputs. destruct nodes as [|n0 nodes']; [reflexivity|].
  rewrite gen_src_loop_is_model. destruct (format_src_loop P (n0 :: nodes')); reflexivity.
Qed.

(* the translated format_src_inputs: accepted lists give back the input and the DFS leaves, as objects *)
Theorem gen_format_src_inputs_dfs (nodes srcs sl : list node) :
  gen_format_src_inputs P nodes = Some (srcs, sl) ->
  srcs = nodes /\ sl = map NSrc (flat_map (dfs P) nodes) /\
  sl = map NSrc (src_list (map (to_srcin P) nodes)).
Proof.
  rewrite gen_format_src_inputs_is_model. pose proof (format_src_inputs_spec P nodes) as H.
  destruct (format_src_inputs P nodes) as [[s0 l0]|]; [|discriminate].
  destruct H as (E1 & _ & E2 & E3 & _). cbn [option_map fst snd]. intros E. inversion E; subst srcs sl.
  split; [exact E1|]. split; [rewrite <- E2|rewrite <- E3]; reflexivity.
Qed.

End FlatGen.
