(* C06: every list-level model of a batch-level construct equals the row-by-row evaluation
   (`batch = map single`), or is shown not to (`_refuted`), or only partly (`_partial`). *)
From Coq Require Import List Arith Bool Lia ZArith.
From MV Require Import Lib.ListIdx Model.BatchModel.
Import ListNotations.


Section Helpers.
Context {A B C : Type}.
Lemma nth_firstn_lt (l : list A) d : forall n i, i < n -> nth i (firstn n l) d = nth i l d.
Proof.
  induction l as [|x l IH]; intros n i H; [destruct n, i; reflexivity|].
  destruct n; [lia|]. destruct i; [reflexivity|]. cbn [firstn nth]. apply IH. lia.
Qed.
Lemma nth_repeat_same (x : A) n i : nth i (repeat x n) x = x.
Proof. revert i; induction n; intros [|i]; simpl; auto. Qed.
Lemma combine_map_map_same (f : C -> A) (g : C -> B) (l : list C) :
  combine (map f l) (map g l) = map (fun x => (f x, g x)) l.
Proof. induction l as [|x l IH]; simpl; [reflexivity|]. rewrite IH. reflexivity. Qed.
Lemma combine_map_l (f : A -> B) (l : list A) : combine (map f l) l = map (fun x => (f x, x)) l.
Proof. induction l as [|x l IH]; simpl; [reflexivity|]. rewrite IH. reflexivity. Qed.
Lemma flat_map_ext_in_local (f g : A -> list B) (l : list A) :
  (forall x, In x l -> f x = g x) -> flat_map f l = flat_map g l.
Proof.
  induction l as [|x l IH]; intros H; [reflexivity|]. cbn [flat_map].
  rewrite (H x (or_introl eq_refl)), IH; [reflexivity|]. intros y Hy. apply H. right. exact Hy.
Qed.
End Helpers.

(* ------------------------------------------------------------------ masks *)
Section MaskedProofs.
Context {A B : Type}.

Lemma scatter_compress_rowwise (g : A -> B) mask : forall xs base,
  length xs = length mask -> length base = length mask ->
  scatter_mask mask base (map g (compress mask xs)) = rowwise_masked g mask xs base.
Proof.
  unfold rowwise_masked. induction mask as [|b m IH]; intros xs base Hx Hb.
  - destruct base; [reflexivity|discriminate].
  - destruct xs as [|x xs]; [discriminate|]. destruct base as [|y base]; [discriminate|].
    cbn [compress scatter_mask combine map]. destruct b; cbn [map].
    + f_equal. apply IH; simpl in *; lia.
    + f_equal. apply IH; simpl in *; lia.
Qed.

Lemma rowwise_none (g : A -> B) mask : forall xs base,
  length xs = length mask -> length base = length mask -> existsb id mask = false ->
  rowwise_masked g mask xs base = base.
Proof.
  unfold rowwise_masked. induction mask as [|b m IH]; intros xs base Hx Hb He.
  - destruct base; [reflexivity|discriminate].
  - destruct xs as [|x xs]; [discriminate|]. destruct base as [|y base]; [discriminate|].
    cbn [existsb] in He. apply orb_false_iff in He as [Hb0 He]. unfold id in Hb0. subst b. cbn [combine map].
    f_equal. apply IH; simpl in *; try lia. exact He.
Qed.

(* `if np.any(mask): out[mask] = f(x[mask])` is the unguarded masked evaluation, and that is
   row-wise when f is *)
Theorem guarded_masked_eval_rowwise (g : A -> B) mask xs base :
  length xs = length mask -> length base = length mask ->
  guarded_masked_eval (map g) mask xs base = rowwise_masked g mask xs base.
Proof.
  intros Hx Hb. unfold guarded_masked_eval. destruct (existsb id mask) eqn:E.
  - apply scatter_compress_rowwise; assumption.
  - symmetry. apply rowwise_none; assumption.
Qed.

Lemma compress_all_true {X} mask : forall xs : list X,
  length xs = length mask -> existsb id mask = false -> compress (map negb mask) xs = xs.
Proof.
  induction mask as [|b m IH]; intros xs Hx He.
  - destruct xs; [reflexivity|discriminate].
  - destruct xs as [|x xs]; [discriminate|]. cbn [existsb] in He.
    apply orb_false_iff in He as [Hb0 He]. unfold id in Hb0. subst b. cbn [map negb compress]. f_equal. apply IH; simpl in *; [lia|exact He].
Qed.

(* `if np.any(mask): x = x[~mask]` is `x = x[~mask]` *)
Theorem guarded_compress_neutral mask (xs : list A) :
  length xs = length mask -> guarded_compress mask xs = compress (map negb mask) xs.
Proof.
  intros Hx. unfold guarded_compress. destruct (existsb id mask) eqn:E; [reflexivity|].
  symmetry. apply compress_all_true; assumption.
Qed.

Lemma existsb_negb_forallb mask : forallb id mask = true -> existsb id (map negb mask) = false.
Proof.
  induction mask as [|b m IH]; [reflexivity|]. cbn [forallb existsb map]. intros H.
  apply andb_true_iff in H as [Hb0 H]. unfold id in Hb0. subst b. cbn [negb id orb]. unfold id at 1. apply IH, H.
Qed.

(* `if np.all(mask0): return out` before `out[~mask0] = f(x[~mask0])` changes nothing *)
Theorem all_masked_exit_rowwise (g : A -> B) mask0 xs base :
  length xs = length mask0 -> length base = length mask0 ->
  all_masked_exit (map g) mask0 xs base = rowwise_masked g (map negb mask0) xs base.
Proof.
  intros Hx Hb. unfold all_masked_exit. destruct (forallb id mask0) eqn:E.
  - symmetry. apply rowwise_none; rewrite ?map_length; try assumption.
    apply existsb_negb_forallb, E.
  - apply scatter_compress_rowwise; rewrite map_length; assumption.
Qed.

(* the row-wise form really is row-wise: row i depends on (mask i, x i, base i) only *)
Theorem rowwise_masked_nth (g : A -> B) mask xs base i db dx dy :
  length xs = length mask -> length base = length mask -> i < length mask ->
  nth i (rowwise_masked g mask xs base) dy
  = if nth i mask db then g (nth i xs dx) else nth i base dy.
Proof.
  unfold rowwise_masked. revert xs base i.
  induction mask as [|b m IH]; intros xs base i Hx Hb Hi; [simpl in Hi; lia|].
  destruct xs as [|x xs]; [discriminate|]. destruct base as [|y base]; [discriminate|].
  cbn [combine map]. destruct i as [|i]; [reflexivity|]. cbn [nth]. apply IH; simpl in *; lia.
Qed.
End MaskedProofs.

(* ------------------------------------------------------------------ TriangularMesh grouping *)
Section TrimeshProofs.
Context {M : Type}.
Variable meq : M -> M -> bool.
Variable d : M.
Hypothesis meq_sound : forall a b, meq a b = true -> a = b.

Lemma firstn_extend_const (ms : list M) a b x : a <= b -> b <= length ms ->
  (forall i, a <= i < b -> nth i ms d = x) ->
  firstn a ms ++ repeat x (b - a) = firstn b ms.
Proof.
  intros Hab Hb Hx. apply (nth_ext _ _ d d).
  - rewrite app_length, !firstn_length, repeat_length. lia.
  - intros i Hi. rewrite app_length, firstn_length, repeat_length in Hi.
    destruct (Nat.lt_ge_cases i a) as [Hia|Hia].
    + rewrite app_nth1 by (rewrite firstn_length; lia).
      rewrite !nth_firstn_lt by lia. reflexivity.
    + rewrite app_nth2 by (rewrite firstn_length; lia). rewrite firstn_length.
      replace (Nat.min a (length ms)) with a by lia.
      rewrite nth_firstn_lt by lia.
      rewrite (nth_indep _ d x) by (rewrite repeat_length; lia).
      rewrite nth_repeat_same. symmetry. apply Hx. lia.
Qed.

Lemma tm_go_inv (ms : list M) : forall k new prev,
  new + k = length ms + 1 -> prev < new -> (k = 0 -> prev = length ms) ->
  (forall i, prev <= i < new -> nth i ms d = nth prev ms d) ->
  tm_go meq d ms (length ms) 0 k new prev (firstn prev ms) = ms.
Proof.
  set (n := length ms).
  induction k as [|k IH]; intros new prev Hk Hpn H0 Hrun.
  - cbn [tm_go]. rewrite (H0 eq_refl). apply firstn_all.
  - cbn [tm_go]. rewrite Nat.sub_0_r.
    assert (Hnew : new <= n) by lia.
    destruct ((new =? n) || negb (meq (nth new ms d) (nth prev ms d))) eqn:E.
    + rewrite (firstn_extend_const ms prev new (nth prev ms d)) by (try lia; exact Hrun).
      apply IH; try lia.
      intros i Hi. assert (i = new) by lia. subst i. reflexivity.
    + apply orb_false_iff in E as [E1 E2]. apply Nat.eqb_neq in E1.
      apply negb_false_iff in E2. apply meq_sound in E2.
      apply IH; try lia.
      intros i Hi. destruct (Nat.eq_dec i new) as [->|Hne]; [exact E2|]. apply Hrun. lia.
Qed.

(* with the translated loop bounds every row is tested against (a mesh equal to) its own mesh *)
Theorem trimesh_groups_rowwise (ms : list M) : tm_used meq d 1 1 0 ms = ms.
Proof.
  unfold tm_used. replace (length ms + 1 - 1) with (length ms) by lia.
  change (@nil M) with (firstn 0 ms).
  apply tm_go_inv; try lia.
  intros i Hi. assert (i = 0) by lia. subst. reflexivity.
Qed.
End TrimeshProofs.

(* the loop bounds matter: with other values of the translated parameters (here 0, 1, 1: the
   last-row test one row early) the same recursion does not give every row its own mesh *)
Example trimesh_other_bounds_differ :
  tm_used Nat.eqb 0 1 0 1 [7; 9] <> [7; 9].
Proof. vm_compute. discriminate. Qed.

(* ------------------------------------------------------------------ ragged / non-ragged *)
Section RaggedProofs.
Context {Obs Part Val : Type}.
Variable core : Obs -> Part -> Val.
Variable vsum : list Val -> Val.

Definition row_vals (r : Obs * list Part) : list Val := map (core (fst r)) (snd r).

Lemma flat_core_repeat (o : Obs) (ps : list Part) (obs : list Obs) (parts : list Part) :
  flat_core core (repeat o (length ps) ++ obs) (ps ++ parts)
  = map (core o) ps ++ flat_core core obs parts.
Proof.
  unfold flat_core. rewrite combine_app by apply repeat_length. rewrite map_app. f_equal.
  rewrite combine_repeat_l by reflexivity. rewrite map_map. reflexivity.
Qed.

Lemma flat_core_ragged (rows : list (Obs * list Part)) :
  flat_core core (repeat_by (map (fun r => length (snd r)) rows) (map fst rows)) (flat_map snd rows)
  = flat_map row_vals rows.
Proof.
  induction rows as [|[o ps] rows IH]; [reflexivity|].
  cbn [map repeat_by flat_map fst snd]. rewrite flat_core_repeat, IH. reflexivity.
Qed.

Lemma repeat_each_by n (rows : list (Obs * list Part)) :
  (forall r, In r rows -> length (snd r) = n) ->
  repeat_each n (map fst rows) = repeat_by (map (fun r => length (snd r)) rows) (map fst rows).
Proof.
  induction rows as [|r rows IH]; intros H; [reflexivity|].
  cbn [map repeat_by]. rewrite repeat_each_cons. rewrite (H r (or_introl eq_refl)). f_equal.
  apply IH. intros r' Hr'. apply H. right. exact Hr'.
Qed.

Theorem ragged_equals_rowwise (rows : list (Obs * list Part)) :
  rg_ragged core vsum rows = map (rg_single core vsum) rows.
Proof.
  unfold rg_ragged. rewrite flat_core_ragged.
  replace (map (fun r : Obs * list Part => length (snd r)) rows)
    with (map (fun r => length (row_vals r)) rows)
    by (apply map_ext; intros r; unfold row_vals; apply map_length).
  rewrite split_lens_flat_map, map_map. reflexivity.
Qed.

Theorem nonragged_equals_rowwise (rows : list (Obs * list Part)) :
  all_same_len rows = true -> rg_nonragged core vsum rows = map (rg_single core vsum) rows.
Proof.
  intros H. unfold rg_nonragged. destruct rows as [|r0 rows]; [reflexivity|].
  set (n1 := length (snd r0)). unfold all_same_len in H. rewrite forallb_forall in H.
  assert (Hn : forall r, In r (r0 :: rows) -> length (snd r) = n1)
    by (intros r Hr; apply Nat.eqb_eq, H, Hr).
  rewrite (repeat_each_by n1) by exact Hn. rewrite flat_core_ragged.
  rewrite chunks_flat_map; [rewrite map_map; reflexivity|].
  intros r Hr. unfold row_vals. rewrite map_length. apply Hn, Hr.
Qed.

(* the switch between the two branches is invisible *)
Theorem vertex_sets_rowwise (rows : list (Obs * list Part)) :
  rg_field core vsum rows = map (rg_single core vsum) rows.
Proof.
  unfold rg_field. destruct (all_same_len rows) eqn:E.
  - apply nonragged_equals_rowwise, E.
  - apply ragged_equals_rowwise.
Qed.
End RaggedProofs.

(* ------------------------------------------------------------------ elliptic-integral loops *)
Section LoopProofs.
Context {S : Type}.
Variable conv : S -> bool.
Variable step : S -> S.

Lemma while_conv fuel s : conv s = true -> while_loop conv step fuel s = s.
Proof. intros H. destruct fuel; [reflexivity|]. cbn [while_loop]. rewrite H. reflexivity. Qed.

Lemma existsb_negconv_false (ss : list S) :
  existsb id (map (fun s => negb (conv s)) ss) = false -> forall s, In s ss -> conv s = true.
Proof.
  induction ss as [|x ss IH]; intros H s Hs; [destruct Hs|]. cbn [map existsb] in H.
  apply orb_false_iff in H as [H1 H2]. unfold id in H1. destruct Hs as [<-|Hs].
  - apply negb_false_iff, H1. - apply IH; assumption.
Qed.

Lemma masked_from_conv fuel : forall ss : list S,
  masked_loop_from conv step fuel (map (fun s => negb (conv s)) ss) ss
  = map (while_loop conv step fuel) ss.
Proof.
  induction fuel as [|f IH]; intros ss; [symmetry; apply map_id|].
  cbn [masked_loop_from]. destruct (existsb id (map (fun s => negb (conv s)) ss)) eqn:E.
  - cbn zeta. rewrite !combine_map_l.
    rewrite IH, !map_map. apply map_ext. intros s. cbn [fst snd while_loop].
    destruct (conv s) eqn:C; cbn [negb].
    + apply while_conv, C. + reflexivity.
  - symmetry. rewrite <- (map_id ss) at 2. apply map_ext_in. intros s Hs.
    apply while_conv. eapply existsb_negconv_false; eassumption.
Qed.

(* celv: each row runs exactly its own do-while loop, whatever the other rows do *)
Theorem masked_loop_rowwise fuel (ss : list S) :
  celv_loop conv step fuel ss = map (do_while conv step fuel) ss.
Proof.
  unfold celv_loop. destruct fuel as [|f]; [symmetry; apply map_id|].
  cbn [masked_loop_from do_while]. destruct ss as [|s0 ss]; [reflexivity|].
  cbn [map existsb id orb].
  change (true :: map (fun _ : S => true) ss) with (map (fun _ : S => true) (s0 :: ss)).
  cbn zeta. rewrite !combine_map_l, !map_map. cbn [fst snd].
  rewrite <- (map_map step (fun y => negb (conv y))).
  rewrite masked_from_conv, map_map. reflexivity.
Qed.

(* cel: scalar routine below the threshold, vector routine above: equal on every row that is not
   already converged at entry (the scalar routine tests before its first step, celv after it) *)
Theorem cel_switch_partial thr ret fuel (ss : list S) :
  (forall s, In s ss -> conv s = false) ->
  cel_switch conv step thr ret fuel ss = map (while_loop conv step fuel) ss.
Proof.
  intros H. unfold cel_switch. destruct ((length ss <? thr) && ret); [reflexivity|].
  rewrite masked_loop_rowwise. apply map_ext_in. intros s Hs.
  destruct fuel as [|f]; [reflexivity|]. cbn [do_while while_loop]. rewrite (H s Hs). reflexivity.
Qed.

(* cel_iter: with small_returns = false the size test does not select the result *)
Theorem cel_iter_no_size_dependence thr fuel (ss : list S) :
  cel_iter_switch conv step thr false fuel ss = unmasked_loop conv step fuel ss.
Proof. unfold cel_iter_switch. rewrite andb_false_r. reflexivity. Qed.

Lemma iter_S n s : iter step (Datatypes.S n) s = iter step n (step s).
Proof. reflexivity. Qed.

(* cel_iterv: every row runs the same number N of steps; N is at least the row's own count, and
   the row's own result is an earlier iterate of the same sequence *)
Theorem unmasked_loop_partial fuel : forall ss : list S,
  exists N, N <= fuel /\ unmasked_loop conv step fuel ss = map (iter step N) ss /\
    forall s, In s ss -> exists n, n <= N /\ while_loop conv step fuel s = iter step n s.
Proof.
  induction fuel as [|f IH]; intros ss.
  - exists 0. repeat split; [lia|symmetry; apply map_id|]. intros s _. exists 0. split; [lia|reflexivity].
  - cbn [unmasked_loop]. destruct (forallb conv ss) eqn:E.
    + exists 0. repeat split; [lia|symmetry; apply map_id|]. intros s Hs. exists 0. split; [lia|].
      rewrite forallb_forall in E. apply while_conv, E, Hs.
    + destruct (IH (map step ss)) as (N & HN & Hu & Hrow).
      exists (Datatypes.S N). repeat split; [lia|rewrite Hu, map_map; reflexivity|].
      intros s Hs. cbn [while_loop]. destruct (conv s) eqn:C.
      * exists 0. split; [lia|reflexivity].
      * destruct (Hrow (step s) (in_map step ss s Hs)) as (n & Hn & Hw).
        exists (Datatypes.S n). split; [lia|]. rewrite Hw. reflexivity.
Qed.
End LoopProofs.

(* toy instance (state = counter, converged from 5 on): the differences are real *)
Definition toy_conv (s : nat) : bool := 5 <=? s.
Theorem cel_switch_refuted :
  cel_switch toy_conv Datatypes.S 2 true 9 [7] <> firstn 1 (cel_switch toy_conv Datatypes.S 2 true 9 [7; 0]).
Proof. vm_compute. discriminate. Qed.
Theorem unmasked_loop_refuted :
  unmasked_loop toy_conv Datatypes.S 9 [5] <> firstn 1 (unmasked_loop toy_conv Datatypes.S 9 [5; 0]).
Proof. vm_compute. discriminate. Qed.

(* ------------------------------------------------------------------ CylinderSegment wrapper *)
Section CylSegProofs.
Context {W : Type}.
Variable wzero : W.
Variable wadd : W -> W -> W.
Variable mul_mu0 div_mu0 : W -> W.
Notation cylseg := (cylseg wzero wadd mul_mu0 div_mu0).

Lemma existsb_false_in {X} (p : X -> bool) l : existsb p l = false -> forall x, In x l -> p x = false.
Proof.
  induction l as [|y l IH]; intros H x Hx; [destruct Hx|]. cbn [existsb] in H.
  apply orb_false_iff in H as [H1 H2]. destruct Hx as [<-|Hx]; [exact H1|apply IH; assumption].
Qed.

Lemma flat_map_single {X Y} (f : X -> Y) (l : list X) : flat_map (fun x => [f x]) l = map f l.
Proof. induction l as [|x l IH]; [reflexivity|]. cbn [flat_map map app]. rewrite IH. reflexivity. Qed.

(* B and H: the all-on-surface exit is invisible, rows are independent *)
Theorem cylseg_BH_rowwise e1 e2 z1 z2 f (rows : list csrow) : f = FB \/ f = FH ->
  cylseg e1 e2 z1 z2 f rows = flat_map (fun r => cylseg e1 e2 z1 z2 f [r]) rows.
Proof.
  intros [-> | ->]; unfold BatchModel.cylseg; cbn [existsb map].
  - destruct (existsb not_surf rows) eqn:E; cbn [negb].
    + rewrite <- flat_map_single. apply flat_map_ext. intros r.
      rewrite orb_false_r. destruct (not_surf r); reflexivity.
    + rewrite <- flat_map_single. apply flat_map_ext_in_local. intros r Hr.
      rewrite orb_false_r, (existsb_false_in _ _ E r Hr). reflexivity.
  - destruct (existsb not_surf rows) eqn:E; cbn [negb].
    + rewrite <- flat_map_single. apply flat_map_ext. intros r.
      rewrite orb_false_r. destruct (not_surf r); reflexivity.
    + rewrite <- flat_map_single. apply flat_map_ext_in_local. intros r Hr.
      rewrite orb_false_r, (existsb_false_in _ _ E r Hr). reflexivity.
Qed.

(* J and M are row-wise when the exit does not precede their branch, or when the branch zeroes
   the on-surface rows too *)
Hypothesis div_zero : div_mu0 wzero = wzero.

Lemma jm_rowwise (eb zs : bool) (scale : W -> W) (rows : list csrow) :
  scale wzero = wzero -> eb = false \/ zs = true ->
  (if eb && negb (existsb not_surf rows) then map (fun _ => wzero) rows
   else map (fun r => if inside r && (negb zs || not_surf r) then scale (polv r) else scale wzero) rows)
  = flat_map (fun r => if eb && negb (existsb not_surf [r]) then map (fun _ => wzero) [r]
                       else map (fun r => if inside r && (negb zs || not_surf r) then scale (polv r)
                                          else scale wzero) [r]) rows.
Proof.
  intros Hs [-> | ->].
  - cbn [andb]. rewrite <- flat_map_single. reflexivity.
  - cbn [negb orb existsb map]. destruct eb; cbn [andb].
    + destruct (existsb not_surf rows) eqn:E; cbn [negb].
      * rewrite <- flat_map_single. apply flat_map_ext. intros r. rewrite orb_false_r.
        destruct (not_surf r); cbn [negb]; [reflexivity|]. rewrite andb_false_r, Hs. reflexivity.
      * rewrite <- flat_map_single. apply flat_map_ext_in_local. intros r Hr.
        rewrite orb_false_r, (existsb_false_in _ _ E r Hr). reflexivity.
    + rewrite <- flat_map_single. reflexivity.
Qed.

Theorem cylseg_JM_rowwise_if e1 e2 z1 z2 f (rows : list csrow) :
  (f = FJ /\ (e1 = false \/ z1 = true)) \/ (f = FM /\ (e2 = false \/ z2 = true)) ->
  cylseg e1 e2 z1 z2 f rows = flat_map (fun r => cylseg e1 e2 z1 z2 f [r]) rows.
Proof.
  intros [[-> H] | [-> H]]; unfold BatchModel.cylseg.
  - apply (jm_rowwise e1 z1 (fun w => w) rows eq_refl H).
  - apply (jm_rowwise e2 z2 div_mu0 rows div_zero H).
Qed.
End CylSegProofs.
