(* C06 / C04, level-2 part: element-wise readings of `getBH = spec` (Level2E.getBH_is_spec):
   every output element is the single-source, single-path-step, single-pixel evaluation with
   poses clipped to the object's own path; it equals the isolated static call; it does not
   depend on anything else in the call; sensor semantics and pixel aggregation. *)
From Coq Require Import List Arith Bool Lia.
From MV Require Import Lib.ListZ Lib.Rigid Lib.ListIdx Model.Level2Model
  Proofs.Level2A Proofs.Level2B Proofs.Level2C Proofs.Level2D Proofs.Level2E.
Import ListNotations.

Section NthMap.
Context {A B : Type}.
Lemma nth_map_lt (f : A -> B) (l : list A) i (d : A) (d' : B) :
  i < length l -> nth i (map f l) d' = f (nth i l d).
Proof.
  intros H. rewrite (nth_indep _ d' (f d)) by (rewrite map_length; exact H). apply map_nth.
Qed.
End NthMap.

Section Elements.
Context {O : RigidOps} {L : RigidLaws O}.
Variable P : Type.
Variable F : nat -> P -> V -> V.
Variable g_eqb : G -> G -> bool.
Variable flipx : V -> V.
Hypothesis g_eqb_sound : forall a b, g_eqb a b = true -> a = b.

Notation leaf := (@leaf O P).
Notation srcin := (@srcin O P).
Notation getBH := (getBH P F g_eqb flipx).
Notation spec_elem := (spec_elem P F flipx).

Definition path_len (srcs : list srcin) (sens : list sensor) : nat :=
  max_path_len P (src_list srcs) sens.

(* the (l, m, k) cell of the declarative specification *)
Lemma spec_cell (srcs : list srcin) (sens : list sensor) agg l m k dsrc dsens :
  l < length srcs -> m < path_len srcs sens -> k < length sens ->
  nth k (nth m (nth l (spec P F flipx srcs sens agg) []) []) []
  = let px := map (spec_elem (nth l srcs dsrc) m (nth k sens dsens)) (s_pix (nth k sens dsens)) in
    match agg with None => px | Some a => [a px] end.
Proof.
  intros Hl Hm Hk. unfold spec. fold (path_len srcs sens).
  rewrite (nth_map_lt _ srcs l dsrc) by exact Hl.
  rewrite (nth_map_lt _ (seq 0 (path_len srcs sens)) m 0) by (rewrite seq_length; exact Hm).
  rewrite seq_nth by exact Hm. cbn [plus].
  rewrite (nth_map_lt _ sens k dsens) by exact Hk. reflexivity.
Qed.

(* ---- C06 element_spec: out[l][m][k][pix] *)
Theorem element_spec (srcs : list srcin) (sens : list sensor) l m k p dsrc dsens :
  srcs <> [] -> Forall (wf_src P) srcs -> Forall wf_sensor sens -> wf_shapes sens None ->
  l < length srcs -> m < path_len srcs sens -> k < length sens ->
  p < length (s_pix (nth k sens dsens)) ->
  nth p (nth k (nth m (nth l (getBH srcs sens None false) []) []) []) vzero
  = spec_elem (nth l srcs dsrc) m (nth k sens dsens) (nth p (s_pix (nth k sens dsens)) vzero).
Proof.
  intros Hne Hsrc Hsens Hsh Hl Hm Hk Hp.
  rewrite (getBH_is_spec P F g_eqb flipx g_eqb_sound srcs sens None Hne Hsrc Hsens Hsh).
  rewrite (spec_cell srcs sens None l m k dsrc dsens Hl Hm Hk). cbv zeta.
  apply nth_map_lt. exact Hp.
Qed.

(* ---- C04 agg_spec: with pixel_agg, out[l][m][k] is the reduction over sensor k's own pixels *)
Theorem agg_spec (srcs : list srcin) (sens : list sensor) (a : list V -> V) l m k dsrc dsens :
  srcs <> [] -> Forall (wf_src P) srcs -> Forall wf_sensor sens -> wf_shapes sens (Some a) ->
  l < length srcs -> m < path_len srcs sens -> k < length sens ->
  nth k (nth m (nth l (getBH srcs sens (Some a) false) []) []) []
  = [a (map (spec_elem (nth l srcs dsrc) m (nth k sens dsens)) (s_pix (nth k sens dsens)))].
Proof.
  intros Hne Hsrc Hsens Hsh Hl Hm Hk.
  rewrite (getBH_is_spec P F g_eqb flipx g_eqb_sound srcs sens (Some a) Hne Hsrc Hsens Hsh).
  apply (spec_cell srcs sens (Some a) l m k dsrc dsens Hl Hm Hk).
Qed.

(* shape of the result: (sources, path length, sensors, pixels-or-1) *)
Theorem shape_spec (srcs : list srcin) (sens : list sensor) agg :
  srcs <> [] -> Forall (wf_src P) srcs -> Forall wf_sensor sens -> wf_shapes sens agg ->
  let out := getBH srcs sens agg false in
  length out = length srcs /\
  (forall blk, In blk out -> length blk = path_len srcs sens) /\
  (forall blk row, In blk out -> In row blk -> length row = length sens).
Proof.
  intros Hne Hsrc Hsens Hsh. cbv zeta.
  rewrite (getBH_is_spec P F g_eqb flipx g_eqb_sound srcs sens agg Hne Hsrc Hsens Hsh).
  unfold spec. fold (path_len srcs sens). split; [apply map_length|]. split.
  - intros blk Hb. apply in_map_iff in Hb as [s [<- _]]. rewrite map_length. apply seq_length.
  - intros blk row Hb Hr. apply in_map_iff in Hb as [s [<- _]].
    apply in_map_iff in Hr as [m [<- _]]. apply map_length.
Qed.

(* ---- the isolated static call: one source frozen at step m, one static single-pixel sensor *)
Definition freeze_leaf (m : nat) (x : leaf) : leaf :=
  mkLeaf [clip_nth vzero (l_pos x) m] [clip_nth gone (l_ori x) m] (l_key x) (l_prop x).
Definition freeze_src (m : nat) (s : srcin) : srcin :=
  match s with Bare x => Bare (freeze_leaf m x) | Coll ls => Coll (map (freeze_leaf m) ls) end.
Definition freeze_sensor (m : nat) (pix : V) (s : sensor) : sensor :=
  mkSens [clip_nth vzero (s_pos s) m] [clip_nth gone (s_ori s) m] [pix] [1; 3] (s_left s).

Lemma leaves_freeze m s : leaves (freeze_src m s) = map (freeze_leaf m) (leaves s).
Proof. destruct s; reflexivity. Qed.

Lemma clip_single {A} (d a : A) i : clip_nth d [a] i = a.
Proof. unfold clip_nth. cbn [length]. replace (Nat.min i (1 - 1)) with 0 by lia. reflexivity. Qed.

Lemma spec_elem_freeze m m' (src : srcin) (s : sensor) pix :
  spec_elem (freeze_src m src) m' (freeze_sensor m pix s) pix = spec_elem src m s pix.
Proof.
  unfold Level2Model.spec_elem, sensor_view, pixel_point, freeze_sensor. cbn [s_ori s_pos s_left].
  rewrite !clip_single. rewrite leaves_freeze, map_map.
  assert (E : forall o, map (fun x => leaf_field P F (freeze_leaf m x) m' o) (leaves src)
                      = map (fun x => leaf_field P F x m o) (leaves src)).
  { intros o. apply map_ext. intros x. unfold leaf_field, freeze_leaf. cbn [l_pos l_ori l_key l_prop].
    rewrite !clip_single. reflexivity. }
  rewrite E. reflexivity.
Qed.

Lemma max_path_len_frozen m (src : srcin) pix (s : sensor) : leaves src <> [] ->
  max_path_len P (src_list [freeze_src m src]) [freeze_sensor m pix s] = 1.
Proof.
  intros Hne. unfold max_path_len. cbn [src_list flat_map]. rewrite app_nil_r, leaves_freeze, map_map.
  cbn [freeze_leaf l_pos length map s_pos freeze_sensor].
  destruct (leaves src) as [|x r]; [congruence|]. cbn [map app fold_right].
  assert (E : fold_right Nat.max 0 (map (fun _ : leaf => 1) r ++ [1]) = 1).
  { clear. induction r as [|y r IH]; [reflexivity|]. cbn [map app fold_right]. rewrite IH. reflexivity. }
  rewrite E. reflexivity.
Qed.

Theorem single_call_spec m (src : srcin) (s : sensor) pix :
  wf_src P src ->
  getBH [freeze_src m src] [freeze_sensor m pix s] None false = [[[[spec_elem src m s pix]]]].
Proof.
  intros [Hwf Hne].
  rewrite (getBH_is_spec P F g_eqb flipx g_eqb_sound).
  - unfold spec. rewrite (max_path_len_frozen m src pix s Hne).
    cbn [seq map freeze_sensor s_pix]. rewrite spec_elem_freeze. reflexivity.
  - discriminate.
  - constructor; [|constructor]. split.
    + rewrite leaves_freeze. apply Forall_forall. intros y Hy. apply in_map_iff in Hy as [x [<- _]].
      split; cbn; lia.
    + rewrite leaves_freeze. destruct (leaves src); [congruence|discriminate].
  - constructor; [|constructor]. repeat split; cbn; lia.
  - split; [|reflexivity]. intros _ s0 [<-|[]]. reflexivity.
Qed.

(* ---- observe_at of C06: element of the big call = the isolated static single-object call *)
Theorem element_is_single_call (srcs : list srcin) (sens : list sensor) l m k p dsrc dsens :
  srcs <> [] -> Forall (wf_src P) srcs -> Forall wf_sensor sens -> wf_shapes sens None ->
  l < length srcs -> m < path_len srcs sens -> k < length sens ->
  p < length (s_pix (nth k sens dsens)) ->
  [[[[nth p (nth k (nth m (nth l (getBH srcs sens None false) []) []) []) vzero]]]]
  = getBH [freeze_src m (nth l srcs dsrc)]
          [freeze_sensor m (nth p (s_pix (nth k sens dsens)) vzero) (nth k sens dsens)] None false.
Proof.
  intros Hne Hsrc Hsens Hsh Hl Hm Hk Hp.
  rewrite (element_spec srcs sens l m k p dsrc dsens) by assumption.
  rewrite single_call_spec; [reflexivity|].
  rewrite Forall_forall in Hsrc. apply Hsrc, nth_In, Hl.
Qed.

(* ---- independence of everything else in the call: other sources, other sensors, other pixels,
        position in the lists (ordering), duplicates, total path length *)
Theorem element_independent_of_context
    (srcs1 srcs2 : list srcin) (sens1 sens2 : list sensor) l1 l2 m k1 k2 p1 p2 dsrc dsens :
  srcs1 <> [] -> Forall (wf_src P) srcs1 -> Forall wf_sensor sens1 -> wf_shapes sens1 None ->
  srcs2 <> [] -> Forall (wf_src P) srcs2 -> Forall wf_sensor sens2 -> wf_shapes sens2 None ->
  l1 < length srcs1 -> l2 < length srcs2 -> k1 < length sens1 -> k2 < length sens2 ->
  m < path_len srcs1 sens1 -> m < path_len srcs2 sens2 ->
  p1 < length (s_pix (nth k1 sens1 dsens)) -> p2 < length (s_pix (nth k2 sens2 dsens)) ->
  leaves (nth l1 srcs1 dsrc) = leaves (nth l2 srcs2 dsrc) ->
  s_pos (nth k1 sens1 dsens) = s_pos (nth k2 sens2 dsens) ->
  s_ori (nth k1 sens1 dsens) = s_ori (nth k2 sens2 dsens) ->
  s_left (nth k1 sens1 dsens) = s_left (nth k2 sens2 dsens) ->
  nth p1 (s_pix (nth k1 sens1 dsens)) vzero = nth p2 (s_pix (nth k2 sens2 dsens)) vzero ->
  nth p1 (nth k1 (nth m (nth l1 (getBH srcs1 sens1 None false) []) []) []) vzero
  = nth p2 (nth k2 (nth m (nth l2 (getBH srcs2 sens2 None false) []) []) []) vzero.
Proof.
  intros N1 W1 S1 H1 N2 W2 S2 H2 Hl1 Hl2 Hk1 Hk2 Hm1 Hm2 Hp1 Hp2 El Epos Eori Eleft Epix.
  rewrite (element_spec srcs1 sens1 l1 m k1 p1 dsrc dsens) by assumption.
  rewrite (element_spec srcs2 sens2 l2 m k2 p2 dsrc dsens) by assumption.
  unfold Level2Model.spec_elem, sensor_view, pixel_point. rewrite El, Epos, Eori, Eleft, Epix. reflexivity.
Qed.

(* ---- C04 sensor semantics *)
(* global field of a source (sum over its leaves) at path index m at a global point *)
Definition global_field (src : srcin) (m : nat) (o : V) : V :=
  vsum (map (fun x => leaf_field P F x m o) (leaves src)).

Theorem sensor_spec (srcs : list srcin) (sens : list sensor) l m k p dsrc dsens :
  srcs <> [] -> Forall (wf_src P) srcs -> Forall wf_sensor sens -> wf_shapes sens None ->
  l < length srcs -> m < path_len srcs sens -> k < length sens ->
  p < length (s_pix (nth k sens dsens)) ->
  let s := nth k sens dsens in
  let Rm := clip_nth gone (s_ori s) m in
  let Pm := clip_nth vzero (s_pos s) m in
  let w := act (ginv Rm) (global_field (nth l srcs dsrc) m (vadd (act Rm (nth p (s_pix s) vzero)) Pm)) in
  nth p (nth k (nth m (nth l (getBH srcs sens None false) []) []) []) vzero
  = if s_left s then flipx w else w.
Proof.
  intros Hne Hsrc Hsens Hsh Hl Hm Hk Hp. cbv zeta.
  rewrite (element_spec srcs sens l m k p dsrc dsens) by assumption. reflexivity.
Qed.

(* explicit global positions as observers: a static unrotated right-handed sensor returns the
   global field itself *)
Definition pos_sensor (pts : list V) (shape : list nat) : sensor :=
  mkSens [vzero] [gone] pts shape false.

Lemma spec_elem_pos_sensor (src : srcin) m pts shape o :
  spec_elem src m (pos_sensor pts shape) o = global_field src m o.
Proof.
  unfold Level2Model.spec_elem, sensor_view, pixel_point, pos_sensor. cbn [s_ori s_pos s_left].
  rewrite !clip_single, ginv_one, !act_one, vadd_0_r. reflexivity.
Qed.

Theorem sensor_vs_positions (srcs : list srcin) (sens : list sensor) l m k p dsrc dsens :
  srcs <> [] -> Forall (wf_src P) srcs -> Forall wf_sensor sens -> wf_shapes sens None ->
  l < length srcs -> m < path_len srcs sens -> k < length sens ->
  p < length (s_pix (nth k sens dsens)) ->
  let s := nth k sens dsens in
  let o := pixel_point s m (nth p (s_pix s) vzero) in
  nth p (nth k (nth m (nth l (getBH srcs sens None false) []) []) []) vzero
  = sensor_view flipx s m (spec_elem (nth l srcs dsrc) m (pos_sensor [o] [1; 3]) o).
Proof.
  intros Hne Hsrc Hsens Hsh Hl Hm Hk Hp. cbv zeta.
  rewrite (element_spec srcs sens l m k p dsrc dsens) by assumption.
  rewrite spec_elem_pos_sensor. reflexivity.
Qed.

(* handedness: a left-handed sensor differs from the same right-handed one by flipx only *)
Definition set_left (b : bool) (s : sensor) : sensor :=
  mkSens (s_pos s) (s_ori s) (s_pix s) (s_shape s) b.

Theorem handedness_spec (src : srcin) m (s : sensor) pix :
  spec_elem src m (set_left true s) pix = flipx (spec_elem src m (set_left false s) pix).
Proof. reflexivity. Qed.

End Elements.

(* ---- squeeze=True only removes length-1 axes (shape level; the data buffer is the same) *)
From MV Require Import Model.Level2Exec.
Lemma np_squeeze_expand sh : np_squeeze (np_expand_m2 sh) = np_squeeze sh.
Proof.
  unfold np_squeeze, np_expand_m2. rewrite !filter_app. cbn [filter Nat.eqb negb app].
  rewrite <- filter_app, firstn_skipn. reflexivity.
Qed.

Theorem squeeze_spec L M shapes has_agg sumup :
  result_shape L M shapes has_agg sumup true
  = np_squeeze (result_shape L M shapes has_agg sumup false).
Proof.
  unfold result_shape. cbv zeta. destruct has_agg; [|reflexivity].
  symmetry. apply np_squeeze_expand.
Qed.

Theorem squeeze_keeps_non_unit L M shapes has_agg sumup n : n <> 1 ->
  count_occ Nat.eq_dec (result_shape L M shapes has_agg sumup true) n
  = count_occ Nat.eq_dec (result_shape L M shapes has_agg sumup false) n.
Proof.
  intros Hn. rewrite squeeze_spec. generalize (result_shape L M shapes has_agg sumup false) as sh.
  induction sh as [|x sh IH]; [reflexivity|]. unfold np_squeeze in *. cbn [filter].
  destruct (Nat.eqb_spec x 1) as [->|Hx]; cbn [negb count_occ].
  - destruct (Nat.eq_dec 1 n); [congruence|exact IH].
  - destruct (Nat.eq_dec x n); [f_equal|]; exact IH.
Qed.

Theorem unsqueezed_shape_spec L M shapes has_agg sumup : shapes <> [] ->
  (has_agg = false -> exists ps, hd [] shapes = ps ++ [3]) ->
  exists ps, result_shape L M shapes has_agg sumup false
             = [if sumup then 1 else L; M; length shapes] ++ ps ++ [3].
Proof.
  intros _ Hp. unfold result_shape, pre_shape. cbv zeta. destruct has_agg.
  - exists [1]. reflexivity.
  - destruct (Hp eq_refl) as [ps ->]. exists ps. reflexivity.
Qed.
