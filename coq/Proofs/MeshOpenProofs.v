(* C16 -- proofs about get_open_edges (model in Model/MeshModel.v, notions in Model/MeshSpec.v). *)
From Coq Require Import NArith List Bool Arith Lia Permutation Sorted.
From MV Require Import Model.MeshModel Model.MeshSpec.
Import ListNotations.

(* ------------------------------------------------------------------ basics *)
Lemma edge_eqb_eq x y : edge_eqb x y = true <-> x = y.
Proof.
  destruct x as [a b], y as [c d]. unfold edge_eqb. simpl.
  rewrite andb_true_iff, !N.eqb_eq. split.
  - intros [-> ->]. reflexivity.
  - intros H. inversion H. auto.
Qed.

Lemma emem_In e s : emem e s = true <-> In e s.
Proof.
  unfold emem. rewrite existsb_exists. split.
  - intros [x [Hx He]]. apply edge_eqb_eq in He. subst. exact Hx.
  - intros H. exists e. split; [exact H | apply edge_eqb_eq; reflexivity].
Qed.

Lemma emem_false e s : emem e s = false <-> ~ In e s.
Proof. rewrite <- emem_In. destruct (emem e s); split; congruence. Qed.

Lemma sort2_cases a b : (a <= b)%N /\ sort2 (a, b) = (a, b) \/ (b < a)%N /\ sort2 (a, b) = (b, a).
Proof. unfold sort2. simpl. destruct (N.leb_spec a b); [left | right]; auto. Qed.

Lemma sort2_sym a b : sort2 (a, b) = sort2 (b, a).
Proof.
  destruct (sort2_cases a b) as [[H1 ->] | [H1 ->]], (sort2_cases b a) as [[H2 ->] | [H2 ->]];
    try reflexivity; try lia. f_equal; lia.
Qed.

Lemma sort2_idem e : sort2 (sort2 e) = sort2 e.
Proof.
  destruct e as [a b].
  destruct (sort2_cases a b) as [[H1 ->] | [H1 ->]].
  - destruct (sort2_cases a b) as [[H2 ->] | [H2 ->]]; [reflexivity | lia].
  - destruct (sort2_cases b a) as [[H2 ->] | [H2 ->]]; [reflexivity | lia].
Qed.

Lemma sort2_eq a b c d : sort2 (a, b) = sort2 (c, d) -> (a = c /\ b = d) \/ (a = d /\ b = c).
Proof.
  destruct (sort2_cases a b) as [[H1 ->] | [H1 ->]], (sort2_cases c d) as [[H2 ->] | [H2 ->]];
    intros H; inversion H; subst; auto.
Qed.

Definition is_sorted (e : edge) : Prop := (fst e <= snd e)%N.

Lemma sort2_sorted e : is_sorted (sort2 e).
Proof.
  destruct e as [a b]. unfold is_sorted.
  destruct (sort2_cases a b) as [[H1 ->] | [H1 ->]]; simpl; lia.
Qed.

Lemma sort2_of_sorted e : is_sorted e -> sort2 e = e.
Proof.
  destruct e as [a b]. unfold is_sorted. simpl. intros H.
  destruct (sort2_cases a b) as [[H1 ->] | [H1 ->]]; [reflexivity | lia].
Qed.

(* ------------------------------------------------------------------ insertion sort on rows *)
Definition edge_le (x y : edge) : Prop := edge_leb x y = true.

Lemma edge_leb_spec x y :
  edge_leb x y = true <-> ((fst x < fst y)%N \/ (fst x = fst y /\ (snd x <= snd y)%N)).
Proof.
  unfold edge_leb.
  destruct (N.ltb_spec (fst x) (fst y)) as [H | H].
  - split; auto.
  - destruct (N.eqb_spec (fst x) (fst y)) as [E | E].
    + rewrite N.leb_le. split; [auto | intros [H1 | [_ H1]]; [lia | exact H1]].
    + split; [discriminate | intros [H1 | [H1 _]]; [lia | congruence]].
Qed.

Lemma edge_le_total x y : edge_le x y \/ edge_le y x.
Proof. unfold edge_le. rewrite !edge_leb_spec. lia. Qed.

Lemma edge_le_trans x y z : edge_le x y -> edge_le y z -> edge_le x z.
Proof. unfold edge_le. rewrite !edge_leb_spec. lia. Qed.

Lemma edge_le_antisym x y : edge_le x y -> edge_le y x -> x = y.
Proof.
  unfold edge_le. rewrite !edge_leb_spec. destruct x as [a b], y as [c d]. simpl.
  intros H1 H2. f_equal; lia.
Qed.

Lemma insert_perm e l : Permutation (e :: l) (insert_edge e l).
Proof.
  induction l as [| x r IH]; simpl; [reflexivity |].
  destruct (edge_leb e x); [reflexivity |].
  eapply perm_trans; [apply perm_swap |]. apply perm_skip. exact IH.
Qed.

Lemma isort_perm l : Permutation l (isort l).
Proof.
  induction l as [| x r IH]; simpl; [reflexivity |].
  eapply perm_trans; [apply perm_skip; exact IH |]. apply insert_perm.
Qed.

Lemma In_isort x l : In x (isort l) <-> In x l.
Proof.
  split; intros H.
  - eapply Permutation_in; [apply Permutation_sym, isort_perm | exact H].
  - eapply Permutation_in; [apply isort_perm | exact H].
Qed.

Lemma insert_sorted e l : StronglySorted edge_le l -> StronglySorted edge_le (insert_edge e l).
Proof.
  induction 1 as [| x r Hs IH Hall]; simpl.
  - constructor; constructor.
  - destruct (edge_leb e x) eqn:E.
    + constructor.
      * constructor; assumption.
      * constructor; [exact E |].
        eapply Forall_impl; [| exact Hall]. intros y Hy. eapply edge_le_trans; eassumption.
    + constructor; [exact IH |].
      assert (Hxe : edge_le x e).
      { destruct (edge_le_total e x) as [H | H]; [unfold edge_le in H; congruence | exact H]. }
      rewrite Forall_forall. intros y Hy.
      eapply Permutation_in in Hy; [| apply Permutation_sym, insert_perm].
      destruct Hy as [<- | Hy]; [exact Hxe |].
      rewrite Forall_forall in Hall. auto.
Qed.

Lemma isort_sorted l : StronglySorted edge_le (isort l).
Proof. induction l; simpl; [constructor | apply insert_sorted; assumption]. Qed.

Lemma sorted_perm_eq l1 : forall l2,
  StronglySorted edge_le l1 -> StronglySorted edge_le l2 -> Permutation l1 l2 -> l1 = l2.
Proof.
  induction l1 as [| a r1 IH]; intros l2 H1 H2 HP.
  - apply Permutation_nil in HP. auto.
  - destruct l2 as [| b r2]; [apply Permutation_sym, Permutation_nil in HP; discriminate |].
    inversion H1 as [| ? ? Hs1 Ha1]; inversion H2 as [| ? ? Hs2 Ha2]; subst.
    rewrite Forall_forall in Ha1, Ha2.
    assert (a = b) as ->.
    { assert (Hab : In a (b :: r2)) by (eapply Permutation_in; [exact HP | left; reflexivity]).
      assert (Hba : In b (a :: r1)) by (eapply Permutation_in; [apply Permutation_sym; exact HP | left; reflexivity]).
      destruct Hab as [-> | Hab]; [reflexivity |].
      destruct Hba as [-> | Hba]; [reflexivity |].
      apply edge_le_antisym; auto. }
    f_equal. apply IH; try assumption. eapply Permutation_cons_inv; exact HP.
Qed.

(* ------------------------------------------------------------------ get_open_edges as a filter *)
Notation cnt := (count_occ edge_eq_dec).

Definition not2 (l : list edge) (e : edge) : bool := negb (Nat.eqb (cnt l e) 2).

Lemma open_edges_filter fs :
  get_open_edges fs = filter (not2 (sorted_edges fs)) (isort (nodup edge_eq_dec (sorted_edges fs))).
Proof.
  unfold get_open_edges, np_unique_counts.
  generalize (isort (nodup edge_eq_dec (sorted_edges fs))) as u.
  induction u as [| e u IH]; simpl; [reflexivity |].
  unfold not2 at 1. destruct (negb (cnt (sorted_edges fs) e =? 2)); simpl; rewrite IH; reflexivity.
Qed.

Lemma open_edges_In fs e :
  In e (get_open_edges fs) <-> In e (sorted_edges fs) /\ cnt (sorted_edges fs) e <> 2.
Proof.
  rewrite open_edges_filter, filter_In, In_isort, nodup_In. unfold not2.
  rewrite negb_true_iff, Nat.eqb_neq. reflexivity.
Qed.

Lemma open_edges_NoDup fs : NoDup (get_open_edges fs).
Proof.
  rewrite open_edges_filter. apply NoDup_filter.
  eapply Permutation_NoDup; [apply isort_perm | apply NoDup_nodup].
Qed.

Lemma sorted_filter (f : edge -> bool) l : StronglySorted edge_le l -> StronglySorted edge_le (filter f l).
Proof.
  induction 1 as [| x r Hs IH Hall]; simpl; [constructor |].
  destruct (f x); [| exact IH]. constructor; [exact IH |].
  rewrite Forall_forall in *. intros y Hy. apply filter_In in Hy. apply Hall. tauto.
Qed.

Lemma open_edges_sorted fs : StronglySorted edge_le (get_open_edges fs).
Proof. rewrite open_edges_filter. apply sorted_filter, isort_sorted. Qed.

Lemma nil_iff {A} (l : list A) : l = [] <-> forall x, ~ In x l.
Proof.
  split; [intros -> x [] |]. destruct l as [| a r]; [reflexivity |].
  intros H. exfalso. apply (H a). left. reflexivity.
Qed.

(* result empty <-> every row of the sorted edge array occurs exactly twice *)
Lemma open_iff_multiset fs :
  get_open_edges fs = [] <-> forall e, In e (sorted_edges fs) -> cnt (sorted_edges fs) e = 2.
Proof.
  rewrite nil_iff. split.
  - intros H e He. destruct (Nat.eq_dec (cnt (sorted_edges fs) e) 2) as [E | E]; [exact E |].
    exfalso. apply (H e). apply open_edges_In. split; assumption.
  - intros H e He. apply open_edges_In in He. destruct He as [He Hc]. apply Hc, H, He.
Qed.

(* ------------------------------------------------------------------ counting rows = counting faces *)
Lemma perm3 {T} (a b c : T) A B C :
  Permutation ((a :: A) ++ (b :: B) ++ (c :: C)) (a :: b :: c :: A ++ B ++ C).
Proof.
  simpl. apply perm_skip.
  eapply perm_trans; [apply Permutation_sym, Permutation_middle |]. apply perm_skip.
  rewrite !app_assoc. apply Permutation_sym, Permutation_middle.
Qed.

Lemma sorted_edges_cons f fs :
  Permutation (sorted_edges (f :: fs)) (face_edges f ++ sorted_edges fs).
Proof.
  unfold sorted_edges, raw_edges. simpl map at 2 3 4.
  eapply perm_trans; [apply Permutation_map, perm3 |].
  simpl. reflexivity.
Qed.

Lemma sorted_edges_concat fs : Permutation (sorted_edges fs) (concat (map face_edges fs)).
Proof.
  induction fs as [| f fs IH]; [reflexivity |].
  eapply perm_trans; [apply sorted_edges_cons |].
  change (concat (map face_edges (f :: fs))) with (face_edges f ++ concat (map face_edges fs)).
  apply Permutation_app_head. exact IH.
Qed.

Lemma face_edges_NoDup f : nondegenerate f -> NoDup (face_edges f).
Proof.
  destruct f as [[a b] c]. unfold nondegenerate, face_edges, f0, f1, f2. simpl. intros [H1 [H2 H3]].
  repeat constructor; simpl; intros H;
    repeat match goal with
           | H : _ \/ _ |- _ => destruct H as [H | H]
           | H : False |- _ => destruct H
           | H : sort2 _ = sort2 _ |- _ => apply sort2_eq in H; destruct H as [[? ?] | [? ?]]; congruence
           end.
Qed.

Lemma cnt_face_edges f e : nondegenerate f ->
  cnt (face_edges f) (sort2 e) = if has_edge e f then 1 else 0.
Proof.
  intros Hn. unfold has_edge.
  pose proof (face_edges_NoDup f Hn) as Hnd.
  rewrite (NoDup_count_occ edge_eq_dec) in Hnd. specialize (Hnd (sort2 e)).
  destruct (emem (sort2 e) (face_edges f)) eqn:E.
  - apply emem_In in E. apply (count_occ_In edge_eq_dec) in E. lia.
  - apply emem_false in E. apply (count_occ_not_In edge_eq_dec) in E. exact E.
Qed.

Lemma cnt_incident fs e : Forall nondegenerate fs -> cnt (sorted_edges fs) (sort2 e) = incident e fs.
Proof.
  intros Hn. rewrite (proj1 (Permutation_count_occ edge_eq_dec _ _) (sorted_edges_concat fs)).
  unfold incident. induction Hn as [| f fs Hf Hfs IH]; [reflexivity |].
  change (concat (map face_edges (f :: fs))) with (face_edges f ++ concat (map face_edges fs)).
  rewrite count_occ_app, IH, (cnt_face_edges f e Hf).
  change (filter (has_edge e) (f :: fs))
    with (if has_edge e f then f :: filter (has_edge e) fs else filter (has_edge e) fs).
  destruct (has_edge e f); simpl; reflexivity.
Qed.

Lemma sorted_edges_sorted fs e : In e (sorted_edges fs) -> is_sorted e.
Proof. unfold sorted_edges. rewrite in_map_iff. intros [x [<- _]]. apply sort2_sorted. Qed.

Lemma incident_sort2 e fs : incident (sort2 e) fs = incident e fs.
Proof. unfold incident, has_edge. rewrite sort2_idem. reflexivity. Qed.

(* result empty <-> every undirected edge lies in no face or in exactly two *)
Lemma open_iff fs : Forall nondegenerate fs -> (get_open_edges fs = [] <-> closed_mesh fs).
Proof.
  intros Hn. rewrite open_iff_multiset. unfold closed_mesh. split.
  - intros H e. rewrite <- (cnt_incident fs e Hn).
    destruct (Nat.eq_dec (cnt (sorted_edges fs) (sort2 e)) 0) as [E | E]; [left; exact E | right].
    apply H. apply (count_occ_In edge_eq_dec). lia.
  - intros H e He.
    pose proof (sorted_edges_sorted fs e He) as Hs. apply sort2_of_sorted in Hs.
    rewrite <- Hs, (cnt_incident fs e Hn).
    destruct (H e) as [E | E]; [| exact E].
    rewrite <- (cnt_incident fs e Hn), Hs in E.
    apply (count_occ_In edge_eq_dec) in He. lia.
Qed.

Lemma status_open_nil fs : status_open fs = false <-> get_open_edges fs = [].
Proof.
  unfold status_open. rewrite negb_false_iff, Nat.eqb_eq. apply length_zero_iff_nil.
Qed.

Lemma status_open_iff fs : Forall nondegenerate fs -> (status_open fs = false <-> closed_mesh fs).
Proof. intros Hn. rewrite status_open_nil. apply open_iff, Hn. Qed.

(* the returned rows: exactly the undirected edges lying in a number of faces other than 0 and 2 *)
Lemma open_edges_spec fs e : Forall nondegenerate fs ->
  (In e (get_open_edges fs) <-> is_sorted e /\ incident e fs <> 0 /\ incident e fs <> 2).
Proof.
  intros Hn. rewrite open_edges_In. split.
  - intros [He Hc]. pose proof (sorted_edges_sorted fs e He) as Hs. split; [exact Hs |].
    rewrite <- (cnt_incident fs e Hn), (sort2_of_sorted e Hs).
    apply (count_occ_In edge_eq_dec) in He. lia.
  - intros [Hs [H0 H2]]. rewrite <- (cnt_incident fs e Hn), (sort2_of_sorted e Hs) in H0, H2.
    split; [| exact H2]. apply (count_occ_In edge_eq_dec). lia.
Qed.

(* ------------------------------------------------------------------ invariance: order of faces, winding *)
Lemma open_edges_perm_edges fs fs' :
  Permutation (sorted_edges fs) (sorted_edges fs') -> get_open_edges fs = get_open_edges fs'.
Proof.
  intros HP. rewrite !open_edges_filter.
  assert (Hc : forall e, cnt (sorted_edges fs) e = cnt (sorted_edges fs') e)
    by (apply Permutation_count_occ; exact HP).
  replace (isort (nodup edge_eq_dec (sorted_edges fs'))) with (isort (nodup edge_eq_dec (sorted_edges fs))).
  - apply filter_ext. intros e. unfold not2. rewrite Hc. reflexivity.
  - apply sorted_perm_eq; try apply isort_sorted.
    eapply perm_trans; [apply Permutation_sym, isort_perm |].
    eapply perm_trans; [| apply isort_perm].
    apply NoDup_Permutation; try apply NoDup_nodup.
    intros x. rewrite !nodup_In. split; apply Permutation_in; [exact HP | apply Permutation_sym, HP].
Qed.

Lemma vperm_cases f g : vperm f g ->
  let a := f0 f in let b := f1 f in let c := f2 f in
  g = (a, b, c) \/ g = (a, c, b) \/ g = (b, a, c) \/ g = (b, c, a) \/ g = (c, a, b) \/ g = (c, b, a).
Proof.
  destruct f as [[a b] c], g as [[x y] z]. unfold vperm, verts, f0, f1, f2. simpl. intros HP.
  assert (Hin : In a [x; y; z]) by (eapply Permutation_in; [exact HP | left; reflexivity]).
  destruct Hin as [<- | [<- | [<- | []]]].
  - apply Permutation_cons_inv, Permutation_length_2 in HP. destruct HP as [[-> ->] | [-> ->]]; auto.
  - apply Permutation_cons_app_inv with (l1 := [x]) (l2 := [z]) in HP. simpl in HP.
    apply Permutation_length_2 in HP. destruct HP as [[-> ->] | [-> ->]]; auto 7.
  - apply Permutation_cons_app_inv with (l1 := [x; y]) (l2 := []) in HP. simpl in HP.
    apply Permutation_length_2 in HP. destruct HP as [[-> ->] | [-> ->]]; auto 7.
Qed.

Lemma face_edges_vperm f g : vperm f g -> Permutation (face_edges f) (face_edges g).
Proof.
  intros H. apply vperm_cases in H. destruct f as [[a b] c]. unfold f0, f1, f2 in H. simpl in H.
  apply (Permutation_count_occ edge_eq_dec). intros x.
  destruct H as [-> | [-> | [-> | [-> | [-> | ->]]]]]; unfold face_edges, f0, f1, f2; simpl;
    rewrite ?(sort2_sym b a), ?(sort2_sym c b), ?(sort2_sym c a);
    repeat match goal with |- context [edge_eq_dec ?u ?v] => destruct (edge_eq_dec u v) end; lia.
Qed.

Lemma perm_concat {T} (l l' : list (list T)) : Permutation l l' -> Permutation (concat l) (concat l').
Proof.
  induction 1 as [| x l l' H IH | x y l | l l' l'' H1 IH1 H2 IH2]; simpl.
  - reflexivity.
  - apply Permutation_app_head, IH.
  - rewrite !app_assoc. apply Permutation_app_tail, Permutation_app_comm.
  - eapply perm_trans; eassumption.
Qed.

Lemma sorted_edges_equiv fs fs' : mesh_equiv fs fs' -> Permutation (sorted_edges fs) (sorted_edges fs').
Proof.
  intros [fs'' [HP HF]].
  eapply perm_trans; [apply sorted_edges_concat |].
  eapply perm_trans; [| apply Permutation_sym, sorted_edges_concat].
  eapply perm_trans; [apply perm_concat, Permutation_map, HP |].
  clear HP. induction HF as [| f g l l' Hfg HF IH]; [reflexivity |].
  change (Permutation (face_edges f ++ concat (map face_edges l))
                      (face_edges g ++ concat (map face_edges l'))).
  apply Permutation_app; [apply face_edges_vperm, Hfg | exact IH].
Qed.

Lemma open_edges_equiv fs fs' : mesh_equiv fs fs' -> get_open_edges fs = get_open_edges fs'.
Proof. intros H. apply open_edges_perm_edges, sorted_edges_equiv, H. Qed.

(* ------------------------------------------------------------------ invariance: vertex renumbering *)
Lemma rename_sort2 r e : injective r -> sort2 (r (fst (sort2 e)), r (snd (sort2 e))) = rename_edge r e.
Proof.
  intros _. destruct e as [a b]. unfold rename_edge.
  destruct (sort2_cases a b) as [[H1 ->] | [H1 ->]]; simpl; [reflexivity | apply sort2_sym].
Qed.

Lemma sorted_edges_rename r fs : injective r ->
  sorted_edges (map (rename_face r) fs) = map (rename_edge r) (sorted_edges fs).
Proof.
  intros Hr. unfold sorted_edges, raw_edges. rewrite !map_app, !map_map.
  assert (E : forall (p q : face -> N),
             (forall x, p (rename_face r x) = r (p x)) -> (forall x, q (rename_face r x) = r (q x)) ->
             map (fun x => sort2 (p (rename_face r x), q (rename_face r x))) fs
             = map (fun x => rename_edge r (sort2 (p x, q x))) fs).
  { intros p q Hp Hq. apply map_ext. intros x. rewrite Hp, Hq.
    symmetry. apply (rename_sort2 r (p x, q x) Hr). }
  rewrite (E f0 f1), (E f1 f2), (E f0 f2); try reflexivity; intros [[a b] c]; reflexivity.
Qed.

Lemma rename_edge_inj r e1 e2 : injective r -> is_sorted e1 -> is_sorted e2 ->
  rename_edge r e1 = rename_edge r e2 -> e1 = e2.
Proof.
  intros Hr. destruct e1 as [a b], e2 as [c d]. unfold is_sorted, rename_edge. simpl. intros H1 H2 H.
  apply sort2_eq in H. destruct H as [[Ha Hb] | [Ha Hb]]; apply Hr in Ha; apply Hr in Hb; subst.
  - reflexivity.
  - f_equal; lia.
Qed.

Lemma cnt_rename r l e : injective r -> Forall is_sorted l -> is_sorted e ->
  cnt (map (rename_edge r) l) (rename_edge r e) = cnt l e.
Proof.
  intros Hr Hl He. induction Hl as [| x l Hx Hl IH]; simpl; [reflexivity |].
  destruct (edge_eq_dec (rename_edge r x) (rename_edge r e)) as [E | E], (edge_eq_dec x e) as [E' | E'].
  - rewrite IH. reflexivity.
  - exfalso. apply E'. eapply rename_edge_inj; eassumption.
  - exfalso. apply E. subst. reflexivity.
  - exact IH.
Qed.

Lemma open_edges_rename r fs : injective r ->
  Permutation (get_open_edges (map (rename_face r) fs)) (map (rename_edge r) (get_open_edges fs)).
Proof.
  intros Hr.
  assert (Hall : Forall is_sorted (sorted_edges fs))
    by (rewrite Forall_forall; apply sorted_edges_sorted).
  apply NoDup_Permutation.
  - apply open_edges_NoDup.
  - pose proof (open_edges_NoDup fs) as Hnd.
    assert (Hs : forall e, In e (get_open_edges fs) -> is_sorted e).
    { intros e He. apply open_edges_In in He. eapply sorted_edges_sorted, He. }
    induction (get_open_edges fs) as [| e l IH]; simpl; [constructor |].
    inversion Hnd as [| ? ? Hni Hnd']; subst. constructor.
    + rewrite in_map_iff. intros [x [Hx Hin]]. apply Hni.
      apply rename_edge_inj in Hx; [subst; exact Hin | exact Hr | apply Hs; right; exact Hin | apply Hs; left; reflexivity].
    + apply IH; [exact Hnd' | intros x Hx; apply Hs; right; exact Hx].
  - intros x. rewrite open_edges_In, sorted_edges_rename by exact Hr. rewrite !in_map_iff. split.
    + intros [[e [<- He]] Hc]. exists e. split; [reflexivity |].
      apply open_edges_In. split; [exact He |].
      rewrite cnt_rename in Hc; [exact Hc | exact Hr | exact Hall | eapply sorted_edges_sorted, He].
    + intros [e [<- He]]. apply open_edges_In in He. destruct He as [He Hc]. split.
      * exists e. split; [reflexivity | exact He].
      * rewrite cnt_rename; [exact Hc | exact Hr | exact Hall | eapply sorted_edges_sorted, He].
Qed.

Lemma status_open_equiv fs fs' : mesh_equiv fs fs' -> status_open fs = status_open fs'.
Proof. intros H. unfold status_open. rewrite (open_edges_equiv fs fs' H). reflexivity. Qed.

Lemma status_open_rename r fs : injective r -> status_open (map (rename_face r) fs) = status_open fs.
Proof.
  intros Hr. unfold status_open.
  rewrite (Permutation_length (open_edges_rename r fs Hr)), map_length. reflexivity.
Qed.

(* ------------------------------------------------------------------ packaged statements *)
Lemma open_invariant_equiv fs fs' : mesh_equiv fs fs' ->
  get_open_edges fs = get_open_edges fs' /\ status_open fs = status_open fs'.
Proof. intros H. split; [apply open_edges_equiv, H | apply status_open_equiv, H]. Qed.

Lemma open_invariant_rename r fs : injective r ->
  Permutation (get_open_edges (map (rename_face r) fs)) (map (rename_edge r) (get_open_edges fs))
  /\ status_open (map (rename_face r) fs) = status_open fs.
Proof. intros H. split; [apply open_edges_rename, H | apply status_open_rename, H]. Qed.

Definition tet : list face := [(0, 1, 2); (0, 3, 1); (1, 3, 2); (2, 3, 0)]%N.

Lemma open_nonvacuous :
  Forall nondegenerate tet /\ closed_mesh tet /\ status_open tet = false /\ status_open (tl tet) = true.
Proof.
  assert (Hn : Forall nondegenerate tet).
  { unfold tet. repeat constructor; unfold f0, f1, f2; simpl; discriminate. }
  split; [exact Hn |]. split; [| split; vm_compute; reflexivity].
  apply (proj1 (open_iff tet Hn)). vm_compute. reflexivity.
Qed.
