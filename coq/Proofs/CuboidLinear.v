(* C05 -- magnet_cuboid_Bfield is linear in the polarization: it enters as three scalar factors of
   geometry-only terms (for EVERY table, sign function and term function, hence for the translated
   ones), and therefore BHJM_magnet_cuboid's B, H, J, M are linear in it (WrapLinear.v). *)
From Coq Require Import Reals List ZArith Bool Lra RealField.
From MV Require Import Gen.GenCuboid Model.CoreNum Model.WrapModel Model.CuboidCore Proofs.WrapLinear.
Import ListNotations.
Local Open Scope R_scope.

Definition lin3 (a b : R) (u v : R * R * R) : R * R * R :=
  let '(u1, u2, u3) := u in let '(v1, v2, v3) := v in (u1 * a + v1 * b, u2 * a + v2 * b, u3 * a + v3 * b).

Lemma cub_pick_lin k a b u v : cub_pick k (lin3 a b u v) = cub_pick k u * a + cub_pick k v * b.
Proof.
  destruct u as [[u1 u2] u3], v as [[v1 v2] v3]. unfold lin3, cub_pick.
  destruct k as [|[|[|k]]]; cbn [nth]; try ring. destruct k; ring.
Qed.

Theorem cub_comp_linear tbl q t a b u v j :
  cub_comp tbl q t (lin3 a b u v) j = cub_comp tbl q t u j * a + cub_comp tbl q t v j * b.
Proof.
  unfold cub_comp.
  set (S := fun pol => fold_right (fun e acc =>
         let '(k, j', neg, i) := e in
         if Nat.eqb j' j
         then (if neg : bool then - cub_pick k pol * t i * q k j else cub_pick k pol * t i * q k j) + acc
         else acc) 0 tbl).
  assert (E : S (lin3 a b u v) = S u * a + S v * b).
  { unfold S. induction tbl as [|[[[k j'] neg] i] tbl IH]; cbn [fold_right]; [ring|].
    destruct (Nat.eqb j' j); [|exact IH]. rewrite IH, cub_pick_lin. destruct neg; ring. }
  fold (S (lin3 a b u v)) (S u) (S v). rewrite E. unfold Rdiv. ring.
Qed.

Theorem cuboid_B_linear at2 obs dim a b u v :
  cuboid_B at2 obs dim (lin3 a b u v) = lin3 a b (cuboid_B at2 obs dim u) (cuboid_B at2 obs dim v).
Proof.
  destruct obs as [[x y] z], dim as [[dx dy] dz]. unfold cuboid_B. cbv zeta.
  rewrite !cub_comp_linear. reflexivity.
Qed.

(* ---- the wrapper over R *)
Lemma Reqb_sound (x y : R) : Reqb x y = true -> x = y.
Proof. unfold Reqb. destruct (Req_EM_T x y); [auto|discriminate]. Qed.

Lemma RWrap_field : field_theory (@f0 RWrap) (@f1 RWrap) (@fadd RWrap) (@fmul RWrap) (@fsub RWrap) (@fopp RWrap)
                                 (@fdiv RWrap) (@finv RWrap) (@eq (@F RWrap)).
Proof. exact Rfield. Qed.

Lemma vlin_is_lin3 a b (u v : @vec RWrap) : vlin (N := RWrap) a b u v = lin3 a b u v.
Proof. destruct u as [[u1 u2] u3], v as [[v1 v2] v3]. reflexivity. Qed.

Theorem cuboid_BHJM_linear (T : @Tols RWrap) at2 (mu0 : R) (f : fld) (o d p1 p2 : R * R * R) (a b : R) :
  bhjm_cuboid (N := RWrap) (cuboid_core_row at2) mu0 f (cub (N := RWrap) o d (lin3 a b p1 p2))
  = lin3 a b (bhjm_cuboid (N := RWrap) (cuboid_core_row at2) mu0 f (cub (N := RWrap) o d p1))
             (bhjm_cuboid (N := RWrap) (cuboid_core_row at2) mu0 f (cub (N := RWrap) o d p2)).
Proof.
  rewrite <- !vlin_is_lin3.
  apply (cuboid_wrapper_linear (N := RWrap) RWrap_field Reqb_sound (cuboid_core_row at2) o d).
  intros a' b' q1 q2. unfold cuboid_core_row, cub. cbn [cu_obs cu_dim cu_pol].
  rewrite !vlin_is_lin3. apply cuboid_B_linear.
Qed.

(* non-vacuity: the translated table feeds every component from every polarization axis *)
Lemma cuboid_contrib_full :
  forallb (fun kj : nat * nat => existsb (fun e : nat * nat * bool * nat =>
     let '(k, j, _, _) := e in Nat.eqb k (fst kj) && Nat.eqb j (snd kj)) cuboid_contrib)
    [(0, 0); (0, 1); (0, 2); (1, 0); (1, 1); (1, 2); (2, 0); (2, 1); (2, 2)]%nat = true.
Proof. vm_compute. reflexivity. Qed.
