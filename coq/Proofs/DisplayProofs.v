(* C19 -- proofs about the display model: placement algebra, path trace, frame selection,
   style_temp_edit / get_traces_3D restore the style store. *)
From Coq Require Import ZArith List Bool Lia ZifyBool Sorted.
From MV Require Import Lib.ListZ Lib.Rigid Model.DisplayModel.
Import ListNotations.
Open Scope Z_scope.

(* ================================================================== placement *)
Section Placement.
Context {O : RigidOps} {L : RigidLaws O} {SO : ScaleOps O} {SL : ScaleLaws O SO}.

Definition dflt_g (o : option G) : G := match o with Some R => R | None => gone end.
Definition dflt_v (p : option V) : V := match p with Some p => p | None => vzero end.

(* the early exit ignores `scale`: the closed form needs scale = 1 there *)
Lemma place_general (o : option G) (p : option V) (sc lf : Sc) (v : V) :
  (o = None -> p = None -> sis_one lf = true -> sc = sone) ->
  place o p sc lf v = smul lf (vadd (smul sc (act (dflt_g o) v)) (dflt_v p)).
Proof.
  intros Hsc. unfold place.
  destruct o as [R|], p as [q|]; cbn [dflt_g dflt_v]; try reflexivity.
  - rewrite act_one. reflexivity.
  - destruct (sis_one lf) eqn:E.
    + rewrite (Hsc eq_refl eq_refl eq_refl). apply sis_one_eq in E. subst lf.
      rewrite act_one, !smul_one, vadd_0_r. reflexivity.
    + rewrite act_one. reflexivity.
Qed.

Lemma placed_vertex_lem (R : G) (p : V) (v : V) :
  place (Some R) (Some p) sone sone v = vadd (act R v) p.
Proof. rewrite place_general by discriminate. cbn. rewrite !smul_one. reflexivity. Qed.

Lemma place_noop (v : V) : place None None sone sone v = v.
Proof. rewrite place_general by reflexivity. cbn. rewrite act_one, !smul_one. apply vadd_0_r. Qed.

Lemma place_rescale (f : Sc) (v : V) : place None None sone f v = smul f v.
Proof. rewrite place_general by reflexivity. cbn. rewrite act_one, smul_one, vadd_0_r. reflexivity. Qed.

Lemma drawn_vertex_lem (R : G) (p : V) (f : Sc) (v : V) :
  drawn_vertex R p f v = smul f (vadd (act R v) p).
Proof. unfold drawn_vertex. rewrite place_rescale, place_noop, placed_vertex_lem. reflexivity. Qed.

Lemma dipole_vertex_lem (M R : G) (p : V) (f : Sc) (v : V) :
  dipole_vertex M R p f v = smul f (vadd (act (gmul R M) v) p).
Proof.
  unfold dipole_vertex. rewrite drawn_vertex_lem. rewrite place_general by discriminate. cbn.
  rewrite !smul_one, vadd_0_r, act_mul. reflexivity.
Qed.

Lemma pixel_vertex_lem (q : V) (R : G) (p : V) (f : Sc) (v : V) :
  pixel_vertex q R p f v = smul f (vadd (act R v) (vadd (act R q) p)).
Proof.
  unfold pixel_vertex. rewrite drawn_vertex_lem. rewrite place_general by discriminate. cbn.
  rewrite !smul_one, act_one, act_add, vadd_assoc. reflexivity.
Qed.

Lemma extra_vertex_lem (sc : Sc) (R : G) (p : V) (f : Sc) (v : V) :
  extra_vertex sc R p f v = smul f (vadd (smul sc (act R v)) p).
Proof.
  unfold extra_vertex. rewrite place_rescale. rewrite place_general by discriminate. cbn.
  rewrite smul_one. reflexivity.
Qed.

(* unit change composes: drawing in unit f then converting by g = drawing in unit g*f *)
Lemma drawn_vertex_rescale (R : G) (p : V) (f g : Sc) (v : V) :
  smul g (drawn_vertex R p f v) = drawn_vertex R p (smulS g f) v.
Proof. rewrite !drawn_vertex_lem, smul_mul. reflexivity. Qed.

Lemma path_trace_lem (path : list pose) (f : Sc) :
  path_trace path f = map (fun pq : pose => smul f (fst pq)) path.
Proof.
  unfold path_trace. apply map_ext. intros pq. rewrite place_rescale, place_noop. reflexivity.
Qed.

End Placement.

(* ================================================================== np.unique *)
Lemma In_uins x y l : In x (uins y l) <-> x = y \/ In x l.
Proof.
  induction l as [|z l IH]; simpl.
  - intuition.
  - destruct (y <? z) eqn:E1; [simpl; intuition|].
    destruct (y =? z) eqn:E2.
    + apply Z.eqb_eq in E2. subst z. simpl. intuition.
    + simpl. rewrite IH. intuition.
Qed.

Lemma In_np_unique x l : In x (np_unique l) <-> In x l.
Proof.
  induction l as [|y l IH]; simpl; [reflexivity|].
  unfold np_unique in *. simpl. rewrite In_uins, IH. intuition.
Qed.

Lemma uins_sorted y l : StronglySorted Z.lt l -> StronglySorted Z.lt (uins y l).
Proof.
  induction l as [|z l IH]; intros Hs; simpl.
  - constructor; constructor.
  - inversion Hs as [|? ? Hs' Hall]; subst.
    destruct (y <? z) eqn:E1.
    + constructor; [exact Hs|]. constructor; [lia|].
      rewrite Forall_forall in *. intros w Hw. specialize (Hall w Hw). lia.
    + destruct (y =? z) eqn:E2; [exact Hs|].
      constructor; [apply IH; exact Hs'|].
      rewrite Forall_forall in *. intros w Hw. apply In_uins in Hw as [->|Hw]; [lia|auto].
Qed.

Lemma np_unique_sorted l : StronglySorted Z.lt (np_unique l).
Proof.
  induction l as [|y l IH]; unfold np_unique in *; simpl; [constructor|].
  apply uins_sorted, IH.
Qed.

(* ================================================================== np.arange(n)[::step] *)
Lemma In_tab_from {A} (f : Z -> A) j n x :
  In x (tab_from f j n) <-> exists i, j <= i < j + Z.of_nat n /\ x = f i.
Proof.
  revert j; induction n as [|n IH]; intros j; simpl.
  - split; [tauto|]. intros [i [Hi _]]. lia.
  - rewrite IH. split.
    + intros [<-|[i [Hi ->]]]; [exists j|exists i]; split; auto; lia.
    + intros [i [Hi ->]]. destruct (Z.eq_dec i j) as [->|Hne]; [left; reflexivity|].
      right. exists i. split; [lia|reflexivity].
Qed.

Lemma In_tabulate {A} (f : Z -> A) n x :
  In x (tabulate n f) <-> exists i, 0 <= i < n /\ x = f i.
Proof.
  unfold tabulate. rewrite In_tab_from. split; intros [i [Hi ->]]; exists i; split; auto; lia.
Qed.

Lemma lt_ceil_div n k j : 0 < k -> (j < ceil_div n k <-> j * k < n).
Proof.
  intros Hk. unfold ceil_div.
  pose proof (Z.div_mod (n + k - 1) k ltac:(lia)) as E.
  pose proof (Z.mod_pos_bound (n + k - 1) k Hk) as B.
  set (q := (n + k - 1) / k) in *. set (r := (n + k - 1) mod k) in *.
  split; intros H; nia.
Qed.

Lemma In_arange_back n k x : 0 < k ->
  In x (arange_step n (- k)) <-> 0 <= x < n /\ (n - 1 - x) mod k = 0.
Proof.
  intros Hk. unfold arange_step.
  destruct (- k >? 0) eqn:E; [lia|]. rewrite Z.opp_involutive.
  rewrite In_tabulate. split.
  - intros [j [[Hj0 Hj] ->]]. apply lt_ceil_div in Hj; [|exact Hk].
    split; [nia|]. replace (n - 1 - (n - 1 + j * - k)) with (j * k) by lia.
    apply Z.mod_mul. lia.
  - intros [Hx Hm]. exists ((n - 1 - x) / k).
    pose proof (Z.div_mod (n - 1 - x) k ltac:(lia)) as D. rewrite Hm in D.
    assert (0 <= (n - 1 - x) / k) by (apply Z.div_pos; lia).
    split; [split; [assumption|]|].
    + apply lt_ceil_div; [exact Hk|]. nia.
    + nia.
Qed.

Lemma In_arange_fwd n m x : 0 < m ->
  In x (arange_step n m) <-> 0 <= x < n /\ x mod m = 0.
Proof.
  intros Hm. unfold arange_step.
  destruct (m >? 0) eqn:E; [|lia].
  rewrite In_tabulate. split.
  - intros [j [[Hj0 Hj] ->]]. apply lt_ceil_div in Hj; [|exact Hm].
    split; [nia|]. apply Z.mod_mul. lia.
  - intros [Hx Hmod]. exists (x / m).
    pose proof (Z.div_mod x m ltac:(lia)) as D. rewrite Hmod in D.
    assert (0 <= x / m) by (apply Z.div_pos; lia).
    split; [split; [assumption|]|].
    + apply lt_ceil_div; [exact Hm|]. nia.
    + nia.
Qed.

(* ================================================================== all_some *)
Lemma all_some_map_Some {A B} (f : A -> option B) (l : list A) :
  (forall i, In i l -> exists e, f i = Some e) ->
  exists es, all_some (map f l) = Some es /\
             (forall e, In e es <-> exists i, In i l /\ f i = Some e) /\ length es = length l.
Proof.
  induction l as [|a l IH]; intros H; simpl.
  - exists []. split; [reflexivity|]. split; [|reflexivity]. simpl. split; [tauto|]. intros [i [[] _]].
  - destruct (H a (or_introl eq_refl)) as [e0 He0]. rewrite He0.
    destruct IH as [es [E [Hin Hlen]]]; [intros i Hi; apply H; right; exact Hi|].
    rewrite E. exists (e0 :: es). split; [reflexivity|]. split; [|simpl; congruence].
    intros e; simpl. rewrite Hin. split.
    + intros [<-|[i [Hi Hf]]]; [exists a; auto|exists i; auto].
    + intros [i [[<-|Hi] Hf]]; [left; congruence|right; exists i; auto].
Qed.

Lemma all_some_map_None {A B} (f : A -> option B) (l : list A) :
  (exists i, In i l /\ f i = None) -> all_some (map f l) = None.
Proof.
  induction l as [|a l IH]; intros [i [Hi Hf]]; simpl; [destruct Hi|].
  destruct Hi as [<-|Hi]; [rewrite Hf; reflexivity|].
  destruct (f a); [|reflexivity]. rewrite IH; [reflexivity|exists i; auto].
Qed.

Lemma all_some_option_map {A B C} (g : B -> C) (h : A -> option B) (l : list A) :
  all_some (map (fun i => option_map g (h i)) l) = option_map (map g) (all_some (map h l)).
Proof.
  induction l as [|a l IH]; simpl; [reflexivity|].
  destruct (h a); simpl; [|reflexivity]. rewrite IH. destruct (all_some (map h l)); reflexivity.
Qed.

(* ================================================================== frame selection *)
Lemma np_index_eff n r : 1 <= n -> - n <= r ->
  np_index n (if r >=? n then n - 1 else r) = Some (eff_index n r).
Proof.
  intros Hn Hr. unfold np_index, eff_index.
  destruct (r >=? n) eqn:E.
  - replace (Z.min r (n - 1)) with (n - 1) by lia.
    destruct ((n - 1 <? - n) || (n - 1 >=? n)) eqn:E2; [lia|].
    destruct (n - 1 <? 0) eqn:E3; [lia|reflexivity].
  - replace (Z.min r (n - 1)) with r by lia.
    destruct ((r <? - n) || (r >=? n)) eqn:E2; [lia|]. reflexivity.
Qed.

Lemma eff_index_range n r : 1 <= n -> - n <= r -> 0 <= eff_index n r < n.
Proof.
  intros Hn Hr. unfold eff_index. destruct (Z.min r (n - 1) <? 0) eqn:E; lia.
Qed.

Lemma In_frame_inds n s i :
  In i (frame_inds n s) <->
  (raw_inds n s = [] /\ i = n - 1) \/
  (exists r, In r (raw_inds n s) /\ i = if r >=? n then n - 1 else r).
Proof.
  unfold frame_inds.
  assert (Hin : forall j, In j (np_unique (clamp_top n (raw_inds n s))) <->
                          exists r, In r (raw_inds n s) /\ j = if r >=? n then n - 1 else r).
  { intros j. rewrite In_np_unique. unfold clamp_top. rewrite in_map_iff.
    split; intros [r [H1 H2]]; exists r; auto. }
  destruct (np_unique (clamp_top n (raw_inds n s))) as [|u0 u] eqn:E.
  - simpl. split.
    + intros [<-|[]]. destruct (raw_inds n s) as [|r0 rs] eqn:Er; [left; auto|].
      exfalso. apply (proj2 (Hin (if r0 >=? n then n - 1 else r0))). exists r0. split; [left; reflexivity|reflexivity].
    + intros [[_ ->]|[r [Hr _]]]; [left; reflexivity|].
      exfalso. apply (proj2 (Hin (if r >=? n then n - 1 else r))). exists r. auto.
  - rewrite Hin. split; [intros H; right; exact H|].
    intros [[Hnil _]|H]; [|exact H].
    exfalso. assert (Hu : In u0 (u0 :: u)) by (left; reflexivity).
    apply Hin in Hu as [r [Hr _]]. rewrite Hnil in Hr. destruct Hr.
Qed.

Lemma frame_inds_sorted n s : StronglySorted Z.lt (frame_inds n s).
Proof.
  unfold frame_inds. pose proof (np_unique_sorted (clamp_top n (raw_inds n s))) as H.
  destruct (np_unique (clamp_top n (raw_inds n s))); [repeat constructor|exact H].
Qed.

Lemma frame_inds_nonnil n s : frame_inds n s <> [].
Proof. unfold frame_inds. destruct (np_unique _); discriminate. Qed.

(* the general statement over the raw index list *)
Lemma effective_general n s : 1 <= n ->
  (forall r, In r (raw_inds n s) -> - n <= r) ->
  exists es, effective_inds n s = Some es /\
    (forall e, In e es <-> (raw_inds n s = [] /\ e = n - 1) \/
                           (exists r, In r (raw_inds n s) /\ e = eff_index n r)) /\
    es <> [].
Proof.
  intros Hn Hraw. unfold effective_inds.
  destruct (all_some_map_Some (np_index n) (frame_inds n s)) as [es [E [Hin Hlen]]].
  { intros i Hi. apply In_frame_inds in Hi as [[_ ->]|[r [Hr ->]]].
    - exists (n - 1). unfold np_index. destruct ((n - 1 <? - n) || (n - 1 >=? n)) eqn:E; [lia|].
      destruct (n - 1 <? 0) eqn:E2; [lia|reflexivity].
    - eexists. apply np_index_eff; auto. }
  exists es. split; [exact E|]. split.
  - intros e. rewrite Hin. split.
    + intros [i [Hi Hf]]. apply In_frame_inds in Hi as [[Hnil ->]|[r [Hr ->]]].
      * left. split; [exact Hnil|]. unfold np_index in Hf.
        destruct ((n - 1 <? - n) || (n - 1 >=? n)) eqn:E1; [lia|].
        destruct (n - 1 <? 0) eqn:E2; [lia|]. congruence.
      * right. exists r. split; [exact Hr|]. rewrite np_index_eff in Hf by auto. congruence.
    + intros [[Hnil ->]|[r [Hr ->]]].
      * exists (n - 1). split; [apply In_frame_inds; left; auto|].
        unfold np_index. destruct ((n - 1 <? - n) || (n - 1 >=? n)) eqn:E1; [lia|].
        destruct (n - 1 <? 0) eqn:E2; [lia|reflexivity].
      * exists (if r >=? n then n - 1 else r). split; [apply In_frame_inds; right; exists r; auto|].
        apply np_index_eff; auto.
  - intros ->. simpl in Hlen. pose proof (frame_inds_nonnil n s) as Hnn.
    destruct (frame_inds n s); [congruence|discriminate].
Qed.

Lemma eff_index_inrange n e : 0 <= e < n -> eff_index n e = e.
Proof. intros H. unfold eff_index. destruct (Z.min e (n - 1) <? 0) eqn:E; lia. Qed.

Lemma frame_indices_valid_lem n s : 1 <= n -> admissible n s ->
  exists es, effective_inds n s = Some es /\
    (forall e, In e es -> 0 <= e < n) /\
    (forall e, In e es <-> displayed n s e) /\
    es <> [] /\
    StronglySorted Z.lt (frame_inds n s).
Proof.
  intros Hn Hadm.
  assert (Hraw : forall r, In r (raw_inds n s) -> - n <= r).
  { destruct s as [| b | k | l]; simpl.
    - intros r [<-|[]]; lia.
    - intros r [<-|[]]; lia.
    - destruct (k =? 0) eqn:E; [intros r [<-|[]]; lia|].
      intros r Hr. destruct (Z_lt_ge_dec 0 k).
      + apply In_arange_back in Hr; [lia|lia].
      + replace (- k) with (- k) in Hr by reflexivity.
        apply In_arange_fwd in Hr; lia.
    - simpl in Hadm. rewrite Forall_forall in Hadm. exact Hadm. }
  destruct (effective_general n s Hn Hraw) as [es [E [Hin Hnn]]].
  exists es. split; [exact E|].
  assert (Hrange : forall e, In e es -> 0 <= e < n).
  { intros e He. apply Hin in He as [[_ ->]|[r [Hr ->]]]; [lia|]. apply eff_index_range; auto. }
  split; [exact Hrange|]. split; [|split; [exact Hnn|apply frame_inds_sorted]].
  intros e. rewrite Hin.
  destruct s as [| b | k | l]; simpl.
  - split.
    + intros [[H _]|[r [[<-|[]] ->]]]; [discriminate|]. unfold eff_index.
      replace (Z.min (-1) (n - 1)) with (-1) by lia. simpl. lia.
    + intros ->. right. exists (-1). split; [left; reflexivity|]. unfold eff_index.
      replace (Z.min (-1) (n - 1)) with (-1) by lia. simpl. lia.
  - split.
    + intros [[H _]|[r [[<-|[]] ->]]]; [discriminate|]. unfold eff_index.
      replace (Z.min (-1) (n - 1)) with (-1) by lia. simpl. lia.
    + intros ->. right. exists (-1). split; [left; reflexivity|]. unfold eff_index.
      replace (Z.min (-1) (n - 1)) with (-1) by lia. simpl. lia.
  - destruct (k =? 0) eqn:E0.
    + split.
      * intros [[H _]|[r [[<-|[]] ->]]]; [discriminate|]. unfold eff_index.
        replace (Z.min (-1) (n - 1)) with (-1) by lia. simpl. lia.
      * intros ->. right. exists (-1). split; [left; reflexivity|]. unfold eff_index.
        replace (Z.min (-1) (n - 1)) with (-1) by lia. simpl. lia.
    + destruct (k >? 0) eqn:Ek.
      * split.
        -- intros [[Hnil _]|[r [Hr ->]]].
           ++ exfalso. assert (Hl : In (n - 1) (arange_step n (- k))).
              { apply In_arange_back; [lia|]. split; [lia|]. replace (n - 1 - (n - 1)) with 0 by lia.
                apply Z.mod_0_l. lia. }
              rewrite Hnil in Hl. destruct Hl.
           ++ apply In_arange_back in Hr; [|lia]. rewrite eff_index_inrange by lia. exact Hr.
        -- intros He. right. exists e. split; [apply In_arange_back; [lia|exact He]|].
           rewrite eff_index_inrange by lia. reflexivity.
      * split.
        -- intros [[Hnil _]|[r [Hr ->]]].
           ++ exfalso. assert (Hl : In 0 (arange_step n (- k))).
              { apply In_arange_fwd; [lia|]. split; [lia|]. apply Z.mod_0_l. lia. }
              rewrite Hnil in Hl. destruct Hl.
           ++ apply In_arange_fwd in Hr; [|lia]. rewrite eff_index_inrange by lia. exact Hr.
        -- intros He. right. exists e. split; [apply In_arange_fwd; [lia|exact He]|].
           rewrite eff_index_inrange by lia. reflexivity.
  - destruct l as [|i0 l].
    + split; [intros [[_ ->]|[r [[] _]]]; reflexivity|intros ->; left; auto].
    + split; [intros [[H _]|H]; [discriminate|exact H]|intros H; right; exact H].
Qed.

Lemma frames_out_of_range_lem n l : 1 <= n -> Exists (fun i => i < - n) l ->
  effective_inds n (SelList l) = None.
Proof.
  intros Hn Hex. apply Exists_exists in Hex as [i [Hi Hlt]].
  unfold effective_inds. apply all_some_map_None.
  exists i. split.
  - apply In_frame_inds. right. exists i. split; [exact Hi|].
    destruct (i >=? n) eqn:E; [lia|reflexivity].
  - unfold np_index. destruct ((i <? - n) || (i >=? n)) eqn:E; [reflexivity|lia].
Qed.

(* the last position is always shown by the default / bool / 0 / positive-int selections,
   the first one by negative ints *)
Lemma last_index_displayed n s : 1 <= n ->
  match s with SelNone | SelBool _ => True | SelInt k => 0 <= k | SelList _ => False end ->
  displayed n s (n - 1).
Proof.
  intros Hn Hs. destruct s as [| b | k | l]; simpl; auto; [|destruct Hs].
  destruct (k =? 0) eqn:E0; [reflexivity|]. destruct (k >? 0) eqn:Ek; [|lia].
  split; [lia|]. replace (n - 1 - (n - 1)) with 0 by lia. apply Z.mod_0_l. lia.
Qed.

(* ================================================================== get_rot_pos_from_path / object_frames *)
Section Frames.
Context {O : RigidOps} {L : RigidLaws O} {SO : ScaleOps O} {SL : ScaleLaws O SO}.

Lemma nthZ_map {A B} (g : A -> B) (d : A) (l : list A) i : nthZ (g d) (map g l) i = g (nthZ d l i).
Proof. unfold nthZ. destruct (i <? 0); [reflexivity|]. apply map_nth. Qed.

Lemma zlen_map {A B} (g : A -> B) (l : list A) : zlen (map g l) = zlen l.
Proof. unfold zlen. rewrite map_length. reflexivity. Qed.

Definition pose0 : pose := (vzero, gone).

Lemma get_rot_pos_lem (path : list pose) (s : selector) :
  get_rot_pos_from_path path s =
  option_map (fun es => (map (fun e => snd (nthZ pose0 path e)) es,
                         map (fun e => fst (nthZ pose0 path e)) es,
                         frame_inds (zlen path) s))
             (effective_inds (zlen path) s).
Proof.
  unfold get_rot_pos_from_path, np_take, effective_inds. rewrite !zlen_map.
  set (n := zlen path). set (ix := all_some (map (np_index n) (frame_inds n s))).
  rewrite (all_some_option_map (nthZ gone (map snd path))), (all_some_option_map (nthZ vzero (map fst path))).
  change (@zlen (V * G) path) with n. fold ix. destruct ix as [es|]; simpl; [|reflexivity].
  assert (E1 : map (nthZ gone (map snd path)) es = map (fun e => snd (nthZ pose0 path e)) es).
  { apply map_ext; intros e. change (@gone O) with (snd pose0). apply nthZ_map. }
  assert (E2 : map (nthZ vzero (map fst path)) es = map (fun e => fst (nthZ pose0 path e)) es).
  { apply map_ext; intros e. change (@vzero O) with (fst pose0). apply nthZ_map. }
  rewrite E1, E2. reflexivity.
Qed.

Lemma combine_map_same {A B C} (g : A -> B) (h : A -> C) (l : list A) :
  combine (map g l) (map h l) = map (fun a => (g a, h a)) l.
Proof. induction l; simpl; congruence. Qed.

Lemma object_frames_lem (path : list pose) (s : selector) (f : Sc) (local : list V) :
  object_frames path s f local =
  option_map (map (fun e => map (fun v => smul f (vadd (act (snd (nthZ pose0 path e)) v)
                                                       (fst (nthZ pose0 path e)))) local))
             (effective_inds (zlen path) s).
Proof.
  unfold object_frames. rewrite get_rot_pos_lem.
  destruct (effective_inds (zlen path) s) as [es|]; simpl; [|reflexivity].
  f_equal. rewrite combine_map_same, map_map. apply map_ext. intros e. simpl.
  apply map_ext. intros v. apply drawn_vertex_lem.
Qed.

End Frames.

(* ================================================================== style store *)
Section StyleProofs.
Variable Sty : Type.
Notation heap := (heap Sty).

(* references in slots are allocated ones *)
Definition wf_heap (h : heap) : Prop := forall o r, slot Sty h o = Some r -> r < fresh Sty h.

(* what a body run for object o may do: assign o's slot, write the cell o's slot points to on entry,
   allocate; it does not touch other objects' slots or other allocated cells *)
Definition body_frame (o : Z) (body : heap -> heap * outcome) : Prop :=
  forall h, let h' := fst (body h) in
    (forall o', o' <> o -> slot Sty h' o' = slot Sty h o') /\
    (forall r, r < fresh Sty h -> Some r <> slot Sty h o -> cell Sty h' r = cell Sty h r) /\
    fresh Sty h <= fresh Sty h'.

Definition same_view (h1 h2 : heap) : Prop :=
  (forall o, slot Sty h1 o = slot Sty h2 o) /\
  (forall r, r < fresh Sty h2 -> cell Sty h1 r = cell Sty h2 r) /\
  fresh Sty h2 <= fresh Sty h1.

Lemma same_view_refl h : same_view h h.
Proof. repeat split; auto; lia. Qed.

Lemma same_view_trans h1 h2 h3 : same_view h1 h2 -> same_view h2 h3 -> same_view h1 h3.
Proof.
  intros [A1 [B1 C1]] [A2 [B2 C2]]. repeat split.
  - intros o. rewrite A1. apply A2.
  - intros r Hr. rewrite B1 by lia. apply B2, Hr.
  - lia.
Qed.

Lemma same_view_wf h1 h2 : same_view h1 h2 -> wf_heap h2 -> wf_heap h1.
Proof. intros [A [B C]] Hwf o r Hs. rewrite A in Hs. apply Hwf in Hs. lia. Qed.

Lemma same_view_style_of h1 h2 : same_view h1 h2 -> wf_heap h2 -> forall o, style_of Sty h1 o = style_of Sty h2 o.
Proof.
  intros [A [B C]] Hwf o. unfold style_of. rewrite A.
  destruct (slot Sty h2 o) as [r|] eqn:E; simpl; [|reflexivity]. rewrite B; [reflexivity|]. apply (Hwf o r E).
Qed.

Lemma enter_style_spec o st h :
  wf_heap h -> (match st with Some r => r < fresh Sty h | None => True end) ->
  let h2 := enter_style Sty o st true h in
  (forall o', o' <> o -> slot Sty h2 o' = slot Sty h o') /\
  (forall r, r < fresh Sty h -> cell Sty h2 r = cell Sty h r) /\
  fresh Sty h <= fresh Sty h2 /\
  (forall r, slot Sty h2 o = Some r -> fresh Sty h <= r).
Proof.
  intros Hwf Hst. unfold enter_style. destruct st as [r|]; simpl.
  - repeat split.
    + intros o' Hne. destruct (o' =? o) eqn:E; [lia|reflexivity].
    + intros r' Hr'. destruct (r' =? fresh Sty h) eqn:E; [lia|reflexivity].
    + lia.
    + intros r'. rewrite Z.eqb_refl. intros E. inversion E. lia.
  - repeat split.
    + intros o' Hne. destruct (o' =? o) eqn:E; [lia|reflexivity].
    + lia.
    + intros r'. rewrite Z.eqb_refl. discriminate.
Qed.

Lemma style_temp_edit_restores o st body h :
  wf_heap h -> (match st with Some r => r < fresh Sty h | None => True end) ->
  body_frame o body ->
  same_view (fst (style_temp_edit Sty o st true body h)) h.
Proof.
  intros Hwf Hst Hb. unfold style_temp_edit.
  pose proof (enter_style_spec o st h Hwf Hst) as Hent. cbv zeta in Hent.
  set (h2 := enter_style Sty o st true h) in *.
  destruct Hent as [E1 [E2 [E3 E4]]].
  specialize (Hb h2). cbv zeta in Hb. destruct Hb as [F1 [F2 F3]].
  cbn [fst]. repeat split; cbn [slot cell fresh set_slot].
  - intros o'. destruct (o' =? o) eqn:E; [apply Z.eqb_eq in E; subst; reflexivity|].
    rewrite F1 by lia. apply E1. lia.
  - intros r' Hr'. rewrite F2.
    + apply E2, Hr'.
    + lia.
    + intros Heq. symmetry in Heq. apply E4 in Heq. lia.
  - lia.
Qed.

Lemma show_loop_restores jobs : forall h,
  wf_heap h ->
  Forall (fun j : Z * option Z * (heap -> heap * outcome) =>
            (match snd (fst j) with Some r => r < fresh Sty h | None => True end) /\
            body_frame (fst (fst j)) (snd j)) jobs ->
  same_view (fst (show_loop Sty jobs h)) h.
Proof.
  induction jobs as [|[[o st] body] rest IH]; intros h Hwf Hall; cbn [show_loop].
  - apply same_view_refl.
  - inversion Hall as [|? ? [Hst Hb] Hrest]; subst. cbn [fst snd] in Hst, Hb.
    pose proof (style_temp_edit_restores o st body h Hwf Hst Hb) as Hv.
    destruct (style_temp_edit Sty o st true body h) as [h' out] eqn:E. simpl in Hv.
    destruct out; [|exact Hv].
    apply same_view_trans with h'; [|exact Hv].
    apply IH; [apply (same_view_wf _ _ Hv Hwf)|].
    destruct Hv as [_ [_ Hf]].
    rewrite Forall_forall in *. intros j Hj. specialize (Hrest j Hj) as [H1 H2]. split; [|exact H2].
    destruct (snd (fst j)); [lia|exact I].
Qed.

Theorem show_restores_style_lem jobs h :
  wf_heap h ->
  Forall (fun j : Z * option Z * (heap -> heap * outcome) =>
            (match snd (fst j) with Some r => r < fresh Sty h | None => True end) /\
            body_frame (fst (fst j)) (snd j)) jobs ->
  let h' := fst (show_loop Sty jobs h) in
  (forall o, slot Sty h' o = slot Sty h o) /\ (forall o, style_of Sty h' o = style_of Sty h o).
Proof.
  intros Hwf Hall h'. pose proof (show_loop_restores jobs h Hwf Hall) as Hv.
  split; [apply Hv|]. apply same_view_style_of; assumption.
Qed.

End StyleProofs.

(* ================================================================== non-vacuity: Z^3 x signed permutations
   with integer scalars satisfies the scaling laws (the instance the correspondence check executes) *)
From MV Require Import Lib.OctZ Model.DisplayExec.

Lemma mact_smul m a v : mact m (v3smul a v) = v3smul a (mact m v).
Proof.
  destruct m as [[[[a0 a1] a2] [[a3 a4] a5]] [[a6 a7] a8]]. destruct v as [[v0 v1] v2].
  unfold mact, v3smul, dot3. apply v3_ext; ring.
Qed.

Global Instance OctScaleLaws : ScaleLaws OctOps OctScale.
Proof.
  constructor; cbn [Sc sone smulS sis_one smul OctScale V G act vadd OctOps].
  - intros [[x y] z]. unfold v3smul. apply v3_ext; ring.
  - intros a b [[x y] z]. unfold v3smul. apply v3_ext; ring.
  - intros a [[x y] z] [[x' y'] z']. unfold v3smul, v3add. apply v3_ext; ring.
  - intros g a v. unfold oact. apply mact_smul.
  - intros a H. apply Z.eqb_eq in H. exact H.
Qed.

(* a concrete show() run: two objects, the first body edits the temporary style copy and re-points the
   slot, the second raises after editing -- the hypotheses of show_restores_style_lem hold *)
Definition ex_heap : heap Z :=
  mkHeap Z (fun o => if o =? 0 then Some 0 else if o =? 1 then Some 1 else None) (fun r => 10 + r) 4.
Definition ex_body_edit (o : Z) (res : outcome) (h : heap Z) : heap Z * outcome :=
  (mkHeap Z (slot Z h) (fun r => if (match slot Z h o with Some r0 => r =? r0 | None => false end)
                                 then 99 else cell Z h r) (fresh Z h), res).
Definition ex_jobs : list (Z * option Z * (heap Z -> heap Z * outcome)) :=
  [(0, Some 2, ex_body_edit 0 Returned); (1, Some 3, ex_body_edit 1 Raised); (0, None, ex_body_edit 0 Returned)].

Lemma ex_body_frame o res : body_frame Z o (ex_body_edit o res).
Proof.
  intros h. cbn. repeat split; auto; try lia.
  intros r Hr Hne. destruct (slot Z h o) as [r0|]; [|reflexivity].
  destruct (r =? r0) eqn:E; [|reflexivity]. apply Z.eqb_eq in E. subst. congruence.
Qed.

Lemma ex_show_hyps :
  wf_heap Z ex_heap /\
  Forall (fun j : Z * option Z * (heap Z -> heap Z * outcome) =>
            (match snd (fst j) with Some r => r < fresh Z ex_heap | None => True end) /\
            body_frame Z (fst (fst j)) (snd j)) ex_jobs /\
  snd (show_loop Z ex_jobs ex_heap) = Raised /\
  fresh Z (fst (show_loop Z ex_jobs ex_heap)) = 6.
Proof.
  split.
  - intros o r. cbn. destruct (o =? 0); [intros H; inversion H; lia|].
    destruct (o =? 1); [intros H; inversion H; lia|discriminate].
  - split; [|split; vm_compute; reflexivity].
    unfold ex_jobs. repeat (apply Forall_cons; [split; [cbn; try lia; exact I|apply ex_body_frame]|]). apply Forall_nil.
Qed.

Section PathShown.
Context {O : RigidOps} {L : RigidLaws O} {SO : ScaleOps O} {SL : ScaleLaws O SO}.
Lemma path_trace_shown_lem (path : list pose) (f : Sc) :
  path_trace_shown path f =
  if 1 <? zlen path then Some (map (fun pq : pose => smul f (fst pq)) path) else None.
Proof. unfold path_trace_shown. rewrite path_trace_lem. reflexivity. Qed.
End PathShown.
