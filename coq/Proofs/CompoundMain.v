(* C10: histories.  One frame node u and a whole family of nodes v that every operation of the
   history moves together with u (or leaves alone together with u): one common index map. *)
From Coq Require Import ZArith List Bool Lia ZifyBool.
From MV Require Import Lib.ListZ Lib.Rigid Gen.GenPath Model.PathModel Proofs.PathProofs
  Model.CompoundModel Proofs.CompoundProofs Proofs.CompoundOps Proofs.CompoundRel Proofs.CompoundThm.
Import ListNotations.
Open Scope Z_scope.

Section Main.
Context {O : RigidOps} {L : RigidLaws O}.

Lemma moves_together_self gu p : moves_together gu gu p.
Proof.
  unfold moves_together. destruct (is_prefix p gu); [left|right]; auto.
Qed.

Lemma wf_nobj_subtree t g u : wf_tree t -> subtree_at g t = Some u -> wf (nobj u).
Proof.
  intros Hwf E. pose proof (tree_all_subtree wf g _ _ Hwf E) as H.
  destruct u; apply tree_all_node in H; tauto.
Qed.

Theorem family_history_invariant (gu : tpath) (M : tpath -> Prop) :
  forall (h : list (tpath * op)) (t u : node),
  wf_tree t -> subtree_at gu t = Some u ->
  Forall (fun px => wf_op (snd px) /\ forall gv, M gv -> moves_together gu gv (fst px)) h ->
  exists u' b lo hi,
    subtree_at gu (tree_run t h) = Some u' /\ wf (nobj u') /\
    0 <= lo <= hi /\ hi <= zlen (pos (nobj u)) - 1 /\
    forall gv v, M gv -> subtree_at gv t = Some v -> zlen (pos (nobj v)) = zlen (pos (nobj u)) ->
      exists v', subtree_at gv (tree_run t h) = Some v' /\ wf (nobj v') /\
        zlen (pos (nobj v')) = zlen (pos (nobj u')) /\
        forall i, 0 <= i < zlen (pos (nobj u')) ->
          rel_pose (nobj u') (nobj v') i = rel_pose (nobj u) (nobj v) (clampZ (i - b) lo hi).
Proof.
  induction h as [|[p x] h IH]; intros t u Hwf Eu Hh.
  - pose proof (wf_nobj_subtree t gu u Hwf Eu) as Hwu. pose proof Hwu as [Hn _].
    exists u, 0, 0, (zlen (pos (nobj u)) - 1). cbn [tree_run fold_left].
    split; [exact Eu|]. split; [exact Hwu|]. split; [lia|]. split; [lia|].
    intros gv v _ Ev Hl. exists v. split; [exact Ev|].
    split; [apply (wf_nobj_subtree t gv v Hwf Ev)|]. split; [exact Hl|].
    intros i Hi. f_equal. unfold clampZ. lia.
  - inversion Hh as [|px h' [Hx Hm] Hh']; subst. cbn [fst snd] in *.
    pose proof (wf_nobj_subtree t gu u Hwf Eu) as Hwu. pose proof Hwu as [Hn _].
    set (n := zlen (pos (nobj u))) in *.
    destruct (tree_step_keeps t p x gu gu u u Hwf Hx Eu Eu eq_refl (moves_together_self gu p))
      as (u1 & u1x & Eu1 & _ & K0).
    pose proof (wf_tree_step t (p, x) Hwf Hx) as Hwf1.
    destruct (IH (tree_step t (p, x)) u1 Hwf1 Eu1 Hh')
      as (u' & b2 & lo2 & hi2 & Eu' & Hwu' & Hlo2 & Hhi2 & Hmem).
    set (b1 := call_b p gu x n) in *.
    exists u', (b1 + b2), (clampZ (lo2 - b1) 0 (n - 1)), (clampZ (hi2 - b1) 0 (n - 1)).
    cbn [tree_run fold_left]. split; [exact Eu'|]. split; [exact Hwu'|].
    split; [unfold clampZ; lia|]. split; [unfold clampZ; lia|].
    intros gv v HM Ev Hl.
    destruct (tree_step_keeps t p x gu gv u v Hwf Hx Eu Ev (eq_sym Hl) (Hm gv HM))
      as (u1' & v1 & Eu1' & Ev1 & (Hw1 & Hw1' & Hl1 & Hr1 & _)).
    rewrite Eu1 in Eu1'. inversion Eu1'; subst u1'.
    destruct (Hmem gv v1 HM Ev1 (eq_sym Hl1)) as (v' & Ev' & Hwv' & Hl' & Hr').
    exists v'. split; [exact Ev'|]. split; [exact Hwv'|]. split; [exact Hl'|].
    intros i Hi. rewrite Hr' by exact Hi. fold n in Hr1. fold b1 in Hr1.
    rewrite Hr1 by (unfold clampZ; lia).
    f_equal. unfold clampZ. lia.
Qed.

(* ---- C10, relative pose of one member d of a collection c *)

(* one operation on the collection at p: the node c at p ++ g' (the collection itself or a
   collection below it) and any node d below c with the same path length *)
Theorem relative_pose_step (t : node) (p g' dl : tpath) (x : op) (c d : node) :
  wf_tree t -> wf_op x ->
  subtree_at (p ++ g') t = Some c -> subtree_at dl c = Some d ->
  zlen (pos (nobj c)) = zlen (pos (nobj d)) ->
  exists c' d' b,
    subtree_at (p ++ g') (tree_step t (p, x)) = Some c' /\ subtree_at dl c' = Some d' /\
    wf (nobj c') /\ wf (nobj d') /\ zlen (pos (nobj c')) = zlen (pos (nobj d')) /\
    (forall i, 0 <= i < zlen (pos (nobj c')) ->
       rel_pose (nobj c') (nobj d') i =
       rel_pose (nobj c) (nobj d) (clampZ (i - b) 0 (zlen (pos (nobj c)) - 1))) /\
    (zlen (pos (nobj c')) = zlen (pos (nobj c)) ->
       forall i, 0 <= i < zlen (pos (nobj c)) ->
         rel_pose (nobj c') (nobj d') i = rel_pose (nobj c) (nobj d) i).
Proof.
  intros Hwf Hx Ec Ed Hlen.
  assert (Ev : subtree_at ((p ++ g') ++ dl) t = Some d) by (rewrite subtree_app, Ec; exact Ed).
  assert (Hm : moves_together (p ++ g') ((p ++ g') ++ dl) p).
  { left. split; [apply is_prefix_self_app|].
    split; [apply is_prefix_app_r; apply is_prefix_self_app|].
    intros E. rewrite <- app_assoc in E. rewrite <- (app_nil_r p) in E at 1.
    apply app_inv_head in E. symmetry in E. apply app_eq_nil in E. destruct E as [-> ->].
    rewrite !app_nil_r. reflexivity. }
  destruct (tree_step_keeps t p x _ _ c d Hwf Hx Ec Ev Hlen Hm)
    as (c' & d' & Ec' & Ed' & (Hwc & Hwd & Hl & Hr & Hb)).
  exists c', d', (call_b p (p ++ g') x (zlen (pos (nobj c)))). split; [exact Ec'|].
  split; [rewrite subtree_app, Ec' in Ed'; exact Ed'|].
  split; [exact Hwc|]. split; [exact Hwd|]. split; [exact Hl|]. split; [exact Hr|].
  intros E i Hi. rewrite Hr by lia. rewrite (Hb E). f_equal. unfold clampZ. lia.
Qed.

(* any history of operations, each applied to c, to a collection containing c, or to a node
   that does not contain d *)
Theorem relative_pose_invariant (t : node) (g dl : tpath) (c d : node) (h : list (tpath * op)) :
  wf_tree t -> subtree_at g t = Some c -> subtree_at dl c = Some d ->
  zlen (pos (nobj c)) = zlen (pos (nobj d)) ->
  Forall (fun px => wf_op (snd px) /\
            (is_prefix (fst px) g = true \/ is_prefix (fst px) (g ++ dl) = false)) h ->
  exists c' d' b lo hi,
    subtree_at g (tree_run t h) = Some c' /\ subtree_at dl c' = Some d' /\
    wf (nobj c') /\ wf (nobj d') /\ zlen (pos (nobj c')) = zlen (pos (nobj d')) /\
    0 <= lo <= hi /\ hi <= zlen (pos (nobj c)) - 1 /\
    forall i, 0 <= i < zlen (pos (nobj c')) ->
      rel_pose (nobj c') (nobj d') i = rel_pose (nobj c) (nobj d) (clampZ (i - b) lo hi).
Proof.
  intros Hwf Ec Ed Hlen Hh.
  assert (Ev : subtree_at (g ++ dl) t = Some d) by (rewrite subtree_app, Ec; exact Ed).
  assert (Hh' : Forall (fun px => wf_op (snd px) /\
                  forall gv, gv = g ++ dl -> moves_together g gv (fst px)) h).
  { eapply Forall_impl; [|exact Hh]. intros [p x] [Hx Hp]. cbn [fst snd] in *. split; [exact Hx|].
    intros gv ->. destruct Hp as [Hp|Hp].
    - left. split; [exact Hp|]. split; [apply is_prefix_app_r; exact Hp|].
      intros E. subst p. destruct (is_prefix_app _ _ Hp) as [r Er].
      rewrite <- app_assoc in Er. rewrite <- (app_nil_r g) in Er at 1.
      apply app_inv_head in Er. symmetry in Er. apply app_eq_nil in Er. destruct Er as [-> _].
      rewrite app_nil_r. reflexivity.
    - right. split; [|exact Hp].
      destruct (is_prefix p g) eqn:E; [|reflexivity].
      rewrite (is_prefix_app_r p g dl E) in Hp. discriminate. }
  destruct (family_history_invariant g (fun gv => gv = g ++ dl) h t c Hwf Ec Hh')
    as (c' & b & lo & hi & Ec' & Hwc' & Hlo & Hhi & Hmem).
  destruct (Hmem (g ++ dl) d eq_refl Ev (eq_sym Hlen)) as (d' & Ed' & Hwd' & Hl' & Hr).
  exists c', d', b, lo, hi. split; [exact Ec'|].
  split; [rewrite subtree_app, Ec' in Ed'; exact Ed'|].
  split; [exact Hwc'|]. split; [exact Hwd'|]. split; [symmetry; exact Hl'|].
  split; [exact Hlo|]. split; [exact Hhi|]. exact Hr.
Qed.

(* ---- all members of the collection at once, operations on c or on collections containing c
   (or anywhere outside c): ONE index map for every member that shares c's path length *)
Theorem collection_frame_invariant (t : node) (g : tpath) (c : node) (h : list (tpath * op)) :
  wf_tree t -> subtree_at g t = Some c ->
  Forall (fun px => wf_op (snd px) /\
            (is_prefix (fst px) g = true \/
             (is_prefix (fst px) g = false /\ is_prefix g (fst px) = false))) h ->
  exists c' b lo hi,
    subtree_at g (tree_run t h) = Some c' /\ wf (nobj c') /\
    0 <= lo <= hi /\ hi <= zlen (pos (nobj c)) - 1 /\
    forall dl d, subtree_at dl c = Some d -> zlen (pos (nobj d)) = zlen (pos (nobj c)) ->
      exists d', subtree_at dl c' = Some d' /\ wf (nobj d') /\
        zlen (pos (nobj d')) = zlen (pos (nobj c')) /\
        forall i, 0 <= i < zlen (pos (nobj c')) ->
          rel_pose (nobj c') (nobj d') i = rel_pose (nobj c) (nobj d) (clampZ (i - b) lo hi).
Proof.
  intros Hwf Ec Hh.
  assert (Hh' : Forall (fun px => wf_op (snd px) /\
                  forall gv, is_prefix g gv = true -> moves_together g gv (fst px)) h).
  { eapply Forall_impl; [|exact Hh]. intros [p x] [Hx Hp]. cbn [fst snd] in *. split; [exact Hx|].
    intros gv Hgv. destruct (is_prefix_app g gv Hgv) as [dl ->]. destruct Hp as [Hp|[Hp1 Hp2]].
    - left. split; [exact Hp|]. split; [apply is_prefix_app_r; exact Hp|].
      intros E. subst p. destruct (is_prefix_app _ _ Hp) as [r Er].
      rewrite <- app_assoc in Er. rewrite <- (app_nil_r g) in Er at 1.
      apply app_inv_head in Er. symmetry in Er. apply app_eq_nil in Er. destruct Er as [-> _].
      rewrite app_nil_r. reflexivity.
    - right. split; [exact Hp1|].
      destruct (is_prefix p (g ++ dl)) eqn:E; [|reflexivity].
      destruct (is_prefix_comparable p g dl E); congruence. }
  destruct (family_history_invariant g (fun gv => is_prefix g gv = true) h t c Hwf Ec Hh')
    as (c' & b & lo & hi & Ec' & Hwc' & Hlo & Hhi & Hmem).
  exists c', b, lo, hi. split; [exact Ec'|]. split; [exact Hwc'|]. split; [exact Hlo|].
  split; [exact Hhi|]. intros dl d Ed Hl.
  assert (Ev : subtree_at (g ++ dl) t = Some d) by (rewrite subtree_app, Ec; exact Ed).
  destruct (Hmem (g ++ dl) d (is_prefix_self_app g dl) Ev Hl) as (d' & Ed' & Hwd' & Hl' & Hr).
  exists d'. split; [rewrite subtree_app, Ec' in Ed'; exact Ed'|]. auto.
Qed.

(* ---- the field seen by one of the collection's own sensors *)
Lemma vsub_vadd_swap (a u b : V) : vsub (vadd a u) b = vadd (vsub a b) u.
Proof.
  unfold vsub. rewrite <- !vadd_assoc. f_equal. apply vadd_comm.
Qed.

(* the element formula only depends on the poses relative to any common frame c *)
Lemma elem_field_frame (f : V -> V) (x : V) (c s d : obj) i :
  elem_field f x (pose_at s i) (pose_at d i) = elem_field f x (rel_pose c s i) (rel_pose c d i).
Proof.
  unfold elem_field, pose_at, rel_pose. cbn [fst snd].
  set (qc := nthZ gone (ori c) i). set (qs := nthZ gone (ori s) i). set (qd := nthZ gone (ori d) i).
  set (pc := nthZ vzero (pos c) i). set (ps := nthZ vzero (pos s) i). set (pd := nthZ vzero (pos d) i).
  rewrite gmul_inv_mul. f_equal. f_equal.
  rewrite act_mul. rewrite <- act_add. rewrite <- act_sub.
  rewrite ginv_mul, ginv_inv, act_mul, act_inv_r.
  f_equal. rewrite vsub_vadd_swap. rewrite (vsub_vadd_swap (vsub ps pc)).
  f_equal. change (vsub ps pc) with (vadd ps (vneg pc)). change (vsub pd pc) with (vadd pd (vneg pc)).
  symmetry. apply vsub_add_cancel_r.
Qed.

Theorem own_sensor_field_invariant (t : node) (g : tpath) (c : node) (h : list (tpath * op)) :
  wf_tree t -> subtree_at g t = Some c ->
  Forall (fun px => wf_op (snd px) /\
            (is_prefix (fst px) g = true \/
             (is_prefix (fst px) g = false /\ is_prefix g (fst px) = false))) h ->
  exists c' b lo hi,
    subtree_at g (tree_run t h) = Some c' /\
    0 <= lo <= hi /\ hi <= zlen (pos (nobj c)) - 1 /\
    forall ds s dd d,
      subtree_at ds c = Some s -> zlen (pos (nobj s)) = zlen (pos (nobj c)) ->
      subtree_at dd c = Some d -> zlen (pos (nobj d)) = zlen (pos (nobj c)) ->
      exists s' d', subtree_at ds c' = Some s' /\ subtree_at dd c' = Some d' /\
        zlen (pos (nobj s')) = zlen (pos (nobj c')) /\ zlen (pos (nobj d')) = zlen (pos (nobj c')) /\
        forall (f : V -> V) (x : V) i, 0 <= i < zlen (pos (nobj c')) ->
          elem_field f x (pose_at (nobj s') i) (pose_at (nobj d') i) =
          elem_field f x (pose_at (nobj s) (clampZ (i - b) lo hi))
                         (pose_at (nobj d) (clampZ (i - b) lo hi)).
Proof.
  intros Hwf Ec Hh.
  destruct (collection_frame_invariant t g c h Hwf Ec Hh)
    as (c' & b & lo & hi & Ec' & Hwc' & Hlo & Hhi & Hmem).
  exists c', b, lo, hi. split; [exact Ec'|]. split; [exact Hlo|]. split; [exact Hhi|].
  intros ds s dd d Es Hls Ed Hld.
  destruct (Hmem ds s Es Hls) as (s' & Es' & _ & Hls' & Hrs).
  destruct (Hmem dd d Ed Hld) as (d' & Ed' & _ & Hld' & Hrd).
  exists s', d'. split; [exact Es'|]. split; [exact Ed'|]. split; [exact Hls'|]. split; [exact Hld'|].
  intros f x i Hi.
  rewrite (elem_field_frame f x (nobj c') (nobj s') (nobj d') i).
  rewrite (elem_field_frame f x (nobj c) (nobj s) (nobj d)).
  rewrite Hrs, Hrd by exact Hi. reflexivity.
Qed.

End Main.
