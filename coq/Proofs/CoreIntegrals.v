(* C01 -- Biot-Savart integrals (Coquelicot RInt): the circular loop on its axis, the scalar
   integral of a straight segment, and the sign-case lemma of current_polyline_Hfield. *)
From Coq Require Import Reals Lra Lia Psatz ZArith Bool.
From Coquelicot Require Import Coquelicot.
From MV Require Import Model.CoreNum Model.CoreModel Model.CoreSpec Proofs.CoreProofs.
Open Scope R_scope.

(* ------------------------------------------------------------------ circle, observer on the axis *)
Section CircleAxis.
Variables (cur r0 z : R).
Hypothesis Hr0 : 0 < r0.

Let s := sqrt (r0 * r0 + z * z).
Lemma s_pos : 0 < s.
Proof. apply sqrt_lt_R0. nra. Qed.
Lemma s_sq : s * s = r0 * r0 + z * z.
Proof. apply sqrt_sqrt. nra. Qed.

Lemma circ_norm phi :
  Rnorm (Rvsub (0, 0, z) (r0 * cos phi, r0 * sin phi, 0)) = s.
Proof.
  unfold Rnorm, Rvsub, Rdot, s. f_equal.
  pose proof (sin2_cos2 phi) as H. unfold Rsqr in H. nra.
Qed.

Lemma circ_int_z phi :
  bs_circle_integrand cur r0 (0, 0, z) 2 phi = cur / (4 * PI) * (r0 * r0) / s ^ 3.
Proof.
  unfold bs_circle_integrand. rewrite circ_norm. unfold Rvsub, Rcross, comp.
  pose proof (sin2_cos2 phi) as H. unfold Rsqr in H.
  pose proof s_pos. pose proof PI_RGT_0.
  replace (- r0 * sin phi * (0 - r0 * sin phi) - r0 * cos phi * (0 - r0 * cos phi))
    with (r0 * r0 * (sin phi * sin phi + cos phi * cos phi)) by ring.
  rewrite H. field. split; lra.
Qed.

Lemma circ_int_x phi :
  bs_circle_integrand cur r0 (0, 0, z) 0 phi = cur / (4 * PI) * (r0 * z) / s ^ 3 * cos phi.
Proof.
  unfold bs_circle_integrand. rewrite circ_norm. unfold Rvsub, Rcross, comp.
  pose proof s_pos. pose proof PI_RGT_0. field. split; lra.
Qed.

Lemma circ_int_y phi :
  bs_circle_integrand cur r0 (0, 0, z) 1 phi = cur / (4 * PI) * (r0 * z) / s ^ 3 * sin phi.
Proof.
  unfold bs_circle_integrand. rewrite circ_norm. unfold Rvsub, Rcross, comp.
  pose proof s_pos. pose proof PI_RGT_0. field. split; lra.
Qed.

Lemma circle_axis_RInt_z :
  is_RInt (bs_circle_integrand cur r0 (0, 0, z) 2) 0 (2 * PI) (cur * (r0 * r0) / (2 * s ^ 3)).
Proof.
  pose proof s_pos. pose proof PI_RGT_0.
  apply (is_RInt_ext (fun _ => cur / (4 * PI) * (r0 * r0) / s ^ 3)).
  - intros x _. symmetry. apply circ_int_z.
  - replace (cur * (r0 * r0) / (2 * s ^ 3))
      with (scal (2 * PI - 0) (cur / (4 * PI) * (r0 * r0) / s ^ 3)).
    + apply (@is_RInt_const R_CompleteNormedModule).
    + unfold scal; simpl; unfold mult; simpl. field. split; lra.
Qed.

Lemma circle_axis_RInt_x :
  is_RInt (bs_circle_integrand cur r0 (0, 0, z) 0) 0 (2 * PI) 0.
Proof.
  set (c := cur / (4 * PI) * (r0 * z) / s ^ 3).
  apply (is_RInt_ext (fun phi => c * cos phi)).
  - intros x _. symmetry. apply circ_int_x.
  - assert (H : is_RInt (fun phi => c * cos phi) 0 (2 * PI)
                        (minus ((fun phi => c * sin phi) (2 * PI)) ((fun phi => c * sin phi) 0))).
    { apply (is_RInt_derive (fun phi => c * sin phi) (fun phi => c * cos phi)).
      - intros x _. auto_derive; [exact I | ring].
      - intros x _. apply (ex_derive_continuous (fun phi => c * cos phi)). auto_derive. exact I. }
    cbv beta in H. rewrite sin_2PI, sin_0 in H.
    replace (minus (c * 0) (c * 0)) with 0 in H; [exact H|].
    unfold minus, plus, opp; simpl. ring.
Qed.

Lemma circle_axis_RInt_y :
  is_RInt (bs_circle_integrand cur r0 (0, 0, z) 1) 0 (2 * PI) 0.
Proof.
  set (c := cur / (4 * PI) * (r0 * z) / s ^ 3).
  apply (is_RInt_ext (fun phi => c * sin phi)).
  - intros x _. symmetry. apply circ_int_y.
  - assert (H : is_RInt (fun phi => c * sin phi) 0 (2 * PI)
                        (minus ((fun phi => - c * cos phi) (2 * PI)) ((fun phi => - c * cos phi) 0))).
    { apply (is_RInt_derive (fun phi => - c * cos phi) (fun phi => c * sin phi)).
      - intros x _. auto_derive; [exact I | ring].
      - intros x _. apply (ex_derive_continuous (fun phi => c * sin phi)). auto_derive. exact I. }
    cbv beta in H. rewrite cos_2PI, cos_0 in H.
    replace (minus (- c * 1) (- c * 1)) with 0 in H; [exact H|].
    unfold minus, plus, opp; simpl. ring.
Qed.
End CircleAxis.

(* the model on the axis: mask logic gives the on-axis branch, whose value is the loop integral *)
Lemma circle_axis_Hz_val (cur d z : R) : d <> 0 ->
  circle_axis_Hz NumR z d cur =
  cur * (Rabs (d / 2) * Rabs (d / 2)) / (2 * sqrt (Rabs (d / 2) * Rabs (d / 2) + z * z) ^ 3).
Proof.
  intros Hd.
  assert (Hr0 : 0 < Rabs (d / 2)) by (apply Rabs_pos_lt; lra).
  unfold circle_axis_Hz.
  cbv beta iota zeta delta [NumR carrier nadd nsub nmul ndiv nopp nsqrt nabs nltb neqb nofZ npi
                            sq pow32 half c0 c1 c2].
  set (r0 := Rabs (d / 2)) in *.
  replace (z * z + r0 * r0) with (r0 * r0 + z * z) by ring.
  assert (Hs : 0 < sqrt (r0 * r0 + z * z)) by (apply sqrt_lt_R0; nra).
  assert (Hss : sqrt (r0 * r0 + z * z) * sqrt (r0 * r0 + z * z) = r0 * r0 + z * z)
    by (apply sqrt_sqrt; nra).
  set (s := sqrt (r0 * r0 + z * z)) in *.
  rewrite <- Hss. simpl IZR. field. lra.
Qed.

Lemma circle_on_axis_spec (cur d z : R) (i : nat) : d <> 0 ->
  exists h, circle_H NumR (0, 0, z) d cur = Some h /\
    is_RInt (bs_circle_integrand cur (Rabs (d / 2)) (0, 0, z) i) 0 (2 * PI) (comp i h).
Proof.
  intros Hd.
  assert (Hr0 : 0 < Rabs (d / 2)) by (apply Rabs_pos_lt; lra).
  exists (0, 0, circle_axis_Hz NumR z d cur). split.
  - unfold circle_H, circle_branch_of.
    cbv beta iota zeta delta [NumR carrier nadd nsub nmul ndiv nopp nsqrt nabs nltb neqb nofZ npi
                              sq c0 c1 c2 e15].
    replace (0 * 0 + 0 * 0) with 0 by ring. rewrite sqrt_0.
    assert (E1 : Reqb 0 0 = true) by (apply Reqb_true; reflexivity).
    assert (E2 : Reqb (Rabs (d / 2)) 0 = false) by (apply Reqb_false; lra).
    rewrite E1, E2. reflexivity.
  - destruct i as [|[|i]].
    + change (comp 0 (0, 0, circle_axis_Hz NumR z d cur)) with 0.
      apply circle_axis_RInt_x; exact Hr0.
    + change (comp 1 (0, 0, circle_axis_Hz NumR z d cur)) with 0.
      apply circle_axis_RInt_y; exact Hr0.
    + change (comp (S (S i)) (0, 0, circle_axis_Hz NumR z d cur)) with (circle_axis_Hz NumR z d cur).
      change (bs_circle_integrand cur (Rabs (d / 2)) (0, 0, z) (S (S i)))
        with (bs_circle_integrand cur (Rabs (d / 2)) (0, 0, z) 2).
      rewrite circle_axis_Hz_val by exact Hd.
      apply circle_axis_RInt_z; exact Hr0.
Qed.

(* ------------------------------------------------------------------ straight segment
   scalar integral  Int_a^b (A s^2 + B s + C)^(-3/2) ds = F b - F a *)
Section SegQ.
Variables A B C : R.
Hypothesis HA : 0 < A.
Hypothesis HD : 0 < 4 * A * C - B * B.
Definition qq (s : R) := A * s * s + B * s + C.
Lemma qq_pos s : 0 < qq s.
Proof. unfold qq. assert (H : 0 <= (2 * A * s + B) * (2 * A * s + B)) by apply Rle_0_sqr.
  assert (0 < 4 * A * (A * s * s + B * s + C)) by nra. nra. Qed.
Definition FF (s : R) := 2 * (2 * A * s + B) / ((4 * A * C - B * B) * sqrt (qq s)).
Definition ff (s : R) := / (sqrt (qq s) * sqrt (qq s) * sqrt (qq s)).
Lemma FF_deriv s : is_derive FF s (ff s).
Proof. pose proof (qq_pos s) as Hq. assert (Hs : 0 < sqrt (qq s)) by (apply sqrt_lt_R0; exact Hq).
  unfold FF, ff. unfold qq in *. auto_derive.
  - repeat split; try lra. apply Rgt_not_eq. apply Rmult_lt_0_compat; lra.
  - set (r := sqrt (A * s * s + B * s + C)) in *.
    assert (Hr : A * s * s + B * s + C = r * r) by (unfold r; rewrite sqrt_sqrt; lra).
    assert (HC : C = r * r - A * s * s - B * s) by lra.
    clearbody r. clear Hr Hq. subst C. field. repeat split; lra. Qed.
Lemma ff_cont s : continuous ff s.
Proof. pose proof (qq_pos s) as Hq. assert (Hs : 0 < sqrt (qq s)) by (apply sqrt_lt_R0; exact Hq).
  apply (ex_derive_continuous ff s). unfold ff, qq in *. auto_derive.
  repeat split; try lra. apply Rgt_not_eq. repeat apply Rmult_lt_0_compat; lra. Qed.
Lemma int_ff a b : is_RInt ff a b (FF b - FF a).
Proof. apply (is_RInt_derive FF ff a b); intros x _; [apply FF_deriv | apply ff_cont]. Qed.
End SegQ.

(* the Biot-Savart integrand of a segment = constant vector (p2-p1) x (o-p1) times the scalar
   kernel; A = |p2-p1|^2, B = -2 (o-p1).(p2-p1), C = |o-p1|^2, 4AC - B^2 = 4 |(p2-p1) x (o-p1)|^2 *)
(* segA, segB, segC, segX are defined in Model/CoreSpec.v *)

Lemma seg_lagrange o p1 p2 :
  4 * segA o p1 p2 * segC o p1 p2 - segB o p1 p2 * segB o p1 p2
  = 4 * Rdot (segX o p1 p2) (segX o p1 p2).
Proof.
  destruct o as [[ox oy] oz], p1 as [[ax ay] az], p2 as [[bx by_] bz].
  unfold segA, segB, segC, segX, Rdot, Rcross, Rvsub. ring.
Qed.

Lemma segA_pos o p1 p2 : p1 <> p2 -> 0 < segA o p1 p2.
Proof.
  destruct p1 as [[ax ay] az], p2 as [[bx by_] bz]. intros H.
  unfold segA, Rdot, Rvsub.
  assert (Hn : (bx - ax, by_ - ay, bz - az) <> (0, 0, 0)).
  { intros E. inversion E. apply H. f_equal; [f_equal|]; lra. }
  apply sumsq_pos in Hn. exact Hn.
Qed.

Lemma seg_integrand_factor cur o p1 p2 i s :
  0 < qq (segA o p1 p2) (segB o p1 p2) (segC o p1 p2) s ->
  bs_segment_integrand cur o p1 p2 i s =
  cur / (4 * PI) * comp i (segX o p1 p2) * ff (segA o p1 p2) (segB o p1 p2) (segC o p1 p2) s.
Proof.
  intros Hq. pose proof PI_RGT_0 as Hpi.
  assert (Hs : 0 < sqrt (qq (segA o p1 p2) (segB o p1 p2) (segC o p1 p2) s)) by (apply sqrt_lt_R0; exact Hq).
  unfold bs_segment_integrand, ff.
  destruct o as [[ox oy] oz], p1 as [[ax ay] az], p2 as [[bx by_] bz].
  assert (Hn : Rnorm (Rvsub (ox, oy, oz) (Rvadd (ax, ay, az) (Rvscale s (Rvsub (bx, by_, bz) (ax, ay, az)))))
               = sqrt (qq (segA (ox, oy, oz) (ax, ay, az) (bx, by_, bz)) (segB (ox, oy, oz) (ax, ay, az) (bx, by_, bz))
                          (segC (ox, oy, oz) (ax, ay, az) (bx, by_, bz)) s)).
  { unfold Rnorm. f_equal. unfold qq, segA, segB, segC, Rdot, Rvsub, Rvadd, Rvscale. ring. }
  rewrite Hn.
  set (r := sqrt _) in *.
  assert (Hx : comp i (Rcross (Rvsub (bx, by_, bz) (ax, ay, az))
                 (Rvsub (ox, oy, oz) (Rvadd (ax, ay, az) (Rvscale s (Rvsub (bx, by_, bz) (ax, ay, az))))))
               = comp i (segX (ox, oy, oz) (ax, ay, az) (bx, by_, bz))).
  { unfold segX, Rcross, Rvsub, Rvadd, Rvscale, comp. destruct i as [|[|i]]; ring. }
  rewrite Hx. field. split; lra.
Qed.

(* Biot-Savart integral of a straight segment, observer off its supporting line, in closed form *)
Lemma segment_biot_savart_closed cur o p1 p2 i :
  p1 <> p2 -> 0 < Rdot (segX o p1 p2) (segX o p1 p2) ->
  is_RInt (bs_segment_integrand cur o p1 p2 i) 0 1
    (cur / (4 * PI) * comp i (segX o p1 p2) *
     (FF (segA o p1 p2) (segB o p1 p2) (segC o p1 p2) 1 - FF (segA o p1 p2) (segB o p1 p2) (segC o p1 p2) 0)).
Proof.
  intros Hp Hx.
  pose proof (segA_pos o p1 p2 Hp) as HA.
  assert (HD : 0 < 4 * segA o p1 p2 * segC o p1 p2 - segB o p1 p2 * segB o p1 p2)
    by (rewrite seg_lagrange; lra).
  apply (is_RInt_ext (fun s => scal (cur / (4 * PI) * comp i (segX o p1 p2))
                                    (ff (segA o p1 p2) (segB o p1 p2) (segC o p1 p2) s))).
  - intros s _. unfold scal; simpl; unfold mult; simpl. symmetry.
    apply seg_integrand_factor. apply qq_pos; assumption.
  - apply (is_RInt_scal (V := R_NormedModule)). apply int_ff; assumption.
Qed.

(* ------------------------------------------------------------------ the sign cases of the code
   t = (qo - q1).(q1 - q2) (foot parameter, in units of the segment, pointing from p2 to p1),
   d = distance from the line; norm_41 = |t|, norm_42 = |1 + t|, norm_o1 = sqrt(t^2+d^2),
   norm_o2 = sqrt((1+t)^2+d^2).  The code's deltaSin equals (1+t)/norm_o2 - t/norm_o1. *)
Definition deltaSin_code (t d : R) : R :=
  let n41 := Rabs t in let n42 := Rabs (1 + t) in
  let no1 := sqrt (t * t + d * d) in
  let no2 := sqrt ((1 + t) * (1 + t) + d * d) in
  let s1 := n41 / no1 in
  let s2 := n42 / no2 in
  let beyond := d * d * (n41 + n42) / (no1 * no2 * (n41 * no2 + n42 * no1)) in
  if Rltb 1 n41 && Rltb n42 n41 then beyond
  else if Rltb 1 n42 && Rltb n41 n42 then beyond
  else Rabs (s1 + s2).

(* a/n1 - b/n2 in cancellation-free form, when a - b = 1 or b - a = 1 resp. *)
Lemma beyond_form (a b d n1 n2 : R) : 0 < d -> 0 < n1 -> 0 < n2 -> 0 <= a -> 0 <= b -> 0 < a + b ->
  n1 * n1 = a * a + d * d -> n2 * n2 = b * b + d * d -> a - b = 1 ->
  d * d * (a + b) / (n1 * n2 * (a * n2 + b * n1)) = a / n1 - b / n2.
Proof.
  intros Hd H1 H2 Ha Hb Hab E1 E2 Hdiff.
  assert (Hden : 0 < a * n2 + b * n1).
  { destruct (Rle_lt_or_eq_dec 0 a Ha) as [Hp|Hz].
    - assert (0 < a * n2) by (apply Rmult_lt_0_compat; lra). assert (0 <= b * n1) by (apply Rmult_le_pos; lra). lra.
    - assert (0 < b * n1) by (apply Rmult_lt_0_compat; lra). rewrite <- Hz. lra. }
  assert (K : (a * n2 - b * n1) * (a * n2 + b * n1) = d * d * (a + b)).
  { replace ((a * n2 - b * n1) * (a * n2 + b * n1)) with (a * a * (n2 * n2) - b * b * (n1 * n1)) by ring.
    rewrite E1, E2. replace (a * a * (b * b + d * d) - b * b * (a * a + d * d)) with (d * d * ((a - b) * (a + b))) by ring.
    rewrite Hdiff. ring. }
  rewrite <- K. field. repeat split; lra.
Qed.

Lemma frac_mono (a b d : R) : 0 < d -> 0 <= b -> b <= a ->
  b / sqrt (b * b + d * d) <= a / sqrt (a * a + d * d).
Proof.
  intros Hd Hb Hab.
  assert (Hsa : 0 < sqrt (a * a + d * d)) by (apply sqrt_lt_R0; nra).
  assert (Hsb : 0 < sqrt (b * b + d * d)) by (apply sqrt_lt_R0; nra).
  assert (Ea : sqrt (a * a + d * d) * sqrt (a * a + d * d) = a * a + d * d) by (apply sqrt_sqrt; nra).
  assert (Eb : sqrt (b * b + d * d) * sqrt (b * b + d * d) = b * b + d * d) by (apply sqrt_sqrt; nra).
  set (sa := sqrt (a * a + d * d)) in *. set (sb := sqrt (b * b + d * d)) in *.
  apply (Rmult_le_reg_r (sa * sb)); [nra|].
  replace (b / sb * (sa * sb)) with (b * sa) by (field; lra).
  replace (a / sa * (sa * sb)) with (a * sb) by (field; lra).
  (* b sa <= a sb  <-  (b sa)^2 <= (a sb)^2 *)
  assert (Hsq : (b * sa) * (b * sa) <= (a * sb) * (a * sb)).
  { replace (b * sa * (b * sa)) with (b * b * (sa * sa)) by ring.
    replace (a * sb * (a * sb)) with (a * a * (sb * sb)) by ring.
    rewrite Ea, Eb.
    assert (H1 : b * b <= a * a) by nra. assert (H2 : 0 <= d * d) by nra.
    pose proof (Rmult_le_compat_r (d * d) _ _ H2 H1). lra. }
  assert (H3 : 0 <= b * sa) by nra. assert (H4 : 0 <= a * sb) by nra.
  destruct (Rle_dec (b * sa) (a * sb)) as [Hle|Hgt]; [exact Hle|].
  exfalso. assert (a * sb < b * sa) by lra.
  assert ((a * sb) * (a * sb) < (b * sa) * (b * sa)) by nra. lra.
Qed.

Lemma deltaSin_code_spec (t d : R) : 0 < d ->
  deltaSin_code t d = (1 + t) / sqrt ((1 + t) * (1 + t) + d * d) - t / sqrt (t * t + d * d).
Proof.
  intros Hd. unfold deltaSin_code.
  assert (Hdd : 0 < d * d) by (apply Rmult_lt_0_compat; lra).
  pose proof (Rle_0_sqr t) as Ht2. pose proof (Rle_0_sqr (1 + t)) as Ht3. unfold Rsqr in Ht2, Ht3.
  assert (Hs1 : 0 < sqrt (t * t + d * d)) by (apply sqrt_lt_R0; lra).
  assert (Hs2 : 0 < sqrt ((1 + t) * (1 + t) + d * d)) by (apply sqrt_lt_R0; lra).
  assert (En1 : sqrt (t * t + d * d) * sqrt (t * t + d * d) = t * t + d * d) by (apply sqrt_sqrt; lra).
  assert (En2 : sqrt ((1 + t) * (1 + t) + d * d) * sqrt ((1 + t) * (1 + t) + d * d) = (1 + t) * (1 + t) + d * d)
    by (apply sqrt_sqrt; lra).
  set (n1 := sqrt (t * t + d * d)) in *. set (n2 := sqrt ((1 + t) * (1 + t) + d * d)) in *.
  destruct (Rltb 1 (Rabs t)) eqn:E1; destruct (Rltb (Rabs (1 + t)) (Rabs t)) eqn:E2; simpl.
  - (* mask2: t < -1 *)
    apply Rltb_true in E1. apply Rltb_true in E2.
    assert (Ht : t < -1).
    { destruct (Rle_dec 0 t) as [H0|H0].
      - rewrite (Rabs_pos_eq t) in E2 by lra. rewrite Rabs_pos_eq in E2 by lra. lra.
      - rewrite (Rabs_left t) in E1 by lra. lra. }
    rewrite (Rabs_left t) by lra. rewrite (Rabs_left (1 + t)) by lra.
    assert (EA : n1 * n1 = - t * - t + d * d) by (rewrite En1; ring).
    assert (EB : n2 * n2 = - (1 + t) * - (1 + t) + d * d) by (rewrite En2; ring).
    rewrite (beyond_form (- t) (- (1 + t)) d n1 n2 Hd Hs1 Hs2 ltac:(lra) ltac:(lra) ltac:(lra) EA EB ltac:(lra)).
    field. lra.
  - (* 1 < |t| but |1+t| >= |t| : t > 1 ; then mask3 holds *)
    apply Rltb_true in E1. apply Rltb_false in E2.
    assert (Ht : 1 < t).
    { destruct (Rle_dec 0 t) as [H0|H0].
      - rewrite (Rabs_pos_eq t) in E1 by lra. lra.
      - exfalso. rewrite (Rabs_left t) in E1, E2 by lra. rewrite (Rabs_left (1 + t)) in E2 by lra. lra. }
    rewrite (Rabs_pos_eq t) by lra. rewrite (Rabs_pos_eq (1 + t)) by lra.
    assert (E3 : Rltb 1 (1 + t) = true) by (apply Rltb_true; lra).
    assert (E4 : Rltb t (1 + t) = true) by (apply Rltb_true; lra).
    rewrite E3, E4. simpl.
    replace (d * d * (t + (1 + t)) / (n1 * n2 * (t * n2 + (1 + t) * n1)))
      with (d * d * ((1 + t) + t) / (n2 * n1 * ((1 + t) * n1 + t * n2))) by (f_equal; ring).
    rewrite (beyond_form (1 + t) t d n2 n1 Hd Hs2 Hs1 ltac:(lra) ltac:(lra) ltac:(lra) En2 En1 ltac:(lra)). reflexivity.
  - (* |t| <= 1, |1+t| < |t| : -1 <= t < -1/2 ; not mask3 *)
    apply Rltb_false in E1. apply Rltb_true in E2.
    assert (Ht : -1 <= t < 0).
    { destruct (Rle_dec 0 t) as [H0|H0].
      - exfalso. rewrite (Rabs_pos_eq t) in E2 by lra. rewrite Rabs_pos_eq in E2 by lra. lra.
      - rewrite (Rabs_left t) in E1 by lra. lra. }
    assert (E3 : Rltb 1 (Rabs (1 + t)) = false).
    { apply Rltb_false. rewrite Rabs_pos_eq by lra. lra. }
    rewrite E3. simpl.
    rewrite (Rabs_left t) by lra. rewrite (Rabs_pos_eq (1 + t)) by lra.
    assert (0 <= - t / n1) by (apply Rmult_le_pos; [lra | left; apply Rinv_0_lt_compat; lra]).
    assert (0 <= (1 + t) / n2) by (apply Rmult_le_pos; [lra | left; apply Rinv_0_lt_compat; lra]).
    rewrite Rabs_pos_eq; [field; lra | lra].
  - (* |t| <= 1 and |1+t| >= |t| : -1/2 <= t <= 1 *)
    apply Rltb_false in E1. apply Rltb_false in E2.
    assert (Ht : -1 <= t <= 1).
    { destruct (Rle_dec 0 t) as [H0|H0].
      - rewrite (Rabs_pos_eq t) in E1 by lra. lra.
      - rewrite (Rabs_left t) in E1 by lra. lra. }
    rewrite (Rabs_pos_eq (1 + t)) by lra.
    destruct (Rltb 1 (1 + t)) eqn:E3; destruct (Rltb (Rabs t) (1 + t)) eqn:E4; simpl.
    + (* mask3: 0 < t *)
      apply Rltb_true in E3. rewrite (Rabs_pos_eq t) by lra.
      replace (d * d * (t + (1 + t)) / (n1 * n2 * (t * n2 + (1 + t) * n1)))
        with (d * d * ((1 + t) + t) / (n2 * n1 * ((1 + t) * n1 + t * n2))) by (f_equal; ring).
      rewrite (beyond_form (1 + t) t d n2 n1 Hd Hs2 Hs1 ltac:(lra) ltac:(lra) ltac:(lra) En2 En1 ltac:(lra)). reflexivity.
    + apply Rltb_true in E3. apply Rltb_false in E4. rewrite (Rabs_pos_eq t) in E4 by lra. lra.
    + apply Rltb_false in E3. rewrite (Rabs_left1 t) by lra.
      assert (0 <= - t / n1) by (apply Rmult_le_pos; [lra | left; apply Rinv_0_lt_compat; lra]).
      assert (0 <= (1 + t) / n2) by (apply Rmult_le_pos; [lra | left; apply Rinv_0_lt_compat; lra]).
      rewrite Rabs_pos_eq; [field; lra | lra].
    + apply Rltb_false in E3. rewrite (Rabs_left1 t) by lra.
      assert (0 <= - t / n1) by (apply Rmult_le_pos; [lra | left; apply Rinv_0_lt_compat; lra]).
      assert (0 <= (1 + t) / n2) by (apply Rmult_le_pos; [lra | left; apply Rinv_0_lt_compat; lra]).
      rewrite Rabs_pos_eq; [field; lra | lra].
Qed.
