(* Every operation of the repaired semantics preserves the forest invariant (except copy, see
   ForestCopy). *)
From Coq Require Import List Bool Arith PeanoNat Lia.
From MV Require Import Model.ForestModel Model.ForestExec Proofs.ForestInv Proofs.ForestBase
  Proofs.ForestOps Proofs.ForestRm Proofs.ForestDepth.
Import ListNotations.

Lemma flat_child s want x : forall f l, In x l -> want x = true -> In x (flat f s want l).
Proof.
  destruct f as [|f]; intros l H W; simpl.
  - apply filter_In. auto.
  - apply in_flat_map. exists x. split; auto. apply in_or_app. left. rewrite W. left. reflexivity.
Qed.

Lemma is_junk_kd s o : is_junk s o = false <-> kd s o <> KJunk.
Proof. unfold is_junk, is_k. destruct (kd s o); simpl; split; congruence. Qed.
Lemma is_coll_kd s o : is_coll s o = true <-> kd s o = KColl.
Proof. unfold is_coll, is_k. destruct (kd s o); simpl; split; congruence. Qed.

Lemma kd_oob s o : length s <= o -> kd s o = KJunk.
Proof. intros H. unfold kd. rewrite get_oob by exact H. reflexivity. Qed.
Lemma nonjunk_lt s o : kd s o <> KJunk -> o < length s.
Proof.
  intros H. destruct (Nat.lt_ge_cases o (length s)); auto. exfalso. apply H. apply kd_oob. auto.
Qed.

Lemma J_U s c D o p : J s c D -> par s o = Some p -> ~ In o D -> U s o p.
Proof.
  intros HJ Hp HD. split.
  - intros q Hq. destruct (j_child _ _ _ HJ q o Hq) as (_ & _ & C). congruence.
  - destruct (j_parent _ _ _ HJ o p Hp) as (_ & _ & C). apply count_0 in HD.
    destruct (Nat.eqb p c); lia.
Qed.

(* obj._parent.remove(obj) : exactly the detachment *)
Lemma remove_single s c D o p : J s c D -> par s o = Some p -> ~ In o D -> kd s o <> KJunk ->
  remove repaired s p [o] true ERaise = (detach s p o, Ok).
Proof.
  intros HJ Hp HD Ko. pose proof (J_U _ _ _ _ _ HJ Hp HD) as HU.
  apply is_junk_kd in Ko. unfold remove.
  replace (existsb (is_junk s) [o]) with false by (simpl; rewrite Ko; reflexivity).
  cbv iota. cbn [remove_loop v_fresh repaired].
  assert (Hin : In o (chl s p)) by (apply count_pos; destruct HU as [_ C]; lia).
  assert (M : mem o (self_objs s p true) = true).
  { apply mem_In. unfold self_objs, children_all. apply flat_child; auto.
    unfold w_all. rewrite Ko. reflexivity. }
  rewrite M.
  destruct (rec_rm_found s o p HU (j_views _ _ _ HJ) (S (fuel_of s)) p 1) as (r & E).
  - apply below_child. exact Hin.
  - lia.
  - rewrite E. reflexivity.
Qed.

Lemma below_listed s d p x : below s d p x -> exists q, In x (chl s q).
Proof. induction 1 as [p x H|d p q x H1 H2 B IHB]; [exists p; exact H | exact IHB]. Qed.

(* ---------------------------------------------------------------- BaseCollection.remove *)
Lemma remove_loop_inv c rc so e : forall objs s, Inv s ->
  Inv (fst (remove_loop true s c rc so objs e)).
Proof.
  induction objs as [|o rest IH]; intros s HI; cbn [remove_loop]; auto.
  destruct (mem o (self_objs s c rc)) eqn:M.
  - apply IH. apply self_objs_below in M. destruct M as (d & B & Ld).
    pose proof (Inv_J s c HI) as HJ.
    assert (Hl : exists q, In o (chl s q)) by (eapply below_listed; eauto).
    destruct Hl as (q & Hq). destruct (j_child _ _ _ HJ q o Hq) as (_ & _ & Hp).
    assert (HU : U s o q) by (eapply J_U; eauto).
    destruct (rec_rm_found s o q HU (j_views _ _ _ HJ) (S (fuel_of s)) c d B Ld) as (r & E).
    rewrite E. simpl. apply (J_Inv _ c). apply (J_detach s c [] q o); auto.
  - destruct e; simpl; auto.
Qed.

Lemma remove_inv s c objs rc e : Inv s -> Inv (fst (remove repaired s c objs rc e)).
Proof.
  intros HI. unfold remove. destruct (existsb (is_junk s) objs); auto.
  apply remove_loop_inv. exact HI.
Qed.

(* ---------------------------------------------------------------- BaseCollection.add *)
Lemma anc_is_coll s x a : Inv s -> anc s x a -> kd s a = KColl.
Proof.
  intros HI A. induction A as [x p Hp | x p a Hp Ha IH]; auto.
  apply (inv_parent _ HI x p Hp).
Qed.

(* the self-reference check is exact *)
Lemma self_ref_false s c o : Inv s -> kd s c = KColl -> self_ref s c o = false ->
  o <> c /\ ~ anc s c o.
Proof.
  intros HI Kc H. unfold self_ref in H. destruct (is_coll s o) eqn:Co.
  - simpl in H. apply orb_false_elim in H. destruct H as [H1 H2]. split.
    + apply Nat.eqb_neq. exact H1.
    + intros A. apply mem_false in H2. apply H2. unfold collections_all, fuel_of.
      apply anc_upn in A. destruct A as (d & Hu).
      pose proof (upn_bound _ _ _ _ HI Hu) as Ld.
      apply (flat_complete s (is_coll s) d o c).
      * apply upn_below; auto.
      * lia.
      * apply is_coll_kd. exact Kc.
  - split.
    + intros ->. apply is_coll_kd in Kc. congruence.
    + intros A. apply (anc_is_coll _ _ _ HI) in A. apply is_coll_kd in A. congruence.
Qed.

Lemma add_valid_spec s c ov : forall objs seen, add_valid s c ov seen objs = true ->
  (forall o, In o objs -> self_ref s c o = false /\ (par s o = None \/ ov = true) /\ ~ In o seen)
  /\ NoDup objs.
Proof.
  induction objs as [|o rest IH]; intros seen H; simpl in H.
  - split; [intros o []|constructor].
  - apply andb_prop in H. destruct H as [H H4]. apply andb_prop in H. destruct H as [H H3].
    apply andb_prop in H. destruct H as [H1 H2].
    destruct (IH _ H4) as (A & B). split.
    + intros o' [<-|Ho'].
      * repeat split.
        -- destruct (self_ref s c o); auto; discriminate.
        -- destruct (par s o); auto.
        -- apply mem_false. destruct (mem o seen); auto; discriminate.
      * destruct (A o' Ho') as (A1 & A2 & A3). repeat split; auto.
        intros C. apply A3. right. exact C.
    + constructor; auto. intros C. destruct (A o C) as (_ & _ & A3). apply A3. left. reflexivity.
Qed.

Lemma add_mutate_J c : forall objs s D, J s c D -> c < length s -> kd s c = KColl ->
  (forall o, In o objs -> kd s o <> KJunk /\ o <> c /\ ~ anc s c o /\ ~ In o D) -> NoDup objs ->
  exists s', add_mutate repaired s c objs = (s', Ok) /\ J s' c (D ++ objs).
Proof.
  induction objs as [|o rest IH]; intros s D HJ Lc Kc Hv ND.
  - exists s. rewrite app_nil_r. auto.
  - destruct (Hv o (or_introl eq_refl)) as (Ko & Hoc & Hanc & HD).
    pose proof (nonjunk_lt _ _ Ko) as Lo.
    inversion ND as [|? ? Hnin ND']; subst.
    cbn [add_mutate].
    (* the state in which o is parentless *)
    assert (G : forall s1, J s1 c D -> length s1 = length s -> (forall y, kd s1 y = kd s y) ->
                  (forall x y, anc s1 x y -> anc s x y) -> par s1 o = None ->
                  exists s', add_mutate repaired (set_parent s1 o (Some c)) c rest = (s', Ok) /\
                             J s' c (D ++ o :: rest)).
    { intros s1 HJ1 L1 K1 A1 P1.
      replace (D ++ o :: rest) with ((D ++ [o]) ++ rest) by (rewrite <- app_assoc; reflexivity).
      assert (Hanc1 : ~ anc s1 c o) by (intros C; apply Hanc; auto).
      apply IH.
      - apply J_attach; auto; try rewrite L1; try rewrite K1; auto.
      - rewrite sp_length, L1. exact Lc.
      - rewrite sp_kd, K1. exact Kc.
      - intros o' Ho'. destruct (Hv o' (or_intror Ho')) as (B1 & B2 & B3 & B4).
        rewrite sp_kd, K1. repeat split; auto.
        + intros C. apply B3. apply A1. apply (anc_unaffected s1 o (Some c)); auto.
        + intros C. apply in_app_or in C. destruct C as [C|[C|[]]]; auto. subst o'. contradiction.
      - exact ND'. }
    destruct (par s o) as [p|] eqn:Hp.
    + rewrite (remove_single s c D o p HJ Hp HD Ko).
      apply G.
      * apply J_detach; auto.
      * apply detach_length.
      * apply detach_kd.
      * apply anc_sub. intros x q. apply detach_sub.
      * rewrite detach_par. rewrite Nat.eqb_refl. apply Nat.ltb_lt in Lo. rewrite Lo. reflexivity.
    + apply G; auto.
Qed.

Lemma add_inv s c objs ov : Inv s -> is_coll s c = true -> Inv (fst (add repaired s c objs ov)).
Proof.
  intros HI Cc. unfold add. destruct (existsb (is_junk s) objs) eqn:Ej; auto.
  cbn [v_atomic repaired]. destruct (add_valid s c ov [] objs) eqn:Ev; auto.
  apply is_coll_kd in Cc. pose proof (nonjunk_lt s c ltac:(congruence)) as Lc.
  destruct (add_valid_spec _ _ _ _ _ Ev) as (Hv & ND).
  destruct (add_mutate_J c objs s [] (Inv_J s c HI) Lc Cc) as (s' & E & HJ'); auto.
  - intros o Ho. destruct (Hv o Ho) as (A1 & _ & _).
    destruct (self_ref_false s c o HI Cc A1). repeat split; auto.
    apply is_junk_kd. destruct (is_junk s o) eqn:Eo; auto.
    assert (existsb (is_junk s) objs = true) by (apply existsb_exists; eauto). congruence.
  - rewrite E. simpl. apply (J_commit s' c objs HJ').
Qed.
