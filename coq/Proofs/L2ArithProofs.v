(* C04 / C06: the data-flow arithmetic of getBH_level2 translated from /repo on this run
   (Gen/GenL2Arith.v) is exactly the reviewed table below, and its index expressions evaluate to the
   numbers the hand model (Model/Level2Model.v) uses: an off-by-one edit of a slice bound, a tiling
   factor, an axis or an index in the source breaks one of these proofs. *)
From Coq Require Import ZArith List String Bool Arith Lia.
From MV Require Import Lib.Rigid Lib.ListIdx Model.L2Arith Gen.GenL2Arith Model.Level2Model.
Import ListNotations.
Open Scope string_scope.

(* Reviewed reading of the source, statement by statement.  Where the model implements it:
     tile_group_property: np.repeat(out, n_pp, axis=0)        -> group_field: repeat_each n_pp props
     get_src_dict: np.tile(poss, n_pix).reshape((-1, 3))      -> group_field: repeat_each n_pix (flat_map l_pos gr)
                   np.tile(poso, (len(group), 1))             -> group_field: tile (length gr) po
     getBH_level1: apply(observers - position, inverse=True), apply(BH)   -> level1
     pix_nums / pix_inds (cumsum) / pix_slice                 -> rotate_sensors offsets (a, a + length pix)
     m_tile, tile_pos ([-1], (m_tile, 1)), concatenate order  -> tile_path
     poso: concatenate(axis=1).reshape(-1, 3)                 -> poso (order m, sensor, pixel)
     n_pp = len(poso), n_pix = int(n_pp / max_path_len)       -> getBH lets
     B_group.reshape((lg, max_path_len, n_pix, 3)), scatter   -> group_field chunks, scatter
     collection slice sum / np.delete                         -> reduce_loop
     sens_orient ([0] | tile(repeat(quat, pix_nums[k]), (num_of_sources, 1)))  -> rotate_sensor
     B[..., pix_slice, 0] *= -1                               -> flipx on the slice
     reshape((L, M, K, *pix_shapes[0])) | np.split(B, pix_inds[1:-1], axis=2)  -> shape_pixels
     axis=tuple(range(3 - B.ndim, -1))                        -> agg over all pixel axes
     np.sum(B, axis=0, keepdims=True), squeeze, expand_dims(axis=-2)           -> sum_out, result_shape *)
Open Scope Z_scope.
Definition expected_arith : list (string * string * string * pyexp) := [
  ("tile_group_property", "assign", "out",
     (PComp (PCall (PName "getattr") [(PName "src"); (PName "prop_name")] []) (PName "src") (PName "group") []));
  ("tile_group_property", "if", "",
     (PBin "and" (PUn "not" (PCall (PAttr (PName "np") "isscalar") [(PSub (PName "out") (PInt 0))] [])) (PCall (PName "any") [(PComp (PCmp "!=" (PAttr (PName "o") "shape") (PAttr (PSub (PName "out") (PInt 0)) "shape")) (PName "o") (PName "out") [])] [])));
  ("tile_group_property", "assign", "out",
     (PCall (PAttr (PName "np") "asarray") [(PName "out")] [("dtype", (PStr "object"))]));
  ("tile_group_property", "else", "",
     PNone);
  ("tile_group_property", "assign", "out",
     (PCall (PAttr (PName "np") "array") [(PName "out")] []));
  ("tile_group_property", "return", "",
     (PCall (PAttr (PName "np") "repeat") [(PName "out"); (PName "n_pp")] [("axis", (PInt 0))]));
  ("get_src_dict", "assign", "poss",
     (PCall (PAttr (PName "np") "array") [(PComp (PAttr (PName "src") "_position") (PName "src") (PName "group") [])] []));
  ("get_src_dict", "assign", "posv",
     (PCall (PAttr (PCall (PAttr (PName "np") "tile") [(PName "poss"); (PName "n_pix")] []) "reshape") [(PTuple [(PInt (-1)); (PInt 3)])] []));
  ("get_src_dict", "assign", "rots",
     (PCall (PAttr (PName "np") "array") [(PComp (PCall (PAttr (PAttr (PName "src") "_orientation") "as_quat") [] []) (PName "src") (PName "group") [])] []));
  ("get_src_dict", "assign", "rotv",
     (PCall (PAttr (PCall (PAttr (PName "np") "tile") [(PName "rots"); (PName "n_pix")] []) "reshape") [(PTuple [(PInt (-1)); (PInt 4)])] []));
  ("get_src_dict", "assign", "rotobj",
     (PCall (PAttr (PName "R") "from_quat") [(PName "rotv")] []));
  ("get_src_dict", "assign", "posov",
     (PCall (PAttr (PName "np") "tile") [(PName "poso"); (PTuple [(PCall (PName "len") [(PName "group")] []); (PInt 1)])] []));
  ("get_src_dict", "assign", "kwargs",
     (PDict [((PStr "position"), (PName "posv")); ((PStr "observers"), (PName "posov")); ((PStr "orientation"), (PName "rotobj"))]));
  ("get_src_dict", "assign", "src_props",
     (PAttr (PSub (PName "group") (PInt 0)) "_field_func_kwargs_ndim"));
  ("get_src_dict", "for", "prop",
     (PName "src_props"));
  ("get_src_dict", "if", "",
     (PBin "and" (PCall (PName "hasattr") [(PSub (PName "group") (PInt 0)); (PName "prop")] []) (PCmp "not in" (PName "prop") (PTuple [(PStr "position"); (PStr "orientation"); (PStr "observers")]))));
  ("get_src_dict", "assign", "kwargs[prop]",
     (PCall (PName "tile_group_property") [(PName "group"); (PName "n_pp"); (PName "prop")] []));
  ("get_src_dict", "return", "",
     (PName "kwargs"));
  ("getBH_level1", "assign", "pos_rel_rot",
     (PCall (PAttr (PName "orientation") "apply") [(PBin "-" (PName "observers") (PName "position"))] [("inverse", PTrue)]));
  ("getBH_level1", "if", "",
     (PUn "not" (PCall (PName "has_parameter") [(PName "field_func"); (PStr "in_out")] [])));
  ("getBH_level1", "assign", "BH",
     (PCall (PName "field_func") [] [("field", (PName "field")); ("observers", (PName "pos_rel_rot")); ("**", (PName "kwargs"))]));
  ("getBH_level1", "if", "",
     (PCmp "is not" (PName "BH") PNone));
  ("getBH_level1", "assign", "BH",
     (PCall (PAttr (PName "orientation") "apply") [(PName "BH")] []));
  ("getBH_level1", "return", "",
     (PName "BH"));
  ("_getBH_level2", "assign", "pix_nums",
     (PComp (PCall (PName "int") [(PCall (PAttr (PName "np") "prod") [(PSub (PName "ps") (PSlice None (Some (PInt (-1)))))] [])] []) (PName "ps") (PName "pix_shapes") []));
  ("_getBH_level2", "assign", "pix_inds",
     (PCall (PAttr (PName "np") "cumsum") [(PBin "+" (PList [(PInt 0)]) (PName "pix_nums"))] []));
  ("_getBH_level2", "assign", "pix_all_same",
     (PCmp "==" (PCall (PName "len") [(PCall (PName "set") [(PName "pix_shapes")] [])] []) (PInt 1)));
  ("_getBH_level2", "assign", "unrotated_sensors",
     (PComp (PCall (PName "all") [(PComp (PCall (PName "all") [(PCmp "==" (PName "r") (PName "unitQ"))] []) (PName "r") (PCall (PAttr (PAttr (PName "sens") "_orientation") "as_quat") [] []) [])] []) (PName "sens") (PName "sensors") []));
  ("_getBH_level2", "assign", "static_sensor_rot",
     (PCall (PName "check_static_sensor_orient") [(PName "sensors")] []));
  ("_getBH_level2", "assign", "num_of_sources",
     (PCall (PName "len") [(PName "sources")] []));
  ("_getBH_level2", "assign", "num_of_src_list",
     (PCall (PName "len") [(PName "src_list")] []));
  ("_getBH_level2", "assign", "num_of_sensors",
     (PCall (PName "len") [(PName "sensors")] []));
  ("_getBH_level2", "assign", "path_lengths",
     (PComp (PCall (PName "len") [(PAttr (PName "obj") "_position")] []) (PName "obj") (PName "obj_list") []));
  ("_getBH_level2", "assign", "max_path_len",
     (PCall (PName "max") [(PName "path_lengths")] []));
  ("_getBH_level2", "if", "",
     (PCmp ">" (PName "max_path_len") (PInt 1)));
  ("_getBH_level2", "for", "(obj, m0)",
     (PCall (PName "zip") [(PName "reset_obj"); (PName "reset_obj_m0")] []));
  ("_getBH_level2", "assign", "m_tile",
     (PBin "-" (PName "max_path_len") (PName "m0")));
  ("_getBH_level2", "assign", "tile_pos",
     (PCall (PAttr (PName "np") "tile") [(PSub (PAttr (PName "obj") "_position") (PInt (-1))); (PTuple [(PName "m_tile"); (PInt 1)])] []));
  ("_getBH_level2", "assign", "obj._position",
     (PCall (PAttr (PName "np") "concatenate") [(PTuple [(PAttr (PName "obj") "_position"); (PName "tile_pos")])] []));
  ("_getBH_level2", "assign", "tile_orient",
     (PCall (PAttr (PName "np") "tile") [(PSub (PCall (PAttr (PAttr (PName "obj") "_orientation") "as_quat") [] []) (PInt (-1))); (PTuple [(PName "m_tile"); (PInt 1)])] []));
  ("_getBH_level2", "assign", "tile_orient",
     (PCall (PAttr (PName "np") "concatenate") [(PTuple [(PCall (PAttr (PAttr (PName "obj") "_orientation") "as_quat") [] []); (PName "tile_orient")])] []));
  ("_getBH_level2", "assign", "obj._orientation",
     (PCall (PAttr (PName "R") "from_quat") [(PName "tile_orient")] []));
  ("_getBH_level2", "assign", "poso",
     (PComp (PComp (PBin "+" (PIfExp (PCmp "is" (PAttr (PName "sens") "pixel") PNone) (PCall (PAttr (PName "np") "array") [(PList [(PList [(PInt 0); (PInt 0); (PInt 0)])])] []) (PCall (PAttr (PName "r") "apply") [(PCall (PAttr (PAttr (PName "sens") "pixel") "reshape") [(PInt (-1)); (PInt 3)] [])] [])) (PName "p")) (PTuple [(PName "r"); (PName "p")]) (PCall (PName "zip") [(PAttr (PName "sens") "_orientation"); (PAttr (PName "sens") "_position")] []) []) (PName "sens") (PName "sensors") []));
  ("_getBH_level2", "assign", "poso",
     (PCall (PAttr (PCall (PAttr (PName "np") "concatenate") [(PName "poso")] [("axis", (PInt 1))]) "reshape") [(PInt (-1)); (PInt 3)] []));
  ("_getBH_level2", "assign", "n_pp",
     (PCall (PName "len") [(PName "poso")] []));
  ("_getBH_level2", "assign", "n_pix",
     (PCall (PName "int") [(PBin "/" (PName "n_pp") (PName "max_path_len"))] []));
  ("_getBH_level2", "assign", "field_func_groups",
     (PDict []));
  ("_getBH_level2", "for", "(ind, src)",
     (PCall (PName "enumerate") [(PName "src_list")] []));
  ("_getBH_level2", "assign", "group_key",
     (PAttr (PName "src") "field_func"));
  ("_getBH_level2", "if", "",
     (PCmp "is" (PName "group_key") PNone));
  ("_getBH_level2", "if", "",
     (PCmp "not in" (PName "group_key") (PName "field_func_groups")));
  ("_getBH_level2", "assign", "field_func_groups[group_key]",
     (PDict [((PStr "sources"), (PList [])); ((PStr "order"), (PList []))]));
  ("_getBH_level2", "assign", "B",
     (PCall (PAttr (PName "np") "empty") [(PTuple [(PName "num_of_src_list"); (PName "max_path_len"); (PName "n_pix"); (PInt 3)])] []));
  ("_getBH_level2", "for", "(field_func, group)",
     (PCall (PAttr (PName "field_func_groups") "items") [] []));
  ("_getBH_level2", "assign", "lg",
     (PCall (PName "len") [(PSub (PName "group") (PStr "sources"))] []));
  ("_getBH_level2", "assign", "gr",
     (PSub (PName "group") (PStr "sources")));
  ("_getBH_level2", "assign", "src_dict",
     (PCall (PName "get_src_dict") [(PName "gr"); (PName "n_pix"); (PName "n_pp"); (PName "poso")] []));
  ("_getBH_level2", "assign", "B_group",
     (PCall (PName "getBH_level1") [] [("field_func", (PName "field_func")); ("field", (PName "field")); ("in_out", (PName "in_out")); ("**", (PName "src_dict"))]));
  ("_getBH_level2", "if", "",
     (PCmp "is" (PName "B_group") PNone));
  ("_getBH_level2", "assign", "B_group",
     (PCall (PAttr (PName "B_group") "reshape") [(PTuple [(PName "lg"); (PName "max_path_len"); (PName "n_pix"); (PInt 3)])] []));
  ("_getBH_level2", "for", "gr_ind",
     (PCall (PName "range") [(PName "lg")] []));
  ("_getBH_level2", "assign", "B[group['order'][gr_ind]]",
     (PSub (PName "B_group") (PName "gr_ind")));
  ("_getBH_level2", "if", "",
     (PCmp ">" (PName "num_of_src_list") (PName "num_of_sources")));
  ("_getBH_level2", "for", "(src_ind, src)",
     (PCall (PName "enumerate") [(PName "sources")] []));
  ("_getBH_level2", "if", "",
     (PCall (PName "isinstance") [(PName "src"); (PName "Collection")] []));
  ("_getBH_level2", "assign", "col_len",
     (PCall (PName "len") [(PCall (PName "format_obj_input") [(PName "src")] [("allow", (PStr "sources"))])] []));
  ("_getBH_level2", "assign", "B[src_ind]",
     (PCall (PAttr (PName "np") "sum") [(PSub (PName "B") (PSlice (Some (PName "src_ind")) (Some (PBin "+" (PName "src_ind") (PName "col_len")))))] [("axis", (PInt 0))]));
  ("_getBH_level2", "assign", "B",
     (PCall (PAttr (PName "np") "delete") [(PName "B"); (PSub (PAttr (PName "np") "s_") (PSlice (Some (PBin "+" (PName "src_ind") (PInt 1))) (Some (PBin "+" (PName "src_ind") (PName "col_len"))))); (PInt 0)] []));
  ("_getBH_level2", "for", "(sens_ind, sens)",
     (PCall (PName "enumerate") [(PName "sensors")] []));
  ("_getBH_level2", "assign", "pix_slice",
     (PCall (PName "slice") [(PSub (PName "pix_inds") (PName "sens_ind")); (PSub (PName "pix_inds") (PBin "+" (PName "sens_ind") (PInt 1)))] []));
  ("_getBH_level2", "if", "",
     (PUn "not" (PSub (PName "unrotated_sensors") (PName "sens_ind"))));
  ("_getBH_level2", "assign", "Bpart",
     (PSub (PName "B") (PTuple [(PSlice None None); (PSlice None None); (PName "pix_slice")])));
  ("_getBH_level2", "assign", "Bpart_orig_shape",
     (PAttr (PName "Bpart") "shape"));
  ("_getBH_level2", "assign", "Bpart_flat",
     (PCall (PAttr (PName "np") "reshape") [(PName "Bpart"); (PTuple [(PInt (-1)); (PInt 3)])] []));
  ("_getBH_level2", "if", "",
     (PSub (PName "static_sensor_rot") (PName "sens_ind")));
  ("_getBH_level2", "assign", "sens_orient",
     (PSub (PAttr (PName "sens") "_orientation") (PInt 0)));
  ("_getBH_level2", "else", "",
     PNone);
  ("_getBH_level2", "assign", "sens_orient",
     (PCall (PAttr (PName "R") "from_quat") [(PCall (PAttr (PName "np") "tile") [(PCall (PAttr (PName "np") "repeat") [(PCall (PAttr (PAttr (PName "sens") "_orientation") "as_quat") [] []); (PSub (PName "pix_nums") (PName "sens_ind"))] [("axis", (PInt 0))]); (PTuple [(PName "num_of_sources"); (PInt 1)])] [])] []));
  ("_getBH_level2", "assign", "Bpart_flat_rot",
     (PCall (PAttr (PCall (PAttr (PName "sens_orient") "inv") [] []) "apply") [(PName "Bpart_flat")] []));
  ("_getBH_level2", "assign", "B[:, :, pix_slice]",
     (PCall (PAttr (PName "np") "reshape") [(PName "Bpart_flat_rot"); (PName "Bpart_orig_shape")] []));
  ("_getBH_level2", "if", "",
     (PCmp "==" (PAttr (PName "sens") "handedness") (PStr "left")));
  ("_getBH_level2", "aug*", "B[..., pix_slice, 0]",
     (PInt (-1)));
  ("_getBH_level2", "if", "",
     (PName "pix_all_same"));
  ("_getBH_level2", "assign", "B",
     (PCall (PAttr (PName "B") "reshape") [(PTuple [(PName "num_of_sources"); (PName "max_path_len"); (PName "num_of_sensors"); (PStar (PSub (PName "pix_shapes") (PInt 0)))])] []));
  ("_getBH_level2", "if", "",
     (PCmp "is not" (PName "pixel_agg") PNone));
  ("_getBH_level2", "assign", "B",
     (PCall (PName "pixel_agg_func") [(PName "B")] [("axis", (PCall (PName "tuple") [(PCall (PName "range") [(PBin "-" (PInt 3) (PAttr (PName "B") "ndim")); (PInt (-1))] [])] []))]));
  ("_getBH_level2", "else", "",
     PNone);
  ("_getBH_level2", "assign", "Bsplit",
     (PCall (PAttr (PName "np") "split") [(PName "B"); (PSub (PName "pix_inds") (PSlice (Some (PInt 1)) (Some (PInt (-1)))))] [("axis", (PInt 2))]));
  ("_getBH_level2", "assign", "Bagg",
     (PComp (PCall (PAttr (PName "np") "expand_dims") [(PCall (PName "pixel_agg_func") [(PName "b")] [("axis", (PInt 2))])] [("axis", (PInt 2))]) (PName "b") (PName "Bsplit") []));
  ("_getBH_level2", "assign", "B",
     (PCall (PAttr (PName "np") "concatenate") [(PName "Bagg")] [("axis", (PInt 2))]));
  ("_getBH_level2", "for", "(obj, m0)",
     (PCall (PName "zip") [(PName "reset_obj"); (PName "reset_obj_m0")] []));
  ("_getBH_level2", "assign", "obj._position",
     (PSub (PAttr (PName "obj") "_position") (PSlice None (Some (PName "m0")))));
  ("_getBH_level2", "assign", "obj._orientation",
     (PSub (PAttr (PName "obj") "_orientation") (PSlice None (Some (PName "m0")))));
  ("_getBH_level2", "if", "",
     (PName "sumup"));
  ("_getBH_level2", "assign", "B",
     (PCall (PAttr (PName "np") "sum") [(PName "B")] [("axis", (PInt 0)); ("keepdims", PTrue)]));
  ("_getBH_level2", "if", "",
     (PCmp "==" (PName "output") (PStr "dataframe")));
  ("_getBH_level2", "if", "",
     (PBin "and" (PName "sumup") (PCmp ">" (PCall (PName "len") [(PName "sources")] []) (PInt 1))));
  ("_getBH_level2", "else", "",
     PNone);
  ("_getBH_level2", "return", "",
     (PName "df"));
  ("_getBH_level2", "if", "",
     (PName "squeeze"));
  ("_getBH_level2", "assign", "B",
     (PCall (PAttr (PName "np") "squeeze") [(PName "B")] []));
  ("_getBH_level2", "else", "",
     PNone);
  ("_getBH_level2", "if", "",
     (PCmp "is not" (PName "pixel_agg") PNone));
  ("_getBH_level2", "assign", "B",
     (PCall (PAttr (PName "np") "expand_dims") [(PName "B")] [("axis", (PInt (-2)))]));
  ("_getBH_level2", "return", "",
     (PName "B"))].


Close Scope Z_scope.

Theorem model_uses_translated_arith : arith = expected_arith.
Proof. reflexivity. Qed.

(* ------------------------------------------------------------------ evaluation of the translated index expressions *)
Definition env0 : string -> option Z := fun _ => None.
Definition lenv0 : string -> option (list Z) := fun _ => None.
Definition bind (s : string) (v : Z) (e : string -> option Z) : string -> option Z :=
  fun x => if String.eqb x s then Some v else e x.
Definition lbind (s : string) (v : list Z) (e : string -> option (list Z)) : string -> option (list Z) :=
  fun x => if String.eqb x s then Some v else e x.
Definition ev (env : string -> option Z) (lenv : string -> option (list Z)) (e : pyexp) : nat :=
  match evalZ env lenv e with Some z => Z.to_nat z | None => 0 end.

Definition arg (n : nat) (e : pyexp) : pyexp := match e with PCall _ args _ => nth n args PNone | _ => PNone end.
Definition kwarg (k : string) (e : pyexp) : pyexp :=
  match e with
  | PCall _ _ kw => match find (fun p => String.eqb (fst p) k) kw with Some p => snd p | None => PNone end
  | _ => PNone
  end.
Definition sub_idx (e : pyexp) : pyexp := match e with PSub _ i => i | _ => PNone end.
Definition lo_of (e : pyexp) : pyexp := match slice_of e with Some (Some lo, _) => lo | _ => PNone end.
Definition hi_of (e : pyexp) : pyexp := match slice_of e with Some (_, Some hi) => hi | _ => PNone end.

Local Notation L2 := "_getBH_level2".

(* ---- n_pix = int(n_pp / max_path_len) : the model's `n_pp / M` *)
Definition e_n_pix := get L2 "assign" "n_pix" 0 arith.
Theorem n_pix_translated (n_pp M : nat) :
  ev (bind "n_pp" (Z.of_nat n_pp) (bind "max_path_len" (Z.of_nat M) env0)) lenv0 e_n_pix = (n_pp / M)%nat.
Proof. unfold ev. cbn. rewrite <- Nat2Z.inj_div. apply Nat2Z.id. Qed.

Definition e_n_pp := get L2 "assign" "n_pp" 0 arith.
Theorem n_pp_translated (po : list Z) : ev env0 (lbind "poso" po lenv0) e_n_pp = List.length po.
Proof. unfold ev. cbn. apply Nat2Z.id. Qed.

(* ---- path tiling: m_tile = max_path_len - m0 copies of the LAST pose, appended after the path *)
Definition e_m_tile := get L2 "assign" "m_tile" 0 arith.
Definition e_tile_pos := get L2 "assign" "tile_pos" 0 arith.
Definition e_tile_cat := get L2 "assign" "obj._position" 0 arith.
Theorem tile_path_translated {A} (d : A) (M : nat) (p : list A) :
  sub_idx (arg 0 e_tile_pos) = PInt (-1) /\                                     (* obj._position[-1] *)
  arg 1 e_tile_pos = PTuple [PName "m_tile"; PInt 1] /\                         (* (m_tile, 1) *)
  arg 0 e_tile_cat = PTuple [PAttr (PName "obj") "_position"; PName "tile_pos"] /\   (* original first *)
  tile_path d M p
  = (p ++ repeat (last p d)
           (ev (bind "max_path_len" (Z.of_nat M) (bind "m0" (Z.of_nat (List.length p)) env0)) lenv0 e_m_tile))%list.
Proof.
  repeat split. unfold tile_path, ev. cbn. f_equal. f_equal. lia.
Qed.

(* ---- collections: B[src_ind] = np.sum(B[src_ind : src_ind + col_len], axis=0);
        B = np.delete(B, np.s_[src_ind + 1 : src_ind + col_len], 0) *)
Definition e_sum := get L2 "assign" "B[src_ind]" 0 arith.
Definition e_del := get L2 "assign" "B" 1 arith.
Section Reduce.
Context {O : RigidOps}.
Variable P : Type.
Theorem reduce_step_translated (ls : list (@leaf O P)) (rest : list (@srcin O P)) (i : nat) (B : list block) :
  let env := bind "src_ind" (Z.of_nat i) (bind "col_len" (Z.of_nat (List.length ls)) env0) in
  let lo1 := ev env lenv0 (lo_of (sub_idx (arg 0 e_sum))) in
  let hi1 := ev env lenv0 (hi_of (sub_idx (arg 0 e_sum))) in
  let lo2 := ev env lenv0 (lo_of (arg 1 e_del)) in
  let hi2 := ev env lenv0 (hi_of (arg 1 e_del)) in
  kwarg "axis" e_sum = PInt 0 /\ arg 2 e_del = PInt 0 /\ arg 0 e_del = PName "B" /\
  reduce_loop P (Coll ls :: rest) i B
  = reduce_loop P rest (S i)
      (delete_range lo2 hi2 (set_nth i (sum_blocks (firstn (hi1 - lo1) (skipn lo1 B))) B)).
Proof.
  cbv zeta. repeat split. unfold ev. cbn -[reduce_loop delete_range set_nth sum_blocks firstn skipn Z.add].
  cbn [reduce_loop]. rewrite !Nat2Z.id.
  replace (Z.to_nat (Z.of_nat i + Z.of_nat (List.length ls))) with (i + List.length ls)%nat by lia.
  replace (Z.to_nat (Z.of_nat i + 1)) with (i + 1)%nat by lia.
  replace (i + List.length ls - i)%nat with (List.length ls) by lia. reflexivity.
Qed.
End Reduce.

(* ---- pix_inds = np.cumsum([0] + pix_nums); pix_slice = slice(pix_inds[k], pix_inds[k + 1]) *)
Definition e_pix_inds := get L2 "assign" "pix_inds" 0 arith.
Definition e_pix_slice := get L2 "assign" "pix_slice" 0 arith.

Lemma nth_error_default {A} (l : list A) k d : nth k l d = match nth_error l k with Some x => x | None => d end.
Proof. revert k; induction l as [|x l IH]; intros [|k]; cbn; auto. Qed.

Lemma py_index_nat (l : list nat) (k : nat) :
  match py_index (map Z.of_nat l) (Z.of_nat k) with Some z => Z.to_nat z | None => 0%nat end = nth k l 0%nat.
Proof.
  unfold py_index. destruct (Z.ltb_spec (Z.of_nat k) 0); [lia|].
  destruct (Z.ltb_spec (Z.of_nat k) 0); [lia|]. rewrite Nat2Z.id, nth_error_map, nth_error_default.
  destruct (nth_error l k); cbn; [apply Nat2Z.id|reflexivity].
Qed.

Definition slice_lo (inds : list nat) (k : nat) : nat :=
  ev (bind "sens_ind" (Z.of_nat k) env0) (lbind "pix_inds" (map Z.of_nat inds) lenv0) (lo_of e_pix_slice).
Definition slice_hi (inds : list nat) (k : nat) : nat :=
  ev (bind "sens_ind" (Z.of_nat k) env0) (lbind "pix_inds" (map Z.of_nat inds) lenv0) (hi_of e_pix_slice).

Lemma slice_lo_nth inds k : slice_lo inds k = nth k inds 0%nat.
Proof. unfold slice_lo, ev. cbn -[py_index]. apply py_index_nat. Qed.
Lemma slice_hi_nth inds k : slice_hi inds k = nth (k + 1) inds 0%nat.
Proof.
  unfold slice_hi, ev. cbn -[py_index Z.add].
  replace (Z.of_nat k + 1)%Z with (Z.of_nat (k + 1)) by lia. apply py_index_nat.
Qed.

Lemma cumsum_head a nums : exists r, cumsum_from a nums = a :: r.
Proof. destruct nums; cbn; eauto. Qed.

Section Sensors.
Context {O : RigidOps}.
Variable g_eqb : G -> G -> bool.
Variable flipx : V -> V.

(* the loop of the source: sensor k works on the slice [pix_inds[k], pix_inds[k+1]) *)
Fixpoint rotate_idx (inds : list nat) (ss : list (sensor * sensor)) (k : nat) (B : list block) : list block :=
  match ss with
  | [] => B
  | (s0, s) :: r => rotate_idx inds r (S k) (rotate_sensor g_eqb flipx s0 s (slice_lo inds k) (slice_hi inds k) B)
  end.

Lemma rotate_idx_cumsum (ss : list (sensor * sensor)) : forall k a pre B,
  List.length pre = k ->
  rotate_idx (pre ++ cumsum_from a (map (fun p => List.length (s_pix (snd p))) ss))%list ss k B
  = rotate_sensors g_eqb flipx ss a B.
Proof.
  induction ss as [|[s0 s] ss IH]; intros k a pre B Hk; [reflexivity|].
  cbn [map cumsum_from rotate_idx rotate_sensors snd].
  set (n := List.length (s_pix s)).
  set (inds := (pre ++ a :: cumsum_from (a + n) (map (fun p => List.length (s_pix (snd p))) ss))%list).
  assert (Hlo : slice_lo inds k = a).
  { rewrite slice_lo_nth. unfold inds. rewrite app_nth2 by lia. rewrite Hk, Nat.sub_diag. reflexivity. }
  assert (Hhi : slice_hi inds k = (a + n)%nat).
  { rewrite slice_hi_nth. unfold inds. rewrite app_nth2 by lia.
    replace (k + 1 - List.length pre)%nat with 1%nat by lia. cbn [nth].
    destruct (cumsum_head (a + n) (map (fun p => List.length (s_pix (snd p))) ss)) as [r ->]. reflexivity. }
  rewrite Hlo, Hhi.
  replace inds with ((pre ++ [a]) ++ cumsum_from (a + n) (map (fun p => List.length (s_pix (snd p))) ss))%list
    by (unfold inds; rewrite <- app_assoc; reflexivity).
  apply IH. rewrite app_length. cbn. lia.
Qed.

(* the model's running offsets ARE the translated cumsum / slice arithmetic *)
Theorem pix_slices_translated (ss : list (sensor * sensor)) (B : list block) :
  e_pix_inds = PCall (PAttr (PName "np") "cumsum") [PBin "+" (PList [PInt 0]) (PName "pix_nums")] [] /\
  rotate_idx (cumsum_from 0 (map (fun p => List.length (s_pix (snd p))) ss)) ss 0 B
  = rotate_sensors g_eqb flipx ss 0 B.
Proof. split; [reflexivity|]. apply (rotate_idx_cumsum ss 0 0 [] B eq_refl). Qed.
End Sensors.

(* ---- pixel_agg over axis=tuple(range(3 - B.ndim, -1)): exactly the pixel axes 3 .. ndim-2 *)
Definition e_agg := get L2 "assign" "B" 3 arith.
Definition e_agg_range := arg 0 (kwarg "axis" e_agg).
Theorem agg_axes_translated (nd : nat) : (4 <= nd)%nat ->
  kwarg "axis" e_agg = PCall (PName "tuple") [e_agg_range] [] /\
  (exists lo hi, e_agg_range = PCall (PName "range") [lo; hi] [] /\
     evalZ (bind "B.ndim" (Z.of_nat nd) env0) lenv0 lo = Some (3 - Z.of_nat nd)%Z /\
     evalZ env0 lenv0 hi = Some (-1)%Z) /\
  norm_axes (Z.of_nat nd) (3 - Z.of_nat nd) (-1) = seq 3 (nd - 4).
Proof.
  intros H. split; [reflexivity|]. split; [eexists; eexists; repeat split; reflexivity|].
  unfold norm_axes. replace (Z.to_nat (-1 - (3 - Z.of_nat nd))) with (nd - 4)%nat by lia.
  rewrite <- (seq_shift (nd - 4) 2), <- (seq_shift (nd - 4) 1), <- (seq_shift (nd - 4) 0), !map_map.
  apply map_ext_in. intros i Hi. apply in_seq in Hi.
  destruct (Z.ltb_spec (Z.of_nat i + (3 - Z.of_nat nd)) 0); lia.
Qed.

(* ---- np.split(B, pix_inds[1:-1], axis=2): the pieces are the sensors' own pixel blocks *)
Definition e_split := get L2 "assign" "Bsplit" 0 arith.

Lemma py_slice_interior {A} (l : list A) : py_slice 1 (-1) l = removelast (tl l).
Proof.
  unfold py_slice. destruct l as [|x l]; [reflexivity|]. cbn [tl].
  rewrite removelast_firstn_len. cbn [List.length].
  destruct (Z.ltb_spec 1 0); [lia|]. destruct (Z.ltb_spec (-1) 0); [|lia].
  replace (Z.to_nat (Z.max 0 (Z.min (Z.of_nat (S (List.length l))) 1))) with 1%nat by lia.
  replace (Z.to_nat (Z.max 0 (Z.min (Z.of_nat (S (List.length l))) (Z.of_nat (S (List.length l)) + -1))))
    with (List.length l) by lia.
  cbn [skipn]. f_equal. lia.
Qed.

Lemma removelast_cons {A} (x : A) (X : list A) : X <> [] -> removelast (x :: X) = x :: removelast X.
Proof. destruct X; [congruence|reflexivity]. Qed.

Lemma split_interior {A} (nums : list nat) : forall a (l : list A),
  nums <> [] -> List.length l = fold_right Nat.add 0%nat nums ->
  np_split_from a (removelast (tl (cumsum_from a nums))) l = split_lens nums l.
Proof.
  induction nums as [|n nums IH]; intros a l Hne Hl; [congruence|].
  destruct nums as [|m r].
  - cbn. cbn in Hl. rewrite firstn_all2 by lia. reflexivity.
  - assert (E : tl (cumsum_from a (n :: m :: r)) = (a + n)%nat :: tl (cumsum_from (a + n) (m :: r))) by reflexivity.
    rewrite E.
    assert (Hx : tl (cumsum_from (a + n) (m :: r)) <> []) by (cbn; destruct r; discriminate).
    rewrite removelast_cons by exact Hx.
    cbn [np_split_from split_lens]. replace (a + n - a)%nat with n by lia. f_equal.
    apply IH; [discriminate|]. rewrite skipn_length. cbn [fold_right] in Hl |- *. lia.
Qed.

Theorem split_translated {A} (nums : list nat) (l : list A) :
  nums <> [] -> List.length l = fold_right Nat.add 0%nat nums ->
  arg 1 e_split = PSub (PName "pix_inds") (PSlice (Some (PInt 1)) (Some (PInt (-1)))) /\
  kwarg "axis" e_split = PInt 2 /\
  np_split (py_slice 1 (-1) (cumsum_from 0 nums)) l = split_lens nums l.
Proof.
  intros Hne Hl. repeat split. rewrite py_slice_interior. apply split_interior; assumption.
Qed.
