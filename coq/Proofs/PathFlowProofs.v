(* The hand models PathModel.v / CompoundModel.v against the statement-level flow TRANSLATED from
   class_BaseTransform.py / class_BaseGeo.py on this run (Gen/GenPathFlow.v):
   (1) the translated flow is, statement for statement, the structure the models were written against;
   (2) the translated pad widths, end indices, slice bounds, pad_slice_path arguments and the arguments
       forwarded to children, interpreted, are what the models compute with.
   An edit of the implementation (swapped np.pad widths, a constructor fast path, a children loop that
   forwards something else, a front end that reformats an argument) breaks a proof in this file. *)
From Coq Require Import ZArith List String Bool Lia.
From MV Require Import Lib.ListZ Lib.Rigid Gen.GenPath Gen.GenPathFlow Model.L2Arith Model.PathFlow
  Model.PathModel Model.CompoundModel.
Import ListNotations.
Open Scope string_scope.
Open Scope Z_scope.

(* ---- (2) *)
Definition pads_as (env : string -> option Z) (e : pyexp) (x : string) (P : Z -> Z -> Prop) : Prop :=
  exists eb ea B A, edge_pad_call e = Some (PName x, eb, ea) /\
    evalZb env benv0 eb = Some B /\ evalZb env benv0 ea = Some A /\ P B A.

Section Semantic.
Context {O : RigidOps}.

(* multi_anchor_behavior: np.pad widths of the shorter input *)
Definition e_ma_anchor_pad := get "multi_anchor_behavior" "assign" "anchor" 1 flow.
Definition e_ma_rot_pad := get "multi_anchor_behavior" "assign" "inrotQ" 1 flow.
Definition ma_env (lr la : Z) := bind "len_inrotQ" lr (bind "len_anchor" la env0).

Definition len0 {A} (i : inp A) : Z := match i with Scalar _ => 0 | Vector xs => zlen xs end.

Theorem multi_anchor_anchor_pad_translated (a : inp V) (r : inp G) :
  len0 r >? len0 a = true ->
  pads_as (ma_env (len0 r) (zlen (as_rows a))) e_ma_anchor_pad "anchor"
    (fun B A => multi_anchor a r = (Vector (edge_pad vzero B A (as_rows a)), r)).
Proof.
  intros H. unfold pads_as. do 4 eexists. split; [reflexivity|]. split; [reflexivity|].
  split; [reflexivity|]. unfold multi_anchor. fold (len0 r). fold (len0 a). rewrite H. reflexivity.
Qed.

Theorem multi_anchor_rot_pad_translated (a : inp V) (r : inp G) :
  len0 r >? len0 a = false -> len0 r <? len0 a = true ->
  pads_as (ma_env (zlen (as_rows r)) (len0 a)) e_ma_rot_pad "inrotQ"
    (fun B A => multi_anchor a r = (a, Vector (edge_pad gone B A (as_rows r)))).
Proof.
  intros H1 H2. unfold pads_as. do 4 eexists. split; [reflexivity|]. split; [reflexivity|].
  split; [reflexivity|]. unfold multi_anchor. fold (len0 r). fold (len0 a). rewrite H1, H2. reflexivity.
Qed.

(* the branch conditions of multi_anchor_behavior *)
Theorem multi_anchor_conditions_translated :
  get "multi_anchor_behavior" "if" "" 0 flow = PCmp ">" (PName "len_inrotQ") (PName "len_anchor") /\
  get "multi_anchor_behavior" "if" "" 2 flow = PCmp "<" (PName "len_inrotQ") (PName "len_anchor").
Proof. split; reflexivity. Qed.

(* _init_position_orientation: np.pad widths of the shorter of position / orientation *)
Definition e_init_ori_pad := get "_init_position_orientation" "assign" "oriQ" 1 flow.
Definition e_init_pos_pad := get "_init_position_orientation" "assign" "pos" 1 flow.
Definition init_env (lp lo : Z) := bind "len_pos" lp (bind "len_ori" lo env0).
Definition ori_rows (r : option (inp G)) : list G := match r with None => [gone] | Some r => as_rows r end.

Theorem init_ori_pad_translated (p : inp V) (r : option (inp G)) :
  zlen (as_rows p) >? zlen (ori_rows r) = true ->
  pads_as (init_env (zlen (as_rows p)) (zlen (ori_rows r))) e_init_ori_pad "oriQ"
    (fun B A => init_pose p r = {| pos := as_rows p; ori := edge_pad gone B A (ori_rows r) |}).
Proof.
  intros H. unfold pads_as. do 4 eexists. split; [reflexivity|]. split; [reflexivity|].
  split; [reflexivity|]. unfold init_pose. fold (ori_rows r). rewrite H. reflexivity.
Qed.

Theorem init_pos_pad_translated (p : inp V) (r : option (inp G)) :
  zlen (as_rows p) >? zlen (ori_rows r) = false -> zlen (as_rows p) <? zlen (ori_rows r) = true ->
  pads_as (init_env (zlen (as_rows p)) (zlen (ori_rows r))) e_init_pos_pad "pos"
    (fun B A => init_pose p r = {| pos := edge_pad vzero B A (as_rows p); ori := ori_rows r |}).
Proof.
  intros H1 H2. unfold pads_as. do 4 eexists. split; [reflexivity|]. split; [reflexivity|].
  split; [reflexivity|]. unfold init_pose. fold (ori_rows r). rewrite H1, H2. reflexivity.
Qed.

(* the only branches of the initialiser are `len_pos > len_ori` / `len_pos < len_ori` and what is
   stored is the (padded) pos / oriQ *)
Theorem init_structure_translated :
  map (fun x => snd x) (filter (fun x : entry => let '(f, k, _, _) := x in
         String.eqb f "_init_position_orientation" && String.eqb k "if") flow)
  = [PCmp ">" (PName "len_pos") (PName "len_ori"); PCmp "<" (PName "len_pos") (PName "len_ori")] /\
  get "_init_position_orientation" "assign" "self._position" 0 flow = PName "pos" /\
  get "_init_position_orientation" "assign" "self._orientation" 0 flow
    = PCall (PAttr (PName "R") "from_quat") [PName "oriQ"] [].
Proof. repeat split; reflexivity. Qed.

(* path_padding: the arguments of path_padding_param, how the padding is applied, the end index *)
Definition e_pp_lenip := get "path_padding" "assign" "lenip" 0 flow.
Definition e_pp_param := get "path_padding" "assign" "(padding, start)" 0 flow.
Definition e_pp_end := get "path_padding" "assign" "end" 0 flow.

Theorem path_padding_translated (sc : bool) (lenvec : Z) (st : option Z) (o : obj) :
  let lenip := if sc then 1 else lenvec in
  let '(ppath, opath, s, e, padded) := path_padding sc lenvec st o in
  evalZb (bind "len(inpath)" lenvec env0) (bind "scalar_input" sc benv0) e_pp_lenip = Some lenip /\
  evalZb (bind "len(ppath)" (zlen ppath) (bind "start" s (bind "lenip" lenip env0)))
         (bind "scalar_input" sc benv0) e_pp_end = Some e /\
  (callee e_pp_param, arg 0 e_pp_param, arg 1 e_pp_param, arg 2 e_pp_param, arg 3 e_pp_param) =
    (PName "path_padding_param", PName "scalar_input", PCall (PName "len") [PName "ppath"] [],
     PName "lenip", PName "start") /\
  arg 1 (get "path_padding" "assign" "ppath" 1 flow) = PTuple [PName "padding"; PTuple [PInt 0; PInt 0]] /\
  arg 1 (get "path_padding" "assign" "opath" 1 flow) = PTuple [PName "padding"; PTuple [PInt 0; PInt 0]].
Proof.
  cbv zeta. unfold path_padding.
  destruct (path_padding_param sc (zlen (pos o)) (if sc then 1 else lenvec) st) as [pad s].
  destruct pad as [[b a]|]; destruct sc; repeat split; reflexivity.
Qed.

(* path_padding works on a COPY of the stored position path: apply_move / apply_rotation never update an
   object's stored array in place (a view of it, e.g. child.position, may be the input of the same call) *)
Theorem path_copy_translated :
  get "path_padding" "assign" "ppath" 0 flow =
    PCall (PAttr (PAttr (PName "target_object") "_position") "copy") [] [] /\
  get "path_padding" "assign" "opath" 0 flow =
    PCall (PAttr (PAttr (PName "target_object") "_orientation") "as_quat") [] [].
Proof. split; reflexivity. Qed.

(* apply_move / apply_rotation update exactly the slice [start:end) that path_padding returned *)
Theorem update_slices_translated :
  find_nth "apply_move" "aug+" "ppath[start:end]" 0 flow = Some (PName "inpath") /\
  find_nth "apply_rotation" "aug-" "ppath[newstart:end]" 0 flow = Some (PName "anchor") /\
  find_nth "apply_rotation" "aug+" "ppath[newstart:end]" 0 flow = Some (PName "anchor") /\
  find_nth "apply_rotation" "assign" "ppath[newstart:end]" 0 flow =
    Some (PCall (PAttr (PName "rotation") "apply")
                [PSub (PName "ppath") (PSlice (Some (PName "newstart")) (Some (PName "end")))] []) /\
  find_nth "apply_rotation" "assign" "opath[newstart:end]" 0 flow =
    Some (PCall (PAttr (PBin "*" (PName "rotation") (PName "oldrot")) "as_quat") [] []) /\
  find_nth "apply_rotation" "assign" "oldrot" 0 flow =
    Some (PCall (PAttr (PName "R") "from_quat")
                [PSub (PName "opath") (PSlice (Some (PName "newstart")) (Some (PName "end")))] []).
Proof. repeat split; reflexivity. Qed.

(* apply_rotation, compound branch: anchor = parent_path[start : start + len_anchor] with
   len_anchor = end - newstart and (padding, start) from path_padding_param on the PARENT path *)
Definition e_ar_len_anchor := get "apply_rotation" "assign" "len_anchor" 0 flow.
Definition e_ar_param := get "apply_rotation" "assign" "(padding, start)" 0 flow.
Definition e_ar_anchor := get "apply_rotation" "assign" "anchor" 1 flow.

Theorem parent_anchor_translated (e s s2 la : Z) :
  get "apply_rotation" "if" "" 1 flow =
    PBin "and" (PCmp "is" (PName "anchor") PNone) (PCmp "is not" (PName "parent_path") PNone) /\
  evalZb (bind "end" e (bind "newstart" s env0)) benv0 e_ar_len_anchor = Some (e - s) /\
  (callee e_ar_param, arg 0 e_ar_param, arg 1 e_ar_param, arg 2 e_ar_param, arg 3 e_ar_param) =
    (PName "path_padding_param", PCmp "==" (PAttr (PName "inrotQ") "ndim") (PInt 1),
     PSub (PAttr (PName "parent_path") "shape") (PInt 0), PName "len_anchor", PName "start") /\
  exists elo ehi, slice_call e_ar_anchor = Some (PName "parent_path", elo, ehi) /\
    evalZb (bind "start" s2 (bind "len_anchor" la env0)) benv0 elo = Some s2 /\
    evalZb (bind "start" s2 (bind "len_anchor" la env0)) benv0 ehi = Some (s2 + la).
Proof.
  split; [reflexivity|]. split; [reflexivity|]. split; [reflexivity|].
  do 2 eexists. split; [reflexivity|]. split; reflexivity.
Qed.

(* the model's compound anchor is that slice of the (padded) parent path *)
Theorem parent_anchor_model (o : obj) (r : inp G) (st : option Z) (pp : list V) :
  let '(ppath, opath, newstart, e, _) := path_padding (is_scalar r) (ilen r) st o in
  let '(padding, s2) := path_padding_param (is_scalar r) (zlen pp) (e - newstart) st in
  let pp' := match padding with Some (b, a) => edge_pad vzero b a pp | None => pp end in
  apply_rotation o r None st (Some pp) =
  {| pos := upd_range newstart e
              (fun j p => vadd (act (iget gone r j) (vsub p (nthZ vzero pp' (s2 + j))))
                               (nthZ vzero pp' (s2 + j))) ppath;
     ori := upd_range newstart e (fun j q => gmul (iget gone r j) q) opath |}.
Proof.
  unfold apply_rotation.
  destruct (path_padding (is_scalar r) (ilen r) st o) as [[[[ppath opath] newstart] e] padded].
  destruct (path_padding_param (is_scalar r) (zlen pp) (e - newstart) st) as [padding s2].
  reflexivity.
Qed.

(* ---- children loops *)
Definition e_move_child := get "move" "expr" "" 0 flow.
Definition e_move_self := get "move" "expr" "" 1 flow.

Theorem move_children_translated (o : obj) (ch : list node) (d : inp V) (st : option Z) :
  (callee e_move_child, arg 0 e_move_child, nargs e_move_child, kwnames e_move_child, kwarg "start" e_move_child)
    = (PAttr (PName "child") "move", PName "displacement", 1%nat, ["start"], PName "start") /\
  (callee e_move_self, arg 0 e_move_self, arg 1 e_move_self, kwnames e_move_self, kwarg "start" e_move_self)
    = (PName "apply_move", PName "self", PName "displacement", ["start"], PName "start") /\
  move_t (Node o ch) d st = Node (apply_move o d st) (map (fun c => move_t c d st) ch).
Proof. repeat split; reflexivity. Qed.

Definition e_rot_ppth := get "_rotate" "assign" "ppth" 0 flow.
Definition e_rot_child := get "_rotate" "expr" "" 0 flow.
Definition e_rot_self := get "_rotate" "expr" "" 1 flow.

Theorem rotate_children_translated :
  exists f, interp_ppth e_rot_ppth = Some f /\
  (callee e_rot_child, arg 0 e_rot_child, nargs e_rot_child, kwnames e_rot_child) =
    (PAttr (PName "child") "_rotate", PName "rotation", 1%nat, ["anchor"; "start"; "parent_path"]) /\
  (kwarg "anchor" e_rot_child, kwarg "start" e_rot_child, kwarg "parent_path" e_rot_child) =
    (PName "anchor", PName "start", PName "ppth") /\
  (callee e_rot_self, arg 0 e_rot_self, arg 1 e_rot_self, kwnames e_rot_self) =
    (PName "apply_rotation", PName "self", PName "rotation", ["anchor"; "start"; "parent_path"]) /\
  (kwarg "anchor" e_rot_self, kwarg "start" e_rot_self, kwarg "parent_path" e_rot_self) =
    (PName "anchor", PName "start", PName "parent_path") /\
  (* the public rotate() starts the recursion without a parent path *)
  get "rotate" "return" "" 0 flow =
    PCall (PAttr (PName "self") "_rotate") []
          [("rotation", PName "rotation"); ("anchor", PName "anchor"); ("start", PName "start")] /\
  forall (o : obj) (ch : list node) (r : inp G) (a : option (inp V)) (st : option Z) (pp : option (list V)),
    rotate_t (Node o ch) r a st pp =
    Node (apply_rotation o r a st pp)
         (map (fun c => rotate_t c r a st (Some (f (list V) (pos o) pp))) ch).
Proof.
  eexists. split; [reflexivity|]. repeat split; reflexivity.
Qed.

(* the loop over the children comes first: self._position is read before self is rotated / moved *)
Theorem children_first_translated :
  (exists i j, index_of "_rotate" "for" (fun _ => true) 0 flow = Some i /\
               index_of "_rotate" "expr" (is_call_of (PName "apply_rotation")) 0 flow = Some j /\ (i < j)%nat) /\
  (exists i j, index_of "move" "for" (fun _ => true) 0 flow = Some i /\
               index_of "move" "expr" (is_call_of (PName "apply_move")) 0 flow = Some j /\ (i < j)%nat).
Proof. split; do 2 eexists; (split; [reflexivity|]; split; [reflexivity|]); vm_compute; lia. Qed.

(* ---- setters *)
Definition e_ps_ori := arg 0 (get "position.setter" "assign" "self._orientation" 0 flow).
Definition e_ps_old := get "position.setter" "assign" "old_pos" 1 flow.
Definition e_ps_child := get "position.setter" "assign" "child_pos" 0 flow.

Theorem position_setter_translated (o : obj) (c : node) (rest : list node) (ps : list V) :
  get "position.setter" "assign" "old_pos" 0 flow = SELFPOS /\
  psp_args e_ps_ori = Some (SELFPOS, PName "oriQ") /\
  psp_args e_ps_old = Some (SELFPOS, PName "old_pos") /\
  psp_args e_ps_child = Some (SELFPOS, CHILDPOS) /\
  get "position.setter" "assign" "rel_child_pos" 0 flow = PBin "-" (PName "child_pos") (PName "old_pos") /\
  (* the child is updated THROUGH ITS OWN SETTER (recursion into nested collections) *)
  find_nth "position.setter" "assign" "child.position" 0 flow =
    Some (PBin "+" SELFPOS (PName "rel_child_pos")) /\
  set_position_t (Node o (c :: rest)) ps =
    Node {| pos := ps; ori := pad_slice_path gone ps (ori o) |}
      (let old_pos := pad_slice_path vzero ps (pos o) in
       let child_pos := pad_slice_path vzero ps (pos (nobj c)) in
       let rel_child_pos := zipw vsub child_pos old_pos in
       set_position_t c (zipw vadd ps rel_child_pos) :: setpos_children set_position_t ps old_pos rest).
Proof. repeat split; reflexivity. Qed.

Definition e_os_pos := get "orientation.setter" "assign" "self._position" 0 flow.
Definition e_os_child := get "orientation.setter" "assign" "child.position" 0 flow.
Definition e_os_oldpad := get "orientation.setter" "assign" "old_ori_pad" 0 flow.
Definition e_os_rot := get "orientation.setter" "expr" "" 0 flow.

Theorem orientation_setter_translated :
  psp_args e_os_pos = Some (PName "oriQ", SELFPOS) /\
  psp_args e_os_child = Some (SELFPOS, CHILDPOS) /\
  e_os_oldpad = PCall (PAttr (PName "R") "from_quat")
                  [PCall (PAttr (PName "np") "squeeze")
                     [PCall (PName "pad_slice_path") [PName "oriQ"; PName "old_oriQ"] []] []] [] /\
  (callee e_os_rot, arg 0 e_os_rot, kwnames e_os_rot, kwarg "anchor" e_os_rot, kwarg "start" e_os_rot) =
    (PAttr (PName "child") "rotate",
     PBin "*" (PAttr (PName "self") "orientation") (PCall (PAttr (PName "old_ori_pad") "inv") [] []),
     ["anchor"; "start"], SELFPOS, PInt 0) /\
  (* reset_path = position setter with (0,0,0), then orientation setter with None *)
  (find_nth "reset_path" "assign" "self.position" 0 flow, find_nth "reset_path" "assign" "self.orientation" 0 flow)
    = (Some (PTuple [PInt 0; PInt 0; PInt 0]), Some PNone).
Proof. repeat split; reflexivity. Qed.

End Semantic.

(* ---- (1) the whole flow, statement for statement (last, so that a more specific lemma above fails first) *)
Theorem flow_translated : flow = expected_flow.
Proof. vm_compute. reflexivity. Qed.

Theorem front_ends_translated : front_ends = expected_front_ends.
Proof. vm_compute. reflexivity. Qed.

(* every rotate_from_* hands plain names through to R.from_<x> (positionally or under their own
   keyword) and calls self.rotate(rot, anchor, start) *)
Theorem front_ends_passthrough :
  forallb (fun fe => let '(_, _, cargs, rargs) := fe in passthrough cargs && rotate_call_ok rargs)
          front_ends = true.
Proof. vm_compute. reflexivity. Qed.

(* rotate_from_euler: seq and angle reach scipy unchanged and in scipy's order *)
Theorem euler_front_end :
  In ("rotate_from_euler", "from_euler", [("", "seq"); ("", "angle"); ("degrees", "degrees")],
      [("", "rot"); ("anchor", "anchor"); ("start", "start")]) front_ends.
Proof. vm_compute. tauto. Qed.

