(* The forest invariant of C11 (as a proposition) and the refutation witnesses for the
   magpylib 5.1.1 semantics. *)
From Coq Require Import List Bool Arith PeanoNat Lia.
From MV Require Import Model.ForestModel Model.ForestExec.
Import ListNotations.

(* x has ancestor a : transitive closure of the parent pointer *)
Inductive anc (s : state) : nat -> nat -> Prop :=
| anc_parent x p : parent (get s x) = Some p -> anc s x p
| anc_step x p a : parent (get s x) = Some p -> anc s p a -> anc s x a.

Definition views_ok (s : state) (c : nat) : Prop :=
  sources (get s c) = filter (is_k KSource s) (children (get s c)) /\
  sensors (get s c) = filter (is_k KSensor s) (children (get s c)) /\
  collections (get s c) = filter (is_k KColl s) (children (get s c)).

Record Inv (s : state) : Prop := mkInv {
  (* an object's parent is a collection of the store that lists it exactly once *)
  inv_parent : forall x p, parent (get s x) = Some p ->
      p < length s /\ kd s p = KColl /\ count x (children (get s p)) = 1;
  (* ... and vice versa: a listed child is a live object whose parent is the lister
     (hence at most one parent, see one_parent) *)
  inv_child : forall p x, In x (children (get s p)) ->
      x < length s /\ kd s x <> KJunk /\ parent (get s x) = Some p;
  inv_leaf : forall i, kd s i <> KColl -> children (get s i) = [];
  (* no collection contains itself directly or indirectly *)
  inv_acyclic : forall x, ~ anc s x x;
  (* the cached typed lists are the ordered typed filters of children *)
  inv_views : forall c, views_ok s c }.

(* pre-order flattening of the subtrees below a list of objects, as a relation (no fuel):
   a derivation exists only if the tree below is finite *)
Inductive Flat (s : state) : list nat -> list nat -> Prop :=
| Flat_nil : Flat s [] []
| Flat_leaf o l r : kd s o <> KColl -> Flat s l r -> Flat s (o :: l) (o :: r)
| Flat_coll o l r1 r2 : kd s o = KColl ->
    Flat s (children (get s o)) r1 -> Flat s l r2 -> Flat s (o :: l) (o :: r1 ++ r2).

(* ---------------------------------------------------------------- witnesses (5.1.1 semantics) *)
(* add(a, b) with b already parented and override_parent=False: a keeps a parent that does not
   list it *)
Definition witness_add : list op :=
  [NewObj KSensor; NewObj KSensor; Ctor [1] false; NewObj KColl; Add 3 [0; 1] false].
(* a + b with b parented: a's parent is the half-built, otherwise unreachable collection *)
Definition witness_plus : list op :=
  [NewObj KSensor; NewObj KSensor; Ctor [1] false; Plus 0 1].
(* add(a, a) *)
Definition witness_dup : list op := [NewObj KSensor; NewObj KColl; Add 1 [0; 0] false].
(* children = [x, 1]: old children detached, typed lists still list them *)
Definition witness_setter : list op :=
  [NewObj KSensor; NewObj KSource; Ctor [0; 1] false; NewObj KJunk; SetChildren 2 [0; 3]].

(* remove(coll, x) with x inside coll: a SUCCESSFUL call; x loses its parent, coll keeps listing it *)
Definition witness_remove : list op :=
  [NewObj KColl; NewObj KColl; NewObj KSensor; Add 1 [2] false; Add 0 [1] false;
   Remove 0 [1; 2] true ERaise].

Lemma witness_remove_breaks : ~ Inv (run current [] witness_remove).
Proof.
  intros H. destruct (inv_child _ H 1 2) as (_ & _ & Hc).
  - vm_compute. auto.
  - vm_compute in Hc. discriminate.
Qed.

Lemma witness_add_breaks : ~ Inv (run current [] witness_add).
Proof.
  intros H. destruct (inv_parent _ H 0 3 eq_refl) as (_ & _ & Hc).
  vm_compute in Hc. discriminate.
Qed.

Lemma witness_plus_breaks : ~ Inv (run current [] witness_plus).
Proof.
  intros H. destruct (inv_parent _ H 0 3 eq_refl) as (_ & _ & Hc).
  vm_compute in Hc. discriminate.
Qed.

Lemma witness_dup_breaks : ~ Inv (run current [] witness_dup).
Proof.
  intros H. destruct (inv_parent _ H 0 1 eq_refl) as (_ & _ & Hc).
  vm_compute in Hc. discriminate.
Qed.

Lemma witness_setter_breaks : ~ Inv (run current [] witness_setter).
Proof.
  intros H. destruct (inv_views _ H 2) as (Hs & _).
  vm_compute in Hs. discriminate.
Qed.

(* the same histories are harmless under the repaired semantics (executable invariant) *)
Lemma witnesses_repaired :
  forallb (fun h => inv_b (run repaired [] h))
          [witness_add; witness_plus; witness_dup; witness_setter; witness_remove] = true.
Proof. vm_compute. reflexivity. Qed.

(* each repair alone removes its own witness only *)
Lemma witnesses_mixed :
  inv_b (run (mkVariant true false true) [] witness_add) = true /\
  inv_b (run (mkVariant true false true) [] witness_setter) = false /\
  inv_b (run (mkVariant false true true) [] witness_setter) = true /\
  inv_b (run (mkVariant false true true) [] witness_add) = false /\
  inv_b (run (mkVariant true true false) [] witness_remove) = false.
Proof. vm_compute. repeat split. Qed.

Lemma get_nil x : get [] x = junk_obj.
Proof. unfold get. destruct x; reflexivity. Qed.

Lemma inv_nil : Inv [].
Proof.
  split; intros.
  - rewrite get_nil in H. discriminate.
  - rewrite get_nil in H. contradiction.
  - rewrite get_nil. reflexivity.
  - intros H. inversion H; subst; rewrite get_nil in *; discriminate.
  - unfold views_ok. rewrite get_nil. simpl. auto.
Qed.

Lemma forest_invariant_current_refuted : exists h : list op, Inv [] /\ ~ Inv (run current [] h).
Proof. exists witness_add. split; [exact inv_nil | exact witness_add_breaks]. Qed.

Lemma views_current_refuted : exists h : list op, Inv [] /\
  ~ (forall c, views_ok (run (mkVariant true false true) [] h) c).
Proof.
  exists witness_setter. split; [exact inv_nil|].
  intros H. destruct (H 2) as (Hs & _). vm_compute in Hs. discriminate.
Qed.

Lemma remove_variant_refuted : exists h : list op, Inv [] /\
  ~ Inv (run (mkVariant true true false) [] h).
Proof.
  exists witness_remove. split; [exact inv_nil|].
  intros H. destruct (inv_child _ H 1 2) as (_ & _ & Hc).
  - vm_compute. auto.
  - vm_compute in Hc. discriminate.
Qed.

Lemma add_variant_refuted : exists h : list op, Inv [] /\
  ~ Inv (run (mkVariant false true true) [] h).
Proof.
  exists witness_add. split; [exact inv_nil|].
  intros H. destruct (inv_parent _ H 0 3 eq_refl) as (_ & _ & Hc).
  vm_compute in Hc. discriminate.
Qed.

Lemma setter_variant_refuted : exists h : list op, Inv [] /\
  ~ Inv (run (mkVariant true false true) [] h).
Proof.
  exists witness_setter. split; [exact inv_nil|].
  intros H. destruct (inv_views _ H 2) as (Hs & _). vm_compute in Hs. discriminate.
Qed.
