(* C18: every style keyword reaches the processed dictionary with the value given - None included. *)
From Coq Require Import List Arith PeanoNat Bool.
From MV Require Import Model.KwModel.
Import ListNotations.

Lemma lookup_filter_other k k' d : k' <> k ->
  lookup k (filter (fun p => negb (Nat.eqb (fst p) k')) d) = lookup k d.
Proof.
  intros H. induction d as [|[a v] r IH]; simpl; auto.
  destruct (Nat.eqb_spec a k'); simpl.
  - subst a. destruct (Nat.eqb_spec k' k); [contradiction | exact IH].
  - destruct (Nat.eqb a k); auto.
Qed.

Lemma lookup_dset d k v k0 :
  lookup k0 (dset d k v) = if Nat.eqb k k0 then Some v else lookup k0 d.
Proof.
  unfold dset. simpl. destruct (Nat.eqb_spec k k0); auto. apply lookup_filter_other. exact n.
Qed.

Lemma lookup_dupdate kws : forall d k,
  lookup k (dupdate d kws) = match given k kws with Some v => Some v | None => lookup k d end.
Proof.
  unfold dupdate. induction kws as [|[k' v] r IH]; intros d k; simpl; auto.
  rewrite IH. destruct (given k r); auto. rewrite lookup_dset. destruct (Nat.eqb k' k); reflexivity.
Qed.

(* the processed dictionary answers, for every key, the value the caller gave LAST for it - also
   when that value is None - and otherwise what the `style=` dictionary said *)
Theorem process_faithful style kws k d : kws <> [] -> process_style_kwargs style kws = Some d ->
  lookup k d = match given k kws with
               | Some v => Some v
               | None => match style with Some s => lookup k s | None => None end
               end.
Proof.
  intros Hne H. destruct kws as [|p r]; [contradiction|].
  assert (E : process_style_kwargs style (p :: r) =
              Some (dupdate (match style with None => [] | Some s => s end) (p :: r))) by reflexivity.
  rewrite E in H.
  assert (Hd : d = dupdate (match style with None => [] | Some s => s end) (p :: r)) by congruence.
  rewrite Hd, lookup_dupdate.
  destruct (given k (p :: r)); auto. destruct style; reflexivity.
Qed.

(* in particular a keyword whose value is None is NOT dropped *)
Corollary none_is_kept style kws k d : process_style_kwargs style kws = Some d ->
  given k kws = Some None -> lookup k d = Some None.
Proof.
  intros H G. assert (Hne : kws <> []) by (destruct kws; [simpl in G; discriminate | discriminate]).
  rewrite (process_faithful style kws k d Hne H), G. reflexivity.
Qed.

Lemma no_kwargs style : process_style_kwargs style [] = style.
Proof. reflexivity. Qed.
