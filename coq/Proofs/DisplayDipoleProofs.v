(* C19 -- make_Dipole: the arrow's +z axis is turned exactly onto the moment direction, for EVERY unit vector,
   including the degenerate ones (parallel and antiparallel to z) *)
From Coq Require Import Reals Lra Psatz.
From MV Require Import Model.DisplayRound Model.DisplayDipole.
Open Scope R_scope.

Lemma p3_ext (a b c x y z : R) : a = x -> b = y -> c = z -> (a, b, c) = (x, y, z).
Proof. intros -> -> ->. reflexivity. Qed.

Lemma sqrt_sq_nonneg x : 0 <= x -> sqrt (x * x) = x.
Proof. intros H. apply sqrt_square, H. Qed.

Lemma dipole_rotation_lem a b c : a * a + b * b + c * c = 1 ->
  rotvec_apply (dipole_rotvec (a, b, c)) zaxis = (a, b, c).
Proof.
  intros Hu. unfold dipole_rotvec, zaxis.
  cbn [cross3r dot3r zcomp].
  replace (a * 0 + b * 0 + c * 1) with c by ring.
  replace (b * 1 - c * 0) with b by ring. replace (c * 0 - a * 1) with (- a) by ring.
  replace (a * 0 - b * 0) with 0 by ring.
  unfold norm3r. cbn [dot3r].
  replace (b * b + - a * - a + 0 * 0) with (a * a + b * b) by ring.
  assert (Hc : -1 <= c <= 1) by nra.
  destruct (Req_EM_T (sqrt (a * a + b * b)) 0) as [E|E].
  - (* degenerate: a = b = 0, c = +-1 *)
    apply sqrt_eq_0 in E; [|nra].
    assert (Ha : a = 0) by nra. assert (Hb : b = 0) by nra. subst a b.
    assert (Hc2 : c = 1 \/ c = -1).
    { assert (H : (c - 1) * (c + 1) = 0) by nra. apply Rmult_integral in H. destruct H; [left|right]; lra. }
    destruct Hc2 as [-> | ->].
    + (* +z: no rotation *)
      rewrite acos_1. unfold np_sign. destruct (Rlt_dec 0 1) as [_|H]; [|lra].
      cbn [smul3r]. unfold rotvec_apply.
      replace (- 0 / 1 * - (1)) with 0 by field. replace (- 0 / 1 * 0) with 0 by field.
      unfold norm3r. cbn [dot3r]. replace (0 * 0 + 0 * 0 + 0 * 0) with 0 by ring. rewrite sqrt_0.
      destruct (Req_EM_T 0 0) as [_|H]; [reflexivity|lra].
    + (* -z: half turn about x *)
      replace (-1) with (- (1)) by ring. rewrite acos_opp, acos_1.
      unfold np_sign. destruct (Rlt_dec 0 (- (1))) as [H|_]; [lra|]. destruct (Rlt_dec (- (1)) 0) as [_|H]; [|lra].
      cbn [smul3r]. unfold rotvec_apply.
      replace (- (PI - 0) / 1 * - -1) with (- PI) by field. replace (- (PI - 0) / 1 * 0) with 0 by field.
      unfold norm3r. cbn [dot3r]. replace (- PI * - PI + 0 * 0 + 0 * 0) with (PI * PI) by ring.
      rewrite (sqrt_sq_nonneg PI) by (left; apply PI_RGT_0).
      destruct (Req_EM_T PI 0) as [H|_]; [pose proof PI_RGT_0; lra|].
      unfold rodrigues. cbn [smul3r cross3r dot3r add3r]. rewrite cos_PI, sin_PI.
      apply p3_ext; field; pose proof PI_RGT_0; lra.
  - (* generic: rotation about (z x m) by the angle between z and m *)
    set (n := sqrt (a * a + b * b)) in *.
    assert (Hn0 : 0 <= n) by apply sqrt_pos. assert (Hn : 0 < n) by lra.
    assert (Hnn : n * n = a * a + b * b) by (unfold n; apply sqrt_sqrt; nra).
    set (t := acos c).
    assert (Hcos : cos t = c) by (apply cos_acos; exact Hc).
    assert (Hsin : sin t = n).
    { unfold t. rewrite sin_acos by exact Hc. unfold n. f_equal. unfold Rsqr. lra. }
    assert (Ht0 : 0 <= t) by apply acos_bound.
    assert (Ht : 0 < t).
    { destruct Ht0 as [H|H]; [exact H|]. exfalso. rewrite <- H in Hsin. rewrite sin_0 in Hsin. lra. }
    cbn [smul3r]. unfold rotvec_apply.
    assert (Hnorm : norm3r (- t / n * b, - t / n * - a, - t / n * 0) = t).
    { unfold norm3r. cbn [dot3r].
      replace (- t / n * b * (- t / n * b) + - t / n * - a * (- t / n * - a) + - t / n * 0 * (- t / n * 0))
        with (t * t * ((a * a + b * b) / (n * n))) by (field; lra).
      rewrite <- Hnn. replace (t * t * (n * n / (n * n))) with (t * t) by (field; lra).
      apply sqrt_sq_nonneg. lra. }
    rewrite Hnorm. destruct (Req_EM_T t 0) as [H|_]; [lra|].
    unfold rodrigues. cbn [smul3r cross3r dot3r add3r]. rewrite Hcos, Hsin.
    apply p3_ext; field; lra.
Qed.

(* RECORD: the seeded variant C19-C leaves a moment antiparallel to z pointing along +z *)
Lemma dipole_seed_C19C_record : rotvec_apply (dipole_rotvec_seed_C19C (0, 0, -1)) zaxis = zaxis.
Proof.
  unfold dipole_rotvec_seed_C19C, zaxis. cbn [cross3r dot3r].
  replace (0 * 1 - -1 * 0) with 0 by ring. replace (-1 * 0 - 0 * 1) with 0 by ring. replace (0 * 0 - 0 * 0) with 0 by ring.
  cbn [smul3r]. set (s := - acos (0 * 0 + 0 * 0 + -1 * 1) / _).
  unfold rotvec_apply, norm3r. cbn [dot3r].
  replace (s * 0 * (s * 0) + s * 0 * (s * 0) + s * 0 * (s * 0)) with 0 by ring. rewrite sqrt_0.
  destruct (Req_EM_T 0 0) as [_|H]; [reflexivity|lra].
Qed.
