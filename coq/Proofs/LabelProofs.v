(* C18: the iterated label (add_iteration_suffix on ASCII strings). *)
From Coq Require Import List Ascii String Arith PeanoNat Lia Decimal DecimalNat.
From MV Require Import Model.LabelModel.
Import ListNotations.

Notation llen := List.length.
Notation lrev := List.rev.

Lemma uint_chars_digits u : forall c, In c (uint_chars u) -> is_digit c = true.
Proof. induction u; simpl; intros c H; try contradiction; destruct H as [<-|H]; auto. Qed.

Lemma chars_uint_chars u : chars_uint (uint_chars u) = u.
Proof. induction u; simpl; try reflexivity; unfold digit_of; simpl; rewrite IHu; reflexivity. Qed.

Lemma value_render n : value (render n) = n.
Proof. unfold value, render. rewrite chars_uint_chars. apply Unsigned.of_to. Qed.

Lemma value_zero d : value ("0"%char :: d) = value d.
Proof. reflexivity. Qed.

Lemma value_pad w d : value (pad w d) = value d.
Proof.
  unfold pad. induction (w - llen d) as [|k IH]; simpl; auto.
Qed.

Lemma pad_digits w d : (forall c, In c d -> is_digit c = true) ->
  forall c, In c (pad w d) -> is_digit c = true.
Proof.
  intros H c Hc. unfold pad in Hc. apply in_app_or in Hc. destruct Hc as [Hc|Hc]; auto.
  apply repeat_spec in Hc. subst. reflexivity.
Qed.

Definition head_nondigit (b : chars) : Prop :=
  match b with [] => True | c :: _ => is_digit c = false end.

Lemma take_digits_app a b : (forall c, In c a -> is_digit c = true) -> head_nondigit b ->
  take_digits (a ++ b) = (a, b).
Proof.
  induction a as [|x a IH]; intros Ha Hb; simpl.
  - destruct b as [|c b]; simpl in *; auto. rewrite Hb. reflexivity.
  - rewrite (Ha x) by (left; reflexivity). rewrite IH; auto. intros c Hc. apply Ha. right. exact Hc.
Qed.

Lemma take_digits_spec r : forall d rest, take_digits r = (d, rest) ->
  r = d ++ rest /\ (forall c, In c d -> is_digit c = true) /\ head_nondigit rest.
Proof.
  induction r as [|x r IH]; intros d rest H; simpl in H.
  - inversion H. simpl. auto.
  - destruct (is_digit x) eqn:E.
    + destruct (take_digits r) as [d' rest'] eqn:T. inversion H. subst.
      destruct (IH d' rest eq_refl) as (A & B & C). subst r. repeat split; auto.
      intros c [<-|Hc]; auto.
    + inversion H. subst. simpl. repeat split; auto.
Qed.

Lemma rev_digits d : (forall c, In c d -> is_digit c = true) ->
  forall c, In c (lrev d) -> is_digit c = true.
Proof. intros H c Hc. apply H. apply in_rev. exact Hc. Qed.

(* the number a label ends with goes up by exactly one *)
Theorem num_iter s : num (iter_chars s) = S (num s).
Proof.
  unfold num, iter_chars. destruct (take_digits (lrev s)) as [drev restrev] eqn:T.
  destruct (take_digits_spec _ _ _ T) as (Hr & Hd & Hn). simpl fst.
  destruct drev as [|x drev].
  - simpl in Hr. subst restrev.
    set (mid := match lrev s with "_"%char :: _ => [] | _ => ["_"%char] end).
    assert (Hm : head_nondigit (lrev mid ++ lrev s)).
    { unfold mid. destruct (lrev s) as [|c r] eqn:E; simpl; auto.
      destruct (ascii_dec c "_"%char) as [->|Hne].
      - reflexivity.
      - assert (M : match c with "_"%char => @nil ascii | _ => ["_"%char] end = ["_"%char]).
        { destruct c as [[] [] [] [] [] [] [] []]; try reflexivity. congruence. }
        rewrite M. reflexivity. }
    assert (E : lrev (s ++ mid ++ ["0"; "1"]%char) = (["1"; "0"]%char) ++ (lrev mid ++ lrev s)).
    { rewrite !rev_app_distr, <- app_assoc. reflexivity. }
    rewrite E. rewrite (take_digits_app (["1"; "0"]%char) (lrev mid ++ lrev s));
      [reflexivity | intros c [<-|[<-|[]]]; reflexivity | exact Hm].
  - set (d := lrev (x :: drev)).
    set (P := pad (llen d) (render (S (value d)))).
    assert (HP : forall c, In c P -> is_digit c = true).
    { apply pad_digits. apply uint_chars_digits. }
    rewrite rev_app_distr, rev_involutive.
    rewrite take_digits_app; auto.
    + simpl fst. rewrite rev_involutive. unfold P. rewrite value_pad, value_render. reflexivity.
    + apply rev_digits. exact HP.
Qed.

Theorem iter_differs s : iter_chars s <> s.
Proof. intros E. pose proof (num_iter s) as H. rewrite E in H. lia. Qed.

Fixpoint iterN (k : nat) (s : chars) : chars :=
  match k with 0 => s | S k' => iter_chars (iterN k' s) end.

Lemma num_iterN k s : num (iterN k s) = k + num s.
Proof. induction k; simpl; auto. rewrite num_iter, IHk. reflexivity. Qed.

(* copies of copies of ... never repeat a label *)
Theorem iterates_distinct s j k : iterN j s = iterN k s -> j = k.
Proof. intros E. pose proof (num_iterN j s). pose proof (num_iterN k s). rewrite E in H. lia. Qed.

(* the same on strings *)
Theorem iter_str_differs (s : string) : iter_str s <> s.
Proof.
  intros E. apply (iter_differs (list_ascii_of_string s)).
  unfold iter_str in E. rewrite <- E at 2. rewrite list_ascii_of_string_of_list_ascii. reflexivity.
Qed.

(* iterating is NOT injective: 'a', 'a_' and 'a_00' all become 'a_01' (and 'a9', 'a09' -> 'a10') *)
Theorem iter_not_injective : exists a b : string, a <> b /\ iter_str a = iter_str b.
Proof. exists "a"%string, "a_"%string. split; [discriminate | reflexivity]. Qed.
