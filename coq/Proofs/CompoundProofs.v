(* Proofs about CompoundModel: an operation applied to a collection transforms the
   collection and every node below it "together", so that relative poses are kept. *)
From Coq Require Import ZArith List Bool Lia ZifyBool.
From MV Require Import Lib.ListZ Lib.Rigid Gen.GenPath Model.PathModel Proofs.PathProofs
  Model.CompoundModel.
Import ListNotations.
Open Scope Z_scope.

Section TreeBasics.
Context {O : RigidOps}.

(* induction over rose trees *)
Lemma node_ind' (P : node -> Prop) :
  (forall o ch, Forall P ch -> P (Node o ch)) -> forall t, P t.
Proof.
  intros H. fix IH 1. intros [o ch]. apply H.
  induction ch as [|c r IHr]; constructor; [apply IH | exact IHr].
Qed.

(* apply f to the object of every node *)
Fixpoint tmap (f : obj -> obj) (t : node) : node :=
  match t with Node o ch => Node (f o) (map (tmap f) ch) end.

Lemma tree_all_node P o ch : tree_all P (Node o ch) <-> P o /\ Forall (tree_all P) ch.
Proof.
  cbn [tree_all]. split; intros [Ho Hc]; split; auto.
  - induction ch as [|c r IH]; constructor; [apply Hc | apply IH, Hc].
  - induction Hc as [|c r Hc Hr IH]; [exact I | split; assumption].
Qed.

Lemma tree_all_tmap (P : obj -> Prop) f t :
  (forall o, P o -> P (f o)) -> tree_all P t -> tree_all P (tmap f t).
Proof.
  intros Hf. induction t as [o ch IH] using node_ind'. intros H.
  apply tree_all_node in H. destruct H as [Ho Hc]. cbn [tmap]. apply tree_all_node. split; [auto|].
  rewrite Forall_map. rewrite Forall_forall in *. intros c Hin. apply IH; auto.
Qed.

Lemma tmap_ext f g t : (forall o, f o = g o) -> tmap f t = tmap g t.
Proof.
  intros E. induction t as [o ch IH] using node_ind'. cbn [tmap]. rewrite E. f_equal.
  apply map_ext_in. rewrite Forall_forall in IH. exact IH.
Qed.

Lemma tmap_ext_all (P : obj -> Prop) f g t :
  (forall o, P o -> f o = g o) -> tree_all P t -> tmap f t = tmap g t.
Proof.
  intros E. induction t as [o ch IH] using node_ind'. intros H.
  apply tree_all_node in H. destruct H as [Ho Hc].
  cbn [tmap]. rewrite E by exact Ho. f_equal.
  apply map_ext_in. rewrite Forall_forall in *. intros c Hin. apply IH; auto.
Qed.

Lemma tmap_tmap f g t : tmap f (tmap g t) = tmap (fun o => f (g o)) t.
Proof.
  induction t as [o ch IH] using node_ind'. cbn [tmap]. f_equal.
  rewrite map_map. apply map_ext_in. rewrite Forall_forall in IH. exact IH.
Qed.

Lemma subtree_tmap f p : forall t,
  subtree_at p (tmap f t) = option_map (tmap f) (subtree_at p t).
Proof.
  induction p as [|i p IH]; intros [o ch]; [reflexivity|].
  cbn [subtree_at tmap nch]. rewrite nth_error_map.
  destruct (nth_error ch i) as [c|]; cbn [option_map]; [apply IH | reflexivity].
Qed.

Lemma nobj_tmap f t : nobj (tmap f t) = f (nobj t).
Proof. destruct t; reflexivity. Qed.

Lemma subtree_app p q t :
  subtree_at (p ++ q) t = match subtree_at p t with Some c => subtree_at q c | None => None end.
Proof.
  revert t. induction p as [|i p IH]; intros t; [reflexivity|].
  cbn [app subtree_at]. destruct (nth_error (nch t) i); [apply IH | reflexivity].
Qed.

Lemma tree_all_subtree P p : forall t c, tree_all P t -> subtree_at p t = Some c -> tree_all P c.
Proof.
  induction p as [|i p IH]; intros [o ch] c H E.
  - cbn in E. inversion E. subst. exact H.
  - cbn [subtree_at nch] in E. destruct (nth_error ch i) as [c0|] eqn:En; [|discriminate].
    apply tree_all_node in H. destruct H as [_ Hc]. rewrite Forall_forall in Hc.
    apply (IH c0 c); [apply Hc; eapply nth_error_In; eauto | exact E].
Qed.

(* ---- at_path: only the addressed subtree changes *)
Lemma nth_error_upd_nth {A} (f : A -> A) i : forall (l : list A) j,
  nth_error (upd_nth i f l) j =
  if Nat.eqb i j then option_map f (nth_error l j) else nth_error l j.
Proof.
  induction i as [|i IH]; intros [|x l] [|j]; cbn [upd_nth nth_error Nat.eqb option_map]; auto;
    try (destruct (Nat.eqb i j); reflexivity).
Qed.

Lemma subtree_at_path_prefix f p q : forall t,
  subtree_at (p ++ q) (at_path f p t) =
  match subtree_at p t with Some x => subtree_at q (f x) | None => None end.
Proof.
  induction p as [|i p IH]; intros t; [reflexivity|].
  destruct t as [o ch]. cbn [app at_path subtree_at nch].
  rewrite nth_error_upd_nth, Nat.eqb_refl.
  destruct (nth_error ch i) as [c|]; cbn [option_map]; [apply IH | reflexivity].
Qed.

(* a node that is not inside the addressed subtree keeps its object *)
Lemma nobj_at_path_other f p : forall q t c,
  is_prefix p q = false -> subtree_at q t = Some c ->
  exists c', subtree_at q (at_path f p t) = Some c' /\ nobj c' = nobj c.
Proof.
  induction p as [|i p IH]; intros q t c Hp E; [discriminate|].
  destruct t as [o ch]. destruct q as [|j q].
  - cbn in E. inversion E; subst. eexists; split; reflexivity.
  - cbn [is_prefix] in Hp. cbn [at_path subtree_at nch] in *.
    rewrite nth_error_upd_nth.
    destruct (Nat.eqb_spec i j) as [->|Hne].
    + cbn [andb] in Hp. destruct (nth_error ch j) as [c0|]; [|discriminate].
      cbn [option_map]. apply IH; assumption.
    + destruct (nth_error ch j) as [c0|]; [|discriminate]. exists c. split; [exact E|reflexivity].
Qed.

End TreeBasics.

Section Frame.
Context {O : RigidOps}.

(* an operation applied to the node at p leaves the pose of every node that is not p or
   below p exactly as it was (in particular: operating on a leaf changes only that leaf) *)
Theorem op_frame (t : node) (p : tpath) (x : op) (q : tpath) (c : node) :
  is_prefix p q = false -> subtree_at q t = Some c ->
  exists c', subtree_at q (tree_step t (p, x)) = Some c' /\ nobj c' = nobj c.
Proof. intros Hp E. unfold tree_step. cbn [fst snd]. apply nobj_at_path_other; assumption. Qed.

End Frame.

(* ------------------------------------------------------------------ algebra of relative poses *)
Section Algebra.
Context {O : RigidOps} {L : RigidLaws O}.

Lemma vsub_add_cancel_r a b x : vsub (vadd a x) (vadd b x) = vsub a b.
Proof.
  unfold vsub. rewrite vneg_add. rewrite (vadd_comm (vneg b)).
  rewrite <- (vadd_assoc a x). rewrite (vadd_assoc x). rewrite vadd_neg_r, vadd_0_l. reflexivity.
Qed.

Lemma vadd_vsub_cancel a b : vadd a (vsub b a) = b.
Proof. rewrite vadd_comm. apply vsub_add. Qed.

Lemma vsub_add_l a b : vsub (vadd a b) a = b.
Proof. rewrite (vadd_comm a b). apply vadd_sub. Qed.

(* ps + (y - x) - (ps + (c - x)) = y - c *)
Lemma shift_cancel ps x c y :
  vsub (vadd ps (vsub y x)) (vadd ps (vsub c x)) = vsub y c.
Proof.
  rewrite (vadd_comm ps (vsub y x)), (vadd_comm ps (vsub c x)).
  rewrite vsub_add_cancel_r. unfold vsub at 2 3. apply vsub_add_cancel_r.
Qed.

(* (ps + (c - x)) + (y - c) = ps + (y - x) *)
Lemma shift_chain ps x c y :
  vadd (vadd ps (vsub c x)) (vsub y c) = vadd ps (vsub y x).
Proof.
  rewrite <- vadd_assoc. f_equal. unfold vsub.
  rewrite (vadd_comm c (vneg x)). rewrite <- vadd_assoc. rewrite (vadd_comm y (vneg c)).
  rewrite (vadd_assoc c). rewrite vadd_neg_r, vadd_0_l. apply vadd_comm.
Qed.

Lemma act_inv_mul r q v : act (ginv (gmul r q)) (act r v) = act (ginv q) v.
Proof. rewrite ginv_mul, act_mul, act_inv_l. reflexivity. Qed.

Lemma gmul_inv_mul r q q' : gmul (ginv (gmul r q)) (gmul r q') = gmul (ginv q) q'.
Proof.
  rewrite ginv_mul. rewrite <- (gmul_assoc (ginv q)). rewrite (gmul_assoc (ginv r)).
  rewrite gmul_inv_l, gmul_1_l. reflexivity.
Qed.

(* both rotated by r about the same anchor a *)
Lemma rel_rot_same r a pc pd qc :
  act (ginv (gmul r qc)) (vsub (vadd (act r (vsub pd a)) a) (vadd (act r (vsub pc a)) a))
  = act (ginv qc) (vsub pd pc).
Proof.
  rewrite vsub_add_cancel_r. rewrite <- act_sub. unfold vsub at 2 3.
  rewrite vsub_add_cancel_r. apply act_inv_mul.
Qed.

(* the collection turns in place, the member rotates about the collection's position *)
Lemma rel_rot_parent r pc pd qc :
  act (ginv (gmul r qc)) (vsub (vadd (act r (vsub pd pc)) pc) pc) = act (ginv qc) (vsub pd pc).
Proof. rewrite vadd_sub. apply act_inv_mul. Qed.

(* orientation setter: the collection gets orientation qn, the member is rotated by
   qn * qo^-1 about the collection's position *)
Lemma rel_setori qn qo pc pd :
  act (ginv qn) (vsub (vadd (act (gmul qn (ginv qo)) (vsub pd pc)) pc) pc) = act (ginv qo) (vsub pd pc).
Proof. rewrite vadd_sub. rewrite act_mul. apply act_inv_l. Qed.

Lemma rel_setori_g qn qo qd : gmul (ginv qn) (gmul (gmul qn (ginv qo)) qd) = gmul (ginv qo) qd.
Proof.
  rewrite <- (gmul_assoc qn). rewrite (gmul_assoc (ginv qn)). rewrite gmul_inv_l, gmul_1_l. reflexivity.
Qed.

Lemma rel_pose_self (c : obj) i : rel_pose c c i = (vzero, gone).
Proof. unfold rel_pose. rewrite vsub_self, act_zero, gmul_inv_l. reflexivity. Qed.

End Algebra.

(* ------------------------------------------------------------------ list helpers *)
Section ListHelpers.

Lemma zlen_zipw {A B C} (f : A -> B -> C) l1 l2 : zlen (zipw f l1 l2) = Z.min (zlen l1) (zlen l2).
Proof. unfold zipw, zlen. rewrite map_length, combine_length. lia. Qed.

Lemma combine_nth_lt {A B} (da : A) (db : B) : forall l1 l2 n,
  (n < length l1)%nat -> (n < length l2)%nat ->
  nth n (combine l1 l2) (da, db) = (nth n l1 da, nth n l2 db).
Proof.
  induction l1 as [|x l1 IH]; intros [|y l2] [|n] H1 H2; cbn in *; try lia; auto.
  apply IH; lia.
Qed.

Lemma nth_zipw {A B C} (f : A -> B -> C) da db dc l1 l2 i :
  0 <= i < zlen l1 -> i < zlen l2 ->
  nthZ dc (zipw f l1 l2) i = f (nthZ da l1 i) (nthZ db l2 i).
Proof.
  intros H1 H2. unfold nthZ. destruct (Z.ltb_spec i 0); [lia|].
  unfold zipw. unfold zlen in *.
  rewrite (nth_indep _ dc (f da db)) by (rewrite map_length, combine_length; lia).
  change (f da db) with ((fun ab => f (fst ab) (snd ab)) (da, db)).
  rewrite map_nth. rewrite combine_nth_lt by lia. reflexivity.
Qed.

End ListHelpers.
