(* C13 -- np.unique(axis=0) as modelled by unique_rows: the vertex list is strictly sorted (lexicographic order
   of numpy) and therefore duplicate-free. *)
From Coq Require Import ZArith List Bool Sorted Lia.
From MV Require Import Model.ReprModel Proofs.ReprProofs.
Import ListNotations.

Section Sorted.
Context {A : Type}.
Variable eqb : A -> A -> bool.
Variable ltb : A -> A -> bool.
Hypothesis eqb_spec : forall x y, eqb x y = true <-> x = y.
Hypothesis ltb_irrefl : forall x, ltb x x = false.
Hypothesis ltb_trans : forall x y z, ltb x y = true -> ltb y z = true -> ltb x z = true.
Hypothesis ltb_total : forall x y, eqb x y = false -> ltb x y = false -> ltb y x = true.

Let lt (a b : A) : Prop := ltb a b = true.

Lemma insert_u_sorted x l : StronglySorted lt l -> StronglySorted lt (insert_u eqb ltb x l).
Proof.
  induction l as [|y t IH]; intros Hs; simpl.
  - constructor; constructor.
  - inversion Hs as [|? ? Hst Hall]; subst.
    destruct (eqb x y) eqn:E; [exact Hs|].
    destruct (ltb x y) eqn:L.
    + constructor; [exact Hs|]. constructor; [exact L|].
      eapply Forall_impl; [|exact Hall]. intros z Hz. unfold lt in *. eapply ltb_trans; eauto.
    + constructor; [apply IH; exact Hst|].
      apply Forall_forall. intros z Hz. apply (insert_u_in eqb ltb eqb_spec) in Hz. destruct Hz as [->|Hz].
      * unfold lt. apply ltb_total; [exact E|exact L].
      * rewrite Forall_forall in Hall. apply Hall; exact Hz.
Qed.

Lemma unique_rows_sorted l : StronglySorted lt (unique_rows eqb ltb l).
Proof. induction l as [|x t IH]; simpl; [constructor|apply insert_u_sorted; exact IH]. Qed.

Lemma sorted_nodup l : StronglySorted lt l -> NoDup l.
Proof.
  induction 1 as [|a t Hs IH Hall]; constructor; [|exact IH].
  intros Hin. rewrite Forall_forall in Hall. specialize (Hall a Hin). unfold lt in Hall.
  rewrite ltb_irrefl in Hall. discriminate.
Qed.

Theorem mesh_vertices_sorted_nodup (mesh : list (tri3 A)) :
  StronglySorted (fun a b => ltb a b = true) (mesh_vertices eqb ltb mesh) /\ NoDup (mesh_vertices eqb ltb mesh).
Proof.
  unfold mesh_vertices. split; [apply unique_rows_sorted|apply sorted_nodup; apply unique_rows_sorted].
Qed.
End Sorted.

(* numpy's lexicographic row order on integer rows is such an order *)
Lemma z3_ltb_irrefl x : z3_ltb x x = false.
Proof. destruct x as [[a b] c]. unfold z3_ltb. rewrite !Z.ltb_irrefl, !Z.eqb_refl. reflexivity. Qed.

Lemma z3_ltb_iff x y : z3_ltb x y = true <->
  let '(a, b, c) := x in let '(a', b', c') := y in (a < a' \/ (a = a' /\ (b < b' \/ (b = b' /\ c < c'))))%Z.
Proof.
  destruct x as [[a b] c], y as [[a' b'] c']. unfold z3_ltb.
  rewrite !orb_true_iff, !andb_true_iff, !orb_true_iff, !andb_true_iff, !Z.ltb_lt, !Z.eqb_eq. tauto.
Qed.

Lemma z3_ltb_trans x y z : z3_ltb x y = true -> z3_ltb y z = true -> z3_ltb x z = true.
Proof.
  rewrite !z3_ltb_iff. destruct x as [[a b] c], y as [[a' b'] c'], z as [[a'' b''] c'']. lia.
Qed.

Lemma z3_ltb_total x y : z3_eqb x y = false -> z3_ltb x y = false -> z3_ltb y x = true.
Proof.
  intros E L. apply z3_ltb_iff.
  assert (Hn : x <> y) by (intros ->; rewrite (proj2 (z3_eqb_spec y y) eq_refl) in E; discriminate).
  assert (Hl : ~ (z3_ltb x y = true)) by (rewrite L; discriminate).
  rewrite z3_ltb_iff in Hl. destruct x as [[a b] c], y as [[a' b'] c'].
  assert (a <> a' \/ b <> b' \/ c <> c')%Z.
  { destruct (Z.eq_dec a a'), (Z.eq_dec b b'), (Z.eq_dec c c'); subst; try tauto. }
  lia.
Qed.

Theorem z3_mesh_vertices_sorted_nodup (mesh : list (tri3 z3)) :
  StronglySorted (fun a b => z3_ltb a b = true) (mesh_vertices z3_eqb z3_ltb mesh) /\
  NoDup (mesh_vertices z3_eqb z3_ltb mesh).
Proof.
  apply (mesh_vertices_sorted_nodup z3_eqb z3_ltb z3_eqb_spec z3_ltb_irrefl z3_ltb_trans z3_ltb_total).
Qed.
