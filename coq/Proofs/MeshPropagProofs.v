(* C16 -- the global propagation theorem for get_inwards_mask (model in Model/MeshModel.v):
   if SOME choice of per-face reversals makes the mesh consistently wound (no directed edge used twice),
   then whatever the geometric seed test answers, the reoriented mesh is consistently wound.
   Proof: induction over the propagation loop with the invariant that the faces of the current seed's group
   carry the consistent winding up to one global reversal, that free_edges is exactly the set of their
   directed edges, and that closed groups share no undirected edge with anything else. *)
From Coq Require Import NArith List Bool Arith Lia Permutation FinFun.
From MV Require Import Model.MeshModel Model.MeshSpec Proofs.MeshOpenProofs Proofs.MeshOrientProofs.
Import ListNotations.

(* ------------------------------------------------------------------ faces, windings, edges *)
Definition orient (b : bool) (f : face) : face := if b then flip_face f else f.
Definition dir_disjoint (f g : face) : Prop := forall e, In e (edges_of f) -> ~ In e (edges_of g).
Definition und_disjoint (f g : face) : Prop :=
  forall e, In e (edges_of f) -> ~ In e (edges_of g) /\ ~ In (rev_e e) (edges_of g).

Lemma flip_invol f : flip_face (flip_face f) = f.
Proof. destruct f as [[a b] c]. reflexivity. Qed.

Lemma orient_invol a f : orient a (orient a f) = f.
Proof. destruct a; simpl; [apply flip_invol | reflexivity]. Qed.

Lemma edges_flip_eq f : edges_of (flip_face f) = rev (map rev_e (edges_of f)).
Proof. destruct f as [[a b] c]. reflexivity. Qed.

Lemma rev_e_inj : Injective rev_e.
Proof. intros [a b] [c d] H. unfold rev_e in H. simpl in H. inversion H. reflexivity. Qed.

Lemma edges_flip_rev f e : In e (edges_of (flip_face f)) <-> In (rev_e e) (edges_of f).
Proof.
  rewrite edges_flip_eq, <- in_rev, in_map_iff. split.
  - intros [x [<- Hx]]. rewrite rev_rev. exact Hx.
  - intros H. exists (rev_e e). split; [apply rev_rev | exact H].
Qed.

Lemma edges_orient b f e : In e (edges_of (orient b f)) <-> In (if b then rev_e e else e) (edges_of f).
Proof. destruct b; simpl; [apply edges_flip_rev | reflexivity]. Qed.

Lemma NoDup_edges_flip f : NoDup (edges_of f) -> NoDup (edges_of (flip_face f)).
Proof. intros H. rewrite edges_flip_eq. apply NoDup_rev, Injective_map_NoDup; [exact rev_e_inj | exact H]. Qed.

Lemma NoDup_edges_orient x y f : NoDup (edges_of (orient x f)) -> NoDup (edges_of (orient y f)).
Proof.
  destruct x, y; simpl; auto.
  - intros H. apply NoDup_edges_flip in H. rewrite flip_invol in H. exact H.
  - apply NoDup_edges_flip.
Qed.

Lemma edges_nonempty f : exists e, In e (edges_of f).
Proof. exists (f0 f, f1 f). left. reflexivity. Qed.

Lemma und_orient_1 f g a b : und_disjoint f g -> und_disjoint (orient a f) (orient b g).
Proof.
  intros H e He. apply edges_orient in He. rewrite !edges_orient.
  destruct (H _ He) as [H1 H2]. destruct a, b; rewrite ?rev_rev in *; auto.
Qed.

Lemma und_orient f g a b : und_disjoint (orient a f) (orient b g) <-> und_disjoint f g.
Proof.
  split; [| apply und_orient_1]. intros H.
  rewrite <- (orient_invol a f), <- (orient_invol b g). apply und_orient_1, H.
Qed.

Lemma und_sym f g : und_disjoint f g -> und_disjoint g f.
Proof.
  intros H e He. split; intros Hf.
  - destruct (H _ Hf) as [H1 _]. auto.
  - destruct (H _ Hf) as [_ H2]. rewrite rev_rev in H2. auto.
Qed.

Lemma und_dir f g a b : und_disjoint f g -> dir_disjoint (orient a f) (orient b g).
Proof. intros H e He. apply (und_orient_1 f g a b H e He). Qed.

Lemma dir_flip f g : dir_disjoint f g -> dir_disjoint (flip_face f) (flip_face g).
Proof. intros H e He. rewrite edges_flip_rev in *. apply H, He. Qed.

(* ------------------------------------------------------------------ lists *)
Lemma nth_upd_same {i} f m d : i < length m -> nth i (upd i f m) d = f (nth i m d).
Proof. revert i. induction m as [| x m IH]; intros [| i] H; simpl in *; try lia; auto. apply IH. lia. Qed.

Lemma nth_upd_other i j f m d : i <> j -> nth j (upd i f m) d = nth j m d.
Proof. revert i j. induction m as [| x m IH]; intros [| i] [| j] H; simpl; auto; try lia. Qed.

Lemma set_all_notin i b inds : forall m d, ~ In i inds -> nth i (set_all inds b m) d = nth i m d.
Proof.
  unfold set_all. induction inds as [| a r IH]; intros m d H; simpl; [reflexivity |].
  rewrite IH by (intros Hc; apply H; right; exact Hc). apply nth_upd_other. intros ->. apply H. left. reflexivity.
Qed.

Lemma set_all_in i b inds : forall m, In i inds -> i < length m -> nth i (set_all inds b m) false = b.
Proof.
  induction inds as [| a r IH]; intros m Hin Hl; [destruct Hin |].
  change (set_all (a :: r) b m) with (set_all r b (upd a (fun _ => b) m)).
  destruct (in_dec Nat.eq_dec i r) as [Hr | Hr].
  - apply IH; [exact Hr | rewrite upd_length; exact Hl].
  - destruct Hin as [-> | Hin]; [| contradiction].
    rewrite set_all_notin by exact Hr. apply (nth_upd_same (fun _ => b)). exact Hl.
Qed.

Lemma remove_first_In i l x : NoDup l -> (In x (remove_first i l) <-> In x l /\ x <> i).
Proof.
  induction l as [| a r IH]; intros Hnd; simpl; [tauto |].
  inversion Hnd as [| ? ? Hna Hr]; subst.
  destruct (Nat.eqb_spec a i) as [-> | Hne].
  - split; [intros H; split; [right; exact H | intros ->; contradiction] | intros [[-> | H] Hx]; [congruence | exact H]].
  - simpl. rewrite (IH Hr). split.
    + intros [<- | [H Hx]]; [split; [left; reflexivity | exact Hne] | split; [right; exact H | exact Hx]].
    + intros [[<- | H] Hx]; [left; reflexivity | right; split; assumption].
Qed.

Lemma remove_first_NoDup i l : NoDup l -> NoDup (remove_first i l).
Proof.
  induction l as [| a r IH]; intros Hnd; simpl; [constructor |].
  inversion Hnd as [| ? ? Hna Hr]; subst. destruct (Nat.eqb a i); [exact Hr |].
  constructor; [| apply IH, Hr]. intros H. apply (remove_first_In i r a Hr) in H. tauto.
Qed.

Lemma remove_first_length i l : In i l -> S (length (remove_first i l)) = length l.
Proof.
  induction l as [| a r IH]; intros H; [destruct H |]. simpl.
  destruct (Nat.eqb_spec a i) as [-> | Hne]; [reflexivity |].
  simpl. f_equal. apply IH. destruct H; [congruence | assumption].
Qed.

Lemma find_tri_some tris free inds i fl es :
  find_tri tris free inds = Some (i, fl, es) -> In i inds /\ try_tri free (nth i tris dface) = Some (fl, es).
Proof.
  induction inds as [| a r IH]; simpl; [discriminate |].
  destruct (try_tri free (nth a tris dface)) as [[fl' es'] |] eqn:E.
  - intros H. inversion H; subst. split; [left; reflexivity | exact E].
  - intros H. destruct (IH H) as [H1 H2]. split; [right; exact H1 | exact H2].
Qed.

Lemma find_tri_none tris free inds :
  find_tri tris free inds = None -> forall k, In k inds -> try_tri free (nth k tris dface) = None.
Proof.
  induction inds as [| a r IH]; simpl; [intros _ k [] |].
  destruct (try_tri free (nth a tris dface)) as [[fl' es'] |] eqn:E; [discriminate |].
  intros H k [<- | Hk]; [exact E | apply IH; assumption].
Qed.

Lemma exor_spec s t e : In e (exor s t) <-> (In e s /\ ~ In e t) \/ (In e t /\ ~ In e s).
Proof.
  unfold exor. rewrite in_app_iff, !filter_In, !negb_true_iff, !emem_false. tauto.
Qed.

Lemma NoDup_app_iff {A} (a b : list A) :
  NoDup (a ++ b) <-> NoDup a /\ NoDup b /\ (forall x, In x a -> ~ In x b).
Proof.
  induction a as [| x a IH]; simpl.
  - split; [intros H; repeat split; [constructor | exact H | intros ? []] | tauto].
  - split.
    + intros H. inversion H as [| ? ? Hx Hr]; subst. apply IH in Hr. destruct Hr as [Ha [Hb Hd]].
      rewrite in_app_iff in Hx. repeat split.
      * constructor; tauto.
      * exact Hb.
      * intros y [<- | Hy]; [tauto | apply Hd, Hy].
    + intros [Ha [Hb Hd]]. inversion Ha as [| ? ? Hx Hr]; subst. constructor.
      * rewrite in_app_iff. intros [H | H]; [contradiction | apply (Hd x); [left; reflexivity | exact H]].
      * apply IH. repeat split; auto.
Qed.

Lemma concat_nodup_intro {A} (L : list (list A)) :
  (forall i, i < length L -> NoDup (nth i L [])) ->
  (forall i j, i < length L -> j < length L -> i <> j -> forall e, In e (nth i L []) -> ~ In e (nth j L [])) ->
  NoDup (concat L).
Proof.
  induction L as [| x L IH]; intros H1 H2; simpl; [constructor |].
  apply NoDup_app_iff. repeat split.
  - apply (H1 0). simpl. lia.
  - apply IH.
    + intros i Hi. apply (H1 (S i)). simpl. lia.
    + intros i j Hi Hj Hne. apply (H2 (S i) (S j)); simpl; lia.
  - intros e He Hc. apply in_concat in Hc. destruct Hc as [l [Hl Hel]].
    destruct (In_nth _ _ [] Hl) as [j [Hj Hnj]].
    apply (H2 0 (S j)) with (e := e); simpl; try lia; [exact He | rewrite Hnj; exact Hel].
Qed.

Lemma concat_nodup_elim {A} (L : list (list A)) : NoDup (concat L) ->
  (forall i, i < length L -> NoDup (nth i L [])) /\
  (forall i j, i < length L -> j < length L -> i <> j -> forall e, In e (nth i L []) -> ~ In e (nth j L [])).
Proof.
  induction L as [| x L IH]; intros H; simpl in *.
  - split; intros; lia.
  - apply NoDup_app_iff in H. destruct H as [Hx [HL Hd]]. destruct (IH HL) as [I1 I2]. split.
    + intros [| i] Hi; [exact Hx | apply I1; lia].
    + intros [| i] [| j] Hi Hj Hne e He; try lia.
      * intros Hc. apply (Hd e He). apply in_concat. exists (nth j L []). split; [apply nth_In; lia | exact Hc].
      * intros Hc. apply (Hd e Hc). apply in_concat. exists (nth i L []). split; [apply nth_In; lia | exact He].
      * apply (I2 i j); try lia. exact He.
Qed.

(* ------------------------------------------------------------------ the loop invariant *)
Section Propag.
Variable tris : list face.
Variable sigma : list bool.
Notation n := (length tris).

Definition tri (i : nat) : face := nth i tris dface.
Definition sgb (i : nat) : bool := nth i sigma false.
(* the consistent winding, globally reversed when d is set *)
Definition sg (d : bool) (i : nat) : face := orient (xorb (sgb i) d) (tri i).
Hypothesis Hsig : forall d i j, i < n -> j < n -> i <> j -> dir_disjoint (sg d i) (sg d j).

Definition mk (s : pstate) (i : nat) : bool := nth i (p_mask s) false.
(* face i as the final mask winds it / as it is wound in the frame of the current seed *)
Definition tau (s : pstate) (i : nat) : face := orient (mk s i) (tri i).
Definition rel (s : pstate) (b : bool) (i : nat) : face := orient (xorb (mk s i) b) (tri i).
Definition done (s : pstate) (i : nat) : Prop := i < n /\ ~ In i (p_indices s).

Definition Base (s : pstate) (cur : nat -> bool) : Prop :=
  NoDup (p_indices s) /\
  (forall i, In i (p_indices s) -> i < n) /\
  length (p_mask s) = n /\
  (forall i, cur i = true -> done s i) /\
  (forall j k, done s j -> cur j = false -> k < n -> (done s k -> cur k = true) -> und_disjoint (tri j) (tri k)) /\
  (forall i j, done s i -> done s j -> i <> j -> dir_disjoint (tau s i) (tau s j)).

Definition Grp (s : pstate) (cur : nat -> bool) (c b : bool) : Prop :=
  (forall i, cur i = true -> mk s i = xorb (sgb i) c) /\
  (forall e, In e (p_free s) <-> exists i, cur i = true /\ In e (edges_of (rel s b i))) /\
  (forall k, In k (p_indices s) -> mk s k = b).

Definition Inv (s : pstate) : Prop := exists cur c b,
  Base s cur /\ (p_any s = true -> Grp s cur c b) /\ (p_any s = false -> forall i, cur i = false).

Lemma attach s cur c b i fl es :
  Base s cur -> Grp s cur c b -> In i (p_indices s) ->
  (forall e, In e es <-> In e (edges_of (orient fl (tri i)))) ->
  xorb b fl = xorb (sgb i) c ->
  Inv (mkP (remove_first i (p_indices s)) (exor (p_free s) es)
           (if fl then upd i negb (p_mask s) else p_mask s) true (p_oracle s) (p_calls s)).
Proof.
  intros [B1 [B2 [B3 [B4 [B5 B6]]]]] [G1 [G2 G3]] Hi Hes Heq.
  set (s' := mkP (remove_first i (p_indices s)) (exor (p_free s) es)
                 (if fl then upd i negb (p_mask s) else p_mask s) true (p_oracle s) (p_calls s)).
  assert (Hin : i < n) by (apply B2, Hi).
  assert (Hmi : mk s i = b) by (apply G3, Hi).
  assert (Hcuri : cur i = false).
  { destruct (cur i) eqn:E; [| reflexivity]. destruct (B4 i E) as [_ H]. contradiction. }
  assert (Hmk' : forall k, mk s' k = if Nat.eqb k i then xorb b fl else mk s k).
  { intros k. unfold mk, s'. simpl. destruct (Nat.eqb_spec k i) as [-> | Hne].
    - destruct fl.
      + rewrite (nth_upd_same negb (p_mask s) false) by (rewrite B3; exact Hin).
        fold (mk s i). rewrite Hmi. destruct b; reflexivity.
      + fold (mk s i). rewrite Hmi. destruct b; reflexivity.
    - destruct fl; [apply nth_upd_other; congruence | reflexivity]. }
  assert (Hdone' : forall k, done s' k <-> done s k \/ k = i).
  { intros k. unfold done, s'. simpl. rewrite (remove_first_In i _ k B1). split.
    - intros [Hk Hn]. destruct (Nat.eq_dec k i) as [E | E]; [right; exact E | left].
      split; [exact Hk | intros Hc; apply Hn; split; assumption].
    - intros [[Hk Hn] | ->]; (split; [assumption || exact Hin | tauto]). }
  set (cur' := fun k => if Nat.eqb k i then true else cur k).
  assert (T1 : forall k, k <> i -> tau s' k = tau s k).
  { intros k Hk. unfold tau. rewrite Hmk'. destruct (Nat.eqb_spec k i); [contradiction | reflexivity]. }
  assert (T2 : tau s' i = sg c i).
  { unfold tau, sg. rewrite Hmk', Nat.eqb_refl, Heq. reflexivity. }
  assert (T3 : forall j, cur j = true -> tau s j = sg c j).
  { intros j Hj. unfold tau, sg. rewrite (G1 j Hj). reflexivity. }
  assert (P : forall j, done s j -> j <> i ->
              dir_disjoint (tau s' i) (tau s' j) /\ dir_disjoint (tau s' j) (tau s' i)).
  { intros j Hdj Hne. rewrite (T1 j Hne), T2. destruct (cur j) eqn:Ecj.
    - rewrite (T3 j Ecj). destruct Hdj as [Hj _]. split; apply Hsig; auto.
    - assert (U : und_disjoint (tri j) (tri i)).
      { apply (B5 j i Hdj Ecj Hin). intros [_ Hd]. contradiction. }
      unfold tau, sg. split; [apply und_dir, und_sym, U | apply und_dir, U]. }
  exists cur', c, b. split; [| split; [intros _ | intros H; discriminate]].
  - (* Base *)
    refine (conj _ (conj _ (conj _ (conj _ (conj _ _))))).
    + apply remove_first_NoDup, B1.
    + intros k Hk. simpl in Hk. apply (remove_first_In i _ k B1) in Hk. apply B2. tauto.
    + simpl. destruct fl; [rewrite upd_length |]; exact B3.
    + intros k H. apply Hdone'. unfold cur' in H. destruct (Nat.eqb_spec k i) as [E | Hne]; [right; exact E | left].
      apply B4, H.
    + intros j k Hdj Hcj Hk Hnk. unfold cur' in Hcj. destruct (Nat.eqb_spec j i) as [-> | Hne]; [discriminate |].
      apply Hdone' in Hdj. destruct Hdj as [Hdj | ->]; [| congruence].
      apply (B5 j k Hdj Hcj Hk). intros Hdk.
      assert (Hdk' : done s' k) by (apply Hdone'; left; exact Hdk).
      specialize (Hnk Hdk'). unfold cur' in Hnk. destruct (Nat.eqb_spec k i) as [-> | Hki]; [| exact Hnk].
      exfalso. destruct Hdk as [_ Hx]. contradiction.
    + intros a b0 Hda Hdb Hne. apply Hdone' in Hda. apply Hdone' in Hdb.
      destruct Hda as [Hda | ->], Hdb as [Hdb | ->].
      * destruct (Nat.eq_dec a i) as [-> | Ha]; [destruct Hda as [_ Hx]; contradiction |].
        destruct (Nat.eq_dec b0 i) as [-> | Hb]; [destruct Hdb as [_ Hx]; contradiction |].
        rewrite (T1 a Ha), (T1 b0 Hb). apply B6; assumption.
      * apply (P a Hda Hne).
      * apply (P b0 Hdb). congruence.
      * congruence.
  - (* Grp *)
    set (d := xorb c b).
    assert (R1 : forall j, cur j = true -> rel s b j = sg d j).
    { intros j Hj. unfold rel, sg, d. rewrite (G1 j Hj). f_equal. destruct (sgb j), c, b; reflexivity. }
    assert (R2 : rel s' b i = orient fl (tri i)).
    { unfold rel. rewrite Hmk', Nat.eqb_refl. f_equal. destruct b, fl; reflexivity. }
    assert (R3 : orient fl (tri i) = sg d i).
    { unfold sg, d. f_equal. destruct b, fl, (sgb i), c; simpl in *; congruence. }
    assert (R4 : forall k, k <> i -> rel s' b k = rel s b k).
    { intros k Hk. unfold rel. rewrite Hmk'. destruct (Nat.eqb_spec k i); [contradiction | reflexivity]. }
    assert (Disj : forall e j, cur j = true -> In e (edges_of (sg d j)) -> In e (edges_of (sg d i)) -> False).
    { intros e j Hj H1 H2. assert (Hji : j <> i) by (intros ->; congruence).
      destruct (B4 j Hj) as [Hjn _]. exact (Hsig d j i Hjn Hin Hji e H1 H2). }
    refine (conj _ (conj _ _)).
    + intros k Hk. unfold cur' in Hk. rewrite Hmk'. destruct (Nat.eqb_spec k i) as [E | Hne]; [rewrite E; exact Heq | apply G1, Hk].
    + intros e. split.
      { simpl. rewrite exor_spec. intros [[Hf Hn] | [He Hn]].
      * apply G2 in Hf. destruct Hf as [j [Hcj Hej]]. assert (Hji : j <> i) by (intros ->; congruence).
        exists j. split; [unfold cur'; destruct (Nat.eqb_spec j i); [reflexivity | exact Hcj] |].
        rewrite (R4 j Hji). exact Hej.
      * exists i. split; [unfold cur'; rewrite Nat.eqb_refl; reflexivity |]. rewrite R2. apply Hes, He. }
      simpl. rewrite exor_spec. intros [k [Hck Hek]]. unfold cur' in Hck.
      destruct (Nat.eqb_spec k i) as [E | Hne].
      * right. rewrite E, R2 in Hek. split; [apply Hes, Hek |]. intros Hf. apply G2 in Hf.
        destruct Hf as [j [Hcj Hej]]. rewrite (R1 j Hcj) in Hej. rewrite R3 in Hek. exact (Disj e j Hcj Hej Hek).
      * left. rewrite (R4 k Hne) in Hek. split; [apply G2; exists k; split; assumption |].
        intros He. apply Hes in He. rewrite R3 in He. rewrite (R1 k Hck) in Hek. exact (Disj e k Hck Hek He).
    + intros k Hk. simpl in Hk. apply (remove_first_In i _ k B1) in Hk. destruct Hk as [Hk Hne].
      rewrite Hmk'. destruct (Nat.eqb_spec k i); [contradiction | apply G3, Hk].
Qed.

Lemma cur_empty_of_free_nil s cur c b : Grp s cur c b -> p_free s = [] -> forall i, cur i = false.
Proof.
  intros [_ [G2 _]] Hf i. destruct (cur i) eqn:E; [| reflexivity].
  destruct (edges_nonempty (rel s b i)) as [e He].
  assert (H : In e (p_free s)) by (apply G2; exists i; auto). rewrite Hf in H. destruct H.
Qed.

Lemma step_norm s cur c b : Base s cur -> Grp s cur c b ->
  Inv (match find_tri tris (p_free s) (p_indices s) with
       | Some (i, fl, es) => mkP (remove_first i (p_indices s)) (exor (p_free s) es)
                               (if fl then upd i negb (p_mask s) else p_mask s) true (p_oracle s) (p_calls s)
       | None => mkP (p_indices s) (p_free s) (p_mask s) false (p_oracle s) (p_calls s)
       end).
Proof.
  intros HB HG.
  destruct (find_tri tris (p_free s) (p_indices s)) as [[[i fl] es] |] eqn:EF.
  - destruct (find_tri_some _ _ _ _ _ _ EF) as [Hi Ht]. change (nth i tris dface) with (tri i) in Ht.
    assert (Hcase : p_free s = [] \/ p_free s <> []) by (destruct (p_free s); [left; reflexivity | right; discriminate]).
    destruct Hcase as [Hf | Hne].
    + (* a new seed *)
      rewrite Hf in Ht. simpl in Ht. inversion Ht; subst fl es. clear Ht.
      pose proof (cur_empty_of_free_nil s cur c b HG Hf) as Hcur.
      destruct HG as [G1 [G2 G3]].
      apply (attach s cur (xorb b (sgb i)) b i false); auto.
      * refine (conj _ (conj G2 G3)). intros j Hj. rewrite Hcur in Hj. discriminate.
      * intros e. apply In_eset.
      * destruct b, (sgb i); reflexivity.
    + (* attached across a free edge *)
      pose proof (try_tri_local (p_free s) (tri i) Hne) as HL. rewrite Ht in HL.
      destruct HL as [Hes [e [Hef Her]]].
      apply (attach s cur c b i fl es HB HG Hi Hes).
      destruct HB as [B1 [B2 [B3 [B4 [B5 B6]]]]]. destruct HG as [G1 [G2 G3]].
      set (d := xorb c b).
      apply G2 in Hef. destruct Hef as [j [Hcj Hej]].
      assert (R1 : rel s b j = sg d j).
      { unfold rel, sg, d. rewrite (G1 j Hcj). f_equal. destruct (sgb j), c, b; reflexivity. }
      rewrite R1 in Hej.
      destruct (Bool.bool_dec fl (xorb (sgb i) d)) as [Efl | Nfl].
      * rewrite Efl. unfold d. destruct b, (sgb i), c; reflexivity.
      * exfalso.
        assert (Hfl : orient fl (tri i) = flip_face (sg d i)).
        { unfold sg. destruct fl, (xorb (sgb i) d); simpl; try reflexivity.
          - exfalso. apply Nfl. reflexivity.
          - symmetry. apply flip_invol.
          - exfalso. apply Nfl. reflexivity. }
        change (In (rev_e e) (edges_of (orient fl (tri i)))) in Her.
        rewrite Hfl in Her. apply (proj1 (edges_flip_rev (sg d i) (rev_e e))) in Her. rewrite rev_rev in Her.
        assert (Hin : i < n) by (apply B2, Hi).
        destruct (B4 j Hcj) as [Hjn Hjd].
        assert (Hji : j <> i) by (intros ->; contradiction).
        exact (Hsig d j i Hjn Hin Hji e Hej Her).
  - (* no face of the rest touches the group: it is closed *)
    pose proof (find_tri_none _ _ _ EF) as Hnone.
    destruct HB as [B1 [B2 [B3 [B4 [B5 B6]]]]]. destruct HG as [G1 [G2 G3]].
    exists (fun _ => false), c, b. split; [| split; [simpl; intros H; discriminate | intros _ i; reflexivity]].
    refine (conj B1 (conj B2 (conj B3 (conj _ (conj _ B6))))).
    + intros i H. discriminate.
    + intros j k Hdj _ Hk Hnk. change (done s j) in Hdj.
      assert (Hki : In k (p_indices s)).
      { destruct (in_dec Nat.eq_dec k (p_indices s)) as [H | H]; [exact H | exfalso].
        assert (E : false = true) by (apply Hnk; split; assumption). discriminate. }
      destruct (cur j) eqn:Ecj.
      * assert (Hne : p_free s <> []).
        { destruct (edges_nonempty (rel s b j)) as [e He]. intros Hf.
          assert (H : In e (p_free s)) by (apply G2; exists j; auto). rewrite Hf in H. destruct H. }
        pose proof (try_tri_local (p_free s) (tri k) Hne) as HL.
        unfold tri in HL at 1. rewrite (Hnone k Hki) in HL.
        apply (proj1 (und_orient (tri j) (tri k) (xorb (mk s j) b) false)).
        intros e He. apply HL. apply G2. exists j. split; [exact Ecj | exact He].
      * apply (B5 j k Hdj Ecj Hk). intros [_ Hd]. contradiction.
Qed.

Lemma pstep_inv s : Inv s -> Inv (pstep tris s).
Proof.
  intros [cur [c [b [HB [HT HF]]]]]. unfold pstep. destruct (p_any s) eqn:Ea.
  - apply (step_norm s cur c b HB (HT eq_refl)).
  - set (s1 := mkP (p_indices s) [] (set_all (p_indices s) (hd false (p_oracle s)) (p_mask s)) false
                   (tl (p_oracle s)) _).
    destruct HB as [B1 [B2 [B3 [B4 [B5 B6]]]]]. specialize (HF eq_refl).
    apply (step_norm s1 (fun _ => false) c (hd false (p_oracle s))).
    + refine (conj B1 (conj B2 (conj _ (conj _ (conj _ _))))).
      * simpl. rewrite set_all_length. exact B3.
      * intros i H. discriminate.
      * intros j k Hdj _ Hk Hnk. apply (B5 j k Hdj (HF j) Hk). intros Hdk. specialize (Hnk Hdk). discriminate.
      * intros i j Hdi Hdj Hne. unfold tau, mk. simpl.
        destruct Hdi as [Hi Hni]. destruct Hdj as [Hj Hnj]. simpl in Hni, Hnj.
        rewrite !set_all_notin by assumption. apply B6; [split | split |]; assumption.
    + refine (conj _ (conj _ _)).
      * intros i H. discriminate.
      * intros e. simpl. split; [intros [] | intros [i [H _]]; discriminate].
      * intros k Hk. unfold mk. simpl. simpl in Hk. apply set_all_in; [exact Hk | rewrite B3; apply B2, Hk].
Qed.

Lemma ploop_inv fuel : forall s, Inv s -> Inv (ploop fuel tris s).
Proof.
  induction fuel as [| fuel IH]; intros s H; simpl; [exact H |].
  destruct (p_indices s); [exact H | apply IH, pstep_inv, H].
Qed.

Lemma init_inv oracle : Inv (pinit n oracle).
Proof.
  exists (fun _ => false), false, false. split; [| split; [simpl; intros H; discriminate | intros _ i; reflexivity]].
  unfold pinit. refine (conj _ (conj _ (conj _ (conj _ (conj _ _))))); simpl.
  - apply seq_NoDup.
  - intros i Hi. apply in_seq in Hi. lia.
  - apply repeat_length.
  - intros i H. discriminate.
  - intros j k [Hj Hn]. exfalso. apply Hn. simpl. apply in_seq. lia.
  - intros i j [Hi Hn]. exfalso. apply Hn. simpl. apply in_seq. lia.
Qed.

(* termination: the fuel 2n+2 of the model is enough to empty `indices` *)
Definition mu (s : pstate) : nat := 2 * length (p_indices s) + (if p_any s then 1 else 0).

Lemma pstep_mu s : p_indices s <> [] -> mu (pstep tris s) < mu s.
Proof.
  intros Hne. unfold pstep. destruct (p_any s) eqn:Ea.
  - destruct (find_tri tris (p_free s) (p_indices s)) as [[[i fl] es] |] eqn:EF; unfold mu; simpl; rewrite ?Ea.
    + apply find_tri_some in EF. destruct EF as [Hi _]. pose proof (remove_first_length i _ Hi). lia.
    + lia.
  - destruct (p_indices s) as [| i r] eqn:Ei; [congruence |].
    unfold mu. simpl. rewrite Nat.eqb_refl. simpl. rewrite Ea, ?Ei. simpl. lia.
Qed.

Lemma ploop_indices fuel : forall s, mu s <= fuel -> p_indices (ploop fuel tris s) = [].
Proof.
  induction fuel as [| fuel IH]; intros s H; simpl.
  - unfold mu in H. destruct (p_indices s); [reflexivity | simpl in H; lia].
  - destruct (p_indices s) eqn:Ei; [exact Ei |]. apply IH.
    assert (Hne : p_indices s <> []) by (rewrite Ei; discriminate).
    pose proof (pstep_mu s Hne). lia.
Qed.

(* the final state: every face is done, faces are pairwise free of common directed edges *)
Lemma final_pairwise oracle :
  let s := pfinal tris oracle in
  length (p_mask s) = n /\
  forall i j, i < n -> j < n -> i <> j -> dir_disjoint (tau s i) (tau s j).
Proof.
  intros s.
  assert (HI : Inv s) by (apply ploop_inv, init_inv).
  assert (HE : p_indices s = []).
  { apply ploop_indices. unfold mu, pinit. simpl. rewrite seq_length. lia. }
  destruct HI as [cur [c [b [[B1 [B2 [B3 [B4 [B5 B6]]]]] _]]]]. split; [exact B3 |].
  intros i j Hi Hj Hne. apply B6; [split | split |]; try assumption; rewrite HE; intros [].
Qed.
End Propag.

(* ------------------------------------------------------------------ the theorem *)
Lemma apply_mask_length fs m : length (apply_mask fs m) = length fs.
Proof. symmetry. exact (F2_length _ _ _ (apply_mask_vperm fs m)). Qed.

Lemma nth_edges_apply_mask fs m i : i < length fs -> length m = length fs ->
  nth i (map edges_of (apply_mask fs m)) [] = edges_of (orient (nth i m false) (nth i fs dface)).
Proof.
  intros Hi Hl.
  rewrite (nth_indep _ [] (edges_of dface)) by (rewrite map_length, apply_mask_length; exact Hi).
  rewrite map_nth, (apply_mask_each fs m i Hi Hl). reflexivity.
Qed.

Theorem propagation_consistent tris oracle :
  orientable tris -> consistent (fix_trimesh_orientation tris oracle).
Proof.
  intros [sigma [Hlen Hc]]. unfold consistent, directed_edges in *.
  apply concat_nodup_elim in Hc. destruct Hc as [C1 C2].
  rewrite map_length, apply_mask_length in C1, C2.
  assert (E0 : forall i, i < length tris ->
             nth i (map edges_of (apply_mask tris sigma)) [] = edges_of (sg tris sigma false i)).
  { intros i Hi. rewrite (nth_edges_apply_mask tris sigma i Hi Hlen). unfold sg, sgb, tri.
    rewrite xorb_false_r. reflexivity. }
  assert (Hsig : forall d i j, i < length tris -> j < length tris -> i <> j ->
                 dir_disjoint (sg tris sigma d i) (sg tris sigma d j)).
  { assert (H0 : forall i j, i < length tris -> j < length tris -> i <> j ->
                 dir_disjoint (sg tris sigma false i) (sg tris sigma false j)).
    { intros i j Hi Hj Hne e He. rewrite <- (E0 i Hi) in He. rewrite <- (E0 j Hj). exact (C2 i j Hi Hj Hne e He). }
    intros [|] i j Hi Hj Hne; [| apply H0; assumption].
    assert (Hf : forall k, sg tris sigma true k = flip_face (sg tris sigma false k)).
    { intros k. unfold sg. destruct (sgb sigma k); simpl; [symmetry; apply flip_invol | reflexivity]. }
    rewrite !Hf. apply dir_flip, H0; assumption. }
  destruct (final_pairwise tris sigma Hsig oracle) as [Hml Hp].
  unfold fix_trimesh_orientation, get_inwards_mask.
  set (s := pfinal tris oracle) in *.
  apply concat_nodup_intro; rewrite map_length, apply_mask_length.
  - intros i Hi. rewrite (nth_edges_apply_mask tris (p_mask s) i Hi Hml).
    specialize (C1 i Hi). rewrite (E0 i Hi) in C1. unfold sg, tri in C1.
    eapply NoDup_edges_orient. exact C1.
  - intros i j Hi Hj Hne e He.
    rewrite (nth_edges_apply_mask tris (p_mask s) i Hi Hml) in He.
    rewrite (nth_edges_apply_mask tris (p_mask s) j Hj Hml).
    exact (Hp i j Hi Hj Hne e He).
Qed.

(* non-vacuity: the tetrahedron is orientable (as given), so is every re-winding of it *)
Lemma tet_orientable : orientable tet.
Proof.
  exists [false; false; false; false]. split; [reflexivity |]. apply nodupb_NoDup. vm_compute. reflexivity.
Qed.
