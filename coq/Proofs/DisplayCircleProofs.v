(* C19 -- the Circle line trace lies on the loop, goes once around it and is closed *)
From Coq Require Import Reals Lra Lia.
From MV Require Import Model.DisplayCircle.
Open Scope R_scope.

Lemma circle_on_loop_lem base d k :
  let '(x, y, z) := circle_point base d k in x * x + y * y = (d / 2) * (d / 2) /\ z = 0.
Proof.
  unfold circle_point. set (t := linspace_2pi base k). split; [|reflexivity].
  pose proof (sin2_cos2 t) as H. unfold Rsqr in H.
  replace (cos t * d / 2 * (cos t * d / 2) + sin t * d / 2 * (sin t * d / 2))
    with ((sin t * sin t + cos t * cos t) * (d / 2 * (d / 2))) by field.
  rewrite H. ring.
Qed.

Lemma linspace_last base : (2 <= base)%nat -> linspace_2pi base (base - 1) = 2 * PI.
Proof.
  intros Hb. unfold linspace_2pi. field. apply not_0_INR. lia.
Qed.

(* first point = last point: the drawn line is closed; it starts at angle 0 and ends at 2 pi: once around *)
Lemma circle_closed_lem base d : (2 <= base)%nat ->
  linspace_2pi base 0 = 0 /\ linspace_2pi base (base - 1) = 2 * PI /\
  circle_point base d (base - 1) = circle_point base d 0.
Proof.
  intros Hb. split; [unfold linspace_2pi; simpl; ring|]. split; [apply linspace_last, Hb|].
  unfold circle_point. rewrite (linspace_last base Hb).
  replace (linspace_2pi base 0) with 0 by (unfold linspace_2pi; simpl; ring).
  rewrite cos_2PI, sin_2PI, cos_0, sin_0. reflexivity.
Qed.

(* equal angular steps of 2 pi / (base - 1): no part of the loop longer than that is skipped *)
Lemma circle_step_lem base k :
  linspace_2pi base (S k) - linspace_2pi base k = 2 * PI / INR (base - 1).
Proof. unfold linspace_2pi. rewrite S_INR. ring. Qed.
