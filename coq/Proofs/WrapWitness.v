(* Proofs about the executable instance: Qc meets the hypotheses of WrapProofs (non-vacuity), and the
   concrete rows on which the faithful model (source tolerances, exported mu0) VIOLATES B = mu0*H + J. *)
From Coq Require Import List Bool ZArith QArith Qcanon Qabs Field Lia.
From MV Require Import Gen.GenConst Gen.GenWrapTol Model.WrapModel Model.WrapExec Model.WrapSrc Proofs.WrapProofs.
Import ListNotations.

Lemma Qc_field : field_theory (@f0 QcOps) f1 fadd fmul fsub fopp fdiv finv (@eq Qc).
Proof. exact Qcft. Qed.

Lemma Qc_feqb_eq : forall x y : Qc, feqb x y = true -> x = y.
Proof. intros x y H. apply Qc_eq_bool_correct. exact H. Qed.

Lemma Qc_fltb_irrefl : forall x : Qc, fltb x x = false.
Proof.
  intros x. cbn. unfold qc_ltb. destruct (Qle_bool x x) eqn:E; [reflexivity|].
  exfalso. assert (H : Qle_bool x x = true) by (apply Qle_bool_iff; apply Qle_refl).
  rewrite H in E. discriminate.
Qed.

Lemma veqb_refl (v : @vec QcOps) : veqb v v = true.
Proof.
  destruct v as [[a b] c]. cbn.
  assert (R : forall x : Qc, Qc_eq_bool x x = true).
  { intros x. unfold Qc_eq_bool. destruct (Qc_eq_dec x x) as [_|n]; [reflexivity|]. exfalso. apply n. reflexivity. }
  rewrite !R. reflexivity.
Qed.

Lemma veqb_false_neq (a b : @vec QcOps) : veqb a b = false -> a <> b.
Proof. intros H E. subst b. rewrite veqb_refl in H. discriminate. Qed.

Lemma mu0_src_nz : mu0_src <> 0%Qc.
Proof. intros E. apply (f_equal this) in E. vm_compute in E. discriminate. Qed.

Lemma mu0_stub_nz : mu0_stub <> 0%Qc.
Proof. intros E. apply (f_equal this) in E. vm_compute in E. discriminate. Qed.

(* ------------------------------------------------------------------ rows used by the non-vacuity example:
   the Cylinder edge point and the CylinderSegment shell point that violated B = mu0*H + J before commits
   41540a4 / 77d60b2; now all four outputs vanish there *)
Definition w_cyl_edge : cyl_row :=
  {| cy_r := z 1; cy_c := z 1; cy_s := z 0; cy_z := z 1; cy_d := z 2; cy_h := z 2;
     cy_pol := (z 0, z 0, z 1); cy_pxy := z 0; cy_dphi := z 0 |}.

Definition w_seg (r : Qc) : seg_row :=
  {| cs_r := r; cs_phi := q 78 100; cs_phio2 := q (-550) 100; cs_c := q 7 10; cs_s := q 7 10; cs_z := z 0;
     cs_r1 := z 1; cs_r2 := z 2; cs_h := z 2; cs_phi1 := z 0; cs_phi2 := z 90;
     cs_red1 := z 0; cs_red2 := z 90; cs_phi1r := z 0; cs_phi2r := q 157 100; cs_pi := q 314 100;
     cs_pol := (z 0, z 0, z 1); cs_pxy := z 0; cs_pabs := z 1; cs_dphi := z 0 |}.
Definition w_seg_on := w_seg (z 2).
Definition w_seg_off := w_seg (z 5).

Lemma special_rows :
  cyl_on_edge w_cyl_edge = true /\ cyl_inside0 w_cyl_edge = true /\ cyl_inside w_cyl_edge = false /\
  seg_not_on_surf w_seg_on = false /\ seg_inside w_seg_on = true /\ seg_inside_J w_seg_on = false /\
  seg_not_on_surf w_seg_off = true /\
  veqb (bhjm_cylinder stub_cyl_tv stub_cyl_ax mu0_src FJ w_cyl_edge) vzero = true /\
  veqb (nth 0 (bhjm_seg_batch (stub_seg mu0_src) mu0_src FJ [w_seg_on; w_seg_off]) (z 1, z 1, z 1)) vzero = true.
Proof. repeat split; vm_compute; reflexivity. Qed.

(* ------------------------------------------------------------------ the setters' constant is not magpylib.mu_0 *)
Lemma setter_constant_differs : Qeq_bool mu0_setter_magnetization mu0_exported = false.
Proof. vm_compute. reflexivity. Qed.

Lemma attr_sync_violates :
  ~ exc_sync mu0_src (exc_run c_setter_mag c_setter_pol exc_init [SetMag (Some (z 1, z 0, z 0))]).
Proof.
  cbn. intros H. apply (f_equal (fun v : @vec QcOps => let '(a, _, _) := v in this a)) in H.
  vm_compute in H. discriminate.
Qed.

Lemma setters_agree : c_setter_mag = c_setter_pol.
Proof. apply Qc_is_canon. vm_compute. reflexivity. Qed.

Lemma setter_nz : c_setter_mag <> 0%Qc.
Proof. intros E. apply (f_equal this) in E. vm_compute in E. discriminate. Qed.

(* GenConst obligations: one value behind every `mu_0` name and use in the field modules *)
Lemma name_sites_single : all_sites_exported mu0_name_sites = true.
Proof. vm_compute. reflexivity. Qed.
Lemma use_sites_single : all_sites_exported mu0_use_sites = true.
Proof. vm_compute. reflexivity. Qed.

(* GenConst inventory of constant expressions that are numerically a mu_0 (or 1/mu_0) but do not go through the
   name: exactly the two setter sites, the conversion factor 1/(4*pi*1e-7) inside current_circle_Hfield (it
   multiplies the core's own 1e-6/20, the product is 1/(8*pi): no mu_0), and `1e-7 / MU0` inside
   magnet_cylinder_segment_Hfield.  A further literal anywhere in the package breaks this proof. *)
Definition near_one (x : Q) (e : Q) : bool := Qle_bool (Qabs (x - 1)) e.
Lemma literal_inventory :
  length mu0_literal_sites = 1%nat /\ length inv_mu0_literal_sites = 2%nat /\ length mu0_mixed_sites = 1%nat /\
  forallb (fun sq => Qeq_bool (snd sq) mu0_setter_magnetization) mu0_literal_sites = true /\
  forallb (fun sq => near_one (snd sq * mu0_setter_magnetization) (1 # 1000000000000000)) inv_mu0_literal_sites = true /\
  forallb (fun sq => near_one (snd sq * four_pi_b64) (2 # 10000000000)) mu0_mixed_sites = true.
Proof. repeat split; vm_compute; reflexivity. Qed.

Lemma setters_atomic_ok : setters_atomic = true.
Proof. vm_compute. reflexivity. Qed.
