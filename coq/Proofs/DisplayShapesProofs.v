(* C19 -- the cuboid vertex/facet table and the polyline line trace *)
From Coq Require Import ZArith List Bool Lia Permutation.
From MV Require Import Lib.ListZ Lib.Rigid Lib.OctZ Gen.GenShapes Model.DisplayModel Model.DisplayExec Model.DisplayTriangle
  Model.DisplayShapes
  Proofs.DisplayProofs.
Import ListNotations.
Open Scope Z_scope.

Lemma is_sign_spec s : is_sign s = true <-> s = 1 \/ s = -1.
Proof. unfold is_sign. rewrite orb_true_iff, !Z.eqb_eq. tauto. Qed.

(* the 8 drawn vertices are exactly the 8 corners (+-a/2, +-b/2, +-c/2): each lies on three faces of the box
   (on the surface) and every corner is drawn (the model spans the full extent in every direction) *)
Lemma cuboid_vertices_are_the_corners_lem a b c v :
  In v (cuboid_vertices_x2 (a, b, c)) <->
  exists sx sy sz, (sx = 1 \/ sx = -1) /\ (sy = 1 \/ sy = -1) /\ (sz = 1 \/ sz = -1) /\ v = (sx * a, sy * b, sz * c).
Proof.
  unfold cuboid_vertices_x2. rewrite in_map_iff. split.
  - intros [[[sx sy] sz] [<- Hin]]. exists sx, sy, sz.
    assert (H : forallb (fun s : V3 => let '(x, y, z) := s in is_sign x && is_sign y && is_sign z) cub_signs = true)
      by (vm_compute; reflexivity).
    rewrite forallb_forall in H. specialize (H _ Hin). cbv beta iota in H.
    apply andb_true_iff in H as [H Hz]. apply andb_true_iff in H as [Hx Hy].
    apply is_sign_spec in Hx, Hy, Hz. repeat split; auto.
  - intros [sx [sy [sz [Hx [Hy [Hz ->]]]]]]. exists (sx, sy, sz). split; [reflexivity|].
    destruct Hx as [-> | ->], Hy as [-> | ->], Hz as [-> | ->]; vm_compute; tauto.
Qed.

Lemma cuboid_vertex_count dim : length (cuboid_vertices_x2 dim) = 8%nat.
Proof. unfold cuboid_vertices_x2. rewrite map_length. reflexivity. Qed.

Lemma nth_cuboid dim i : 0 <= i < 8 ->
  nthZ (0, 0, 0) (cuboid_vertices_x2 dim) i = scale3 dim (sign_at i).
Proof.
  intros Hi. assert (Hc : i = 0 \/ i = 1 \/ i = 2 \/ i = 3 \/ i = 4 \/ i = 5 \/ i = 6 \/ i = 7) by lia.
  destruct dim as [[a b] c].
  destruct Hc as [-> | [-> | [-> | [-> | [-> | [-> | [-> | ->]]]]]]]; reflexivity.
Qed.

Lemma coord_scale3 ax a b c s :
  coord ax (scale3 (a, b, c) s) = coord ax s * coord ax (a, b, c).
Proof. destruct s as [[x y] z]. destruct ax as [|[|ax]]; reflexivity. Qed.

(* every one of the 12 drawn triangles joins three different corners that lie in one face of the box:
   the facet is part of the surface *)
Lemma cuboid_facets_on_faces_lem a b c f :
  In f cuboid_facets ->
  let '(i, j, k) := f in
  0 <= i < 8 /\ 0 <= j < 8 /\ 0 <= k < 8 /\ i <> j /\ j <> k /\ i <> k /\
  exists ax sg, (ax < 3)%nat /\ (sg = 1 \/ sg = -1) /\
    let vs := cuboid_vertices_x2 (a, b, c) in
    coord ax (nthZ (0, 0, 0) vs i) = sg * coord ax (a, b, c) /\
    coord ax (nthZ (0, 0, 0) vs j) = sg * coord ax (a, b, c) /\
    coord ax (nthZ (0, 0, 0) vs k) = sg * coord ax (a, b, c).
Proof.
  intros Hin.
  assert (H : forallb facet_ok cuboid_facets = true) by (vm_compute; reflexivity).
  rewrite forallb_forall in H. specialize (H _ Hin). destruct f as [[i j] k]. unfold facet_ok in H.
  rewrite !andb_true_iff in H.
  destruct H as [[[[[[[[[A1 A2] A3] A4] A5] A6] N1] N2] N3] Hex].
  apply Z.leb_le in A1, A3, A5. apply Z.ltb_lt in A2, A4, A6.
  apply negb_true_iff in N1, N2, N3. apply Z.eqb_neq in N1, N2, N3.
  apply existsb_exists in Hex as [[ax sg] [Hface Hf]]. cbn [fst snd] in Hf.
  repeat split; try lia.
  exists ax, sg.
  assert (Hax : (ax < 3)%nat /\ (sg = 1 \/ sg = -1)).
  { unfold all_faces in Hface. cbn [In] in Hface.
    destruct Hface as [E|[E|[E|[E|[E|[E|[]]]]]]]; inversion E; subst; split; auto; lia. }
  split; [apply Hax|]. split; [apply Hax|].
  cbv zeta. unfold facet_in_face in Hf. rewrite !andb_true_iff in Hf. destruct Hf as [[F1 F2] F3].
  apply Z.eqb_eq in F1, F2, F3.
  rewrite !nth_cuboid by lia. rewrite !coord_scale3. rewrite F1, F2, F3. auto.
Qed.

(* every face of the box is tiled by exactly two of the facets (split along a diagonal) *)
Lemma cuboid_faces_tiled_lem : forallb face_tiled all_faces = true /\ length cuboid_facets = 12%nat.
Proof. vm_compute. split; reflexivity. Qed.

(* Tetrahedron: the drawn vertices are the object's four vertices (p2, p3 possibly exchanged), and the four
   facets are four different corner triples, each leaving out a different vertex: the 4 faces *)
Lemma tetra_vertices_lem p0 p1 p2 p3 : Permutation (tetra_vertices p0 p1 p2 p3) [p0; p1; p2; p3].
Proof.
  unfold tetra_vertices. destruct (_ <? 0); [|apply Permutation_refl].
  apply perm_skip, perm_skip, perm_swap.
Qed.

Lemma tetra_table_lem : tetra_table_ok = true.
Proof. vm_compute. reflexivity. Qed.

(* Polyline: for every path, frame selection and unit factor the drawn current line is, per displayed index e,
   the conductor's vertices in order, each at f.(R_e v + p_e) *)
Section Polyline.
Context {O : RigidOps} {L : RigidLaws O} {SO : ScaleOps O} {SL : ScaleLaws O SO}.
Lemma polyline_through_points_lem (path : list pose) (s : selector) (f : Sc) (vertices : list V) :
  polyline_frames path s f vertices =
  option_map (map (fun e => map (fun v => smul f (vadd (act (snd (nthZ pose0 path e)) v)
                                                       (fst (nthZ pose0 path e)))) vertices))
             (effective_inds (zlen path) s).
Proof. unfold polyline_frames, polyline_line. apply object_frames_lem. Qed.
End Polyline.
