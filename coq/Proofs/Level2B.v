(* Level-2 data flow, part B: grouping by field function + scatter puts every source's block
   at its own index, whatever the grouping. *)
From Coq Require Import List Arith Bool Lia.
From MV Require Import Lib.Rigid Lib.ListIdx Model.Level2Model Proofs.Level2A.
Import ListNotations.

Section Scatter.
Context {A : Type}.

Definition set_all (pairs : list (nat * A)) (B : list A) : list A :=
  fold_left (fun B ib => set_nth (fst ib) (snd ib) B) pairs B.

Lemma length_set_all pairs (B : list A) : length (set_all pairs B) = length B.
Proof.
  revert B; induction pairs as [|[i b] pairs IH]; intros B; [reflexivity|].
  cbn [set_all fold_left fst snd]. fold (set_all pairs (set_nth i b B)).
  rewrite IH. apply length_set_nth.
Qed.

(* when every written value is a function g of its index, order and multiplicity do not matter *)
Lemma nth_set_all (g : nat -> A) (d : A) pairs (B : list A) j :
  (forall i b, In (i, b) pairs -> i < length B /\ b = g i) ->
  nth j (set_all pairs B) d = if existsb (Nat.eqb j) (map fst pairs) then g j else nth j B d.
Proof.
  revert B; induction pairs as [|[i b] pairs IH]; intros B H; [reflexivity|].
  cbn [set_all fold_left fst snd map existsb]. fold (set_all pairs (set_nth i b B)).
  destruct (H i b (or_introl eq_refl)) as [Hi Hb].
  rewrite IH.
  - destruct (existsb (Nat.eqb j) (map fst pairs)); [rewrite orb_true_r; reflexivity|].
    rewrite orb_false_r. rewrite nth_set_nth by exact Hi.
    destruct (Nat.eqb_spec j i); [subst; reflexivity|reflexivity].
  - intros i' b' Hin. rewrite length_set_nth. apply H. right. exact Hin.
Qed.

End Scatter.

Section Groups.
Context {O : RigidOps}.
Variable P : Type.
Variable F : nat -> P -> V -> V.
Notation leaf := (@leaf O P).

Definition members (gs : list (nat * list (nat * leaf))) : list (nat * leaf) := flat_map snd gs.
Definition keys_ok (gs : list (nat * list (nat * leaf))) : Prop :=
  forall k mem, In (k, mem) gs -> forall i x, In (i, x) mem -> l_key x = k.

Lemma members_insert k i x gs ix :
  In ix (members (group_insert P k i x gs)) <-> ix = (i, x) \/ In ix (members gs).
Proof.
  induction gs as [|[k' mem] gs IH]; cbn [group_insert members flat_map snd].
  - rewrite app_nil_r. simpl. intuition.
  - destruct (Nat.eqb k k'); cbn [members flat_map snd]; rewrite !in_app_iff.
    + simpl. intuition.
    + fold (members (group_insert P k i x gs)). rewrite IH. fold (members gs). intuition.
Qed.

Lemma keys_insert i x gs : keys_ok gs -> keys_ok (group_insert P (l_key x) i x gs).
Proof.
  unfold keys_ok. induction gs as [|[k' mem] gs IH]; intros H k mem0 Hin i0 x0 Hx; cbn [group_insert] in Hin.
  - destruct Hin as [E|[]]. inversion E; subst. destruct Hx as [E'|[]]. inversion E'; subst. reflexivity.
  - destruct (Nat.eqb_spec (l_key x) k').
    + destruct Hin as [E|Hin].
      * inversion E; subst. apply in_app_iff in Hx as [Hx|[E'|[]]].
        -- eapply H; [left; reflexivity|exact Hx].
        -- inversion E'; subst. reflexivity.
      * eapply H; [right; exact Hin|exact Hx].
    + destruct Hin as [E|Hin].
      * inversion E; subst. eapply H; [left; reflexivity|exact Hx].
      * eapply IH; [|exact Hin|exact Hx]. intros k1 m1 H1. apply H. right. exact H1.
Qed.

Lemma groups_fold idx gs :
  keys_ok gs ->
  let gs' := fold_left (fun gs ix => group_insert P (l_key (snd ix)) (fst ix) (snd ix) gs) idx gs in
  keys_ok gs' /\ forall ix, In ix (members gs') <-> In ix (members gs) \/ In ix idx.
Proof.
  revert gs; induction idx as [|[i x] idx IH]; intros gs Hk; cbn [fold_left fst snd].
  - split; [exact Hk|]. intros ix. simpl. intuition.
  - specialize (IH (group_insert P (l_key x) i x gs) (keys_insert i x gs Hk)).
    cbn zeta in IH. destruct IH as [IH1 IH2]. split; [exact IH1|].
    intros ix. rewrite IH2, members_insert. simpl. intuition.
Qed.

Lemma groups_spec (sl : list leaf) :
  keys_ok (groups P sl) /\
  forall ix, In ix (members (groups P sl)) <-> In ix (combine (seq 0 (length sl)) sl).
Proof.
  unfold groups. pose proof (groups_fold (combine (seq 0 (length sl)) sl) []) as H.
  cbn zeta in H. destruct H as [H1 H2]; [intros k mem []|].
  split; [exact H1|]. intros ix. rewrite H2. simpl. intuition.
Qed.

Lemma in_combine_seq (sl : list leaf) a i x :
  In (i, x) (combine (seq a (length sl)) sl) <-> a <= i /\ nth_error sl (i - a) = Some x.
Proof.
  revert a; induction sl as [|y sl IH]; intros a; cbn [length seq combine].
  - simpl. split; [intros []|]. intros [_ H]. destruct (i - a); discriminate.
  - simpl. rewrite IH. split.
    + intros [E|[Hle Hn]].
      * inversion E; subst. rewrite Nat.sub_diag. split; [lia|reflexivity].
      * split; [lia|]. replace (i - a) with (S (i - S a)) by lia. exact Hn.
    + intros [Hle Hn]. destruct (Nat.eq_dec a i) as [->|Hne].
      * rewrite Nat.sub_diag in Hn. inversion Hn; subst. left; reflexivity.
      * right. split; [lia|]. replace (i - a) with (S (i - S a)) in Hn by lia. exact Hn.
Qed.

(* ---- eval_groups *)
Variables (M n_pix : nat) (pm : nat -> list V).
Definition blockof (x : leaf) : block := leaf_block P F (l_key x) M pm x.

Hypothesis Hpm : forall m, m < M -> length (pm m) = n_pix.

Lemma scatter_group k (mem : list (nat * leaf)) (B : list block) :
  (forall i x, In (i, x) mem -> l_key x = k /\ length (l_pos x) = M /\ length (l_ori x) = M) ->
  scatter (map fst mem)
    (group_field P F k (map snd mem) M n_pix (M * n_pix) (flat_map pm (seq 0 M))) B
  = set_all (map (fun ix => (fst ix, blockof (snd ix))) mem) B.
Proof.
  intros H. rewrite group_field_spec; [|intros x Hx|exact Hpm].
  - unfold scatter, set_all. f_equal.
    induction mem as [|[i x] mem IH]; [reflexivity|]. cbn [map combine fst snd]. f_equal.
    + unfold blockof. destruct (H i x (or_introl eq_refl)) as [-> _]. reflexivity.
    + apply IH. intros i' x' Hin. apply (H i' x'). right. exact Hin.
  - apply in_map_iff in Hx as [[i y] [<- Hin]]. apply (H i y Hin).
Qed.

Theorem eval_groups_spec (sl : list leaf) :
  (forall x, In x sl -> length (l_pos x) = M /\ length (l_ori x) = M) ->
  eval_groups P F sl M n_pix (M * n_pix) (flat_map pm (seq 0 M)) = map blockof sl.
Proof.
  intros Hsl. unfold eval_groups.
  destruct (groups_spec sl) as [Hk Hm].
  set (g := fun i => match nth_error sl i with Some x => blockof x | None => [] end).
  (* generalise over the groups still to process *)
  assert (Gen : forall gs B, (forall k mem, In (k, mem) gs -> In (k, mem) (groups P sl)) ->
     fold_left (fun B g0 => match g0 with (k, mem) =>
         scatter (map fst mem) (group_field P F k (map snd mem) M n_pix (M * n_pix)
                                  (flat_map pm (seq 0 M))) B end) gs B
     = set_all (map (fun ix => (fst ix, blockof (snd ix))) (members gs)) B).
  { induction gs as [|[k mem] gs IHg]; intros B Hsub; [reflexivity|].
    cbn [fold_left members flat_map snd]. rewrite map_app. unfold set_all at 1.
    rewrite fold_left_app. fold (set_all (map (fun ix => (fst ix, blockof (snd ix))) mem) B).
    rewrite scatter_group.
    - apply IHg. intros k' m' H'. apply Hsub. right. exact H'.
    - intros i x Hin. split.
      + eapply Hk; [apply Hsub; left; reflexivity|exact Hin].
      + apply Hsl. assert (Hmem : In (i, x) (members (groups P sl))).
        { unfold members. apply in_flat_map. exists (k, mem). split; [apply Hsub; left; reflexivity|exact Hin]. }
        apply Hm in Hmem. apply in_combine_r in Hmem. exact Hmem. }
  rewrite Gen by auto.
  apply (nth_ext _ _ [] []).
  - rewrite length_set_all, repeat_length, map_length. reflexivity.
  - intros j Hj. rewrite length_set_all, repeat_length in Hj.
    rewrite (nth_set_all g).
    + assert (Hex : existsb (Nat.eqb j) (map fst (map (fun ix => (fst ix, blockof (snd ix)))
                                                      (members (groups P sl)))) = true).
      { apply existsb_exists. exists j. split; [|apply Nat.eqb_refl].
        destruct (nth_error sl j) as [x|] eqn:E; [|apply nth_error_None in E; lia].
        rewrite map_map. cbn [fst]. apply in_map_iff. exists (j, x). split; [reflexivity|].
        apply Hm. apply in_combine_seq. rewrite Nat.sub_0_r. split; [lia|exact E]. }
      rewrite Hex. unfold g.
      destruct (nth_error sl j) as [x|] eqn:E; [|apply nth_error_None in E; lia].
      rewrite (nth_indep _ [] (blockof x)) by (rewrite map_length; exact Hj).
      rewrite map_nth. f_equal. symmetry. apply nth_error_nth. exact E.
    + intros i b Hin. apply in_map_iff in Hin as [[i' x] [E Hin]]. inversion E; subst.
      apply Hm in Hin. apply in_combine_seq in Hin. rewrite Nat.sub_0_r in Hin. destruct Hin as [_ Hn].
      rewrite repeat_length. split.
      * apply nth_error_Some. rewrite Hn. discriminate.
      * unfold g. rewrite Hn. reflexivity.
Qed.

End Groups.
