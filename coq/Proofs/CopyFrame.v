(* C18: after a copy, any later sequence of tree operations, cell writes, setters and style
   updates applied to ONE side (the originals, or the objects of the copy) leaves every observation
   of the OTHER side unchanged. *)
From Coq Require Import List Bool Arith PeanoNat Lia.
From MV Require Import Model.ForestModel Model.ForestExec Model.CopyModel
  Proofs.ForestInv Proofs.ForestBase Proofs.ForestStep Proofs.ForestCopy Proofs.ForestMain
  Proofs.ForestFrame Proofs.CopyBase Proofs.CopyProofs.
Import ListNotations.

(* ---------------------------------------------------------------- the copied tree is closed *)
Lemma copy_closed s x : Inv s -> live s x = true -> Closed (length s) (copy_op s x).
Proof.
  intros HI Hx. set (n := length s). set (t := copy_op s x). unfold Closed, side. split.
  - intros q y Hy. destruct (t_cases s x q) as [(L & E)|[(p & -> & Sp)|E]].
    + fold t in E. rewrite E in Hy. destruct (inv_child _ HI q y Hy) as (A & _).
      fold n in A, L. apply Nat.ltb_lt in A. apply Nat.ltb_lt in L. congruence.
    + unfold t in Hy. rewrite (t_clone s x HI Hx p Sp) in Hy. simpl in Hy.
      apply In_shift in Hy. destruct Hy as (o & -> & _).
      destruct (Nat.ltb_spec (length s + o) n); [unfold n in *; lia|].
      destruct (Nat.ltb_spec (length s + p) n); [unfold n in *; lia|]. reflexivity.
    + fold t in E. rewrite E in Hy. contradiction.
  - intros y q Hq. destruct (t_cases s x y) as [(L & E)|[(o & -> & So)|E]].
    + fold t in E. rewrite E in Hq. destruct (inv_parent _ HI y q Hq) as (A & _).
      fold n in A, L. apply Nat.ltb_lt in A. apply Nat.ltb_lt in L. congruence.
    + unfold t in Hq. rewrite (t_clone s x HI Hx o So) in Hq. simpl in Hq.
      destruct (Nat.eqb o x); [discriminate|].
      destruct (par s o) as [p|]; [|discriminate]. simpl in Hq. inversion Hq.
      destruct (Nat.ltb_spec (length s + o) n); [unfold n in *; lia|].
      destruct (Nat.ltb_spec (length s + p) n); [unfold n in *; lia|]. reflexivity.
    + fold t in E. rewrite E in Hq. discriminate.
Qed.

(* ---------------------------------------------------------------- later operations *)
Inductive lop :=
| LTree (o : op)                  (* add / remove / parent = / children,sources,sensors,collections = *)
| LWrite (c v : nat)              (* in-place write into a buffer *)
| LKw (i : nat) (k : kwarg).      (* setter (rebinding), style update, label assignment on object i *)

Definition lstep (u : cstate) (l : lop) : cstate :=
  match l with
  | LTree o => if creates o then u else mkCstate (fst (step repaired (fs u) o)) (co u) (heap u)
  | LWrite c v => write u c v
  | LKw i k => apply_kw u i k
  end.

Definition lrun (u : cstate) (ls : list lop) : cstate := fold_left lstep ls u.

Section Later.
Variables (n : nat) (b : bool).

(* the operation concerns side b only *)
Definition lok (u : cstate) (l : lop) : Prop :=
  match l with
  | LTree o => op_on n b o
  | LWrite c v => exists j, side n j = b /\ In c (lown u j)
  | LKw i k => side n i = b /\ is_junk (fs u) i = false
  end.

Fixpoint lrun_ok (u : cstate) (ls : list lop) : Prop :=
  match ls with [] => True | l :: r => lok u l /\ lrun_ok (lstep u l) r end.

Lemma Sep_same_kinds u u' : co u' = co u -> heap u' = heap u ->
  (forall i, kd (fs u') i = kd (fs u) i) -> Sep n u -> Sep n u'.
Proof.
  intros Hc Hh Hk [D B].
  assert (L : forall i, lown u' i = lown u i).
  { intros i. unfold lown, owned, cget, is_junk, is_k. rewrite Hk, Hc. reflexivity. }
  split.
  - intros i j c. rewrite !L. apply D.
  - intros i c. rewrite L, Hh. apply B.
Qed.

Lemma opposite i j : side n i = b -> side n j <> b ->
  (i < n /\ n <= j) \/ (j < n /\ n <= i).
Proof.
  unfold side. intros Hi Hj. destruct (Nat.ltb_spec i n), (Nat.ltb_spec j n); auto; congruence.
Qed.

Lemma sep_disjoint u i j c : Sep n u -> side n i = b -> side n j <> b ->
  In c (lown u i) -> ~ In c (lown u j).
Proof.
  intros [D _] Hi Hj Hc Hc'. destruct (opposite i j Hi Hj) as [(A & B)|(A & B)].
  - exact (D i j c A B Hc Hc').
  - exact (D j i c A B Hc' Hc).
Qed.

Lemma lown_live u i : is_junk (fs u) i = false -> lown u i = owned u i.
Proof. intros H. unfold lown. rewrite H. reflexivity. Qed.

(* a setter / style update / label assignment on object i does not change what an object of the
   other side shows *)
Lemma view_apply_kw_other u i k j : Sep n u -> side n i = b -> side n j <> b ->
  is_junk (fs u) i = false -> is_junk (fs u) j = false ->
  view (apply_kw u i k) j = view u j.
Proof.
  intros HS Hi Hj Li Lj.
  assert (Hne : j <> i) by (intros ->; contradiction).
  assert (Bd : forall u0, Sep n u0 -> fs u0 = fs u -> forall m, (m = i \/ m = j) ->
                 forall c, In c (owned u0 m) -> c < length (heap u0)).
  { intros u0 [_ B0] F0 m Hm c Hc. apply (B0 m c). rewrite lown_live; auto.
    rewrite F0. destruct Hm; subst; auto. }
  destruct k as [sl v|v|l]; simpl.
  - apply view_stable.
    + unfold cget. simpl. rewrite cget_lupd. destruct (Nat.eqb_spec j i); [contradiction | reflexivity].
    + intros c Hc. unfold hget. simpl. apply app_nth1. apply (Bd u HS eq_refl j); auto.
  - assert (V1 : view (touch_style u i) j = view u j).
    { apply view_touch; apply (Bd u HS eq_refl); auto. }
    destruct (style_cell (cget (touch_style u i) i)) as [c|] eqn:Es; auto.
    rewrite <- V1. apply view_stable; auto. intros c' Hc'. apply hget_write. intros ->.
    pose proof (Sep_touch n u i HS) as HS1.
    apply (sep_disjoint (touch_style u i) i j c HS1 Hi Hj).
    + rewrite lown_live by (rewrite fs_touch; exact Li). apply owned_cases. auto.
    + rewrite lown_live by (rewrite fs_touch; exact Lj). exact Hc'.
  - rewrite view_set_label by exact Hne. apply view_touch; apply (Bd u HS eq_refl); auto.
Qed.

(* ---- the invariant along the run *)
Variable u0 : cstate.

Record KI (u : cstate) : Prop := mkKI {
  ki_sep : Sep n u;
  ki_fr : FR n b (fs u0) (fs u);
  ki_view : forall j, side n j <> b -> is_junk (fs u0) j = false -> view u j = view u0 j }.

Lemma junk_same u j : KI u -> is_junk (fs u) j = is_junk (fs u0) j.
Proof. intros HK. unfold is_junk, is_k. rewrite (fr_kd _ _ _ _ (ki_fr u HK)). reflexivity. Qed.

Lemma KI_step u l : KI u -> lok u l -> KI (lstep u l).
Proof.
  intros HK Hl. destruct l as [o|c v|i k]; simpl in *.
  - destruct (creates o); auto.
    pose proof (step_frame n b (fs u) o (fr_closed _ _ _ _ (ki_fr u HK)) Hl) as F.
    split; simpl.
    + apply (Sep_same_kinds u); auto; [apply F | apply HK].
    + eapply FR_trans; [apply HK | exact F].
    + intros j Hj Lj. rewrite <- (ki_view u HK j Hj Lj). reflexivity.
  - destruct Hl as (i & Hi & Hc). split.
    + apply Sep_write. apply HK.
    + apply HK.
    + intros j Hj Lj. rewrite <- (ki_view u HK j Hj Lj). apply view_stable; auto.
      intros c' Hc'. apply hget_write. intros ->.
      apply (sep_disjoint u i j c (ki_sep u HK) Hi Hj Hc).
      rewrite lown_live; auto. rewrite (junk_same u j HK). exact Lj.
  - destruct Hl as (Hi & Li). split.
    + apply Sep_apply_kw. apply HK.
    + rewrite fs_apply_kw. apply HK.
    + intros j Hj Lj. rewrite <- (ki_view u HK j Hj Lj).
      apply view_apply_kw_other; auto; [apply HK | rewrite (junk_same u j HK); exact Lj].
Qed.

Lemma KI_run ls : forall u, KI u -> lrun_ok u ls -> KI (lrun u ls).
Proof.
  induction ls as [|l r IH]; intros u HK Hok; simpl; auto.
  destruct Hok as [H1 H2]. apply IH; auto. apply KI_step; auto.
Qed.
End Later.

(* everything the other side shows: the object records (parent, children, typed lists), the
   flattened views and the readings of all attributes / style / label *)
Theorem later_ops_frame s x kws : WF s -> live (fs s) x = true ->
  let u0 := copy s x kws in let n := length (fs s) in
  forall (b : bool) (ls : list lop), lrun_ok n b u0 ls ->
  let u := lrun u0 ls in
  forall j, side n j <> b ->
    get (fs u) j = get (fs u0) j /\
    children_all (fs u) j = children_all (fs u0) j /\
    sources_all (fs u) j = sources_all (fs u0) j /\
    sensors_all (fs u) j = sensors_all (fs u0) j /\
    collections_all (fs u) j = collections_all (fs u0) j /\
    (is_junk (fs u0) j = false -> view u j = view u0 j).
Proof.
  intros HW Hx u0 n b ls Hok u j Hj.
  assert (HC0 : Closed n (fs u0)).
  { unfold u0. rewrite fs_copy. apply copy_closed; auto. apply HW. }
  assert (K0 : KI n b u0 u0).
  { split.
    - apply (po_sep s x u0 (PO_copy s x HW Hx kws)).
    - apply FR_refl. exact HC0.
    - reflexivity. }
  pose proof (KI_run n b u0 ls u0 K0 Hok) as HK. fold u in HK.
  destruct (ki_fr _ _ _ _ HK) as [F1 F2 F3 F4].
  assert (G : forall want want', (forall i, side n i <> b -> want' i = want i) ->
            flat (fuel_of (fs u)) (fs u) want' (children (get (fs u) j)) =
            flat (fuel_of (fs u0)) (fs u0) want (children (get (fs u0) j))).
  { intros want want' Hw. unfold fuel_of. rewrite F1, (F3 j Hj).
    apply (flat_agree n b (fs u0) (fs u)); auto.
    intros y Hy. destruct HC0 as [C1 _]. rewrite (C1 j y Hy). exact Hj. }
  assert (Kk : forall kk i, is_k kk (fs u) i = is_k kk (fs u0) i).
  { intros kk i. unfold is_k. rewrite F2. reflexivity. }
  split; [apply F3; exact Hj|].
  split; [apply G; intros i _; unfold w_all, is_junk; rewrite Kk; reflexivity|].
  split; [apply G; intros i _; apply Kk|].
  split; [apply G; intros i _; apply Kk|].
  split; [apply G; intros i _; apply Kk|].
  apply (ki_view _ _ _ _ HK j Hj).
Qed.

(* non-vacuity: operations on the copy of ex_world (clone of the collection = object 3, clone of
   its sensor = object 2) that satisfy the side condition *)
Example later_ops_example :
  lrun_ok 2 false (copy ex_world 1 [])
    [LTree (Remove 3 [2] true ERaise); LKw 2 (KwAttr 0 7); LTree (Add 3 [2] false);
     LKw 3 (KwStyle 5)].
Proof.
  simpl. repeat split; try reflexivity; intros y [<-|[]]; reflexivity.
Qed.
