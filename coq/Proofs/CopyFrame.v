(* C18: after a copy, any later sequence of operations applied to ONE side (the originals, or the
   objects of the copy) - tree operations, cell writes, setters, style updates, creation of new
   objects - leaves every observation of the OTHER side unchanged. *)
From Coq Require Import List Bool Arith PeanoNat Lia.
From MV Require Import Model.ForestModel Model.ForestExec Model.CopyModel
  Proofs.ForestInv Proofs.ForestBase Proofs.ForestRm Proofs.ForestDepth Proofs.ForestStep Proofs.ForestStep2 Proofs.ForestCopy Proofs.ForestMain
  Proofs.CopyBase Proofs.CopyProofs.
From MV Require Import Proofs.ForestFrame.
Import ListNotations.

(* ---------------------------------------------------------------- separation w.r.t. a partition *)
Section SepP.
Variable side : nat -> bool.

Definition SepP (u : cstate) : Prop :=
  (forall i j c, side i = true -> side j = false -> In c (lown u i) -> ~ In c (lown u j)) /\ Bounded u.

Lemma SepP_step u u' i o' :
  fs u' = fs u ->
  co u' = lupd (co u) i o' ->
  length (heap u) <= length (heap u') ->
  (forall c, In c (cells_of o') ->
             In c (owned u i) \/ (length (heap u) <= c /\ c < length (heap u'))) ->
  SepP u -> SepP u'.
Proof.
  intros Hfs Hco Hh Hc [D B].
  assert (O : forall j c, In c (lown u' j) ->
                In c (lown u j) \/ (j = i /\ length (heap u) <= c /\ c < length (heap u')) \/
                (j = i /\ In c (lown u i))).
  { intros j c H. unfold lown in *. rewrite Hfs in H. destruct (is_junk (fs u) j) eqn:Ej; auto.
    unfold owned, cget in H. rewrite Hco, cget_lupd in H.
    destruct (Nat.eqb j i && Nat.ltb i (length (co u))) eqn:E; auto.
    apply andb_prop in E. destruct E as [E _]. apply Nat.eqb_eq in E. subst j. rewrite Ej.
    apply Hc in H. destruct H; auto. }
  split.
  - intros a b c La Lb Ha Hb. apply O in Ha. apply O in Hb.
    destruct Ha as [Ha|[(-> & Ha1 & Ha2)|(-> & Ha)]]; destruct Hb as [Hb|[(-> & Hb1 & Hb2)|(-> & Hb)]];
      try congruence; try (eapply D; eauto; fail).
    + apply B in Ha. lia.
    + apply B in Hb. lia.
  - intros j c H. apply O in H. destruct H as [H|[(_ & _ & H)|(_ & H)]]; auto.
    + apply B in H. lia.
    + apply B in H. lia.
Qed.

Lemma SepP_touch u i : SepP u -> SepP (touch_style u i).
Proof.
  intros HS. unfold touch_style.
  destruct (style_cell (cget u i)) as [c0|] eqn:Es, (skw_pending (cget u i)) eqn:Ep; auto.
  - eapply (SepP_step u _ i); [reflexivity | simpl; reflexivity | | | exact HS]; simpl.
    + rewrite app_length. lia.
    + intros c H. apply cells_of_mk in H. rewrite app_length. simpl.
      destruct H as [H|[H|H]].
      * left. apply owned_cases. auto.
      * right. lia.
      * left. apply owned_cases. inversion H. subst. auto.
  - eapply (SepP_step u _ i); [reflexivity | simpl; reflexivity | | | exact HS]; simpl.
    + rewrite app_length. lia.
    + intros c H. apply cells_of_mk in H. rewrite app_length. simpl.
      destruct H as [H|[H|H]].
      * left. apply owned_cases. auto.
      * right. lia.
      * right. inversion H. lia.
  - eapply (SepP_step u _ i); [reflexivity | simpl; reflexivity | | | exact HS]; simpl.
    + rewrite app_length. lia.
    + intros c H. apply cells_of_mk in H. rewrite app_length. simpl.
      destruct H as [H|[H|H]].
      * left. apply owned_cases. auto.
      * left. apply owned_cases. auto.
      * right. inversion H. lia.
Qed.

Lemma SepP_set_label u i l : SepP u -> SepP (set_label u i l).
Proof.
  intros HS. unfold set_label, cupd.
  eapply (SepP_step u _ i); [reflexivity | simpl; reflexivity | | | exact HS]; simpl; auto.
Qed.

Lemma SepP_write u c v : SepP u -> SepP (write u c v).
Proof.
  intros [D B]. split; auto. intros i c' H. unfold write. simpl. rewrite lupd_length. apply (B i c' H).
Qed.

Lemma SepP_apply_kw u y k : SepP u -> SepP (apply_kw u y k).
Proof.
  intros HS. destruct k as [j v|v|l]; simpl.
  - eapply (SepP_step u _ y); [reflexivity | simpl; reflexivity | | | exact HS]; simpl.
    + rewrite app_length. lia.
    + intros c H. apply cells_of_mk in H. rewrite app_length. simpl.
      destruct H as [H|[H|H]].
      * apply In_lupd in H. destruct H as [->|H]; [right; lia|]. left. apply owned_cases. auto.
      * left. apply owned_cases. auto.
      * left. apply owned_cases. auto.
  - destruct (style_cell (cget (touch_style u y) y)); [apply SepP_write|]; apply SepP_touch; auto.
  - apply SepP_set_label. apply SepP_touch. auto.
Qed.

Lemma sepP_disjoint u b i j c : SepP u -> side i = b -> side j <> b ->
  In c (lown u i) -> ~ In c (lown u j).
Proof.
  intros [D _] Hi Hj Hc Hc'. destruct b.
  - apply (D i j c); auto. destruct (side j); congruence.
  - apply (D j i c); auto. destruct (side j); congruence.
Qed.
End SepP.

Lemma lown_live u i : is_junk (fs u) i = false -> lown u i = owned u i.
Proof. intros H. unfold lown. rewrite H. reflexivity. Qed.

Lemma lown_nonempty_lt u i c : In c (lown u i) -> i < length (fs u).
Proof.
  unfold lown. destruct (is_junk (fs u) i) eqn:E; [contradiction|]. intros _.
  apply nonjunk_lt. apply is_junk_kd. exact E.
Qed.

Lemma kw_len u i k : length (co (apply_kw u i k)) = length (co u).
Proof.
  destruct k as [sl v|v|l0].
  - simpl. apply lupd_length.
  - simpl. destruct (style_cell (cget (touch_style u i) i)); simpl; apply touch_len.
  - unfold apply_kw, set_label, cupd. simpl. rewrite lupd_length. apply touch_len.
Qed.

Lemma fold_kw_len y ks : forall u, length (co (fold_left (fun s k => apply_kw s y k) ks u)) = length (co u).
Proof. induction ks as [|k ks IH]; intros u; simpl; auto. rewrite IH. apply kw_len. Qed.

Lemma copy_co_len s x kws : WF s -> live (fs s) x = true ->
  length (co (copy s x kws)) = length (fs (copy s x kws)).
Proof.
  intros HW Hx. rewrite fs_copy, copy_length, copy_unfold, !fold_kw_len.
  apply (pf_len s x _ (proj1 (PF_s2 s x HW Hx))).
Qed.

(* ---------------------------------------------------------------- later operations *)
Inductive lop :=
| LTree (o : op)                  (* add / remove / parent = / children,sources,sensors,collections = *)
| LWrite (c v : nat)              (* in-place write into a buffer *)
| LKw (i : nat) (k : kwarg)       (* setter (rebinding), style update, label assignment on object i *)
| LNew (k : kind) (toks : list nat) (style_mode st : nat) (l : label)
                                  (* a NEW object: Sensor(..), Cuboid(..), Collection() (followed by LTree
                                     (Add ..) this is Collection(a, b) and a + b) *)
| LCopy (x : nat) (kws : list kwarg).   (* a further copy() of an object of the side *)

Definition lstep (u : cstate) (l : lop) : cstate :=
  match l with
  | LTree o => if creates o then u else mkCstate (fst (step repaired (fs u) o)) (co u) (heap u)
  | LWrite c v => write u c v
  | LKw i k => apply_kw u i k
  | LNew k toks m st l => cnew u k toks m st l
  | LCopy x kws => if live (fs u) x then copy u x kws else u
  end.

Definition lrun (u : cstate) (ls : list lop) : cstate := fold_left lstep ls u.

Section Later.
Variable side : nat -> bool.
Variable b : bool.

Definition lok (u : cstate) (l : lop) : Prop :=
  match l with
  | LTree o => op_on side b o
  | LWrite c v => exists j, side j = b /\ In c (lown u j)
  | LKw i k => side i = b /\ is_junk (fs u) i = false
  | LNew _ _ _ _ _ => True       (* the new object belongs to side b (hypothesis on `side` below) *)
  | LCopy x _ => side x = b      (* so do the objects of the new copy *)
  end.

Fixpoint lrun_ok (u : cstate) (ls : list lop) : Prop :=
  match ls with [] => True | l :: r => lok u l /\ lrun_ok (lstep u l) r end.

Lemma SepP_same_kinds u u' : co u' = co u -> heap u' = heap u ->
  (forall i, kd (fs u') i = kd (fs u) i) -> SepP side u -> SepP side u'.
Proof.
  intros Hc Hh Hk [D B].
  assert (L : forall i, lown u' i = lown u i).
  { intros i. unfold lown, owned, cget, is_junk, is_k. rewrite Hk, Hc. reflexivity. }
  split.
  - intros i j c. rewrite !L. apply D.
  - intros i c. rewrite L, Hh. apply B.
Qed.

Lemma view_apply_kw_other u i k j : SepP side u -> side i = b -> side j <> b ->
  is_junk (fs u) i = false -> is_junk (fs u) j = false ->
  view (apply_kw u i k) j = view u j.
Proof.
  intros HS Hi Hj Li Lj.
  assert (Hne : j <> i) by (intros ->; contradiction).
  assert (Bd : forall u0, SepP side u0 -> fs u0 = fs u -> forall m, (m = i \/ m = j) ->
                 forall c, In c (owned u0 m) -> c < length (heap u0)).
  { intros u0 [_ B0] F0 m Hm c Hc. apply (B0 m c). rewrite lown_live; auto.
    rewrite F0. destruct Hm; subst; auto. }
  destruct k as [sl v|v|l]; simpl.
  - apply view_stable.
    + unfold cget. simpl. rewrite cget_lupd. destruct (Nat.eqb_spec j i); [contradiction | reflexivity].
    + intros c Hc. unfold hget. simpl. apply app_nth1. apply (Bd u HS eq_refl j); auto.
  - assert (V1 : view (touch_style u i) j = view u j).
    { apply view_touch; apply (Bd u HS eq_refl); auto. }
    destruct (style_cell (cget (touch_style u i) i)) as [c|] eqn:Es; auto.
    rewrite <- V1. apply view_stable; auto. intros c' Hc'. apply hget_write. intros ->.
    pose proof (SepP_touch side u i HS) as HS1.
    apply (sepP_disjoint side (touch_style u i) b i j c HS1 Hi Hj).
    + rewrite lown_live by (rewrite fs_touch; exact Li). apply owned_cases. auto.
    + rewrite lown_live by (rewrite fs_touch; exact Lj). exact Hc'.
  - rewrite view_set_label by exact Hne. apply view_touch; apply (Bd u HS eq_refl); auto.
Qed.

(* ---- the invariant along the run *)
Variable u0 : cstate.
Hypothesis Hnew : forall i, length (fs u0) <= i -> side i = b.   (* new ids belong to side b *)

Record KI (u : cstate) : Prop := mkKI {
  ki_sep : SepP side u;
  ki_len : length (co u) = length (fs u);
  ki_inv : Inv (fs u);
  ki_fr : exists g, FRg side b g (fs u0) (fs u);
  ki_view : forall j, side j <> b -> is_junk (fs u0) j = false -> view u j = view u0 j }.

Lemma off_old j : side j <> b -> j < length (fs u0).
Proof. intros H. destruct (Nat.lt_ge_cases j (length (fs u0))); auto. exfalso. apply H. apply Hnew. auto. Qed.

Lemma junk_same u j : KI u -> j < length (fs u0) -> is_junk (fs u) j = is_junk (fs u0) j.
Proof.
  intros HK L. destruct (ki_fr u HK) as (g & F). unfold is_junk, is_k.
  rewrite (fr_kd _ _ _ _ _ F j L). reflexivity.
Qed.

Lemma KI_new u k toks m st l : KI u -> KI (cnew u k toks m st l).
Proof.
  intros HK. destruct (ki_fr u HK) as (g & F).
  set (t := fs u) in *. set (nn := length t).
  assert (Hs : side nn = b) by (apply Hnew; unfold nn; rewrite (fr_len _ _ _ _ _ F); lia).
  pose proof (FRg_newobj side b t k (fr_closed _ _ _ _ _ F) Hs) as F1.
  set (t' := fst (step repaired t (NewObj k))) in *.
  assert (Lt' : length t' = S nn) by (rewrite (fr_len _ _ _ _ _ F1); unfold nn; lia).
  destruct (ki_sep u HK) as [D B].
  assert (Ec : length (co u) = nn) by (unfold nn, t; apply HK).
  set (h := length (heap u)).
  set (u' := cnew u k toks m st l).
  assert (Fu : fs u' = t') by reflexivity.
  (* cells of the objects of the new state *)
  assert (Jold : forall i, i < nn -> is_junk (fs u') i = is_junk t i).
  { intros i Li. rewrite Fu. unfold is_junk, is_k. rewrite (fr_kd _ _ _ _ _ F1 i Li). reflexivity. }
  assert (Cold : forall i, i < nn -> cget u' i = cget u i).
  { intros i Li. unfold u', cnew, cget. simpl. apply app_nth1. rewrite Ec. exact Li. }
  assert (Lold : forall i, i < nn -> lown u' i = lown u i).
  { intros i Li. unfold lown, owned. rewrite Jold, Cold by exact Li. reflexivity. }
  assert (Lbig : forall i, nn < i -> lown u' i = []).
  { intros i Li. unfold lown. replace (is_junk (fs u') i) with true; auto.
    rewrite Fu. unfold is_junk, is_k, kd. rewrite get_oob by lia. reflexivity. }
  assert (Lnew : forall c, In c (lown u' nn) -> h <= c /\ c < length (heap u')).
  { intros c Hc. unfold lown in Hc. destruct (is_junk (fs u') nn) eqn:Ej; [contradiction|].
    unfold owned, u', cnew, cget in Hc. simpl in Hc. rewrite app_nth2 in Hc; [|rewrite Ec; apply Nat.le_refl].
    rewrite Ec, Nat.sub_diag in Hc. simpl in Hc.
    destruct k.
    1-3: (unfold new_cobj in Hc; apply cells_of_mk in Hc; unfold u', cnew; simpl; fold h;
          rewrite !app_length; simpl;
          destruct Hc as [Hc|[Hc|Hc]];
          [apply in_seq in Hc; lia | lia |
           destruct (Nat.eqb m 2); [inversion Hc; simpl; lia | discriminate]]).
    exfalso. rewrite Fu in Ej. unfold t' in Ej. simpl in Ej. unfold is_junk, is_k, kd in Ej.
    rewrite get_app_new in Ej. discriminate. }
  assert (Hh : h <= length (heap u')).
  { unfold u', cnew. simpl. destruct k; try rewrite app_length; fold h; lia. }
  assert (Bold : forall i c, i < nn -> In c (lown u' i) -> c < h).
  { intros i c Li Hc. rewrite Lold in Hc by exact Li. apply (B i c Hc). }
  split.
  - split.
    + intros i j c Si Sj Hi Hj.
      destruct (Nat.lt_total i nn) as [Li|[Li|Li]]; destruct (Nat.lt_total j nn) as [Lj|[Lj|Lj]];
        try (rewrite Lbig in Hi by exact Li; contradiction);
        try (rewrite Lbig in Hj by exact Lj; contradiction).
      * rewrite Lold in Hi, Hj by assumption. exact (D i j c Si Sj Hi Hj).
      * subst j. apply Lnew in Hj. apply Bold in Hi; auto. lia.
      * subst i. apply Lnew in Hi. apply Bold in Hj; auto. lia.
      * subst. congruence.
    + intros i c Hc. destruct (Nat.lt_total i nn) as [Li|[Li|Li]].
      * apply Bold in Hc; auto. lia.
      * subst i. apply Lnew in Hc. lia.
      * rewrite Lbig in Hc by exact Li. contradiction.
  - rewrite Fu, Lt'. unfold u', cnew. simpl. rewrite app_length, Ec. simpl. lia.
  - rewrite Fu. unfold t'. apply step_inv. apply HK.
  - exists (g + 1). rewrite Fu. apply (FRg_trans side b g 1 (fs u0) t t'); auto.
  - intros j Hj Lj. rewrite <- (ki_view u HK j Hj Lj).
    pose proof (off_old j Hj) as Lo.
    assert (Ljn : j < nn) by (unfold nn; rewrite (fr_len _ _ _ _ _ F); lia).
    apply view_stable; [apply Cold; exact Ljn|].
    intros c Hc. assert (c < h).
    { apply (B j c). rewrite lown_live; auto. rewrite (junk_same u j HK Lo). exact Lj. }
    unfold hget, u', cnew. simpl. destruct k; try reflexivity; apply app_nth1; exact H.
Qed.


Lemma KI_WF u : KI u -> WF u.
Proof. intros HK. split; [apply HK | split; [apply HK | apply (ki_sep u HK)]]. Qed.

Lemma KI_copy u x kws : KI u -> live (fs u) x = true -> KI (copy u x kws).
Proof.
  intros HK Lx. pose proof (KI_WF u HK) as HW. destruct (ki_fr u HK) as (g & F).
  set (N' := length (fs u)). set (u' := copy u x kws).
  pose proof (PO_copy u x HW Lx kws) as HPO. pose proof (PC_copy u x HW kws) as HPC. fold u' in HPO, HPC.
  destruct (po_sep u x u' HPO) as [D' B']. destruct (ki_sep u HK) as [D B].
  assert (LN : length (fs u0) <= N') by (unfold N'; rewrite (fr_len _ _ _ _ _ F); lia).
  assert (Hnew' : forall i, N' <= i -> side i = b) by (intros i Li; apply Hnew; lia).
  split.
  - split; [|exact B'].
    intros i j c Si Sj Hi Hj.
    destruct (Nat.lt_ge_cases i N') as [Li|Li]; destruct (Nat.lt_ge_cases j N') as [Lj|Lj].
    + destruct (pc_cells u x u' HPC i c Li Hi) as [Oi|(-> & Fi)];
        destruct (pc_cells u x u' HPC j c Lj Hj) as [Oj|(-> & Fj)].
      * exact (D i j c Si Sj Oi Oj).
      * apply B in Oi. lia.
      * apply B in Oj. lia.
      * congruence.
    + exact (D' i j c Li Lj Hi Hj).
    + exact (D' j i c Lj Li Hj Hi).
    + rewrite (Hnew' i Li) in Si. rewrite (Hnew' j Lj) in Sj. congruence.
  - apply copy_co_len; auto.
  - unfold u'. rewrite fs_copy. apply copy_inv; auto. apply HK.
  - exists (g + N'). unfold u'. rewrite fs_copy.
    apply (FRg_trans side b g N' (fs u0) (fs u)); auto.
    apply FRg_copy; auto; [apply HK | apply F].
  - intros j Hj Lj. rewrite <- (ki_view u HK j Hj Lj).
    pose proof (off_old j Hj) as Lo.
    assert (LjN : j < N') by (unfold N' in *; lia).
    apply (po_old u x u' HPO j LjN). apply (old_live u x j LjN).
    rewrite (junk_same u j HK Lo). exact Lj.
Qed.

Lemma KI_step u l : KI u -> lok u l -> KI (lstep u l).
Proof.
  intros HK Hl. destruct l as [o|c v|i k|k toks m st l|x kws]; simpl in *.
  - destruct (creates o); auto. destruct (ki_fr u HK) as (g & F).
    pose proof (step_frame side b (fs u) o (fr_closed _ _ _ _ _ F) Hl) as F1.
    split; simpl.
    + apply (SepP_same_kinds u); auto; [apply (FR0_kd side b _ _ F1) | apply HK].
    + rewrite (fr_len _ _ _ _ _ F1). rewrite Nat.add_0_r. apply HK.
    + apply step_inv. apply HK.
    + exists g. replace g with (g + 0) by lia. eapply FRg_trans; eauto.
    + intros j Hj Lj. rewrite <- (ki_view u HK j Hj Lj). reflexivity.
  - destruct Hl as (i & Hi & Hc). split.
    + apply SepP_write. apply HK.
    + apply HK.
    + apply HK.
    + apply HK.
    + intros j Hj Lj. rewrite <- (ki_view u HK j Hj Lj). apply view_stable; auto.
      intros c' Hc'. apply hget_write. intros ->.
      apply (sepP_disjoint side u b i j c (ki_sep u HK) Hi Hj Hc).
      rewrite lown_live; auto. rewrite (junk_same u j HK (off_old j Hj)). exact Lj.
  - destruct Hl as (Hi & Li). split.
    + apply SepP_apply_kw. apply HK.
    + rewrite fs_apply_kw, kw_len. apply HK.
    + rewrite fs_apply_kw. apply HK.
    + rewrite fs_apply_kw. apply HK.
    + intros j Hj Lj. rewrite <- (ki_view u HK j Hj Lj).
      apply view_apply_kw_other; auto; [apply HK | rewrite (junk_same u j HK (off_old j Hj)); exact Lj].
  - apply KI_new. exact HK.
  - destruct (live (fs u) x) eqn:Lx; auto. apply KI_copy; auto.
Qed.

Lemma KI_run ls : forall u, KI u -> lrun_ok u ls -> KI (lrun u ls).
Proof.
  induction ls as [|l r IH]; intros u HK Hok; simpl; auto.
  destruct Hok as [H1 H2]. apply IH; auto. apply KI_step; auto.
Qed.
End Later.

(* ---------------------------------------------------------------- more fuel changes nothing *)
Lemma flat_nil f s want : flat f s want [] = [].
Proof. destruct f; reflexivity. Qed.

Lemma flat_stable s want : forall f l,
  (forall q d x, In q l -> is_coll s q = true -> below s d q x -> d <= f) ->
  forall f', f <= f' -> flat f' s want l = flat f s want l.
Proof.
  induction f as [|f IH]; intros l Hb f' Hf.
  - destruct f' as [|k]; auto. simpl.
    induction l as [|o r IHl]; simpl; auto.
    rewrite IHl by (intros; eapply Hb; eauto; right; auto).
    destruct (is_coll s o) eqn:Co.
    + assert (E : chl s o = []).
      { destruct (chl s o) as [|y ys] eqn:E; auto. exfalso.
        assert (B : below s 1 o y) by (apply below_child; rewrite E; left; reflexivity).
        specialize (Hb o 1 y (or_introl eq_refl) Co B). lia. }
      rewrite E, flat_nil. destruct (want o); reflexivity.
    + destruct (want o); reflexivity.
  - destruct f' as [|k]; [lia|]. simpl. apply flat_map_ext_in'. intros o Ho. f_equal.
    destruct (is_coll s o) eqn:Co; auto. apply IH; [|lia].
    intros q d y Hq Cq B.
    assert (B' : below s (S d) o y) by (eapply below_step; eauto).
    specialize (Hb o (S d) y Ho Co B'). lia.
Qed.

Lemma flat_fuel_irrelevant s want j f : Inv s -> length s <= f ->
  flat f s want (chl s j) = flat (length s) s want (chl s j).
Proof.
  intros HI Hf. apply flat_stable; auto. intros q d y Hq Cq B.
  assert (B' : below s (S d) j y) by (eapply below_step; eauto).
  pose proof (upn_bound s _ _ _ HI (below_upn s HI _ _ _ B')). lia.
Qed.

(* ---------------------------------------------------------------- the partition after a copy *)
(* objects that exist right after the copy (ids < N): the originals are the ids < n, the rest are the
   objects of the copy; objects created LATER (ids >= N) belong to the side that creates them *)
Definition sideb (n N : nat) (b : bool) (i : nat) : bool := if Nat.ltb i N then Nat.ltb i n else b.

Lemma copy_closed_thr s x : Inv s -> live s x = true ->
  Closed (fun i => Nat.ltb i (length s)) (copy_op s x).
Proof.
  intros HI Hx. set (n := length s). set (t := copy_op s x). unfold Closed. split.
  - intros q y Hy. destruct (t_cases s x q) as [(L & E)|[(p & -> & Sp)|E]].
    + fold t in E. rewrite E in Hy. destruct (inv_child _ HI q y Hy) as (A & _).
      fold n in A, L. apply Nat.ltb_lt in A. apply Nat.ltb_lt in L. congruence.
    + unfold t in Hy. rewrite (t_clone s x HI Hx p Sp) in Hy. simpl in Hy.
      apply In_shift in Hy. destruct Hy as (o & -> & _).
      destruct (Nat.ltb_spec (length s + o) n); [unfold n in *; lia|].
      destruct (Nat.ltb_spec (length s + p) n); [unfold n in *; lia|]. reflexivity.
    + fold t in E. rewrite E in Hy. contradiction.
  - intros y q Hq. destruct (t_cases s x y) as [(L & E)|[(o & -> & So)|E]].
    + fold t in E. rewrite E in Hq. destruct (inv_parent _ HI y q Hq) as (A & _).
      fold n in A, L. apply Nat.ltb_lt in A. apply Nat.ltb_lt in L. congruence.
    + unfold t in Hq. rewrite (t_clone s x HI Hx o So) in Hq. simpl in Hq.
      destruct (Nat.eqb o x); [discriminate|].
      destruct (par s o) as [p|]; [|discriminate]. simpl in Hq. inversion Hq.
      destruct (Nat.ltb_spec (length s + o) n); [unfold n in *; lia|].
      destruct (Nat.ltb_spec (length s + p) n); [unfold n in *; lia|]. reflexivity.
    + fold t in E. rewrite E in Hq. discriminate.
Qed.

Lemma copy_closed_sideb s x b : Inv s -> live s x = true ->
  Closed (sideb (length s) (length s + length s) b) (copy_op s x).
Proof.
  intros HI Hx. destruct (copy_closed_thr s x HI Hx) as [C1 C2].
  pose proof (copy_inv s x HI Hx) as HT. pose proof (copy_length s x) as LT.
  assert (E : forall i, i < length (copy_op s x) ->
              sideb (length s) (length s + length s) b i = Nat.ltb i (length s)).
  { intros i Li. unfold sideb. rewrite LT in Li. apply Nat.ltb_lt in Li. rewrite Li. reflexivity. }
  split.
  - intros p y Hy. destruct (inv_child _ HT p y Hy) as (A & _). pose proof (chl_lt _ _ _ Hy) as B.
    rewrite !E by assumption. apply C1. exact Hy.
  - intros y p Hp. destruct (inv_parent _ HT y p Hp) as (A & _). pose proof (par_lt _ _ _ Hp) as B.
    rewrite !E by assumption. apply C2. exact Hp.
Qed.

(* everything the other side shows: the object records (parent, children, typed lists), the
   flattened views and the readings of all attributes / style / label *)
Theorem later_ops_frame s x kws : WF s -> live (fs s) x = true ->
  let u0 := copy s x kws in let n := length (fs s) in
  forall (b : bool) (ls : list lop),
  let side := sideb n (n + n) b in
  lrun_ok side b u0 ls ->
  let u := lrun u0 ls in
  forall j, side j <> b ->
    get (fs u) j = get (fs u0) j /\
    children_all (fs u) j = children_all (fs u0) j /\
    sources_all (fs u) j = sources_all (fs u0) j /\
    sensors_all (fs u) j = sensors_all (fs u0) j /\
    collections_all (fs u) j = collections_all (fs u0) j /\
    (is_junk (fs u0) j = false -> view u j = view u0 j).
Proof.
  intros HW Hx u0 n b ls side Hok u j Hj.
  assert (L0 : length (fs u0) = n + n) by (unfold u0; rewrite fs_copy; apply copy_length).
  assert (Hnew : forall i, length (fs u0) <= i -> side i = b).
  { intros i Li. unfold side, sideb. destruct (Nat.ltb_spec i (n + n)); [lia | reflexivity]. }
  assert (HC0 : Closed side (fs u0)).
  { unfold u0. rewrite fs_copy. apply copy_closed_sideb; auto. apply HW. }
  assert (K0 : KI side b u0 u0).
  { split.
    - destruct (po_sep s x u0 (PO_copy s x HW Hx kws)) as [D B]. split; auto.
      intros i i' c Si Si' Hi Hi'.
      pose proof (lown_nonempty_lt _ _ _ Hi) as Li. pose proof (lown_nonempty_lt _ _ _ Hi') as Li'.
      unfold side, sideb in Si, Si'. rewrite L0 in Li, Li'.
      apply Nat.ltb_lt in Li. apply Nat.ltb_lt in Li'. rewrite Li in Si. rewrite Li' in Si'.
      apply Nat.ltb_lt in Si. apply Nat.ltb_ge in Si'. exact (D i i' c Si Si' Hi Hi').
    - apply copy_co_len; auto.
    - unfold u0. rewrite fs_copy. apply copy_inv; auto. apply HW.
    - exists 0. apply FR_refl. exact HC0.
    - reflexivity. }
  pose proof (KI_run side b u0 Hnew ls u0 K0 Hok) as HK. fold u in HK.
  destruct (ki_fr _ _ _ _ HK) as (g & [F1 F2 F3 F4 F5]).
  pose proof (off_old side b u0 Hnew j Hj) as Lj.
  assert (G : forall want want', (forall i, side i <> b -> want' i = want i) ->
            flat (fuel_of (fs u)) (fs u) want' (children (get (fs u) j)) =
            flat (fuel_of (fs u0)) (fs u0) want (children (get (fs u0) j))).
  { intros want want' Hw. rewrite (F4 j Hj).
    assert (Hl : forall y, In y (children (get (fs u0) j)) -> side y <> b).
    { intros y Hy. destruct HC0 as [C1 _]. rewrite (C1 j y Hy). exact Hj. }
    (* more fuel does not change the flattening of a subtree that fits into the smaller fuel *)
    rewrite (flat_agree side b (fs u0) (fs u) want want' HC0 F4 Hw (fuel_of (fs u))); auto.
    apply flat_fuel_irrelevant.
    - unfold u0. rewrite fs_copy. apply copy_inv; auto. apply HW.
    - unfold fuel_of. lia. }
  assert (Kk : forall kk i, side i <> b -> is_k kk (fs u) i = is_k kk (fs u0) i).
  { intros kk i Hi. unfold is_k, kd. rewrite (F4 i Hi). reflexivity. }
  split; [apply F4; exact Hj|].
  split; [apply G; intros i Hi; unfold w_all, is_junk; rewrite Kk; auto|].
  split; [apply G; intros i Hi; apply Kk; auto|].
  split; [apply G; intros i Hi; apply Kk; auto|].
  split; [apply G; intros i Hi; apply Kk; auto|].
  apply (ki_view _ _ _ _ HK j Hj).
Qed.

(* non-vacuity: operations on the copy of ex_world (clone of the collection = object 3, clone of
   its sensor = object 2), including a new collection (object 4) and a further copy *)
Example later_ops_example :
  lrun_ok (sideb 2 4 false) false (copy ex_world 1 [])
    [LTree (Remove 3 [2] true ERaise); LKw 2 (KwAttr 0 7); LNew KColl [1; 2] 0 0 None;
     LTree (Add 4 [2] false); LCopy 4 []; LKw 3 (KwStyle 5)].
Proof.
  simpl. repeat split; try reflexivity; intros y [<-|[]]; reflexivity.
Qed.
