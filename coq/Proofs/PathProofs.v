(* Proofs about PathModel: the implementation-shaped model equals the declarative
   path semantics for ALL path lengths, input lengths and start values. *)
From Coq Require Import ZArith List Bool Lia ZifyBool.
From MV Require Import Lib.ListZ Lib.Rigid Gen.GenPath Model.PathModel.
Import ListNotations.
Open Scope Z_scope.

(* ---- the translated padding arithmetic *)
Definition start1 (sc : bool) (n : Z) (st : option Z) : Z :=
  let s0 := match st with None => if sc then 0 else n | Some s => s end in
  if s0 <? 0 then n + s0 else s0.

Lemma ppp_spec sc n k st : 1 <= n -> 0 <= k -> (sc = true -> k = 1) ->
  let '(pad, s) := path_padding_param sc n k st in
  let b := match pad with Some (b, _) => b | None => 0 end in
  let a := match pad with Some (_, a) => a | None => 0 end in
  let s1 := start1 sc n st in
  b = Z.max 0 (- s1) /\ s = Z.max 0 s1 /\ 0 <= a /\ b + n + a = Z.max (b + n) (s + k).
Proof.
  intros Hn Hk Hs. unfold path_padding_param, start1.
  destruct st as [s|]; [|destruct sc]; cbn -[Z.add Z.sub Z.ltb Z.gtb Z.max Z.opp];
  repeat match goal with |- context[if ?c then _ else _] => destruct c eqn:? end;
  repeat match goal with H : context[if ?c then _ else _] |- _ => destruct c eqn:? end;
  cbn -[Z.add Z.sub Z.ltb Z.gtb Z.max Z.opp]; lia.
Qed.

Section Proofs.
Context {O : RigidOps}.

(* ---- path_padding *)
Definition pp_b sc n st := Z.max 0 (- start1 sc n st).
Definition pp_s sc n st := Z.max 0 (start1 sc n st).
Definition pp_n' sc n k st := Z.max (pp_b sc n st + n) (pp_s sc n st + k).

Lemma path_padding_spec sc lenvec st (o : obj) :
  wf o -> (sc = false -> 0 <= lenvec) ->
  let n := zlen (pos o) in
  let k := if sc then 1 else lenvec in
  let '(ppath, opath, s, e, padded) := path_padding sc lenvec st o in
  s = pp_s sc n st /\
  e = (if sc then pp_n' sc n k st else s + k) /\
  zlen ppath = pp_n' sc n k st /\ zlen opath = pp_n' sc n k st /\
  (forall i, 0 <= i < pp_n' sc n k st ->
     nthZ vzero ppath i = nthZ vzero (pos o) (clampZ (i - pp_b sc n st) 0 (n - 1)) /\
     nthZ gone opath i = nthZ gone (ori o) (clampZ (i - pp_b sc n st) 0 (n - 1))) /\
  (padded = false -> opath = ori o).
Proof.
  intros [Hn Heq] Hk. cbn zeta. unfold path_padding.
  set (k := if sc then 1 else lenvec).
  assert (Hk0 : 0 <= k) by (unfold k; destruct sc; [lia|auto]).
  assert (Hk1 : sc = true -> k = 1) by (unfold k; intros ->; reflexivity).
  pose proof (ppp_spec sc (zlen (pos o)) k st Hn Hk0 Hk1) as H.
  destruct (path_padding_param sc (zlen (pos o)) k st) as [pad s].
  unfold pp_n', pp_b, pp_s.
  assert (Hp : pos o <> []) by (apply zlen_pos_nonnil; lia).
  assert (Ho : ori o <> []) by (apply zlen_pos_nonnil; lia).
  destruct pad as [[b a]|]; cbn zeta in H; destruct H as (Hb & Hs & Ha & Hlen).
  - assert (Hb0 : 0 <= b) by lia.
    rewrite !zlen_edge_pad by lia. rewrite <- Heq.
    repeat split; try lia.
    + destruct sc; lia.
    + rewrite nth_edge_pad by (auto; lia). rewrite Hb. reflexivity.
    + rewrite nth_edge_pad by (auto; lia). rewrite <- Heq, Hb. reflexivity.
  - rewrite <- Heq. repeat split; try lia.
    + destruct sc; lia.
    + f_equal. unfold clampZ. lia.
    + f_equal. unfold clampZ. lia.
Qed.

(* nth of spec_path *)
Lemma zlen_spec_path {A} (d : A) P k sc st f : 1 <= zlen P -> 0 <= k ->
  zlen (spec_path d P k sc st f) = pp_n' sc (zlen P) k st.
Proof.
  intros HP Hk. unfold spec_path. rewrite zlen_tabulate; [reflexivity|].
  unfold pp_n', pp_b, pp_s, start1. lia.
Qed.

Lemma nth_spec_path {A} (d : A) P k sc st f i : 0 <= i < pp_n' sc (zlen P) k st ->
  nthZ d (spec_path d P k sc st f) i =
  let old := nthZ d P (clampZ (i - pp_b sc (zlen P) st) 0 (zlen P - 1)) in
  if (pp_s sc (zlen P) st <=? i) && (sc || (i <? pp_s sc (zlen P) st + k))
  then f (i - pp_s sc (zlen P) st) old else old.
Proof.
  intros Hi. unfold spec_path. rewrite nth_tabulate; [reflexivity|exact Hi].
Qed.

Lemma pp_bounds sc n k st : 1 <= n -> 0 <= k ->
  0 <= pp_s sc n st /\ pp_s sc n st + k <= pp_n' sc n k st /\ 1 <= pp_n' sc n k st.
Proof. intros; unfold pp_n', pp_s, pp_b, start1. lia. Qed.

(* generic: updating the padded path on [s, e) is the declarative path *)
Lemma upd_padded_is_spec {A} (d : A) (P pth : list A) sc k st (f : Z -> A -> A) e :
  1 <= zlen P -> 0 <= k -> (sc = true -> k = 1) ->
  zlen pth = pp_n' sc (zlen P) k st ->
  (forall i, 0 <= i < pp_n' sc (zlen P) k st ->
      nthZ d pth i = nthZ d P (clampZ (i - pp_b sc (zlen P) st) 0 (zlen P - 1))) ->
  e = (if sc then pp_n' sc (zlen P) k st else pp_s sc (zlen P) st + k) ->
  upd_range (pp_s sc (zlen P) st) e f pth = spec_path d P k sc st f.
Proof.
  intros HP Hk Hsc Hlen Hnth He.
  pose proof (pp_bounds sc (zlen P) k st HP Hk) as (Hs0 & Hsk & Hn1).
  assert (Hse : pp_s sc (zlen P) st <= e <= zlen pth).
  { rewrite Hlen, He. destruct sc; lia. }
  apply (nth_ext_Z d).
  - rewrite zlen_upd_range by lia. rewrite zlen_spec_path by lia. exact Hlen.
  - intros i Hi. rewrite zlen_upd_range in Hi by lia.
    rewrite nth_upd_range by lia. rewrite nth_spec_path by lia. cbn zeta.
    rewrite Hnth by lia.
    replace (i <? e) with (sc || (i <? pp_s sc (zlen P) st + k)); [reflexivity|].
    rewrite He. destruct sc; cbn [orb]; [|reflexivity]. symmetry. apply Z.ltb_lt. lia.
Qed.

Theorem move_spec (o : obj) (d : inp V) (st : option Z) :
  wf o -> wf_inp d -> apply_move o d st = spec_move o d st.
Proof.
  intros Hwf Hd. unfold apply_move, spec_move.
  pose proof (path_padding_spec (is_scalar d) (ilen d) st o Hwf) as H.
  assert (Hl : is_scalar d = false -> 0 <= ilen d) by (intros _; unfold wf_inp in Hd; lia).
  specialize (H Hl). cbn zeta in H.
  destruct (path_padding (is_scalar d) (ilen d) st o) as [[[[ppath opath] s] e] padded].
  destruct H as (Hs & He & Hlp & Hlo & Hnth & Hpad).
  destruct Hwf as [Hn Heq].
  set (sc := is_scalar d) in *. set (k := if sc then 1 else ilen d) in *.
  assert (Hk : 0 <= k) by (unfold k; destruct sc; unfold wf_inp in Hd; lia).
  assert (Hk1 : sc = true -> k = 1) by (unfold k; intros ->; reflexivity).
  f_equal.
  - subst s. apply upd_padded_is_spec; auto;
      try (intros i Hi; apply (Hnth i Hi)); try (rewrite He; destruct sc; reflexivity).
  - transitivity opath; [destruct padded; auto; symmetry; auto|].
    apply (nth_ext_Z gone).
    + rewrite zlen_spec_path by lia. rewrite <- Heq. exact Hlo.
    + intros i Hi. rewrite Hlo in Hi. rewrite nth_spec_path by (rewrite <- Heq; exact Hi).
      cbn zeta. rewrite <- Heq. destruct (Hnth i Hi) as [_ ->].
      destruct (_ && _); reflexivity.
Qed.

(* rotation, inputs already of common length (what multi_anchor produces) *)
Definition anchor_fun (a : option (inp V)) : option (Z -> V) :=
  match a with Some a => Some (iget vzero a) | None => None end.

Lemma rotate_core_spec (o : obj) (r : inp G) (anc : option (Z -> V)) (st : option Z)
      ppath opath e :
  wf o -> wf_inp r ->
  let sc := is_scalar r in let k := if sc then 1 else ilen r in
  let n := zlen (pos o) in
  e = (if sc then pp_n' sc n k st else pp_s sc n st + k) ->
  zlen ppath = pp_n' sc n k st -> zlen opath = pp_n' sc n k st ->
  (forall i, 0 <= i < pp_n' sc n k st ->
     nthZ vzero ppath i = nthZ vzero (pos o) (clampZ (i - pp_b sc n st) 0 (n - 1)) /\
     nthZ gone opath i = nthZ gone (ori o) (clampZ (i - pp_b sc n st) 0 (n - 1))) ->
  {| pos := match anc with
            | Some a => upd_range (pp_s sc n st) e
                          (fun j p => vadd (act (iget gone r j) (vsub p (a j))) (a j)) ppath
            | None => ppath end;
     ori := upd_range (pp_s sc n st) e (fun j q => gmul (iget gone r j) q) opath |}
  = spec_rotate o r anc st.
Proof.
  intros [Hn Heq] Hr sc k n He Hlp Hlo Hnth. unfold spec_rotate. fold sc. fold k.
  assert (Hk : 0 <= k) by (unfold k; destruct sc; unfold wf_inp in Hr; lia).
  assert (Hk1 : sc = true -> k = 1) by (unfold k; intros ->; reflexivity).
  f_equal.
  - destruct anc as [a|].
    + apply upd_padded_is_spec; auto. intros i Hi. apply (Hnth i Hi).
    + apply (nth_ext_Z vzero).
      * rewrite zlen_spec_path by lia. exact Hlp.
      * intros i Hi. rewrite Hlp in Hi. rewrite nth_spec_path by exact Hi. cbn zeta.
        destruct (Hnth i Hi) as [-> _]. destruct (_ && _); reflexivity.
  - unfold n in *. rewrite Heq in *. apply upd_padded_is_spec; auto; try lia.
    intros i Hi. apply (Hnth i Hi).
Qed.

Theorem rotate_spec_no_parent (o : obj) (r : inp G) (a : option (inp V)) (st : option Z) :
  wf o -> wf_inp r ->
  let '(a', r') := match a with
                   | Some a => let '(a', r') := multi_anchor a r in (Some a', r')
                   | None => (None, r) end in
  wf_inp r' ->
  apply_rotation o r a st None = spec_rotate o r' (anchor_fun a') st.
Proof.
  intros Hwf Hr. unfold apply_rotation.
  destruct (match a with
            | Some a0 => let '(a', r') := multi_anchor a0 r in (Some a', r')
            | None => (None, r) end) as [a' r'] eqn:E.
  intros Hr'.
  pose proof (path_padding_spec (is_scalar r') (ilen r') st o Hwf) as H.
  assert (Hl : is_scalar r' = false -> 0 <= ilen r') by (intros _; unfold wf_inp in Hr'; lia).
  specialize (H Hl). cbn zeta in H.
  destruct (path_padding (is_scalar r') (ilen r') st o) as [[[[ppath opath] s] e] padded].
  destruct H as (Hs & He & Hlp & Hlo & Hnth & _). subst s.
  replace (match a' with Some a0 => Some (iget vzero a0) | None => None end)
    with (anchor_fun a') by (destruct a'; reflexivity).
  apply rotate_core_spec; auto;
    try (rewrite He; destruct (is_scalar r'); reflexivity).
Qed.

(* multi_anchor brings both to a common length (or leaves a scalar) *)
Lemma nth_edge_pad_end {A} (d : A) m (l : list A) j : 1 <= zlen l -> 0 <= m ->
  0 <= j < zlen l + m -> nthZ d (edge_pad d 0 m l) j = nthZ d l (Z.min j (zlen l - 1)).
Proof.
  intros Hl Hm Hj. rewrite nth_edge_pad by (try apply zlen_pos_nonnil; lia).
  unfold clampZ. f_equal. lia.
Qed.

Ltac one1 := repeat match goal with |- context[zlen [?x]] => change (zlen [x]) with 1 end.

Lemma multi_anchor_wf (a : inp V) (r : inp G) : wf_inp a -> wf_inp r ->
  let '(a', r') := multi_anchor a r in
  wf_inp a' /\ wf_inp r' /\
  (is_scalar r' = false -> is_scalar a' = false -> ilen a' = ilen r') /\
  ilen r' = Z.max (ilen r) (match a with Scalar _ => 1 | Vector xs => zlen xs end) /\
  (forall j, 0 <= j < ilen r' ->
     iget gone r' j = iget gone r (Z.min j (ilen r - 1)) /\
     iget vzero a' j = iget vzero a (Z.min j (ilen a - 1))).
Proof.
  intros Ha Hr. unfold multi_anchor, wf_inp in *.
  destruct a as [a|xs], r as [q|qs]; cbn [ilen as_rows is_scalar] in *.
  - change (0 >? 0) with false. change (0 <? 0) with false. cbn [ilen is_scalar iget].
    repeat split; try lia; try discriminate.
  - destruct (Z.gtb_spec (zlen qs) 0); [|lia].
    cbn [ilen is_scalar iget]. one1.
    rewrite zlen_edge_pad by lia. one1.
    split; [lia|]. split; [lia|]. split; [lia|]. split; [lia|].
    intros j Hj. split; [f_equal; lia|].
    rewrite nth_edge_pad_end by (one1; lia).
    one1. replace (Z.min j (1 - 1)) with 0 by lia. reflexivity.
  - destruct (Z.gtb_spec 0 (zlen xs)); [lia|]. destruct (Z.ltb_spec 0 (zlen xs)); [|lia].
    cbn [ilen is_scalar iget]. one1.
    rewrite zlen_edge_pad by lia. one1.
    split; [lia|]. split; [lia|]. split; [lia|]. split; [lia|].
    intros j Hj. split; [|f_equal; lia].
    rewrite nth_edge_pad_end by (one1; lia).
    one1. replace (Z.min j (1 - 1)) with 0 by lia. reflexivity.
  - destruct (Z.gtb_spec (zlen qs) (zlen xs)).
    + cbn [ilen is_scalar iget]. rewrite zlen_edge_pad by lia.
      split; [lia|]. split; [lia|]. split; [lia|]. split; [lia|].
      intros j Hj. split; [f_equal; lia|].
      apply nth_edge_pad_end; lia.
    + destruct (Z.ltb_spec (zlen qs) (zlen xs)).
      * cbn [ilen is_scalar iget]. rewrite zlen_edge_pad by lia.
        split; [lia|]. split; [lia|]. split; [lia|]. split; [lia|].
        intros j Hj. split; [|f_equal; lia].
        apply nth_edge_pad_end; lia.
      * cbn [ilen is_scalar iget].
        split; [lia|]. split; [lia|]. split; [lia|]. split; [lia|].
        intros j Hj. split; f_equal; lia.
Qed.

(* ---- setters *)
Lemma pad_slice_path_spec {A B} (d : B) (p1 : list A) (p2 : list B) :
  1 <= zlen p1 -> 1 <= zlen p2 ->
  pad_slice_path d p1 p2 = spec_fit d (zlen p1) p2.
Proof.
  intros H1 H2. unfold pad_slice_path, spec_fit.
  assert (Hp2 : p2 <> []) by (apply zlen_pos_nonnil; lia).
  destruct (Z.gtb_spec (zlen p1 - zlen p2) 0).
  - apply (nth_ext_Z d).
    + rewrite zlen_edge_pad, zlen_tabulate by lia. lia.
    + intros i Hi. rewrite zlen_edge_pad in Hi by lia.
      rewrite nth_edge_pad by (auto; lia). rewrite nth_tabulate by lia.
      destruct (Z.leb_spec (zlen p1) (zlen p2)); [lia|]. unfold clampZ. f_equal. lia.
  - destruct (Z.ltb_spec (zlen p1 - zlen p2) 0).
    + unfold py_slice_from. destruct (Z.ltb_spec (- (zlen p1 - zlen p2)) 0); [lia|].
      change (skipn (Z.to_nat (- (zlen p1 - zlen p2))) p2) with
        (skipn (Z.to_nat (- (zlen p1 - zlen p2))) p2).
      replace (- (zlen p1 - zlen p2)) with (zlen p2 - zlen p1) by lia.
      fold (keep_last (zlen p1) p2).
      apply (nth_ext_Z d).
      * rewrite zlen_keep_last, zlen_tabulate by lia. reflexivity.
      * intros i Hi. rewrite zlen_keep_last in Hi by lia.
        rewrite nth_keep_last by lia. rewrite nth_tabulate by lia.
        destruct (Z.leb_spec (zlen p1) (zlen p2)); [reflexivity|lia].
    + apply (nth_ext_Z d).
      * rewrite zlen_tabulate by lia. lia.
      * intros i Hi. rewrite nth_tabulate by lia.
        destruct (Z.leb_spec (zlen p1) (zlen p2)); [|lia]. f_equal. lia.
Qed.

Lemma zlen_spec_fit {A} (d : A) m (P : list A) : 0 <= m -> zlen (spec_fit d m P) = m.
Proof. intros; unfold spec_fit. apply zlen_tabulate; assumption. Qed.

Theorem set_position_spec (o : obj) (p : inp V) : wf o -> wf_inp p ->
  set_position o p = {| pos := as_rows p; ori := spec_fit gone (ilen p) (ori o) |}.
Proof.
  intros [Hn Heq] Hp. unfold set_position. f_equal.
  assert (E : zlen (as_rows p) = ilen p) by (destruct p; reflexivity).
  rewrite pad_slice_path_spec; [rewrite E; reflexivity | rewrite E; exact Hp | lia].
Qed.

Theorem set_orientation_spec (o : obj) (r : option (inp G)) :
  wf o -> match r with Some r => wf_inp r | None => True end ->
  let qs := match r with None => [gone] | Some r => as_rows r end in
  set_orientation o r = {| pos := spec_fit vzero (zlen qs) (pos o); ori := qs |}.
Proof.
  intros [Hn Heq] Hr qs. unfold set_orientation. fold qs. f_equal.
  apply pad_slice_path_spec; [|lia].
  unfold qs. destruct r as [[q|qs']|]; cbn [as_rows]; [one1; lia | exact Hr | one1; lia].
Qed.

(* ---- invariant: equal lengths >= 1 after every history *)
Lemma wf_spec_move o d st : wf o -> wf_inp d -> wf (spec_move o d st).
Proof.
  intros [Hn Heq] Hd. unfold wf, spec_move; cbn [pos ori].
  assert (0 <= (if is_scalar d then 1 else ilen d)) by (destruct (is_scalar d); unfold wf_inp in Hd; lia).
  rewrite !zlen_spec_path by lia. rewrite <- Heq. split; [|reflexivity].
  apply pp_bounds; lia.
Qed.

Lemma wf_spec_rotate o r a st : wf o -> wf_inp r -> wf (spec_rotate o r a st).
Proof.
  intros [Hn Heq] Hd. unfold wf, spec_rotate; cbn [pos ori].
  assert (0 <= (if is_scalar r then 1 else ilen r)) by (destruct (is_scalar r); unfold wf_inp in Hd; lia).
  rewrite !zlen_spec_path by lia. rewrite <- Heq. split; [|reflexivity].
  apply pp_bounds; lia.
Qed.

Lemma wf_set_position o p : wf o -> wf_inp p -> wf (set_position o p).
Proof.
  intros Hwf Hp. rewrite set_position_spec by auto. unfold wf; cbn [pos ori].
  assert (E : zlen (as_rows p) = ilen p) by (destruct p; reflexivity).
  rewrite zlen_spec_fit by (unfold wf_inp in Hp; lia). rewrite E. split; [exact Hp|reflexivity].
Qed.

Lemma wf_set_orientation o r : wf o -> match r with Some r => wf_inp r | None => True end ->
  wf (set_orientation o r).
Proof.
  intros Hwf Hr. rewrite set_orientation_spec by auto. unfold wf; cbn [pos ori].
  assert (1 <= zlen (match r with None => [gone] | Some r => as_rows r end)).
  { destruct r as [[q|qs]|]; cbn [as_rows]; [one1; lia | exact Hr | one1; lia]. }
  rewrite zlen_spec_fit by lia. split; [assumption|reflexivity].
Qed.

Lemma wf_step o x : wf o -> wf_op x -> wf (step o x).
Proof.
  intros Hwf Hx. destruct x as [d st|r a st|p|r|]; cbn [step wf_op] in *.
  - rewrite move_spec by auto. apply wf_spec_move; auto.
  - destruct Hx as [Hr Ha].
    pose proof (rotate_spec_no_parent o r a st Hwf Hr) as H.
    destruct a as [a|].
    + pose proof (multi_anchor_wf a r Ha Hr) as M.
      destruct (multi_anchor a r) as [a' r']. destruct M as (_ & Hr' & _).
      rewrite (H Hr'). apply wf_spec_rotate; auto.
    + rewrite (H Hr). apply wf_spec_rotate; auto.
  - apply wf_set_position; auto.
  - apply wf_set_orientation; auto.
  - unfold reset_path. apply wf_set_orientation; [|exact I].
    apply wf_set_position; [assumption|unfold wf_inp; cbn [ilen]; lia].
Qed.

Theorem wf_run h : forall o, wf o -> Forall wf_op h -> wf (run o h).
Proof.
  induction h as [|x h IH]; intros o Hwf Hh; [exact Hwf|].
  inversion Hh; subst. cbn [run fold_left]. apply IH; [apply wf_step|]; assumption.
Qed.

Lemma wf_init p r : wf_inp p -> match r with Some r => wf_inp r | None => True end ->
  wf (init_pose p r).
Proof.
  intros Hp Hr. unfold init_pose, wf.
  set (ps := as_rows p). set (qs := match r with None => [gone] | Some r => as_rows r end).
  assert (Hps : 1 <= zlen ps) by (unfold ps; destruct p; cbn [as_rows]; [one1; lia|exact Hp]).
  assert (Hqs : 1 <= zlen qs).
  { unfold qs. destruct r as [[q|qs']|]; cbn [as_rows]; [one1; lia | exact Hr | one1; lia]. }
  destruct (Z.gtb_spec (zlen ps) (zlen qs)); cbn [pos ori].
  - rewrite zlen_edge_pad by lia. lia.
  - destruct (Z.ltb_spec (zlen ps) (zlen qs)); cbn [pos ori].
    + rewrite zlen_edge_pad by lia. lia.
    + lia.
Qed.

End Proofs.
