(* C19 -- cylinder segment, prism (cylinder) and ellipsoid (sphere) vertex tables lie on the body's surface and
   reach its full extent *)
From Coq Require Import Reals Lra Lia.
From MV Require Import Model.DisplayRound.
Open Scope R_scope.

Lemma sc2 t : sin t * sin t + cos t * cos t = 1.
Proof. pose proof (sin2_cos2 t) as H. unfold Rsqr in H. exact H. Qed.

Lemma linspace_first a b N : linspace a b N 0 = a.
Proof. unfold linspace. change (INR 0) with 0. ring. Qed.

Lemma linspace_last a b N : (2 <= N)%nat -> linspace a b N (N - 1) = b.
Proof. intros H. unfold linspace. field. apply not_0_INR. lia. Qed.

Lemma linspace_between a b N k : (2 <= N)%nat -> (k <= N - 1)%nat -> a <= b -> a <= linspace a b N k <= b.
Proof.
  intros HN Hk Hab. unfold linspace.
  assert (H1 : 0 < INR (N - 1)) by (apply lt_0_INR; lia).
  assert (H2 : 0 <= INR k <= INR (N - 1)) by (split; [apply pos_INR|apply le_INR; exact Hk]).
  set (m := INR (N - 1)) in *. set (q := INR k) in *.
  assert (H3 : 0 <= q * ((b - a) / m) <= b - a).
  { unfold Rdiv. split.
    - apply Rmult_le_pos; [lra|]. apply Rmult_le_pos; [lra|]. left. apply Rinv_0_lt_compat. exact H1.
    - replace (q * ((b - a) * / m)) with ((b - a) * (q * / m)) by ring.
      rewrite <- (Rmult_1_r (b - a)) at 2. apply Rmult_le_compat_l; [lra|].
      apply (Rmult_le_reg_r m); [exact H1|]. rewrite Rmult_assoc, Rinv_l by lra. lra. }
  lra.
Qed.

Lemma linspace_step a b N k : linspace a b N (S k) - linspace a b N k = (b - a) / INR (N - 1).
Proof. unfold linspace. rewrite S_INR. ring. Qed.

(* ---- cylinder segment: for EVERY vertex count N >= 2 (the code uses N >= 5), every block b and index k *)
Lemma seg_vertex_on_surface_lem r1 r2 h phi1 phi2 N b k :
  let '(x, y, z) := seg_vertex r1 r2 h phi1 phi2 N b k in
  x * x + y * y = seg_radius r1 r2 b * seg_radius r1 r2 b /\ (z = h / 2 \/ z = - (h / 2)) /\
  (seg_radius r1 r2 b = r1 \/ seg_radius r1 r2 b = r2).
Proof.
  unfold seg_vertex. set (t := deg2rad _). set (r := seg_radius r1 r2 b). split; [|split].
  - replace (r * cos t * (r * cos t) + r * sin t * (r * sin t)) with (r * r * (sin t * sin t + cos t * cos t)) by ring.
    rewrite sc2. ring.
  - unfold seg_z. destruct b as [|[|b]]; auto.
  - unfold r, seg_radius. destruct b as [|[|[|b]]]; auto.
Qed.

(* the arc angles run from exactly phi1 (k = 0) to exactly phi2 (k = N - 1), stay in between, in equal steps *)
Lemma seg_angles_lem phi1 phi2 N : (2 <= N)%nat ->
  seg_phi phi1 phi2 N 0 = phi1 /\ seg_phi phi1 phi2 N (N - 1) = phi2 /\
  (phi1 <= phi2 -> forall k, (k <= N - 1)%nat -> phi1 <= seg_phi phi1 phi2 N k <= phi2) /\
  (forall k, seg_phi phi1 phi2 N (S k) - seg_phi phi1 phi2 N k = (phi2 - phi1) / INR (N - 1)).
Proof.
  intros HN. unfold seg_phi. split; [apply linspace_first|]. split; [apply linspace_last, HN|]. split.
  - intros Hle k Hk. apply linspace_between; assumption.
  - intros k. apply linspace_step.
Qed.

(* every radius / height / block combination occurs: the four blocks are (r1,+), (r2,+), (r1,-), (r2,-) *)
Lemma seg_blocks_lem r1 r2 h :
  (seg_radius r1 r2 0, seg_z h 0) = (r1, h / 2) /\ (seg_radius r1 r2 1, seg_z h 1) = (r2, h / 2) /\
  (seg_radius r1 r2 2, seg_z h 2) = (r1, - (h / 2)) /\ (seg_radius r1 r2 3, seg_z h 3) = (r2, - (h / 2)).
Proof. repeat split. Qed.

(* ---- prism / cylinder *)
Lemma prism_rim_on_surface_lem d h N top k :
  let '(x, y, z) := prism_rim d h N top k in
  x * x + y * y = (d / 2) * (d / 2) /\ z = (if top then h / 2 else - (h / 2)).
Proof.
  unfold prism_rim. set (t := prism_t N k). split.
  - replace (cos t * (1 / 2) * d * (cos t * (1 / 2) * d) + sin t * (1 / 2) * d * (sin t * (1 / 2) * d))
      with ((sin t * sin t + cos t * cos t) * (d / 2 * (d / 2))) by field.
    rewrite sc2. ring.
  - destruct top; field.
Qed.

Lemma prism_centre_lem h top : prism_centre h top = (0, 0, if top then h / 2 else - (h / 2)).
Proof.
  unfold prism_centre. replace (0 * (1 / 2) * 0) with 0 by ring.
  destruct top; [replace (1 * (1 / 2) * h) with (h / 2) by field|replace (-1 * (1 / 2) * h) with (- (h / 2)) by field];
    reflexivity.
Qed.

(* the rim angles start at 0 and advance by 2 pi / N: N of them go once around *)
Lemma prism_angles_lem N k : (1 <= N)%nat ->
  prism_t N 0 = 0 /\ prism_t N (S k) - prism_t N k = 2 * PI / INR N /\ prism_t N N = 2 * PI.
Proof.
  intros HN. unfold prism_t, linspace_open. repeat split.
  - change (INR 0) with 0. ring.
  - rewrite S_INR. field. apply not_0_INR. lia.
  - field. apply not_0_INR. lia.
Qed.

(* ---- ellipsoid / sphere: every grid point is on the ellipsoid with semi-axes a/2, b/2, c/2 *)
Lemma ell_vertex_on_surface_lem a b c N i j : a <> 0 -> b <> 0 -> c <> 0 ->
  let '(x, y, z) := ell_vertex a b c N i j in
  (x / (a / 2)) * (x / (a / 2)) + (y / (b / 2)) * (y / (b / 2)) + (z / (c / 2)) * (z / (c / 2)) = 1.
Proof.
  intros Ha Hb Hc. unfold ell_vertex. set (th := ell_theta N i). set (ph := ell_phi N j).
  replace (cos th * sin ph * a * (1 / 2) / (a / 2)) with (cos th * sin ph) by (field; exact Ha).
  replace (cos th * cos ph * b * (1 / 2) / (b / 2)) with (cos th * cos ph) by (field; exact Hb).
  replace (sin th * c * (1 / 2) / (c / 2)) with (sin th) by (field; exact Hc).
  replace (cos th * sin ph * (cos th * sin ph) + cos th * cos ph * (cos th * cos ph) + sin th * sin th)
    with (cos th * cos th * (sin ph * sin ph + cos ph * cos ph) + sin th * sin th) by ring.
  rewrite sc2. pose proof (sc2 th). lra.
Qed.

Lemma sphere_vertex_on_surface_lem d N i j :
  let '(x, y, z) := ell_vertex d d d N i j in x * x + y * y + z * z = (d / 2) * (d / 2).
Proof.
  unfold ell_vertex. set (th := ell_theta N i). set (ph := ell_phi N j).
  replace (cos th * sin ph * d * (1 / 2) * (cos th * sin ph * d * (1 / 2)) + cos th * cos ph * d * (1 / 2) * (cos th * cos ph * d * (1 / 2))
           + sin th * d * (1 / 2) * (sin th * d * (1 / 2)))
    with ((cos th * cos th * (sin ph * sin ph + cos ph * cos ph) + sin th * sin th) * (d / 2 * (d / 2))) by field.
  rewrite sc2. pose proof (sc2 th) as H. replace (cos th * cos th * 1 + sin th * sin th) with 1 by lra. ring.
Qed.

(* the poles are grid points: full extent along z *)
Lemma ell_poles_lem a b c N j : (2 <= N)%nat ->
  ell_vertex a b c N 0 j = (0 * sin (ell_phi N j) * a * (1 / 2), 0 * cos (ell_phi N j) * b * (1 / 2), - 1 * c * (1 / 2)) /\
  ell_vertex a b c N (N - 1) j = (0 * sin (ell_phi N j) * a * (1 / 2), 0 * cos (ell_phi N j) * b * (1 / 2), 1 * c * (1 / 2)).
Proof.
  intros HN. unfold ell_vertex, ell_theta. rewrite linspace_first, (linspace_last _ _ N HN).
  rewrite cos_neg, sin_neg, cos_PI2, sin_PI2. split; reflexivity.
Qed.
