(* C13 -- facts about the executable instances (Model/ReprExec.v): the non-vacuity witness of Props/C13.v *)
From Coq Require Import ZArith Reals List Bool Lra.
From MV Require Import Lib.Rigid Gen.GenCylMask Model.ReprModel Model.ReprExec Proofs.ReprProofs.
Import ListNotations.
Local Open Scope R_scope.

Lemma C13_nonvacuous_witness :
  (let rows : list zsrow := [((1, 2, 3), (1, 0, 0), (1, 2, 3, 0, 90));
                             ((4, 5, 6), (0, 1, 0), (1, 2, 3, 0, 360));
                             ((7, 8, 9), (0, 0, 1), (0, 2, 3, 0, 360))]%Z in
   let outer : list zcrow := [((4, 5, 6), (0, 1, 0), (4, 3)); ((7, 8, 9), (0, 0, 1), (4, 3))]%Z in
   let inner : list zcrow := [((4, 5, 6), (0, 1, 0), (2, 3))]%Z in
   map (@mask_segment ZNum) rows = [true; false; false] /\
   nth_error (@seg_internal ZNum stub_seg stub_cyl FB rows) 1 =
     Some (@vsub3 ZNum (nth 0 (stub_cyl FB outer) (0, 0, 0)%Z) (nth 0 (stub_cyl FB inner) (0, 0, 0)%Z)) /\
   nth_error (@seg_internal ZNum stub_seg stub_cyl FB rows) 2 = nth_error (stub_cyl FB outer) 1) /\
  (let mesh : list (tri3 z3) := [((0, 0, 0), (1, 0, 0), (0, 1, 0)); ((1, 0, 0), (0, 1, 0), (0, 0, 1))]%Z in
   mesh_vertices z3_eqb z3_ltb mesh = [(0, 0, 0); (0, 0, 1); (0, 1, 0); (1, 0, 0)]%Z /\
   mesh_faces z3_eqb z3_ltb mesh = [(0, 3, 2); (3, 2, 1)]%nat) /\
  @sphere_out RNum (1, 0, 0)%R 1%R = true.
Proof.
  split; [|split].
  - vm_compute. repeat split.
  - vm_compute. repeat split.
  - unfold sphere_out. apply Rnltb_true. rewrite norm3_R.
    replace (1 * 1 + 0 * 0 + 0 * 0) with 1 by ring. rewrite sqrt_1.
    cbn [nabs ndiv nofZ RNum]. rewrite Rabs_R1. lra.
Qed.

(* ---------------- binary64 record of the defect repaired by /repo commit b977b89.
   Over R (full_segment_J_R) J = 0 for 0 < r <= r1, whatever the placement of the test.  In binary64 the OLD variant
   (test |z|/r0 <= (h/2)/r0 after the scaling, pre = false) lets the two BHJM_magnet_cylinder calls of the shortcut
   decide with their own r0: one ulp below the bottom plane the outer cylinder says "outside" and the inner one
   "inside", so the ring reported J = 0 - J = -J in its empty bore.  With the test before the scaling (pre = true,
   the code as it is now) both calls take the same decision and the same row gives J = 0. *)
From Coq Require Import Floats.
Lemma bore_witness_old_variant :
  @mask_segment FNum bore_witness = false /\
  (let '((ox, oy, oz), _, (r1, _, h, _, _)) := bore_witness in
   PrimFloat.ltb (PrimFloat.sqrt (ox * ox + oy * oy)) r1 = true /\          (* inside the bore *)
   PrimFloat.ltb (h / 2) (PrimFloat.abs oz) = true)%float /\                (* and not between the face planes *)
  @full_cylinder_spec FNum (@cyl_JM_row_gen FNum false mu0_f) FJ bore_witness = (0, 0, -1)%float.
Proof. vm_compute. repeat split. Qed.

Lemma bore_witness_current_variant :
  @full_cylinder_spec FNum (@cyl_JM_row_gen FNum true mu0_f) FJ bore_witness = (0, 0, 0)%float.
Proof. vm_compute. reflexivity. Qed.

(* for EVERY numeric carrier (binary64 included): with the test before the scaling the two cylinders of the shortcut
   take the same between-the-bases decision, because it depends on z and h only *)
Lemma between_bases_same_decision (N : NumOps) (r z d1 d2 h : num N) :
  (@cyl_inside_gen N true r z d1 h = true -> nleb N (nabs N z) (ndiv N h (nofZ N 2)) = true) /\
  (nleb N (nabs N z) (ndiv N h (nofZ N 2)) = false ->
     @cyl_inside_gen N true r z d1 h = false /\ @cyl_inside_gen N true r z d2 h = false).
Proof.
  unfold cyl_inside_gen. split.
  - intros H. apply andb_prop in H. tauto.
  - intros H. rewrite H. split; reflexivity.
Qed.

(* hence, for every carrier, a point that is not between the bases gets J exactly (0 - 0) from the shortcut *)
Lemma full_segment_J_outside_bases (N : NumOps) (mu0 : num N) (o p : @vec N) (r1 r2 h phi1 phi2 : num N) :
  let '(ox, oy, oz) := o in
  nleb N (nabs N oz) (ndiv N h (nofZ N 2)) = false ->
  @full_cylinder_spec N (@cyl_JM_row_gen N true mu0) FJ (o, p, (r1, r2, h, phi1, phi2)) =
  if neqb N r1 (nofZ N 0) then vzero3 else vsub3 vzero3 vzero3.
Proof.
  destruct o as [[ox oy] oz]. intros H.
  unfold full_cylinder_spec, outer_row, inner_row, cyl_JM_row_gen, cyl_JM_gen, cyl_inside_gen.
  rewrite H. simpl. reflexivity.
Qed.
