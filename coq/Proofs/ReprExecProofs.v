(* C13 -- facts about the executable instances (Model/ReprExec.v): the non-vacuity witness of Props/C13.v *)
From Coq Require Import ZArith Reals List Bool Lra.
From MV Require Import Lib.Rigid Gen.GenCylMask Model.ReprModel Model.ReprExec Proofs.ReprProofs.
Import ListNotations.
Local Open Scope R_scope.

Lemma C13_nonvacuous_witness :
  (let rows : list zsrow := [((1, 2, 3), (1, 0, 0), (1, 2, 3, 0, 90));
                             ((4, 5, 6), (0, 1, 0), (1, 2, 3, 0, 360));
                             ((7, 8, 9), (0, 0, 1), (0, 2, 3, 0, 360))]%Z in
   let outer : list zcrow := [((4, 5, 6), (0, 1, 0), (4, 3)); ((7, 8, 9), (0, 0, 1), (4, 3))]%Z in
   let inner : list zcrow := [((4, 5, 6), (0, 1, 0), (2, 3))]%Z in
   map (@mask_segment ZNum) rows = [true; false; false] /\
   nth_error (@seg_internal ZNum stub_seg stub_cyl FB rows) 1 =
     Some (@vsub3 ZNum (nth 0 (stub_cyl FB outer) (0, 0, 0)%Z) (nth 0 (stub_cyl FB inner) (0, 0, 0)%Z)) /\
   nth_error (@seg_internal ZNum stub_seg stub_cyl FB rows) 2 = nth_error (stub_cyl FB outer) 1) /\
  (let mesh : list (tri3 z3) := [((0, 0, 0), (1, 0, 0), (0, 1, 0)); ((1, 0, 0), (0, 1, 0), (0, 0, 1))]%Z in
   mesh_vertices z3_eqb z3_ltb mesh = [(0, 0, 0); (0, 0, 1); (0, 1, 0); (1, 0, 0)]%Z /\
   mesh_faces z3_eqb z3_ltb mesh = [(0, 3, 2); (3, 2, 1)]%nat) /\
  @sphere_out RNum (1, 0, 0)%R 1%R = true.
Proof.
  split; [|split].
  - vm_compute. repeat split.
  - vm_compute. repeat split.
  - unfold sphere_out. apply Rnltb_true. rewrite norm3_R.
    replace (1 * 1 + 0 * 0 + 0 * 0) with 1 by ring. rewrite sqrt_1.
    cbn [nabs ndiv nofZ RNum]. rewrite Rabs_R1. lra.
Qed.

(* ---------------- binary64: the shortcut's J is NOT zero everywhere in the bore.
   Over R (full_segment_J_R) J = 0 for 0 < r <= r1.  In binary64 the two BHJM_magnet_cylinder calls of the shortcut
   decide |z|/r0 <= (h/2)/r0 with their own r0; one ulp below the bottom plane the outer cylinder says "outside"
   and the inner one "inside", so the ring reports J = 0 - J = -J in its empty bore. *)
From Coq Require Import Floats.
Lemma bore_witness_refutes :
  GenCylMask.cyl_bases_before_scaling = false ->        (* the placement of the test in the code as translated NOW *)
  @mask_segment FNum bore_witness = false /\
  (let '((ox, oy, oz), _, (r1, _, h, _, _)) := bore_witness in
   PrimFloat.ltb (PrimFloat.sqrt (ox * ox + oy * oy)) r1 = true /\          (* inside the bore *)
   PrimFloat.ltb (h / 2) (PrimFloat.abs oz) = true)%float /\                (* and not between the face planes *)
  @full_cylinder_spec FNum (@cyl_JM_row FNum mu0_f) FJ bore_witness = (0, 0, -1)%float.
Proof. intros H. vm_compute in H. first [discriminate H | (vm_compute; repeat split)]. Qed.

(* with the test before the scaling (the proposed repair) the same row gives J = 0 *)
Lemma bore_witness_repaired :
  (let '(o, p, (r1, r2, h, _, _)) := bore_witness in
   let cylJ := fun d => if @cyl_inside_gen FNum true (PrimFloat.sqrt (fst (fst o) * fst (fst o) + snd (fst o) * snd (fst o))) (snd o) d h
                        then p else (0, 0, 0) in
   @vsub3 FNum (cylJ (2 * r2)) (cylJ (2 * r1)) = (0, 0, 0))%float.
Proof. vm_compute. reflexivity. Qed.
