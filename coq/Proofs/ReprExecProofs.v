(* C13 -- facts about the executable instances (Model/ReprExec.v): the non-vacuity witness of Props/C13.v *)
From Coq Require Import ZArith Reals List Bool Lra.
From MV Require Import Lib.Rigid Model.ReprModel Model.ReprExec Proofs.ReprProofs.
Import ListNotations.
Local Open Scope R_scope.

Lemma C13_nonvacuous_witness :
  (let rows : list zsrow := [((1, 2, 3), (1, 0, 0), (1, 2, 3, 0, 90));
                             ((4, 5, 6), (0, 1, 0), (1, 2, 3, 0, 360));
                             ((7, 8, 9), (0, 0, 1), (0, 2, 3, 0, 360))]%Z in
   let outer : list zcrow := [((4, 5, 6), (0, 1, 0), (4, 3)); ((7, 8, 9), (0, 0, 1), (4, 3))]%Z in
   let inner : list zcrow := [((4, 5, 6), (0, 1, 0), (2, 3))]%Z in
   map (@mask_segment ZNum) rows = [true; false; false] /\
   nth_error (@seg_internal ZNum stub_seg stub_cyl FB rows) 1 =
     Some (@vsub3 ZNum (nth 0 (stub_cyl FB outer) (0, 0, 0)%Z) (nth 0 (stub_cyl FB inner) (0, 0, 0)%Z)) /\
   nth_error (@seg_internal ZNum stub_seg stub_cyl FB rows) 2 = nth_error (stub_cyl FB outer) 1) /\
  (let mesh : list (tri3 z3) := [((0, 0, 0), (1, 0, 0), (0, 1, 0)); ((1, 0, 0), (0, 1, 0), (0, 0, 1))]%Z in
   mesh_vertices z3_eqb z3_ltb mesh = [(0, 0, 0); (0, 0, 1); (0, 1, 0); (1, 0, 0)]%Z /\
   mesh_faces z3_eqb z3_ltb mesh = [(0, 3, 2); (3, 2, 1)]%nat) /\
  @sphere_out RNum (1, 0, 0)%R 1%R = true.
Proof.
  split; [|split].
  - vm_compute. repeat split.
  - vm_compute. repeat split.
  - unfold sphere_out. apply Rnltb_true. rewrite norm3_R.
    replace (1 * 1 + 0 * 0 + 0 * 0) with 1 by ring. rewrite sqrt_1.
    cbn [nabs ndiv nofZ RNum]. rewrite Rabs_R1. lra.
Qed.
