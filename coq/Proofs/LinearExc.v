(* C05 -- B and H are linear in the excitation, over R, for the closed-form cores modelled in
   CoreModel.v (dipole: moment; sphere: polarization; polyline segment and circle (modelled
   branches): current) and, for the BHJM wrappers of WrapModel.v, in any field, given that the
   (opaque) core is linear in the excitation.
   Division is Coq's total division (x / 0 = x * / 0), so no side conditions are needed: every
   branch condition of these models is independent of the excitation. *)
From Coq Require Import Reals Lra ZArith Bool List Field.
From MV Require Import Model.CoreNum Model.CoreModel Model.CoreSpec Proofs.CoreProofs.
Open Scope R_scope.

(* a J1 + b J2 *)
Definition lin (a b : R) (u v : RV3) : RV3 := Rvadd (Rvscale a u) (Rvscale b v).

Ltac destr_ifs :=
  repeat match goal with |- context [if ?c then _ else _] => destruct c end.

(* unfold the model completely, whatever helper definitions CoreModel.v is split into (it is another
   builder's file and gets refactored): everything except the primitives of the reals *)
Ltac unfold_all :=
  cbv beta iota zeta delta -[Rplus Rminus Rmult Rdiv Rinv Ropp sqrt Rabs Rltb Reqb PI IZR].

Lemma dipole_inf_eq (m : R) : dipole_inf NumR m = m * / 0.
Proof.
  unfold dipole_inf. cbn. destruct (Reqb m 0) eqn:E; [|reflexivity].
  apply Reqb_true in E. subst. unfold c0. cbn. ring.
Qed.

Theorem dipole_linear (f : field) (mu0 : R) (o m1 m2 : RV3) (a b : R) :
  dipole_BH NumR f mu0 o (lin a b m1 m2)
  = lin a b (dipole_BH NumR f mu0 o m1) (dipole_BH NumR f mu0 o m2).
Proof.
  destruct o as [[x y] z], m1 as [[p1 p2] p3], m2 as [[q1 q2] q3].
  assert (H : dipole_H NumR (x, y, z) (lin a b (p1, p2, p3) (q1, q2, q3))
              = lin a b (dipole_H NumR (x, y, z) (p1, p2, p3)) (dipole_H NumR (x, y, z) (q1, q2, q3))).
  { unfold dipole_H, lin, Rvadd, Rvscale. rewrite !dipole_inf_eq.
    unfold_model. destr_ifs; apply triple_eq; unfold Rdiv; ring. }
  destruct f; unfold dipole_BH; rewrite H; [|reflexivity].
  destruct (dipole_H NumR (x, y, z) (p1, p2, p3)) as [[u1 u2] u3].
  destruct (dipole_H NumR (x, y, z) (q1, q2, q3)) as [[v1 v2] v3].
  unfold_model. unfold lin, Rvadd, Rvscale. apply triple_eq; ring.
Qed.

Theorem sphere_linear (f : field) (mu0 : R) (o : RV3) (d : R) (P1 P2 : RV3) (a b : R) :
  sphere_BH NumR f mu0 o d (lin a b P1 P2)
  = lin a b (sphere_BH NumR f mu0 o d P1) (sphere_BH NumR f mu0 o d P2).
Proof.
  destruct o as [[x y] z], P1 as [[p1 p2] p3], P2 as [[q1 q2] q3].
  unfold lin, Rvadd, Rvscale. destruct f; unfold_all; destr_ifs; apply triple_eq; unfold Rdiv; ring.
Qed.

Theorem polyline_linear (f : field) (mu0 : R) (o p1 p2 : RV3) (i1 i2 a b : R) :
  polyline_BH NumR f mu0 o p1 p2 (a * i1 + b * i2)
  = lin a b (polyline_BH NumR f mu0 o p1 p2 i1) (polyline_BH NumR f mu0 o p1 p2 i2).
Proof.
  destruct o as [[x y] z], p1 as [[a1 a2] a3], p2 as [[b1 b2] b3].
  unfold lin, Rvadd, Rvscale. destruct f; unfold_all; destr_ifs;
    apply triple_eq; unfold Rdiv; ring.
Qed.

(* circle: which branch is taken does not depend on the current; on the modelled branches the
   field is linear in it (the general branch is not modelled: None) *)
Theorem circle_branch_indep (o : RV3) (d i1 i2 : R) :
  (circle_H NumR o d i1 = None <-> circle_H NumR o d i2 = None).
Proof.
  destruct o as [[x y] z]. unfold circle_H. destruct (circle_branch_of NumR (x, y, z) d); split; congruence.
Qed.

Theorem circle_linear (f : field) (mu0 : R) (o : RV3) (d i1 i2 a b : R) :
  circle_BH NumR f mu0 o d (a * i1 + b * i2)
  = match circle_BH NumR f mu0 o d i1, circle_BH NumR f mu0 o d i2 with
    | Some h1, Some h2 => Some (lin a b h1 h2)
    | _, _ => None
    end.
Proof.
  destruct o as [[x y] z]. unfold circle_BH, circle_H.
  destruct (circle_branch_of NumR (x, y, z) d); destruct f; try reflexivity;
    f_equal; unfold lin, Rvadd, Rvscale; unfold_model; apply triple_eq; unfold Rdiv; ring.
Qed.

(* non-vacuity: the general formulas are exercised off the degenerate sets *)
Lemma linear_nonvacuous :
  dipole_BH NumR FH 1 (1, 0, 0) (0, 0, 1) <> (0, 0, 0).
Proof.
  pose proof PI_RGT_0 as Hpi.
  rewrite (proj2 (dipole_B_spec 1 (1, 0, 0) (0, 0, 1) ltac:(intros H; inversion H; lra))).
  unfold point_dipole_H, Rnorm, Rdot. replace (1 * 1 + 0 * 0 + 0 * 0) with 1 by ring. rewrite sqrt_1.
  intros H. inversion H as [[H1 H2 H3]]. clear H1 H2 H. revert H3.
  replace ((3 * (0 * 1 + 0 * 0 + 1 * 0) * 0 / 1 ^ 5 - 1 / 1 ^ 3) / (4 * PI)) with (- / (4 * PI)) by (field; lra).
  intros H3. assert (0 < / (4 * PI)) by (apply Rinv_0_lt_compat; lra). lra.
Qed.
