(* C05 -- linearity in the excitation over R for the cores of CoreModel.v: the proofs live in
   LinearExcDC.v (dipole, circle), LinearExcSphere.v, LinearExcPoly.v, which build in parallel. *)
From MV Require Export Proofs.LinearExcBase Proofs.LinearExcDC Proofs.LinearExcSphere Proofs.LinearExcPoly.
