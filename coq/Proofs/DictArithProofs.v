(* C07 -- the translated statements of getBH_dict_level2 (Gen/GenDictArith.v, regenerated from /repo on every run)
   against (1) a reviewed copy of the statement table and (2) the hand model Model/DictIface.v: the conditions, the
   default rank, the default tiling factor and the tiling repetitions that the model uses are the ones the code
   computes.  An edit of one of these expressions in the source breaks a proof here. *)
From Coq Require Import ZArith List String Bool Lia ZifyBool.
From MV Require Import Model.InputTypes Model.DictIface Gen.GenTables Model.L2Arith Model.DictArith Gen.GenDictArith.
Import ListNotations.
Open Scope string_scope.
Open Scope Z_scope.

(* ---- (1) the reviewed table: getBH_dict_level2 as of /repo 3bc026d (statement by statement, source order) ---- *)
Definition expected_dict_arith : list (string * string * string * pyexp) := [
  ("getBH_dict_level2", "try", "",
     PNone);
  ("getBH_dict_level2", "assign", "source_classes",
     (PCall (PName "get_registered_sources") [] []));
  ("getBH_dict_level2", "assign", "field_func",
     (PAttr (PSub (PName "source_classes") (PName "source_type")) "_field_func"));
  ("getBH_dict_level2", "assign", "field_func_kwargs_ndim",
     (PDict [((PStr "position"), (PInt 2)); ((PStr "orientation"), (PInt 2)); ((PStr "observers"), (PInt 2))]));
  ("getBH_dict_level2", "expr", "",
     (PCall (PAttr (PName "field_func_kwargs_ndim") "update") [(PAttr (PSub (PName "source_classes") (PName "source_type")) "_field_func_kwargs_ndim")] []));
  ("getBH_dict_level2", "except", "KeyError",
     PNone);
  ("getBH_dict_level2", "raise", "MagpylibBadUserInput",
     PNone);
  ("getBH_dict_level2", "endtry", "",
     PNone);
  ("getBH_dict_level2", "assign", "kwargs['observers']",
     (PName "observers"));
  ("getBH_dict_level2", "assign", "kwargs['position']",
     (PName "position"));
  ("getBH_dict_level2", "assign", "kwargs['orientation']",
     (PCall (PAttr (PName "orientation") "as_quat") [] []));
  ("getBH_dict_level2", "assign", "vec_lengths",
     (PDict []));
  ("getBH_dict_level2", "assign", "ragged_seq",
     (PDict []));
  ("getBH_dict_level2", "for", "(key, val)",
     (PCall (PAttr (PName "kwargs") "items") [] []));
  ("getBH_dict_level2", "try", "",
     PNone);
  ("getBH_dict_level2", "if", "",
     (PBin "and" (PUn "not" (PCall (PName "isinstance") [(PName "val"); (PAttr (PName "numbers") "Number")] [])) (PBin "and" (PUn "not" (PCall (PName "isinstance") [(PSub (PName "val") (PInt 0)); (PAttr (PName "numbers") "Number")] [])) (PCall (PName "any") [(PComp (PCmp "!=" (PCall (PName "len") [(PName "o")] []) (PCall (PName "len") [(PSub (PName "val") (PInt 0))] [])) (PName "o") (PName "val") [])] []))));
  ("getBH_dict_level2", "assign", "ragged_seq[key]",
     PTrue);
  ("getBH_dict_level2", "assign", "val",
     (PCall (PAttr (PName "np") "array") [(PComp (PCall (PAttr (PName "np") "array") [(PName "v")] [("dtype", (PName "float"))]) (PName "v") (PName "val") [])] [("dtype", (PStr "object"))]));
  ("getBH_dict_level2", "else", "",
     PNone);
  ("getBH_dict_level2", "assign", "ragged_seq[key]",
     PFalse);
  ("getBH_dict_level2", "assign", "val",
     (PCall (PAttr (PName "np") "array") [(PName "val")] [("dtype", (PName "float"))]));
  ("getBH_dict_level2", "endif", "",
     PNone);
  ("getBH_dict_level2", "except", "TypeError",
     PNone);
  ("getBH_dict_level2", "raise", "MagpylibBadUserInput",
     PNone);
  ("getBH_dict_level2", "endtry", "",
     PNone);
  ("getBH_dict_level2", "assign", "expected_dim",
     (PCall (PAttr (PName "field_func_kwargs_ndim") "get") [(PName "key"); (PInt 1)] []));
  ("getBH_dict_level2", "if", "",
     (PBin "or" (PCmp "==" (PAttr (PName "val") "ndim") (PName "expected_dim")) (PSub (PName "ragged_seq") (PName "key"))));
  ("getBH_dict_level2", "if", "",
     (PCmp "==" (PCall (PName "len") [(PName "val")] []) (PInt 1)));
  ("getBH_dict_level2", "assign", "val",
     (PCall (PAttr (PName "np") "squeeze") [(PName "val")] []));
  ("getBH_dict_level2", "else", "",
     PNone);
  ("getBH_dict_level2", "assign", "vec_lengths[key]",
     (PCall (PName "len") [(PName "val")] []));
  ("getBH_dict_level2", "endif", "",
     PNone);
  ("getBH_dict_level2", "endif", "",
     PNone);
  ("getBH_dict_level2", "assign", "kwargs[key]",
     (PName "val"));
  ("getBH_dict_level2", "endfor", "",
     PNone);
  ("getBH_dict_level2", "if", "",
     (PCmp ">" (PCall (PName "len") [(PCall (PName "set") [(PCall (PAttr (PName "vec_lengths") "values") [] [])] [])] []) (PInt 1)));
  ("getBH_dict_level2", "raise", "MagpylibBadUserInput",
     PNone);
  ("getBH_dict_level2", "endif", "",
     PNone);
  ("getBH_dict_level2", "assign", "vec_len",
     (PCall (PName "max") [(PCall (PAttr (PName "vec_lengths") "values") [] [])] [("default", (PInt 1))]));
  ("getBH_dict_level2", "for", "(key, val)",
     (PCall (PAttr (PName "kwargs") "items") [] []));
  ("getBH_dict_level2", "assign", "expected_dim",
     (PCall (PAttr (PName "field_func_kwargs_ndim") "get") [(PName "key"); (PInt 1)] []));
  ("getBH_dict_level2", "if", "",
     (PBin "and" (PCmp "<" (PAttr (PName "val") "ndim") (PName "expected_dim")) (PUn "not" (PSub (PName "ragged_seq") (PName "key")))));
  ("getBH_dict_level2", "assign", "kwargs[key]",
     (PCall (PAttr (PName "np") "tile") [(PName "val"); (PTuple [(PName "vec_len"); (PStar (PBin "*" (PList [(PInt 1)]) (PBin "-" (PName "expected_dim") (PInt 1))))])] []));
  ("getBH_dict_level2", "endif", "",
     PNone);
  ("getBH_dict_level2", "endfor", "",
     PNone);
  ("getBH_dict_level2", "assign", "kwargs['orientation']",
     (PCall (PAttr (PName "R") "from_quat") [(PSub (PName "kwargs") (PStr "orientation"))] []));
  ("getBH_dict_level2", "assign", "B",
     (PCall (PName "getBH_level1") [] [("field", (PName "field")); ("field_func", (PName "field_func")); ("in_out", (PName "in_out")); ("**", (PName "kwargs"))]));
  ("getBH_dict_level2", "if", "",
     (PBin "and" (PCmp "is not" (PName "B") PNone) (PName "squeeze")));
  ("getBH_dict_level2", "return", "",
     (PCall (PAttr (PName "np") "squeeze") [(PName "B")] []));
  ("getBH_dict_level2", "endif", "",
     PNone);
  ("getBH_dict_level2", "return", "",
     (PName "B"))].

Lemma dict_arith_reviewed : dict_arith = expected_dict_arith.
Proof. reflexivity. Qed.

(* ---- (2) semantic lemmas: the translated expressions mean what the model computes ---- *)
Notation g k t n := (get F k t n dict_arith).

(* the base rank table and the default rank are the ones handed to the model (and the ones GenTables read) *)
Lemma base_table_translated :
  match g "assign" "field_func_kwargs_ndim" 0%nat with
  | PDict l => pdict_table l
  | _ => None
  end = Some dict_base_ndim.
Proof. reflexivity. Qed.

Lemma default_rank_translated :
  get_default (g "assign" "expected_dim" 0%nat) = Some dict_default_ndim /\
  get_default (g "assign" "expected_dim" 1%nat) = Some dict_default_ndim.
Proof. split; reflexivity. Qed.

(* `if val.ndim == expected_dim or ragged_seq[key]` is the model's `counted` *)
Lemma counted_translated : forall env,
  dB env (g "if" "" 1%nat) = Some ((e_ndim env =? e_expected env) || e_ragged env).
Proof. intros env. reflexivity. Qed.

(* `if len(val) == 1` (then np.squeeze, else vec_lengths[key] = len(val): the two branches are in the table) *)
Lemma len1_translated : forall env, dB env (g "if" "" 2%nat) = Some (e_len env =? 1).
Proof. intros env. reflexivity. Qed.
Lemma len1_branches :
  g "assign" "val" 2%nat = PCall (PAttr (PName "np") "squeeze") [PName "val"] [] /\
  g "assign" "vec_lengths[key]" 0%nat = PCall (PName "len") [PName "val"] [].
Proof. split; reflexivity. Qed.

(* phase1 of the model, one keyword: exactly these two tests, in this nesting *)
Lemma phase1_step_translated : forall (ed : string -> Z) k v rest rag val n,
  secure v = SOk rag val ->
  (if (v_ndim val =? ed k) || rag then v_len val else Some 0) = Some n ->
  forall env, e_ndim env = v_ndim val -> e_expected env = ed k -> e_ragged env = rag -> e_len env = n ->
  exists counted is1, dB env (g "if" "" 1%nat) = Some counted /\ dB env (g "if" "" 2%nat) = Some is1 /\
  phase1 ed ((k, v) :: rest) =
    match phase1 ed rest with
    | P1Ok items vls =>
        P1Ok ((k, (rag, if counted && is1 then v_squeeze val else val)) :: items)
             ((if counted && negb is1 then [(k, n)] else []) ++ vls)
    | e => e
    end.
Proof.
  intros ed k v rest rag val n Hs Hl env E1 E2 E3 E4.
  exists ((v_ndim val =? ed k) || rag), (n =? 1).
  rewrite counted_translated, len1_translated, E1, E2, E3, E4.
  repeat split. simpl phase1. rewrite Hs. cbv zeta. rewrite Hl. reflexivity.
Qed.

(* `if len(set(vec_lengths.values())) > 1: raise` is the model's `negb (all_same ...)` *)
Definition ndistinct (l : list Z) : Z := Z.of_nat (List.length (nodup Z.eq_dec l)).

Lemma nodup_all_eq (x : Z) (r : list Z) : forallb (Z.eqb x) r = true -> nodup Z.eq_dec (x :: r) = [x].
Proof.
  induction r as [|y r IH]; intros H; [reflexivity|].
  simpl in H. apply andb_true_iff in H. destruct H as [Hy Hr]. apply Z.eqb_eq in Hy. subst y.
  specialize (IH Hr). simpl in *. destruct (Z.eq_dec x x) as [_|n]; [|congruence].
  destruct (in_dec Z.eq_dec x r) as [i|ni].
  - destruct (Z.eq_dec x x); [|congruence]. simpl. exact IH.
  - destruct r as [|z r]; [reflexivity|]. exfalso. apply ni. simpl in Hr. apply andb_true_iff in Hr.
    destruct Hr as [Hz _]. apply Z.eqb_eq in Hz. subst. now left.
Qed.

Lemma all_same_distinct (l : list Z) : negb (all_same l) = (1 <? ndistinct l).
Proof.
  unfold ndistinct. destruct l as [|x r]; [reflexivity|].
  simpl all_same. destruct (forallb (Z.eqb x) r) eqn:E.
  - rewrite (nodup_all_eq x r E). reflexivity.
  - simpl negb. symmetry. apply Z.ltb_lt.
    assert (Hex : exists y, In y r /\ y <> x).
    { clear -E. induction r as [|y r IH]; [discriminate|]. simpl in E. apply andb_false_iff in E.
      destruct E as [E|E].
      - exists y. split; [now left|]. intros ->. now rewrite Z.eqb_refl in E.
      - destruct (IH E) as (z & Hz & Hne). exists z. split; [now right|exact Hne]. }
    destruct Hex as (y & Hy & Hne).
    assert (Hincl : incl [x; y] (nodup Z.eq_dec (x :: r))).
    { intros z [<-|[<-|[]]]; apply nodup_In; [now left|now right]. }
    assert (Hnd : NoDup [x; y]) by (repeat constructor; simpl; intuition congruence).
    pose proof (NoDup_incl_length Hnd Hincl) as Hlen. change (List.length [x; y]) with 2%nat in Hlen. lia.
Qed.

Lemma lengths_test_translated : forall env, dB env (g "if" "" 3%nat) = Some (1 <? e_distinct env).
Proof. intros env. reflexivity. Qed.
Lemma lengths_test_raises : get F "raise" "MagpylibBadUserInput" 2%nat dict_arith = PNone /\
  find_nth F "raise" "MagpylibBadUserInput" 2%nat dict_arith <> None.
Proof. split; [reflexivity|discriminate]. Qed.

Corollary lengths_test_model : forall env (vls : list Z), e_distinct env = ndistinct vls ->
  dB env (g "if" "" 3%nat) = Some (negb (all_same vls)).
Proof. intros env vls E. now rewrite lengths_test_translated, E, all_same_distinct. Qed.

(* vec_len = max(vec_lengths.values(), default=1) is the model's vec_len_of *)
Lemma vec_len_translated : max_default (g "assign" "vec_len" 0%nat) = Some (vec_len_of []).
Proof. reflexivity. Qed.

Lemma vec_len_of_is_max (x : Z) (r : list Z) :
  In (vec_len_of (x :: r)) (x :: r) /\ forall y, In y (x :: r) -> y <= vec_len_of (x :: r).
Proof.
  simpl vec_len_of. revert x. induction r as [|z r IH]; intros x.
  - simpl. split; [now left|]. intros y [<-|[]]. lia.
  - simpl fold_left. destruct (IH (Z.max x z)) as [Hin Hle]. split.
    + destruct Hin as [H|H].
      * rewrite <- H. destruct (Z.max_spec x z) as [[_ ->]|[_ ->]]; [right; now left|now left].
      * right. now right.
    + intros y [<-|[<-|Hy]].
      * specialize (Hle (Z.max x z) (or_introl eq_refl)). lia.
      * specialize (Hle (Z.max x z) (or_introl eq_refl)). lia.
      * apply Hle. now right.
Qed.

(* the tiling loop: `if val.ndim < expected_dim and not ragged_seq[key]` and the repetitions
   (vec_len, *[1] * (expected_dim - 1)) are the condition and the `reps` of the model's tile_item *)
Lemma tile_cond_translated : forall env,
  dB env (g "if" "" 4%nat) = Some ((e_ndim env <? e_expected env) && negb (e_ragged env)).
Proof. intros env. reflexivity. Qed.

Lemma list_rep_ones (k : Z) : list_rep [1] k = repeat 1 (Z.to_nat k).
Proof. unfold list_rep. induction (Z.to_nat k) as [|n IH]; [reflexivity|]. simpl. now rewrite IH. Qed.

Lemma tile_reps_translated : forall env,
  match tile_reps (g "assign" "kwargs[key]" 1%nat) with
  | Some items => dTuple env items
  | None => None
  end = Some (e_vec_len env :: repeat 1 (Z.to_nat (e_expected env - 1))).
Proof. intros env. cbn. rewrite list_rep_ones, app_nil_r. reflexivity. Qed.

Theorem tile_item_translated : forall (ed : string -> Z) vec_len k rag s env,
  e_ndim env = ndim s -> e_expected env = ed k -> e_ragged env = rag -> e_vec_len env = vec_len ->
  exists c reps, dB env (g "if" "" 4%nat) = Some c /\
    match tile_reps (g "assign" "kwargs[key]" 1%nat) with Some items => dTuple env items | None => None end
      = Some reps /\
    tile_item ed vec_len (k, (rag, VArr s)) = if c then (k, VArr (np_tile_shape s reps)) else (k, VArr s).
Proof.
  intros ed vec_len k rag s env E1 E2 E3 E4.
  exists ((ndim s <? ed k) && negb rag), (vec_len :: repeat 1 (Z.to_nat (ed k - 1))).
  rewrite tile_cond_translated, tile_reps_translated, E1, E2, E3, E4. repeat split.
Qed.

(* the end: `if B is not None and squeeze: return np.squeeze(B)` / `return B` *)
Lemma final_squeeze_translated : forall env,
  dB env (g "if" "" 5%nat) = Some (e_B_some env && e_squeeze env) /\
  g "return" "" 0%nat = PCall (PAttr (PName "np") "squeeze") [PName "B"] [] /\ g "return" "" 1%nat = PName "B".
Proof. intros env. repeat split. Qed.

(* ---- (3) observer-list formatting and the source-row bookkeeping of _getBH_level2 (round 6): the statements of
   check_format_input_observers and of the collection-reduction block, as of /repo HEAD, reviewed ---- *)
Definition expected_observers_arith : list (string * string * string * pyexp) := [
  ("check_format_input_observers", "if", "",
     (PCall (PName "isinstance") [(PName "inp"); (PTuple [(PName "Collection"); (PName "Sensor")])] []));
  ("check_format_input_observers", "assign", "inp",
     (PTuple [(PName "inp")]));
  ("check_format_input_observers", "endif", "",
     PNone);
  ("check_format_input_observers", "if", "",
     (PUn "not" (PCall (PName "isinstance") [(PName "inp"); (PTuple [(PName "list"); (PName "tuple"); (PAttr (PName "np") "ndarray")])] [])));
  ("check_format_input_observers", "raise", "MagpylibBadUserInput",
     PNone);
  ("check_format_input_observers", "endif", "",
     PNone);
  ("check_format_input_observers", "if", "",
     (PCmp "==" (PCall (PName "len") [(PName "inp")] []) (PInt 0)));
  ("check_format_input_observers", "raise", "MagpylibBadUserInput",
     PNone);
  ("check_format_input_observers", "endif", "",
     PNone);
  ("check_format_input_observers", "try", "",
     PNone);
  ("check_format_input_observers", "assign", "inp",
     (PCall (PAttr (PName "np") "array") [(PName "inp")] [("dtype", (PName "float"))]));
  ("check_format_input_observers", "assign", "pix_shapes",
     (PList [(PIfExp (PCmp "==" (PAttr (PName "inp") "shape") (PTuple [(PInt 3)])) (PTuple [(PInt 1); (PInt 3)]) (PAttr (PName "inp") "shape"))]));
  ("check_format_input_observers", "return", "",
     (PTuple [(PList [(PCall (PAttr (PAttr (PAttr (PName "_src") "obj_classes") "class_Sensor") "Sensor") [] [("pixel", (PName "inp"))])]); (PName "pix_shapes")]));
  ("check_format_input_observers", "except", "(TypeError, ValueError)",
     PNone);
  ("check_format_input_observers", "assign", "sensors",
     (PList []));
  ("check_format_input_observers", "for", "obj",
     (PName "inp"));
  ("check_format_input_observers", "if", "",
     (PCall (PName "isinstance") [(PName "obj"); (PName "Sensor")] []));
  ("check_format_input_observers", "expr", "",
     (PCall (PAttr (PName "sensors") "append") [(PName "obj")] []));
  ("check_format_input_observers", "else", "",
     PNone);
  ("check_format_input_observers", "if", "",
     (PCall (PName "isinstance") [(PName "obj"); (PName "Collection")] []));
  ("check_format_input_observers", "assign", "child_sensors",
     (PCall (PName "format_obj_input") [(PName "obj")] [("allow", (PStr "sensors"))]));
  ("check_format_input_observers", "if", "",
     (PUn "not" (PName "child_sensors")));
  ("check_format_input_observers", "raise", "MagpylibBadUserInput",
     PNone);
  ("check_format_input_observers", "endif", "",
     PNone);
  ("check_format_input_observers", "expr", "",
     (PCall (PAttr (PName "sensors") "extend") [(PName "child_sensors")] []));
  ("check_format_input_observers", "else", "",
     PNone);
  ("check_format_input_observers", "try", "",
     PNone);
  ("check_format_input_observers", "assign", "obj",
     (PCall (PAttr (PName "np") "array") [(PName "obj")] [("dtype", (PName "float"))]));
  ("check_format_input_observers", "expr", "",
     (PCall (PAttr (PName "sensors") "append") [(PCall (PAttr (PAttr (PAttr (PName "_src") "obj_classes") "class_Sensor") "Sensor") [] [("pixel", (PName "obj"))])] []));
  ("check_format_input_observers", "except", "Exception",
     PNone);
  ("check_format_input_observers", "raise", "MagpylibBadUserInput",
     PNone);
  ("check_format_input_observers", "endtry", "",
     PNone);
  ("check_format_input_observers", "endif", "",
     PNone);
  ("check_format_input_observers", "endif", "",
     PNone);
  ("check_format_input_observers", "endfor", "",
     PNone);
  ("check_format_input_observers", "assign", "pix_shapes",
     (PComp (PIfExp (PBin "or" (PCmp "is" (PAttr (PName "s") "pixel") PNone) (PCmp "==" (PAttr (PAttr (PName "s") "pixel") "shape") (PTuple [(PInt 3)]))) (PTuple [(PInt 1); (PInt 3)]) (PAttr (PAttr (PName "s") "pixel") "shape")) (PName "s") (PName "sensors") []));
  ("check_format_input_observers", "if", "",
     (PBin "and" (PCmp "is" (PName "pixel_agg") PNone) (PUn "not" (PCall (PName "all_same") [(PName "pix_shapes")] []))));
  ("check_format_input_observers", "raise", "MagpylibBadUserInput",
     PNone);
  ("check_format_input_observers", "endif", "",
     PNone);
  ("check_format_input_observers", "return", "",
     (PTuple [(PName "sensors"); (PName "pix_shapes")]));
  ("check_format_input_observers", "endtry", "",
     PNone)].

Definition expected_reduce_arith : list (string * string * string * pyexp) := [
  ("_getBH_level2", "if", "",
     (PCmp ">" (PName "num_of_src_list") (PName "num_of_sources")));
  ("_getBH_level2", "for", "(src_ind, src)",
     (PCall (PName "enumerate") [(PName "sources")] []));
  ("_getBH_level2", "if", "",
     (PCall (PName "isinstance") [(PName "src"); (PName "Collection")] []));
  ("_getBH_level2", "assign", "col_len",
     (PCall (PName "len") [(PCall (PName "format_obj_input") [(PName "src")] [("allow", (PStr "sources"))])] []));
  ("_getBH_level2", "assign", "B[src_ind]",
     (PCall (PAttr (PName "np") "sum") [(PSub (PName "B") (PSlice (Some (PName "src_ind")) (Some (PBin "+" (PName "src_ind") (PName "col_len")))))] [("axis", (PInt 0))]));
  ("_getBH_level2", "assign", "B",
     (PCall (PAttr (PName "np") "delete") [(PName "B"); (PSub (PAttr (PName "np") "s_") (PSlice (Some (PBin "+" (PName "src_ind") (PInt 1))) (Some (PBin "+" (PName "src_ind") (PName "col_len"))))); (PInt 0)] []));
  ("_getBH_level2", "endif", "",
     PNone);
  ("_getBH_level2", "endfor", "",
     PNone);
  ("_getBH_level2", "endif", "",
     PNone)].

Lemma observers_arith_reviewed : observers_arith = expected_observers_arith.
Proof. reflexivity. Qed.
Lemma reduce_arith_reviewed : reduce_arith = expected_reduce_arith.
Proof. reflexivity. Qed.

(* every element of the list is put into `sensors` inside the one loop over `inp`, in the element's own turn *)
Notation go k t n := (get "check_format_input_observers" k t n observers_arith).
Lemma observers_loop_appends_in_turn :
  go "for" "obj" 0%nat = PName "inp" /\
  go "expr" "" 0%nat = PCall (PAttr (PName "sensors") "append") [PName "obj"] [] /\
  go "expr" "" 1%nat = PCall (PAttr (PName "sensors") "extend") [PName "child_sensors"] [] /\
  go "assign" "child_sensors" 0%nat = PCall (PName "format_obj_input") [PName "obj"] [("allow", PStr "sensors")] /\
  go "expr" "" 2%nat = PCall (PAttr (PName "sensors") "append")
     [PCall (PAttr (PAttr (PAttr (PName "_src") "obj_classes") "class_Sensor") "Sensor") [] [("pixel", PName "obj")]] [] /\
  find_nth "check_format_input_observers" "expr" "" 3%nat observers_arith = None /\
  go "return" "" 1%nat = PTuple [PName "sensors"; PName "pix_shapes"].
Proof. repeat split; reflexivity. Qed.

(* the slice that is summed into row src_ind and the slice that is deleted: [i, i+n) and [i+1, i+n) *)
Lemma reduce_bounds : forall (i n : Z),
  let env := fun s => if String.eqb s "src_ind" then Some i else if String.eqb s "col_len" then Some n else None in
  match get "_getBH_level2" "assign" "B[src_ind]" 0%nat reduce_arith with
  | PCall _ [PSub (PName "B") (PSlice (Some lo) (Some hi))] _ =>
      (evalZ env (fun _ => None) lo, evalZ env (fun _ => None) hi)
  | _ => (None, None) end = (Some i, Some (i + n)) /\
  match get "_getBH_level2" "assign" "B" 0%nat reduce_arith with
  | PCall _ [PName "B"; PSub _ (PSlice (Some lo) (Some hi)); PInt 0] _ =>
      (evalZ env (fun _ => None) lo, evalZ env (fun _ => None) hi)
  | _ => (None, None) end = (Some (i + 1), Some (i + n)).
Proof. intros i n. split; reflexivity. Qed.

(* the model of the observer list keeps list order: formatting a concatenation is the concatenation *)
Lemma format_observers_app : forall a b,
  format_observers (a ++ b) =
  match format_observers a, format_observers b with Some x, Some y => Some (x ++ y)%list | _, _ => None end.
Proof.
  induction a as [|o a IH]; intros b; simpl.
  - destruct (format_observers b); reflexivity.
  - rewrite IH. destruct (obs_step o), (format_observers a), (format_observers b); try reflexivity.
    now rewrite app_assoc.
Qed.
