(* C20 -- last assignment wins / notations equivalent / rejection, on the whole generated schema *)
From Coq Require Import ZArith List Bool String Ascii.
From MV Require Import Lib.STree Model.StyleModel Gen.GenStyle Model.StyleExec Model.StyleSpec.
Import ListNotations.
Open Scope string_scope.
Open Scope list_scope.

Lemma defaults_build_ok : snd (defaults_new colors defaults_schema DEFAULTS) = None.
Proof. vm_compute. reflexivity. Qed.

Lemma ctor_ok : ctor_forwards_style = true.
Proof. vm_compute. reflexivity. Qed.

Lemma separator_free_ok : separator_free = true.
Proof. vm_compute. reflexivity. Qed.

Lemma lw_all_ok : lw_all = true.
Proof. vm_cast_no_check (eq_refl true). Qed.

Definition p_asize : path := ["magnetization"; "arrow"; "size"].

(* the alias: after arrow.size = 2 (attribute), update(magnetization_arrow_size=0.5) leaves 2 *)
Lemma lw_alias_witness :
  In ("MagnetStyle", schema_MagnetStyle) style_classes /\
  In (p_asize, KNumGe0, false) (sleaves schema_MagnetStyle) /\
  In (VInt 2) (two KNumGe0) /\ In (VFlt 1 2) (two KNumGe0) /\
  In NAttr (notations p_asize) /\ In (NUnder 0) (notations p_asize) /\
  lw_holds schema_MagnetStyle p_asize (VInt 2) (VFlt 1 2) NAttr (NUnder 0) = false /\
  leaf_is schema_MagnetStyle
       (fst (set_leaf schema_MagnetStyle
               (fst (set_leaf schema_MagnetStyle (fresh_state schema_MagnetStyle) p_asize (Some (VInt 2)) NAttr))
               p_asize (Some (VFlt 1 2)) (NUnder 0)))
       p_asize (Some (VInt 2)) = true.
Proof.
  split; [right; left; reflexivity|].
  split; [apply (nth_error_In _ (leaf_index schema_MagnetStyle p_asize)); vm_compute; reflexivity|].
  split; [left; reflexivity|]. split; [right; left; reflexivity|].
  split; [left; reflexivity|]. split; [right; left; reflexivity|].
  split; vm_compute; reflexivity.
Qed.

Lemma reject_all_ok : reject_all = true.
Proof. vm_cast_no_check (eq_refl true). Qed.
