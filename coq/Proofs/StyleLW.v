(* C20 -- last assignment wins / notations equivalent / rejection, on the whole generated schema *)
From Coq Require Import ZArith List Bool String Ascii.
From MV Require Import Lib.STree Model.StyleModel Gen.GenStyle Model.StyleExec Model.StyleSpec.
Import ListNotations.
Open Scope string_scope.
Open Scope list_scope.

Lemma forallb_In {A} (f : A -> bool) l x : forallb f l = true -> In x l -> f x = true.
Proof. intros H Hx. exact (proj1 (forallb_forall f l) H x Hx). Qed.

Ltac fa H x Hx := let H' := fresh in pose proof (forallb_In _ _ x H Hx) as H'; cbv beta in H'; clear H; rename H' into H.

Lemma defaults_build_ok : snd (defaults_new colors defaults_schema DEFAULTS) = None.
Proof. vm_compute. reflexivity. Qed.

Lemma ctor_ok : ctor_forwards_style = true.
Proof. vm_compute. reflexivity. Qed.

Lemma ctor_forall cls ok why : In (cls, (ok, why)) ctor_style -> ok = true.
Proof.
  intros Hin. pose proof ctor_ok as H. unfold ctor_forwards_style in H.
  exact (forallb_In _ _ _ H Hin).
Qed.

Lemma separator_free_ok : separator_free = true.
Proof. vm_compute. reflexivity. Qed.

Lemma separator_free_forall cs n :
  In cs (("defaults", defaults_schema) :: style_classes) -> In n (all_names (snd cs)) -> has_char us n = false.
Proof.
  intros H1 H2. pose proof separator_free_ok as H. unfold separator_free in H.
  fa H cs H1. fa H n H2. destruct (has_char us n); [discriminate H|reflexivity].
Qed.

Lemma lw_all_ok : lw_all = true.
Proof. vm_compute. reflexivity. Qed.

Lemma lw_forall cs p k al v1 v2 n1 n2 :
  In cs style_classes -> In (p, k, al) (sleaves (snd cs)) -> shadowed (snd cs) p = false ->
  In v1 (two k) -> In v2 (two k) -> In n1 (notations p) -> In n2 (notations p) ->
  lw_holds (snd cs) p v1 v2 n1 n2 = true.
Proof.
  intros H1 H2 Hs H3 H4 H5 H6. pose proof lw_all_ok as H. unfold lw_all in H.
  fa H cs H1. fa H (p, k, al) H2. apply orb_prop in H. destruct H as [Hc|H].
  - assert (X : shadowed (snd cs) p = true) by exact Hc. rewrite Hs in X. discriminate X.
  - fa H v1 H3. fa H v2 H4. fa H n1 H5. fa H n2 H6. exact H.
Qed.

(* the alias: after arrow.size = 2 (attribute), update(magnetization_arrow_size=0.5) leaves 2 *)
Lemma lw_alias_witness :
  lw_holds schema_MagnetStyle ["magnetization"; "arrow"; "size"] (VInt 2) (VFlt 1 2) NAttr (NUnder 0) = false
  /\ leaf_is schema_MagnetStyle
       (fst (set_leaf schema_MagnetStyle
               (fst (set_leaf schema_MagnetStyle (fresh_state schema_MagnetStyle)
                              ["magnetization"; "arrow"; "size"] (Some (VInt 2)) NAttr))
               ["magnetization"; "arrow"; "size"] (Some (VFlt 1 2)) (NUnder 0)))
       ["magnetization"; "arrow"; "size"] (Some (VInt 2)) = true.
Proof. split; vm_compute; reflexivity. Qed.

Definition p_asize : path := ["magnetization"; "arrow"; "size"].

Lemma lw_unrestricted_false :
  ~ (forall cs p k al v1 v2 n1 n2,
       In cs style_classes -> In (p, k, al) (sleaves (snd cs)) ->
       In v1 (two k) -> In v2 (two k) -> In n1 (notations p) -> In n2 (notations p) ->
       lw_holds (snd cs) p v1 v2 n1 n2 = true).
Proof.
  intros H.
  specialize (H ("MagnetStyle", schema_MagnetStyle) p_asize KNumGe0 false (VInt 2) (VFlt 1 2) NAttr (NUnder 0)).
  assert (E : lw_holds schema_MagnetStyle p_asize (VInt 2) (VFlt 1 2) NAttr (NUnder 0) = false)
    by (vm_compute; reflexivity).
  assert (X : lw_holds schema_MagnetStyle p_asize (VInt 2) (VFlt 1 2) NAttr (NUnder 0) = true).
  { apply H.
    - right; left; reflexivity.
    - apply (nth_error_In _ (leaf_index schema_MagnetStyle p_asize)). vm_compute. reflexivity.
    - left; reflexivity.
    - right; left; reflexivity.
    - left; reflexivity.
    - right; left; reflexivity. }
  rewrite E in X. discriminate X.
Qed.

Lemma reject_all_ok : reject_all = true.
Proof. vm_compute. reflexivity. Qed.

Lemma reject_forall cs p k al n :
  In cs style_classes -> In (p, k, al) (sleaves (snd cs)) -> In n (notations p) ->
  rejects_name (snd cs) p n = true /\
  forall v, In v (bad_vals k) -> rejects_value (snd cs) p v n = true.
Proof.
  intros H1 H2 H3. pose proof reject_all_ok as H. unfold reject_all in H.
  fa H cs H1. fa H (p, k, al) H2. fa H n H3. apply andb_prop in H. destruct H as [Ha Hb].
  split; [exact Ha|]. intros v Hv. exact (forallb_In _ _ v Hb Hv).
Qed.
