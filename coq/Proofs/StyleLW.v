(* C20 -- last assignment wins / notations equivalent / rejection / source-form obligations,
   on the whole generated schema *)
From Coq Require Import ZArith List Bool String Ascii.
From MV Require Import Lib.STree Model.StyleModel Gen.GenStyle Model.StyleExec Model.StyleSpec.
Import ListNotations.
Open Scope string_scope.
Open Scope list_scope.

Lemma defaults_build_ok : snd (defaults_new cenv reset_mode defaults_schema DEFAULTS) = None.
Proof. vm_compute. reflexivity. Qed.

Lemma ctor_ok : ctor_forwards_style = true.
Proof. vm_compute. reflexivity. Qed.

Lemma separator_free_ok : separator_free = true.
Proof. vm_compute. reflexivity. Qed.

Lemma lw_all_ok : lw_all = true.
Proof. vm_cast_no_check (eq_refl true). Qed.

Lemma reject_all_ok : reject_all = true.
Proof. vm_cast_no_check (eq_refl true). Qed.

(* the constructor does not write into the caller's style dict (form of _process_style_kwargs in GenStyle) *)
Lemma ctor_caller_dict_ok : forall style kwargs : dict,
  ctor_caller_dict_after ctor_copies_style style kwargs = style.
Proof. intros style kwargs. reflexivity. Qed.

(* reading one object's style leaves the (possibly shared) constructor dict as it was, so a second object built
   from the same dict gets exactly the style of an object built from its own copy *)
Lemma shared_ctor_dict_ok : forall (s : schema) (d : dict),
  shared_dict_after_read pending_style_consumed_by_rebinding d = d /\
  second_object_style pending_style_consumed_by_rebinding s d = obj_new cenv s d [].
Proof. intros s d. split; reflexivity. Qed.

Lemma magic_fresh_ok : magic_merge_fresh = true.
Proof. reflexivity. Qed.

(* show() puts the object's own style back in a `finally` (utility.style_temp_edit): a failing show() cannot
   leave the temporary resolved style on the object *)
Lemma temp_style_ok : temp_style_restored_in_finally = true.
Proof. reflexivity. Qed.

Lemma recursion_ok : recursion_forwards_style_kwargs = true.
Proof. reflexivity. Qed.

(* magic_to_dict (first level) leaves its argument as it was, for every argument *)
Lemma magic_arg_unchanged : forall arg : dict, magic_caller_arg_after magic_merge_fresh arg = arg.
Proof.
  intros arg. unfold magic_caller_arg_after, magic_merge_fresh.
  generalize (@nil string) as owned. generalize arg at 1 as items.
  induction items as [|[k v] r IH]; intros owned; simpl; [reflexivity|].
  destruct (split_on us k) as [|k0 [|k1 rest]]; try apply IH.
  destruct (smem k0 owned); apply IH.
Qed.

(* record of the in-place form: update(d, path_show=True) with d = {"path": {}} wrote into d *)
Lemma magic_arg_inplace_witness :
  magic_caller_arg_after false [("path", Node []); ("path_show", Leaf (Some (VBool true)))]
  = [("path", Node [("show", Leaf (Some (VBool true)))]); ("path_show", Leaf (Some (VBool true)))].
Proof. vm_compute. reflexivity. Qed.

(* obj.style = <instance of the style class>: the object's style IS (a copy of) the instance afterwards,
   whatever it was before -- for every schema, previous state and instance *)
Lemma style_instance_takes_over : forall (s : schema) (st inst : tree),
  set_style cenv style_setter_takes_instance s st (SInst inst) = (inst, None).
Proof. intros s st inst. reflexivity. Qed.

(* a value that is neither a dict nor a style instance is rejected and changes nothing *)
Lemma style_wrong_rejected : forall (t : bool) (s : schema) (st : tree),
  set_style cenv t s st SWrong = (st, Some EValue).
Proof. intros t s st. reflexivity. Qed.

(* record of the form before 9298ef3: the instance was ignored *)
Lemma style_instance_ignored_record : forall (s : schema) (st inst : tree),
  set_style cenv false s st (SInst inst) = (st, None).
Proof. intros s st inst. reflexivity. Qed.

(* a sub-style instance handed to another object is copied; set_children_styles copies its argument
   (forms of validate_property_class / Collection.set_children_styles in GenStyle) *)
Lemma subobject_copy_ok : subobject_instance_copied = true.
Proof. reflexivity. Qed.

Lemma set_children_copy_ok : set_children_copies_arg = true.
Proof. reflexivity. Qed.

(* record of the variant before 4641759 (alias listed by as_dict): arrow.size = 2 by attribute, then
   update(magnetization_arrow_size=0.5) left 2; with the generated schema it gives 0.5 *)
Definition p_asize : path := ["magnetization"; "arrow"; "size"].

Lemma lw_alias_variant_witness :
  lw_holds (unhide schema_MagnetStyle) p_asize (VInt 2) (VFlt 1 2) NAttr (NUnder 0) = false /\
  lw_holds schema_MagnetStyle p_asize (VInt 2) (VFlt 1 2) NAttr (NUnder 0) = true.
Proof. split; vm_compute; reflexivity. Qed.
