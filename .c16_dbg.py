import sys, random, json, collections
sys.path.insert(0,'/verif'); sys.path.insert(0,'/repo')
import numpy as np
from harness.props import C16 as H
rng = random.Random(int(sys.argv[1]) if len(sys.argv)>1 else 0)
scale = float(sys.argv[2]) if len(sys.argv)>2 else 1.0
off = float(sys.argv[3]) if len(sys.argv)>3 else 0.0
N = int(sys.argv[4]) if len(sys.argv)>4 else 150
cnt = collections.Counter(); tot=collections.Counter()
for it in range(N):
    base = H.gen_base(rng)
    offset=[off*scale]*3
    nf, nv = len(base["faces"]), len(base["verts"])
    ref = H.reference_field(base, scale, offset) if base["closed"] else None
    for kinds in [[], ["perm"], ["flip"], ["rot"], ["renum"], H.TKINDS]:
        t = H.gen_transform(rng, nf, nv, kinds)
        m = H.apply_transform(base, t, scale, offset)
        res = H.check_mesh(m, ref)
        tot[base["construction"]]+=1
        for c,w in res:
            cnt[(c, base["construction"])]+=1
            if cnt[(c, base["construction"])]<=2: print(c, base["construction"], kinds, w)
print(dict(tot)); print(cnt)
