"""GenConst.v: every expression that plays the role of mu_0 in the implementation.

Found by `ast` over ALL modules under <repo>/magpylib:
  * every `from ... import mu_0 [as X]` (the exported constant and the field modules' MU0) and
    every use of such a name (file:line, multiplied or divided);
  * every maximal constant sub-expression (numeric literals, np.pi/math.pi, the mu_0 alias,
    + - * / **) and every constant part of a multiplicative chain (`a * b * 1e-7 / MU0`) whose
    value is a mu_0-like number: within 1e-3 (relative) of mu_0, of 1/mu_0, or - when the chain
    mixes the alias with other literals - whatever it evaluates to;
  * structurally: the constant of the two BaseMagnet setters
    (`self._polarization = self._magnetization * <c>`, `self._magnetization = self._polarization / <c>`).
Each expression is evaluated by the IMPLEMENTATION's interpreter (/venv/bin/python, in the
namespace of the module it occurs in) and exported as the exact rational of the binary64 value.
Fails closed: an unexpected shape of the setters, a failing evaluation, or no site at all raises.
"""
import ast
import json
import os
import subprocess
from fractions import Fraction

PY = "/venv/bin/python"


class Untranslatable(Exception):
    pass


HEADER = """(* GENERATED on every run from the implementation by translate/gen_const.py -- do not edit *)
From Coq Require Import ZArith QArith List String.
Import ListNotations.
Open Scope Q_scope.
Open Scope string_scope.
"""

EVAL_SRC = r"""
import importlib, json, sys
jobs = json.load(sys.stdin)
out = []
import math, numpy
for modname, src in jobs:
    if modname is None:     # pure literal expression: no module state needed
        ns = {"np": numpy, "numpy": numpy, "math": math, "m": math}
    else:
        ns = dict(vars(importlib.import_module(modname)))
    v = eval(src, ns)
    out.append(float(v).hex())
json.dump(out, sys.stdout)
"""


def modname_of(repo, path):
    rel = os.path.relpath(path, repo)[:-3]
    parts = rel.split(os.sep)
    if parts[-1] == "__init__":
        parts = parts[:-1]
    return ".".join(parts)


def is_pi(node):
    return (isinstance(node, ast.Attribute) and node.attr == "pi" and isinstance(node.value, ast.Name)
            and node.value.id in ("np", "numpy", "math", "m"))


def is_const(node, aliases):
    if isinstance(node, ast.Constant):
        return isinstance(node.value, (int, float)) and not isinstance(node.value, bool)
    if is_pi(node):
        return True
    if isinstance(node, ast.Name):
        return node.id in aliases
    if isinstance(node, ast.BinOp) and isinstance(node.op, (ast.Add, ast.Sub, ast.Mult, ast.Div, ast.Pow)):
        return is_const(node.left, aliases) and is_const(node.right, aliases)
    if isinstance(node, ast.UnaryOp) and isinstance(node.op, (ast.USub, ast.UAdd)):
        return is_const(node.operand, aliases)
    return False


def mentions_alias(node, aliases):
    return any(isinstance(n, ast.Name) and n.id in aliases for n in ast.walk(node))


def flatten_chain(node, sign, out, aliases):
    """multiplicative chain -> [(factor node, +1|-1)] in evaluation order; a constant
    sub-expression such as (4 * np.pi * 1e-7) stays ONE factor (one binary64 value)"""
    if isinstance(node, ast.BinOp) and isinstance(node.op, (ast.Mult, ast.Div)) and not is_const(node, aliases):
        flatten_chain(node.left, sign, out, aliases)
        flatten_chain(node.right, sign if isinstance(node.op, ast.Mult) else -sign, out, aliases)
    else:
        out.append((node, sign))


class Finder(ast.NodeVisitor):
    """collects candidate sites of one module"""

    def __init__(self, aliases):
        self.aliases = aliases
        self.chains = []      # (lineno, [(src, sign, mentions_alias)], text)

    def visit_BinOp(self, node):
        if isinstance(node.op, (ast.Mult, ast.Div)) and not is_const(node, self.aliases):
            fac = []
            flatten_chain(node, 1, fac, self.aliases)
            consts = [(f, s) for f, s in fac if is_const(f, self.aliases)]
            if consts:
                self.chains.append((node.lineno, [(ast.unparse(f), s, mentions_alias(f, self.aliases))
                                                  for f, s in consts], ast.unparse(node)[:70]))
            for f, _ in fac:
                if not is_const(f, self.aliases):
                    self.visit(f)
            return
        if is_const(node, self.aliases):
            self.chains.append((node.lineno, [(ast.unparse(node), 1, mentions_alias(node, self.aliases))],
                                ast.unparse(node)[:70]))
            return
        self.generic_visit(node)

    def visit_AugAssign(self, node):
        # BHJM *= MU0 ; BHJM /= MU0
        if isinstance(node.op, (ast.Mult, ast.Div)) and is_const(node.value, self.aliases):
            s = 1 if isinstance(node.op, ast.Mult) else -1
            self.chains.append((node.lineno, [(ast.unparse(node.value), s, mentions_alias(node.value, self.aliases))],
                                ast.unparse(node)[:70]))
            return
        self.generic_visit(node)


def setter_constant(tree, path):
    """the constants of BaseMagnet.magnetization / .polarization setters, structurally"""
    cls = next((n for n in ast.walk(tree) if isinstance(n, ast.ClassDef) and n.name == "BaseMagnet"), None)
    if cls is None:
        raise Untranslatable(f"class BaseMagnet not found in {path}")
    found = {}
    for fn in cls.body:
        if not isinstance(fn, ast.FunctionDef) or fn.name not in ("magnetization", "polarization"):
            continue
        if not any(isinstance(d, ast.Attribute) and d.attr == "setter" for d in fn.decorator_list):
            continue
        other = "_polarization" if fn.name == "magnetization" else "_magnetization"
        own = "_" + fn.name
        hits = []
        for st in ast.walk(fn):
            if isinstance(st, ast.Assign) and len(st.targets) == 1 and isinstance(st.targets[0], ast.Attribute) \
                    and st.targets[0].attr == other:
                if isinstance(st.value, ast.Constant) and st.value.value is None:
                    continue            # the `= None` branch of the None path (commit e4a0461)
                hits.append(st)
        if len(hits) != 1:
            raise Untranslatable(f"{fn.name} setter: expected exactly one non-None assignment to self.{other}, got {len(hits)}")
        v = hits[0].value
        want = ast.Mult if fn.name == "magnetization" else ast.Div
        if not (isinstance(v, ast.BinOp) and isinstance(v.op, want) and isinstance(v.left, ast.Attribute)
                and v.left.attr == own):
            raise Untranslatable(f"{fn.name} setter: self.{other} is not self.{own} "
                                 f"{'*' if want is ast.Mult else '/'} <constant>: {ast.unparse(v)}")
        found[fn.name] = (hits[0].lineno, ast.unparse(v.right))
    if set(found) != {"magnetization", "polarization"}:
        raise Untranslatable(f"BaseMagnet setters not found: {sorted(found)}")
    return found


def setter_paths(tree, path):
    """every execution path of the two BaseMagnet setters as a sequence of tokens
         "raise" (a call: validation, warning, arithmetic helper - anything that can raise),
         "own" / "other" (write of self._<own> / self._<other attribute>)
    in evaluation order (the calls of an assignment's right-hand side come BEFORE its write).  Fails closed on any
    statement kind it does not know."""
    cls = next((n for n in ast.walk(tree) if isinstance(n, ast.ClassDef) and n.name == "BaseMagnet"), None)
    if cls is None:
        raise Untranslatable(f"class BaseMagnet not found in {path}")
    out = {}

    def calls(node):
        return ["raise" for n in ast.walk(node) if isinstance(n, ast.Call)]

    def run(stmts, own, other):
        """-> list of (tokens, returned?)"""
        paths = [([], False)]
        for st in stmts:
            new = []
            for toks, done in paths:
                if done:
                    new.append((toks, True))
                    continue
                if isinstance(st, ast.Expr) and isinstance(st.value, ast.Constant) and isinstance(st.value.value, str):
                    new.append((toks, False))
                elif isinstance(st, ast.Expr):
                    new.append((toks + calls(st.value), False))
                elif isinstance(st, ast.Assign) and len(st.targets) == 1 and isinstance(st.targets[0], ast.Attribute) \
                        and isinstance(st.targets[0].value, ast.Name) and st.targets[0].value.id == "self" \
                        and st.targets[0].attr in (own, other):
                    new.append((toks + calls(st.value) + ["own" if st.targets[0].attr == own else "other"], False))
                elif isinstance(st, ast.Assign) and len(st.targets) == 1 and isinstance(st.targets[0], ast.Name):
                    new.append((toks + calls(st.value), False))          # a local variable
                elif isinstance(st, ast.Return):
                    new.append((toks + (calls(st.value) if st.value is not None else []), True))
                elif isinstance(st, ast.If):
                    t = toks + calls(st.test)
                    for sub, d in run(st.body, own, other):
                        new.append((t + sub, d))
                    for sub, d in (run(st.orelse, own, other) if st.orelse else [([], False)]):
                        new.append((t + sub, d))
                else:
                    raise Untranslatable(f"setter statement of unknown kind at line {st.lineno}: {ast.unparse(st)[:60]}")
            paths = new
        return paths

    for fn in cls.body:
        if isinstance(fn, ast.FunctionDef) and fn.name in ("magnetization", "polarization") \
                and any(isinstance(d, ast.Attribute) and d.attr == "setter" for d in fn.decorator_list):
            own = "_" + fn.name
            other = "_polarization" if fn.name == "magnetization" else "_magnetization"
            out[fn.name] = [toks for toks, _ in run(fn.body, own, other)]
    if set(out) != {"magnetization", "polarization"}:
        raise Untranslatable(f"BaseMagnet setters not found: {sorted(out)}")
    return out


def qlit(hexstr):
    fr = Fraction(float.fromhex(hexstr))
    n, d = fr.numerator, fr.denominator
    return f"(({n}) # {d})" if n < 0 else f"({n} # {d})"


def cstr(s):
    return '"' + s.replace('"', '""').replace("\n", " ") + '"'


def generate(repo):
    root = os.path.join(repo, "magpylib")
    files = []
    for dp, _, fns in os.walk(root):
        for fn in sorted(fns):
            if fn.endswith(".py"):
                files.append(os.path.join(dp, fn))
    files.sort()
    jobs = []            # (modname, src)
    recs = []            # dicts referring to job indices

    def job(mod, src, needs_module=True):
        jobs.append((mod if needs_module else None, src))
        return len(jobs) - 1

    exported = None
    setters = None
    for path in files:
        rel = os.path.relpath(path, repo)
        tree = ast.parse(open(path).read())
        mod = modname_of(repo, path)
        aliases = {}
        for n in ast.walk(tree):
            if isinstance(n, ast.ImportFrom):
                for a in n.names:
                    if a.name == "mu_0":
                        aliases[a.asname or a.name] = n.lineno
        for al, ln in aliases.items():
            j = job(mod, al)
            recs.append({"kind": "name", "site": f"{rel}:{ln} import mu_0 as {al}", "job": j})
            if rel == os.path.join("magpylib", "__init__.py"):
                exported = j
        fd = Finder(set(aliases))
        fd.visit(tree)
        for ln, consts, text in fd.chains:
            recs.append({"kind": "chain", "site": f"{rel}:{ln} {text}", "alias": any(c[2] for c in consts),
                         "factors": [(job(mod, src, al), sign) for src, sign, al in consts]})
        if rel.endswith("class_BaseExcitations.py"):
            st = setter_constant(tree, rel)
            spaths = setter_paths(tree, rel)
            setters = {k: (f"{rel}:{ln} {k}.setter constant {src}", job(mod, src)) for k, (ln, src) in st.items()}
    if exported is None:
        raise Untranslatable("magpylib/__init__.py does not import mu_0")
    if setters is None:
        raise Untranslatable("class_BaseExcitations.py not found")

    env = dict(os.environ, PYTHONPATH=repo, PYTHONDONTWRITEBYTECODE="1", MPLBACKEND="Agg")
    p = subprocess.run([PY, "-W", "ignore", "-c", EVAL_SRC], input=json.dumps(jobs), capture_output=True,
                       text=True, timeout=120, env=env, cwd=repo)
    if p.returncode != 0:
        raise Untranslatable("evaluation in the implementation's interpreter failed: " + p.stderr[-800:])
    hexes = json.loads(p.stdout)
    val = [float.fromhex(h) for h in hexes]
    mu0 = val[exported]
    if not 1.2e-6 < mu0 < 1.3e-6:
        raise Untranslatable(f"exported mu_0 = {mu0!r} is not a vacuum permeability in SI units")

    names, lit, inv, mixed, uses = [], [], [], [], []
    for r in recs:
        if r["kind"] == "name":
            names.append((r["site"], qlit(hexes[r["job"]])))
            continue
        fac = r["factors"]
        v = 1.0
        for j, s in fac:
            try:
                v = v * val[j] if s > 0 else v / val[j]
            except ZeroDivisionError:     # e.g. `moments / 0.0` in the dipole core: not a mu_0
                v = float("nan")
        if r["alias"] and len(fac) == 1 and jobs[fac[0][0]][1].isidentifier():
            uses.append((r["site"] + (" [multiplied]" if fac[0][1] > 0 else " [divided by]"), qlit(hexes[fac[0][0]])))
            continue
        num = " * ".join(qlit(hexes[j]) for j, s in fac if s > 0) or "1"
        den = " * ".join(qlit(hexes[j]) for j, s in fac if s < 0)
        q = f"({num})" + (f" / ({den})" if den else "")
        if r["alias"]:
            mixed.append((r["site"], q))
        elif v > 0 and abs(v / mu0 - 1) < 1e-3:
            lit.append((r["site"], q))
        elif v > 0 and abs(v * mu0 - 1) < 1e-3:
            inv.append((r["site"], q))
    if not names or not uses:
        raise Untranslatable("no use of mu_0 found in the field modules")

    def table(name, rows, comment):
        body = ";\n".join(f"  ({cstr(s)}, {q})" for s, q in rows)
        return f"(* {comment} *)\nDefinition {name} : list (string * Q) := [\n{body}].\n"

    out = [HEADER]
    out.append(f"(* magpylib.mu_0 as the implementation's interpreter sees it: {mu0!r} = {hexes[exported]} *)\n"
               f"Definition mu0_exported : Q := {qlit(hexes[exported])}.\n")
    for k in ("magnetization", "polarization"):
        site, j = setters[k]
        out.append(f"(* {site} = {val[j]!r} *)\nDefinition mu0_setter_{k} : Q := {qlit(hexes[j])}.\n"
                   f"Definition mu0_setter_{k}_site : string := {cstr(site)}.\n")
    for k in ("magnetization", "polarization"):
        body = ";\n".join("  [" + "; ".join(cstr(t) for t in toks) + "]" for toks in spaths[k])
        out.append(f"(* every execution path of the {k} setter: calls (\"raise\") and writes of the own / other attribute, in order *)\n"
                   f"Definition setter_paths_{k} : list (list string) := [\n{body}].\n")
    out.append(table("mu0_name_sites", names, "every `import mu_0 [as X]`, value of the module attribute"))
    out.append(table("mu0_use_sites", uses, "every bare use of such a name as a factor / divisor"))
    out.append(table("mu0_literal_sites", lit, "constant expressions within 1e-3 of mu_0 that do not mention the name"))
    out.append(table("inv_mu0_literal_sites", inv, "constant expressions within 1e-3 of 1/mu_0"))
    out.append(table("mu0_mixed_sites", mixed, "constant parts of products mixing the name with other literals"))
    # binary64 value of 4*pi as the interpreter computes it, for the stated relations
    out.append("(* 4*pi in binary64 (math.pi*4), used to state what the mixed sites approximate *)\n"
               f"Definition four_pi_b64 : Q := {qlit((4 * 3.141592653589793).hex())}.\n")
    return "\n".join(out)
