"""Fail-closed translator from a small Python subset to Gallina text.

Supported: a function whose body consists of assignments to names, if/elif/else,
return; integer / boolean arithmetic and comparisons; tuples; `len`; the idioms
`x == "auto"` on an `optZ` variable, `np.pad(X, ((a, b), (0, 0)), "edge")`,
`np.pad(X, (pad, (0, 0)), "edge")`, `X[e:]`; `return [], s` / `return (a, b), s`
for an `optpair` first component.  Anything else raises Untranslatable, which the
checks treat as a broken tie between model and code.
"""
import ast


class Untranslatable(Exception):
    pass


def fail(node, why=""):
    src = ast.dump(node)[:200] if isinstance(node, ast.AST) else str(node)
    raise Untranslatable(f"{why}: line {getattr(node, 'lineno', '?')}: {src}")


def get_function(path, name):
    tree = ast.parse(open(path).read())
    for node in ast.walk(tree):
        if isinstance(node, ast.FunctionDef) and node.name == name:
            return node
    raise Untranslatable(f"function {name} not found in {path}")


def strip_doc(body):
    if body and isinstance(body[0], ast.Expr) and isinstance(body[0].value, ast.Constant) \
            and isinstance(body[0].value.value, str):
        return body[1:]
    return body


class FunTranslator:
    def __init__(self, fn, types, ret_kind=None):
        """types: name -> 'Z' | 'bool' | 'optZ' | 'list' | 'pair' ; ret_kind: None | 'optpair_first'"""
        self.fn = fn
        self.types = dict(types)
        self.ret_kind = ret_kind

    # ---------------- expressions
    def expr(self, e, types):
        if isinstance(e, ast.Constant):
            if isinstance(e.value, bool):
                return "true" if e.value else "false"
            if isinstance(e.value, int):
                return f"({e.value})" if e.value < 0 else str(e.value)
            fail(e, "constant")
        if isinstance(e, ast.Name):
            if e.id not in types:
                fail(e, "unknown name")
            if types[e.id] == "optZ":
                fail(e, "use of 'auto'-typed variable as a number")
            return e.id
        if isinstance(e, ast.UnaryOp):
            if isinstance(e.op, ast.USub):
                return f"(- {self.expr(e.operand, types)})"
            if isinstance(e.op, ast.Not):
                return f"(negb {self.expr(e.operand, types)})"
            fail(e, "unary")
        if isinstance(e, ast.BinOp):
            ops = {ast.Add: "+", ast.Sub: "-", ast.Mult: "*"}
            if type(e.op) not in ops:
                fail(e, "binop")
            return f"({self.expr(e.left, types)} {ops[type(e.op)]} {self.expr(e.right, types)})"
        if isinstance(e, ast.Compare):
            if len(e.ops) != 1:
                fail(e, "chained compare")
            ops = {ast.Lt: "<?", ast.Gt: ">?", ast.LtE: "<=?", ast.GtE: ">=?", ast.Eq: "=?"}
            a, b = self.expr(e.left, types), self.expr(e.comparators[0], types)
            if isinstance(e.ops[0], ast.NotEq):
                return f"(negb ({a} =? {b}))"
            if type(e.ops[0]) not in ops:
                fail(e, "compare")
            return f"({a} {ops[type(e.ops[0])]} {b})"
        if isinstance(e, ast.BoolOp):
            op = "&&" if isinstance(e.op, ast.And) else "||"
            return "(" + f" {op} ".join(self.expr(v, types) for v in e.values) + ")"
        if isinstance(e, ast.Tuple):
            return "(" + ", ".join(self.expr(v, types) for v in e.elts) + ")"
        if isinstance(e, ast.Call):
            f = e.func
            if isinstance(f, ast.Name) and f.id == "len" and len(e.args) == 1 and not e.keywords:
                return f"(zlen {self.expr(e.args[0], types)})"
            if isinstance(f, ast.Attribute) and isinstance(f.value, ast.Name) and f.value.id == "np" \
                    and f.attr == "pad" and len(e.args) == 3 and not e.keywords:
                x, pw, mode = e.args
                if not (isinstance(mode, ast.Constant) and mode.value == "edge"):
                    fail(e, "np.pad mode")
                if not (isinstance(pw, ast.Tuple) and len(pw.elts) == 2):
                    fail(e, "np.pad widths")
                ax0, ax1 = pw.elts
                if not (isinstance(ax1, ast.Tuple) and [getattr(c, "value", None) for c in ax1.elts] == [0, 0]):
                    fail(e, "np.pad pads the last axis")
                if isinstance(ax0, ast.Tuple) and len(ax0.elts) == 2:
                    b, a = (self.expr(v, types) for v in ax0.elts)
                    return f"(edge_pad dflt {b} {a} {self.expr(x, types)})"
                if isinstance(ax0, ast.Name) and types.get(ax0.id) == "pair":
                    return f"(edge_pad dflt (fst {ax0.id}) (snd {ax0.id}) {self.expr(x, types)})"
                fail(e, "np.pad axis-0 widths")
            fail(e, "call")
        if isinstance(e, ast.Subscript):
            if isinstance(e.slice, ast.Slice) and e.slice.upper is None and e.slice.step is None \
                    and e.slice.lower is not None:
                return f"(py_slice_from {self.expr(e.slice.lower, types)} {self.expr(e.value, types)})"
            fail(e, "subscript")
        fail(e, "expression")

    # ---------------- statements
    @staticmethod
    def has_return(stmts):
        return any(isinstance(n, ast.Return) for s in stmts for n in ast.walk(s))

    @staticmethod
    def assigned(stmts):
        out = []
        for s in stmts:
            for n in ast.walk(s):
                if isinstance(n, (ast.Assign, ast.AugAssign)):
                    tg = n.targets if isinstance(n, ast.Assign) else [n.target]
                    for t in tg:
                        if isinstance(t, ast.Name) and t.id not in out:
                            out.append(t.id)
        return out

    @classmethod
    def definitely(cls, stmts):
        out = set()
        for s in stmts:
            if isinstance(s, ast.Assign):
                out |= {t.id for t in s.targets if isinstance(t, ast.Name)}
            elif isinstance(s, ast.If):
                out |= cls.definitely(s.body) & cls.definitely(s.orelse)
        return out

    def ret(self, e, types):
        if self.ret_kind == "optpair_first":
            if not (isinstance(e, ast.Tuple) and len(e.elts) == 2):
                fail(e, "return shape")
            first, second = e.elts
            if isinstance(first, ast.List) and not first.elts:
                f = "None"
            elif isinstance(first, ast.Tuple) and len(first.elts) == 2:
                f = f"(Some {self.expr(first, types)})"
            else:
                fail(e, "return first component")
            return f"({f}, {self.expr(second, types)})"
        return self.expr(e, types)

    def is_auto_test(self, test, types):
        return (isinstance(test, ast.Compare) and len(test.ops) == 1 and isinstance(test.ops[0], ast.Eq)
                and isinstance(test.left, ast.Name) and types.get(test.left.id) == "optZ"
                and isinstance(test.comparators[0], ast.Constant) and test.comparators[0].value == "auto")

    def block(self, stmts, types, tail):
        """translate stmts; `tail(types)` gives the expression that follows (or None: must return)"""
        if not stmts:
            if tail is None:
                raise Untranslatable("control reaches end of function without return")
            return tail(types)
        s, rest = stmts[0], stmts[1:]
        if isinstance(s, ast.Pass):
            return self.block(rest, types, tail)
        if isinstance(s, ast.Return):
            if s.value is None:
                fail(s, "bare return")
            return self.ret(s.value, types)
        if isinstance(s, ast.Assign):
            if len(s.targets) != 1:
                fail(s, "multi-assign")
            t = s.targets[0]
            if isinstance(t, ast.Name):
                rhs = self.expr(s.value, types)
                ty = types.get(t.id, "Z")
                if ty == "optZ":
                    ty = "Z"
                nt = dict(types); nt[t.id] = ty
                return f"let {t.id} := {rhs} in\n{self.block(rest, nt, tail)}"
            fail(s, "assignment target")
        if isinstance(s, ast.AugAssign) and isinstance(s.target, ast.Name):
            ops = {ast.Add: "+", ast.Sub: "-", ast.Mult: "*"}
            if type(s.op) not in ops:
                fail(s, "augassign")
            rhs = f"({self.expr(s.target, types)} {ops[type(s.op)]} {self.expr(s.value, types)})"
            return f"let {s.target.id} := {rhs} in\n{self.block(rest, types, tail)}"
        if isinstance(s, ast.If):
            if self.is_auto_test(s.test, types):
                v = s.test.left.id
                if s.orelse or self.has_return(s.body):
                    fail(s, "'auto' branch shape")
                W = self.assigned(s.body)
                if v not in W:
                    fail(s, "'auto' branch must assign the variable")
                tup = ", ".join(W)
                inner_types = dict(types); inner_types.pop(v)   # reading it before assignment fails
                nt = dict(types); nt[v] = "Z"
                for w in W:
                    if w != v and w not in types:
                        fail(s, f"variable {w} defined only in one branch")
                body = self.block(s.body, inner_types, lambda ty: f"({tup})")
                pat = f"'({tup})" if len(W) > 1 else W[0]
                return (f"let {pat} := match {v} with None =>\n{body}\n| Some {v} => ({tup}) end in\n"
                        f"{self.block(rest, nt, tail)}")
            c = self.cond(s.test, types)
            if self.has_return(s.body) or self.has_return(s.orelse):
                cont = (lambda ty: self.block(rest, ty, tail)) if (rest or tail) else None
                a = self.block(s.body, types, cont)
                b = self.block(s.orelse, types, cont)
                return f"if {c} then\n{a}\nelse\n{b}"
            W = self.assigned(s.body + s.orelse)
            both = self.definitely(s.body) & self.definitely(s.orelse)
            for w in W:
                if w not in types and w not in both:
                    fail(s, f"variable {w} defined only in one branch")
            if not W:
                return self.block(rest, types, tail)
            tup = ", ".join(W)
            a = self.block(s.body, types, lambda ty: f"({tup})")
            b = self.block(s.orelse, types, lambda ty: f"({tup})")
            pat = f"'({tup})" if len(W) > 1 else W[0]
            nt = dict(types)
            for w in W:
                nt.setdefault(w, "Z")
            return f"let {pat} := (if {c} then\n{a}\nelse\n{b}) in\n{self.block(rest, nt, tail)}"
        fail(s, "statement")

    def cond(self, test, types):
        if isinstance(test, ast.Name) and types.get(test.id) == "optpair":
            return f"(match {test.id} with Some _ => true | None => false end)"
        return self.expr(test, types)

    def body_expr(self):
        return self.block(strip_doc(self.fn.body), self.types, None)
