"""GenLevel1.v: getBH_level1 (/repo/magpylib/_src/fields/field_wrap_BH.py) translated statement by
statement into one Gallina row function over the rigid-motion operations of Lib/Rigid.v:
    X.apply(e, inverse=True) -> act (ginv X) e      X.apply(e) -> act X e      a - b -> vsub a b
    field_func(field=field, observers=e, **kwargs)  -> F key props e
Fail closed: every statement must be one of the known shapes, in particular the back-rotation must
be applied to the WHOLE result for EVERY field (no per-field / per-row branches).  Checked, not
translated: the `in_out` keyword filter; `if BH is not None` (a field function without an
implementation returns None for the whole batch and is rejected one level above)."""
import ast
import os

from .py2coq import Untranslatable, get_function, strip_doc

HEADER = """(* GENERATED on every run from /repo by translate/gen_level1.py -- do not edit *)
From Coq Require Import List.
From MV Require Import Lib.Rigid.

Section GenLevel1.
Context {O : RigidOps}.
Variable P : Type.
Variable F : nat -> P -> V -> V.

"""

NAMES = {"position": "position", "orientation": "orientation", "observers": "observers"}


def bad(n, what):
    raise Untranslatable(f"getBH_level1 {what}: unexpected {ast.dump(n)[:200]}")


def vexpr(e, env):
    if isinstance(e, ast.Name) and e.id in env:
        return env[e.id]
    if isinstance(e, ast.BinOp) and isinstance(e.op, ast.Sub):
        return f"(vsub {vexpr(e.left, env)} {vexpr(e.right, env)})"
    if isinstance(e, ast.Call) and isinstance(e.func, ast.Attribute) and e.func.attr == "apply" \
            and isinstance(e.func.value, ast.Name) and e.func.value.id == "orientation" and len(e.args) == 1:
        if not e.keywords:
            return f"(act orientation {vexpr(e.args[0], env)})"
        if len(e.keywords) == 1 and e.keywords[0].arg == "inverse" and isinstance(e.keywords[0].value, ast.Constant) \
                and e.keywords[0].value.value is True:
            return f"(act (ginv orientation) {vexpr(e.args[0], env)})"
    if isinstance(e, ast.Call) and isinstance(e.func, ast.Name) and e.func.id == "field_func" and not e.args:
        kws = {k.arg: k.value for k in e.keywords}
        if set(kws) == {"field", "observers", None} and isinstance(kws["field"], ast.Name) and kws["field"].id == "field" \
                and isinstance(kws[None], ast.Name) and kws[None].id == "kwargs":
            return f"(F key props {vexpr(kws['observers'], env)})"
    bad(e, "expression")
    return None


def generate(repo):
    fn = get_function(os.path.join(repo, "magpylib", "_src", "fields", "field_wrap_BH.py"), "getBH_level1")
    a = fn.args
    if a.args or a.vararg or [k.arg for k in a.kwonlyargs] != ["field_func", "field", "position", "orientation", "observers"] \
            or not a.kwarg or a.kwarg.arg != "kwargs":
        bad(fn, "signature")
    env = {"position": "position", "observers": "observers"}
    lets = []
    body = strip_doc(fn.body)
    if not body or not isinstance(body[-1], ast.Return) or not isinstance(body[-1].value, ast.Name):
        bad(fn, "return")
    for st in body[:-1]:
        if isinstance(st, ast.Assign) and len(st.targets) == 1 and isinstance(st.targets[0], ast.Name):
            lets.append((st.targets[0].id, vexpr(st.value, env)))
            env[st.targets[0].id] = st.targets[0].id
        elif isinstance(st, ast.If) and ast.unparse(st.test) == "not has_parameter(field_func, 'in_out')" and not st.orelse \
                and len(st.body) == 1 and ast.unparse(st.body[0]) == "kwargs.pop('in_out', None)":
            continue
        elif isinstance(st, ast.If) and ast.unparse(st.test) == "BH is not None" and not st.orelse and len(st.body) == 1 \
                and isinstance(st.body[0], ast.Assign) and len(st.body[0].targets) == 1 \
                and isinstance(st.body[0].targets[0], ast.Name) and st.body[0].targets[0].id == "BH":
            lets.append(("BH", vexpr(st.body[0].value, env)))
        else:
            bad(st, "statement")
    ret = body[-1].value.id
    if ret not in env:
        bad(body[-1], "returned name")
    out = HEADER
    out += "Definition gen_level1 (key : nat) (position : V) (orientation : G) (observers : V) (props : P) : V :=\n"
    for n, e in lets:
        out += f"  let {n} := {e} in\n"
    out += f"  {ret}.\n\nEnd GenLevel1.\n"
    return out
