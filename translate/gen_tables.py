"""GenTables.v: per-class tables read by `ast` from /repo/magpylib/_src/obj_classes/class_*.py (+ the base rank
table of getBH_dict_level2 in fields/field_wrap_BH.py).  Nothing is imported from magpylib.

  classes        : name, bases, own `_field_func_kwargs_ndim` literal, __init__ parameter order (positional,
                   keyword-only), which attributes __init__ assigns through the property setter (guarded by
                   `is not None` or not)
  setters        : per property setter of a public data attribute: the validator it calls with the LITERAL keyword
                   arguments written at the call site, and whether the setter goes on to use the stored value in an
                   expression that is not guarded by an `is not None` test
  registered     : the classes get_registered_sources() returns (subclasses of BaseSource minus the three bases),
                   each with its effective (inherited) `_field_func_kwargs_ndim`
  dict_base_ndim : the literal {"position": 2, "orientation": 2, "observers": 2} of getBH_dict_level2 and the default
                   rank of `field_func_kwargs_ndim.get(key, 1)`

Fail closed: a validator call with a non-literal keyword, an unknown validator keyword, a setter of one of the
data attributes whose body matches none of the known shapes, a class-level table that is not a literal dict...
raise Untranslatable.
"""
import ast
import glob
import os

from .py2coq import Untranslatable, fail, strip_doc
from .gen_shape import literal, coq_vcfg, coq_z, coq_bool, VECTOR_KW, defaults, get_fn, is_name, is_raise_bad
from .gen_shape import parse_tetrahedron

HEADER = """(* GENERATED on every run from /repo/magpylib/_src/obj_classes/class_*.py and fields/field_wrap_BH.py
   by translate/gen_tables.py -- do not edit *)
From Coq Require Import ZArith List Bool String.
From MV Require Import Model.InputTypes.
Import ListNotations.
Open Scope Z_scope.
Open Scope string_scope.
"""

DATA_ATTRS = ["position", "orientation", "dimension", "diameter", "vertices", "faces", "polarization",
              "magnetization", "current", "moment", "pixel", "handedness", "field_func"]
VALIDATORS = {"check_format_input_vector", "check_format_input_scalar", "check_format_input_vertices",
              "check_format_input_cylinder_segment", "check_format_input_orientation", "validate_field_func",
              "check_format_input_tetrahedron"}
# filled by generate(): the vcfg term of check_format_input_tetrahedron (None: not defined), the rows that call it
TETRA = {"cfg": None, "rows": []}
SOURCE_BASES = ("BaseSource", "BaseMagnet", "BaseCurrent")
SCALAR_KW = {"sig_name", "sig_type", "allow_None", "forbid_negative"}


def cstr(s):
    if '"' in s or "\\" in s or "\n" in s:
        raise Untranslatable(f"string literal {s!r}")
    return '"' + s + '"'


def clist(xs):
    return "[" + "; ".join(xs) + "]"


def self_attr(e, name=None):
    return (isinstance(e, ast.Attribute) and is_name(e.value, "self") and (name is None or e.attr == name))


def validator_term(call, vec_defaults, sc_defaults):
    f = call.func.id
    if f == "check_format_input_vector":
        if len(call.args) != 1:
            fail(call, "vector validator positional arguments")
        kw = {}
        for k in call.keywords:
            if k.arg not in VECTOR_KW:
                fail(call, f"unknown keyword {k.arg}")
            kw[k.arg] = literal(k.value)
        for req in ("dims", "shape_m1"):
            if req not in kw:
                fail(call, f"missing keyword {req}")
        cfg = dict(vec_defaults)
        cfg.update(kw)
        return f"VVector {coq_vcfg(cfg)}", kw.get("sig_name")
    if f == "check_format_input_scalar":
        if len(call.args) != 1:
            fail(call, "scalar validator positional arguments")
        kw = {}
        for k in call.keywords:
            if k.arg not in SCALAR_KW:
                fail(call, f"unknown keyword {k.arg}")
            kw[k.arg] = literal(k.value)
        cfg = dict(sc_defaults)
        cfg.update(kw)
        return f"VScalar {coq_bool(cfg['allow_None'])} {coq_bool(cfg['forbid_negative'])}", kw.get("sig_name")
    if f == "check_format_input_vertices":
        if len(call.args) != 1 or call.keywords:
            fail(call, "vertices validator arguments")
        return "VVertices", None
    if f == "check_format_input_tetrahedron":
        # = check_format_input_vector(<literal configuration>) followed by the coplanarity guard: the row keeps the
        # vector form, the guard is exported as `tetra_rejects_coplanar`
        if len(call.args) != 1 or call.keywords or TETRA["cfg"] is None:
            fail(call, "tetrahedron validator arguments")
        TETRA["rows"].append(call)
        return f"VVector {TETRA['cfg']}", None
    if f == "check_format_input_cylinder_segment":
        if len(call.args) != 1 or call.keywords:
            fail(call, "cylinder segment validator arguments")
        return "VCylSeg", None
    if f == "check_format_input_orientation":
        kws = {k.arg: literal(k.value) for k in call.keywords}
        if len(call.args) != 1 or kws != {"init_format": True}:
            fail(call, "orientation validator arguments")
        return "VOrientation", None
    fail(call, "validator")


def validator_calls(fn):
    return [n for n in ast.walk(fn) if isinstance(n, ast.Call) and isinstance(n.func, ast.Name)
            and n.func.id in VALIDATORS]


def mentions_unguarded(stmts, attr):
    """does any statement read self.<attr> outside an `if self.<attr> is not None:` body?"""
    for s in stmts:
        if isinstance(s, ast.If):
            t = s.test
            # `if self.<attr> is None: ...; return` (no else): everything after it runs only when the value is
            # not None, so it is guarded; the body itself must not compute with the attribute
            early = (isinstance(t, ast.Compare) and len(t.ops) == 1 and isinstance(t.ops[0], ast.Is)
                     and self_attr(t.left, attr) and isinstance(t.comparators[0], ast.Constant)
                     and t.comparators[0].value is None and not s.orelse and s.body
                     and isinstance(s.body[-1], ast.Return) and s.body[-1].value is None)
            if early:
                return any(self_attr(n, attr) and isinstance(n.ctx, ast.Load)
                           for q in s.body for n in ast.walk(q))
            guarded = (isinstance(t, ast.Compare) and len(t.ops) == 1 and isinstance(t.ops[0], ast.IsNot)
                       and self_attr(t.left, attr) and isinstance(t.comparators[0], ast.Constant)
                       and t.comparators[0].value is None)
            if guarded:
                if mentions_unguarded(s.orelse, attr):
                    return True
                continue
        for n in ast.walk(s):
            if self_attr(n, attr) and isinstance(n.ctx, ast.Load):
                return True
    return False


def setter_row(cls, attr, fn, vec_defaults, sc_defaults):
    body = strip_doc(fn.body)
    argn = [a.arg for a in fn.args.args]
    if len(argn) != 2:
        fail(fn, "setter signature")
    val = argn[1]
    calls = validator_calls(fn)
    # handedness-like membership test
    if not calls:
        # `if not isinstance(val, str) or val not in {..}: raise MagpylibBadUserInput` ; self._<attr> = val
        if (len(body) == 2 and isinstance(body[0], ast.If) and not body[0].orelse and len(body[0].body) == 1
                and is_raise_bad(body[0].body[0]) and isinstance(body[0].test, ast.BoolOp)
                and isinstance(body[0].test.op, ast.Or) and len(body[0].test.values) == 2
                and ast.unparse(body[0].test.values[0]) == f"not isinstance({val}, str)"
                and isinstance(body[0].test.values[1], ast.Compare) and len(body[0].test.values[1].ops) == 1
                and isinstance(body[0].test.values[1].ops[0], ast.NotIn)
                and is_name(body[0].test.values[1].left, val)
                and isinstance(body[1], ast.Assign) and len(body[1].targets) == 1
                and self_attr(body[1].targets[0], "_" + attr) and is_name(body[1].value, val)):
            cont = body[0].test.values[1].comparators[0]
            if isinstance(cont, (ast.Set, ast.Tuple, ast.List)) and all(
                    isinstance(x, ast.Constant) and isinstance(x.value, str) for x in cont.elts):
                return f"VMemberStr {clist([cstr(x.value) for x in cont.elts])}", False
        if (len(body) == 2 and isinstance(body[0], ast.If) and not body[0].orelse and len(body[0].body) == 1
                and is_raise_bad(body[0].body[0]) and isinstance(body[0].test, ast.Compare)
                and len(body[0].test.ops) == 1 and isinstance(body[0].test.ops[0], ast.NotIn)
                and is_name(body[0].test.left, val)
                and isinstance(body[1], ast.Assign) and len(body[1].targets) == 1
                and self_attr(body[1].targets[0], "_" + attr) and is_name(body[1].value, val)):
            cont = body[0].test.comparators[0]
            if isinstance(cont, (ast.Set, ast.Tuple, ast.List)) and all(
                    isinstance(x, ast.Constant) and isinstance(x.value, str) for x in cont.elts):
                kind = "VMemberSet" if isinstance(cont, ast.Set) else "VMemberTuple"
                return f"{kind} {clist([cstr(x.value) for x in cont.elts])}", False
        fail(fn, f"setter of {cls}.{attr} has no known validator shape")
    if len(calls) != 1:
        fail(fn, f"setter of {cls}.{attr} calls {len(calls)} validators")
    call = calls[0]
    if not (call.args and is_name(call.args[0], val)):
        fail(call, "validator is not applied to the assigned value")
    if call.func.id == "validate_field_func":
        want = ("if self._editable_field_func:\n    validate_field_func(val)\nelse:\n    raise AttributeError("
                "'The `field_func` attribute should not be edited for original Magpylib sources.')\n"
                "self._field_func = val")
        if "\n".join(ast.unparse(s) for s in body) != want:
            fail(fn, "field_func setter changed")
        return "VFieldFunc", False
    term, _ = validator_term(call, vec_defaults, sc_defaults)
    # locate the statement holding the call; it must store into self._<attr> (or a local for orientation)
    idx = None
    for i, s in enumerate(body):
        if any(n is call for n in ast.walk(s)):
            idx = i
    s = body[idx]
    if call.func.id == "check_format_input_orientation":
        if not (isinstance(s, ast.Assign) and s.value is call):
            fail(s, "orientation validator statement")
        return term, True
    if not (isinstance(s, ast.Assign) and len(s.targets) == 1 and self_attr(s.targets[0], "_" + attr)
            and s.value is call):
        fail(s, f"{cls}.{attr}: validator result is not stored directly into self._{attr}")
    post = mentions_unguarded(body[idx + 1:], "_" + attr)
    return term, post


def class_info(cd):
    bases = []
    for b in cd.bases:
        if isinstance(b, ast.Name):
            bases.append(b.id)
        elif isinstance(b, ast.Attribute):
            bases.append(b.attr)
        else:
            fail(b, "base class expression")
    ndim = None
    init = None
    for n in cd.body:
        if isinstance(n, ast.Assign) and len(n.targets) == 1 and is_name(n.targets[0], "_field_func_kwargs_ndim"):
            if not isinstance(n.value, ast.Dict):
                fail(n, "_field_func_kwargs_ndim is not a literal dict")
            ndim = []
            for k, v in zip(n.value.keys, n.value.values):
                if not (isinstance(k, ast.Constant) and isinstance(k.value, str) and isinstance(v, ast.Constant)
                        and isinstance(v.value, int) and not isinstance(v.value, bool)):
                    fail(n, "_field_func_kwargs_ndim entry")
                ndim.append((k.value, v.value))
        if isinstance(n, ast.FunctionDef) and n.name == "__init__":
            init = n
    pos, kwonly, sets = [], [], []
    if init is not None:
        a = init.args
        pos = [x.arg for x in a.args][1:]
        kwonly = [x.arg for x in a.kwonlyargs]
        params = set(pos + kwonly)
        for s in init.body:
            if isinstance(s, ast.Assign) and len(s.targets) == 1 and self_attr(s.targets[0]) \
                    and isinstance(s.value, ast.Name) and s.value.id == s.targets[0].attr and s.value.id in params:
                sets.append((s.value.id, False))
            if isinstance(s, ast.If):
                t = s.test
                if isinstance(t, ast.Compare) and len(t.ops) == 1 and isinstance(t.ops[0], ast.IsNot) \
                        and isinstance(t.left, ast.Name) and t.left.id in params \
                        and isinstance(t.comparators[0], ast.Constant) and t.comparators[0].value is None:
                    for q in s.body:
                        if isinstance(q, ast.Assign) and len(q.targets) == 1 and self_attr(q.targets[0], t.left.id) \
                                and is_name(q.value, t.left.id):
                            sets.append((t.left.id, True))
    return bases, ndim, pos, kwonly, sets


def generate(repo):
    ic = ast.parse(open(os.path.join(repo, "magpylib/_src/input_checks.py")).read())
    vec_defaults = defaults(get_fn(ic, "check_format_input_vector"))
    sc_defaults = defaults(get_fn(ic, "check_format_input_scalar"))
    TETRA["cfg"], TETRA["rows"] = parse_tetrahedron(ic, vec_defaults), []
    tetra_setters, mesh_guard = [], [False]
    files = sorted(glob.glob(os.path.join(repo, "magpylib/_src/obj_classes/class_*.py")))
    if len(files) < 10:
        raise Untranslatable("class files not found")
    classes, setters = {}, []
    order = []
    for path in files:
        tree = ast.parse(open(path).read())
        for cd in tree.body:
            if not isinstance(cd, ast.ClassDef):
                continue
            if cd.name in classes:
                raise Untranslatable(f"class {cd.name} defined twice")
            classes[cd.name] = class_info(cd)
            order.append(cd.name)
            for fn in cd.body:
                if not isinstance(fn, ast.FunctionDef):
                    continue
                deco = [d for d in fn.decorator_list if isinstance(d, ast.Attribute) and d.attr == "setter"]
                calls = validator_calls(fn)
                if deco:
                    attr = fn.name
                    if attr in DATA_ATTRS:
                        n0 = len(TETRA["rows"])
                        term, post = setter_row(cd.name, attr, fn, vec_defaults, sc_defaults)
                        setters.append((cd.name, attr, term, post))
                        if len(TETRA["rows"]) > n0:
                            tetra_setters.append((cd.name, attr))
                    elif calls:
                        fail(fn, f"validator call in the setter of an attribute outside the table: {attr}")
                elif fn.name in ("_init_position_orientation", "_input_check"):
                    if fn.name == "_input_check":
                        # `if len(verts) == 0 or len(trias) == 0: raise MagpylibBadUserInput(..)` after both validators
                        for q in fn.body:
                            if isinstance(q, ast.If) and ast.unparse(q.test) == "len(verts) == 0 or len(trias) == 0":
                                if cd.name != "TriangularMesh" or q.orelse or len(q.body) != 1 \
                                        or not is_raise_bad(q.body[0]):
                                    fail(q, "empty-mesh guard")
                                mesh_guard[0] = True
                    for call in calls:
                        if call.func.id == "check_format_input_tetrahedron":
                            fail(call, "tetrahedron validator outside the Tetrahedron.vertices setter")
                        term, sig = validator_term(call, vec_defaults, sc_defaults)
                        if call.func.id == "check_format_input_orientation":
                            attr = "orientation"
                        elif sig is None:
                            fail(call, "constructor check without sig_name")
                        else:
                            attr = sig.split(".")[-1]
                        if attr not in DATA_ATTRS:
                            fail(call, f"constructor check of unknown attribute {attr}")
                        setters.append((cd.name, attr + "@init", term, True))
                elif calls:
                    fail(fn, f"validator call in method {cd.name}.{fn.name}, which is neither a setter nor a "
                             "constructor helper")

    def ancestors(c, seen=()):
        out = []
        for b in classes.get(c, ([],))[0]:
            if b in seen:
                continue
            out.append(b)
            out += ancestors(b, seen + (b,))
        return out

    def eff_ndim(c):
        for k in [c] + ancestors(c):
            if k in classes and classes[k][1] is not None:
                return classes[k][1]
        return None

    registered = [c for c in order if "BaseSource" in ancestors(c) and c not in SOURCE_BASES]
    if len(registered) < 5:
        raise Untranslatable("registered source classes not found")

    out = [HEADER]
    rows = []
    for c in order:
        bases, ndim, pos, kwonly, sets = classes[c]
        nd = "None" if ndim is None else "(Some " + clist([f"({cstr(k)}, {coq_z(v)})" for k, v in ndim]) + ")"
        rows.append(f"  mkClass {cstr(c)} {clist([cstr(b) for b in bases])} {nd}\n"
                    f"    {clist([cstr(p) for p in pos])} {clist([cstr(p) for p in kwonly])} "
                    f"{clist([f'({cstr(a)}, {coq_bool(g)})' for a, g in sets])}")
    out.append("Definition classes : list class_row := [\n" + ";\n".join(rows) + "\n].\n")
    rows = [f"  mkSetter {cstr(c)} {cstr(a)} ({t}) {coq_bool(p)}" for c, a, t, p in setters]
    out.append("Definition setters : list setter_row := [\n" + ";\n".join(rows) + "\n].\n")
    rows = []
    for c in registered:
        nd = eff_ndim(c)
        if nd is None:
            raise Untranslatable(f"registered class {c} has no _field_func_kwargs_ndim")
        rows.append(f"  ({cstr(c)}, {clist([f'({cstr(k)}, {coq_z(v)})' for k, v in nd])})")
    out.append("Definition registered : list (string * list (string * Z)) := [\n" + ";\n".join(rows) + "\n].\n")

    editable = []
    for path in files:
        for cd in ast.parse(open(path).read()).body:
            if isinstance(cd, ast.ClassDef):
                for n in cd.body:
                    if isinstance(n, ast.Assign) and len(n.targets) == 1 and is_name(n.targets[0], "_editable_field_func"):
                        if not (isinstance(n.value, ast.Constant) and isinstance(n.value.value, bool)):
                            fail(n, "_editable_field_func is not a boolean literal")
                        if n.value.value:
                            editable.append(cd.name)
    out.append("(* classes with `_editable_field_func = True`: only there is field_func a settable attribute *)\n"
               f"Definition editable_field_func : list string := {clist([cstr(c) for c in editable])}.\n")
    if tetra_setters not in ([], [("Tetrahedron", "vertices")]):
        raise Untranslatable(f"check_format_input_tetrahedron used by {tetra_setters}")
    out.append("(* Tetrahedron.vertices goes through check_format_input_tetrahedron (vector check + coplanarity guard) *)\n"
               f"Definition tetra_rejects_coplanar : bool := {coq_bool(bool(tetra_setters))}.\n")
    out.append("(* TriangularMesh._input_check rejects empty vertices / faces with MagpylibBadUserInput *)\n"
               f"Definition mesh_rejects_empty : bool := {coq_bool(mesh_guard[0])}.\n")

    # base rank table and default rank of the functional interface
    fw = ast.parse(open(os.path.join(repo, "magpylib/_src/fields/field_wrap_BH.py")).read())
    fn = get_fn(fw, "getBH_dict_level2")
    base, dflt = None, set()
    for n in ast.walk(fn):
        if isinstance(n, ast.Assign) and len(n.targets) == 1 and is_name(n.targets[0], "field_func_kwargs_ndim"):
            if base is not None or not isinstance(n.value, ast.Dict):
                fail(n, "field_func_kwargs_ndim base table")
            base = [(literal(k), literal(v)) for k, v in zip(n.value.keys, n.value.values)]
        if isinstance(n, ast.Call) and isinstance(n.func, ast.Attribute) and n.func.attr == "get" \
                and is_name(n.func.value, "field_func_kwargs_ndim"):
            if len(n.args) != 2 or not is_name(n.args[0], "key"):
                fail(n, "expected_dim lookup")
            dflt.add(literal(n.args[1]))
    if base is None or len(dflt) != 1:
        raise Untranslatable("getBH_dict_level2: base rank table / default rank not found")

    # the pre-computation completeness checks of _getBH_level2 and the list they are given:
    #   sources, src_list = format_src_inputs(sources)   (src_list = sources with collections FLATTENED)
    #   check_dimensions(<name>) ; check_excitations(<name>)
    l2 = get_fn(fw, "_getBH_level2")
    flat = []
    for n in ast.walk(l2):
        if isinstance(n, ast.Assign) and isinstance(n.value, ast.Call) and is_name(n.value.func, "format_src_inputs"):
            t = n.targets[0]
            if not (len(n.targets) == 1 and isinstance(t, ast.Tuple) and len(t.elts) == 2
                    and all(isinstance(x, ast.Name) for x in t.elts) and len(n.value.args) == 1
                    and not n.value.keywords):
                fail(n, "format_src_inputs call")
            flat.append(t.elts[1].id)
    if len(flat) != 1:
        raise Untranslatable("_getBH_level2: expected exactly one `sources, src_list = format_src_inputs(sources)`")
    ccalls = []
    for n in ast.walk(l2):
        if isinstance(n, ast.Call) and isinstance(n.func, ast.Name) \
                and n.func.id in ("check_dimensions", "check_excitations"):
            if len(n.args) != 1 or n.keywords or not isinstance(n.args[0], ast.Name):
                fail(n, "completeness check call")
            ccalls.append((n.lineno, n.func.id, n.args[0].id))
    ccalls.sort()
    out.append("(* _getBH_level2: the name bound to the FLATTENED source list (collections replaced by their sources) and\n"
               "   every call of a completeness check with the name of the list it is given *)\n"
               f"Definition flattened_sources_name : string := {cstr(flat[0])}.\n"
               "Definition completeness_calls : list (string * string) := "
               + clist([f"({cstr(f)}, {cstr(a)})" for _, f, a in ccalls]) + ".\n")
    out.append("Definition dict_base_ndim : list (string * Z) := "
               + clist([f"({cstr(k)}, {coq_z(v)})" for k, v in base]) + ".\n")
    out.append(f"Definition dict_default_ndim : Z := {coq_z(dflt.pop())}.\n")
    return "\n".join(out)
