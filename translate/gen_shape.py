"""GenShape.v: the decision logic of magpylib/_src/input_checks.py translated from the working tree.

Translated functions (fail closed: every statement must match a known pattern, every expression must be
in the supported subset, otherwise Untranslatable is raised and the check treats the tie as broken):

  check_array_shape                    -> res         over (dims, shape_m1, length, shape)
  is_array_like / make_float_array     -> recognised by structure (they decide INotArrayLike / INotFloatable)
  check_format_input_vector            -> vout        over (vcfg, vinput)
  check_format_input_scalar            -> sout        over (allow_None, forbid_negative, sinput)
  check_format_input_vertices          -> vout        (literal inner configuration extracted)
  check_format_input_cylinder_segment  -> vout        (case2..case5 over Q)

Conditions are translated into `cond = option bool` (None = evaluating it raises a foreign exception, e.g.
`inp.shape[-1]` / `len(inp)` on a 0-d array); `return None`/`return inp` = accept, `raise MagpylibBadUserInput`
= Bad/Rejected, any other raise = Crash.
"""
import ast
import os
import re

from .py2coq import Untranslatable, fail, strip_doc

HEADER = """(* GENERATED on every run from /repo/magpylib/_src/input_checks.py by translate/gen_shape.py -- do not edit *)
From Coq Require Import ZArith QArith List Bool String.
From MV Require Import Model.InputTypes.
Import ListNotations.
Open Scope Z_scope.
"""


def clean(txt):
    """text that is safe inside a Coq comment"""
    return re.sub(r"[^A-Za-z0-9_ .,=<>\[\]:+\-|/]", "", txt.replace("(", "[").replace(")", "]"))


def get_fn(tree, name):
    for node in tree.body:
        if isinstance(node, ast.FunctionDef) and node.name == name:
            return node
    raise Untranslatable(f"function {name} not found in input_checks.py")


def argnames(fn):
    a = fn.args
    if a.vararg or a.kwarg or a.kwonlyargs or a.posonlyargs:
        fail(fn, "unexpected parameter kinds")
    return [x.arg for x in a.args]


def defaults(fn):
    a = fn.args
    names = [x.arg for x in a.args]
    d = {}
    for n, v in zip(names[len(names) - len(a.defaults):], a.defaults):
        if not isinstance(v, ast.Constant):
            fail(v, "non-literal default")
        d[n] = v.value
    return d


def is_raise_bad(s):
    """raise MagpylibBadUserInput(...) [from err]"""
    return (isinstance(s, ast.Raise) and isinstance(s.exc, ast.Call) and isinstance(s.exc.func, ast.Name)
            and s.exc.func.id == "MagpylibBadUserInput")


def is_name(e, n):
    return isinstance(e, ast.Name) and e.id == n


def is_none_const(e):
    return isinstance(e, ast.Constant) and e.value is None


def is_text(e):
    """a message: string constant / f-string / concatenation thereof (never influences control flow)"""
    if isinstance(e, ast.Constant) and isinstance(e.value, str):
        return True
    if isinstance(e, ast.JoinedStr):
        return True
    if isinstance(e, ast.BinOp) and isinstance(e.op, ast.Add):
        return is_text(e.left) and is_text(e.right)
    return False


# ---------------------------------------------------------------- check_array_shape
class ShapeFn:
    """if/elif/else, `return None`, raise; conditions over inp.ndim, inp.shape[-1], len(inp), dims, shape_m1, length"""

    def cond(self, e):
        if isinstance(e, ast.Compare) and len(e.ops) == 1:
            op, l, r = e.ops[0], e.left, e.comparators[0]
            # inp.ndim in dims
            if isinstance(op, ast.In) and isinstance(l, ast.Attribute) and is_name(l.value, "inp") \
                    and l.attr == "ndim" and is_name(r, "dims"):
                return "Some (zmem (ndim inp) dims)"
            # length is None
            if isinstance(op, ast.Is) and is_name(l, "length") and is_none_const(r):
                return "Some (is_none length)"
            if isinstance(op, ast.IsNot) and is_name(l, "length") and is_none_const(r):
                return "Some (negb (is_none length))"
            # inp.shape[-1] == shape_m1
            if isinstance(op, ast.Eq) and self.is_shape_idx(l, -1) and is_name(r, "shape_m1"):
                return "cmap (fun x => eq_m1 x shape_m1) (shape_last inp)"
            # shape_m1 == "any"
            if isinstance(op, ast.Eq) and is_name(l, "shape_m1") and isinstance(r, ast.Constant) and r.value == "any":
                return "Some (is_any shape_m1)"
            # len(inp) == length
            if isinstance(op, ast.Eq) and isinstance(l, ast.Call) and is_name(l.func, "len") and len(l.args) == 1 \
                    and is_name(l.args[0], "inp") and not l.keywords and is_name(r, "length"):
                return "cmap (fun x => eq_len x length) (py_len inp)"
        if isinstance(e, ast.BoolOp):
            parts = [self.cond(v) for v in e.values]
            comb = "cand" if isinstance(e.op, ast.And) else "cor"
            out = parts[-1]
            for p in reversed(parts[:-1]):
                out = f"({comb} ({p}) (fun _ => {out}))"
            return out
        if isinstance(e, ast.UnaryOp) and isinstance(e.op, ast.Not):
            return f"(cmap negb ({self.cond(e.operand)}))"
        fail(e, "check_array_shape condition")

    @staticmethod
    def is_shape_idx(e, idx):
        if not (isinstance(e, ast.Subscript) and isinstance(e.value, ast.Attribute) and is_name(e.value.value, "inp")
                and e.value.attr == "shape"):
            return False
        s = e.slice
        if isinstance(s, ast.UnaryOp) and isinstance(s.op, ast.USub) and isinstance(s.operand, ast.Constant):
            return -s.operand.value == idx
        return isinstance(s, ast.Constant) and s.value == idx

    def block(self, stmts, tail):
        if not stmts:
            if tail is None:
                return "Ok"      # falling off the end returns None
            return tail()
        s, rest = stmts[0], stmts[1:]
        if isinstance(s, ast.Return):
            if s.value is None or is_none_const(s.value):
                return "Ok"
            fail(s, "return value")
        if isinstance(s, ast.Raise):
            return "Bad" if is_raise_bad(s) else "Crash"
        if isinstance(s, ast.Pass):
            return self.block(rest, tail)
        if isinstance(s, ast.If):
            cont = lambda: self.block(rest, tail)
            a = self.block(s.body, cont)
            b = self.block(s.orelse, cont)
            return (f"match {self.cond(s.test)} with\n| None => Crash\n| Some true =>\n{a}\n"
                    f"| Some false =>\n{b}\nend")
        fail(s, "check_array_shape statement")


def gen_check_array_shape(tree):
    fn = get_fn(tree, "check_array_shape")
    if argnames(fn) != ["inp", "dims", "shape_m1", "length", "msg"]:
        raise Untranslatable(f"check_array_shape signature changed: {argnames(fn)}")
    if defaults(fn) != {"length": None, "msg": ""}:
        raise Untranslatable(f"check_array_shape defaults changed: {defaults(fn)}")
    body = ShapeFn().block(strip_doc(fn.body), None)
    return ("Definition cand (a : cond) (b : unit -> cond) : cond :=\n"
            "  match a with None => None | Some false => Some false | Some true => b tt end.\n"
            "Definition cor (a : cond) (b : unit -> cond) : cond :=\n"
            "  match a with None => None | Some true => Some true | Some false => b tt end.\n\n"
            "Definition check_array_shape (dims : list Z) (shape_m1 : option Z) (length : option Z) (inp : shape)"
            " : res :=\n" + body + ".\n")


# ---------------------------------------------------------------- helpers recognised by structure
def require_is_array_like(tree):
    fn = get_fn(tree, "is_array_like")
    body = strip_doc(fn.body)
    ok = (argnames(fn) == ["inp", "msg"] and len(body) == 1 and isinstance(body[0], ast.If)
          and not body[0].orelse and len(body[0].body) == 1 and is_raise_bad(body[0].body[0]))
    if ok:
        t = body[0].test
        ok = (isinstance(t, ast.UnaryOp) and isinstance(t.op, ast.Not) and isinstance(t.operand, ast.Call)
              and is_name(t.operand.func, "isinstance") and len(t.operand.args) == 2
              and is_name(t.operand.args[0], "inp") and isinstance(t.operand.args[1], ast.Tuple)
              and sorted(ast.unparse(x) for x in t.operand.args[1].elts) == ["list", "np.ndarray", "tuple"])
    if not ok:
        raise Untranslatable("is_array_like no longer is `if not isinstance(inp, (list, tuple, np.ndarray)): raise "
                             "MagpylibBadUserInput(msg)`")


def require_make_float_array(tree):
    fn = get_fn(tree, "make_float_array")
    body = strip_doc(fn.body)
    ok = argnames(fn) == ["inp", "msg"] and len(body) == 2 and isinstance(body[0], ast.Try) \
        and isinstance(body[1], ast.Return) and is_name(body[1].value, "inp_array")
    if ok:
        t = body[0]
        ok = (len(t.body) == 1 and ast.unparse(t.body[0]) == "inp_array = np.array(inp, dtype=float)"
              and len(t.handlers) == 1 and is_name(t.handlers[0].type, "Exception")
              and len(t.handlers[0].body) == 1 and is_raise_bad(t.handlers[0].body[0])
              and not t.orelse and not t.finalbody)
    if not ok:
        raise Untranslatable("make_float_array no longer is try: np.array(inp, dtype=float) except Exception: raise "
                             "MagpylibBadUserInput")


def match_none_step(s, flag):
    """if <flag>:\n if inp is None:\n return None"""
    if not (isinstance(s, ast.If) and is_name(s.test, flag) and not s.orelse and len(s.body) == 1):
        return False
    i = s.body[0]
    return (isinstance(i, ast.If) and not i.orelse and len(i.body) == 1 and isinstance(i.test, ast.Compare)
            and len(i.test.ops) == 1 and isinstance(i.test.ops[0], ast.Is) and is_name(i.test.left, "inp")
            and is_none_const(i.test.comparators[0]) and isinstance(i.body[0], ast.Return)
            and is_none_const(i.body[0].value))


def literal(e):
    """int / bool / None / str / tuple of ints / range(a,b) literals of a validator call"""
    if isinstance(e, ast.Constant):
        return e.value
    if isinstance(e, ast.UnaryOp) and isinstance(e.op, ast.USub) and isinstance(e.operand, ast.Constant):
        return -e.operand.value
    if isinstance(e, ast.Tuple):
        return tuple(literal(x) for x in e.elts)
    if isinstance(e, ast.Call) and is_name(e.func, "range") and not e.keywords and 1 <= len(e.args) <= 2:
        return tuple(range(*[literal(x) for x in e.args]))
    if is_text(e):
        return "<text>"
    fail(e, "non-literal validator argument")


VECTOR_KW = {"dims", "shape_m1", "sig_name", "sig_type", "length", "reshape", "allow_None", "forbid_negative0"}


def vcfg_from_call(call, vec_defaults):
    """literal keyword arguments of a check_format_input_vector call -> Coq vcfg term"""
    if len(call.args) != 1:
        fail(call, "check_format_input_vector must get exactly one positional argument")
    kw = {}
    for k in call.keywords:
        if k.arg not in VECTOR_KW:
            fail(call, f"unknown keyword {k.arg}")
        kw[k.arg] = literal(k.value)
    for req in ("dims", "shape_m1"):
        if req not in kw:
            fail(call, f"missing keyword {req}")
    cfg = dict(vec_defaults)
    cfg.update(kw)
    return coq_vcfg(cfg)


def coq_z(n):
    if not isinstance(n, int) or isinstance(n, bool):
        raise Untranslatable(f"integer expected, got {n!r}")
    return f"({n})" if n < 0 else str(n)


def coq_bool(b):
    if not isinstance(b, bool):
        raise Untranslatable(f"bool expected, got {b!r}")
    return "true" if b else "false"


def coq_vcfg(cfg):
    dims = cfg["dims"]
    if not (isinstance(dims, tuple) and all(isinstance(d, int) for d in dims)):
        raise Untranslatable(f"dims literal {dims!r}")
    m1 = cfg["shape_m1"]
    m1c = "None" if m1 == "any" else f"(Some {coq_z(m1)})"
    ln = cfg["length"]
    lnc = "None" if ln is None else f"(Some {coq_z(ln)})"
    rs = cfg["reshape"]
    if rs is False:
        rsc = "false"
    elif rs == (-1, 3):
        rsc = "true"
    else:
        raise Untranslatable(f"reshape literal {rs!r} (only False / (-1, 3) are modelled)")
    return ("(mkVcfg [" + "; ".join(coq_z(d) for d in dims) + f"] {m1c} {lnc} {coq_bool(cfg['allow_None'])} "
            f"{coq_bool(cfg['forbid_negative0'])} {rsc})")


# ---------------------------------------------------------------- check_format_input_vector
def gen_vector(tree):
    fn = get_fn(tree, "check_format_input_vector")
    names = argnames(fn)
    if names != ["inp", "dims", "shape_m1", "sig_name", "sig_type", "length", "reshape", "allow_None",
                 "forbid_negative0"]:
        raise Untranslatable(f"check_format_input_vector signature changed: {names}")
    dfl = defaults(fn)
    if dfl != {"length": None, "reshape": False, "allow_None": False, "forbid_negative0": False}:
        raise Untranslatable(f"check_format_input_vector defaults changed: {dfl}")
    out = []          # list of (comment, open-text) ; closed by nesting
    reshape_guard = [False]
    state = "raw"     # raw -> arraylike -> float -> checked
    closers = 0
    lines = []
    stmts = strip_doc(fn.body)
    done = False
    for s in stmts:
        src = clean(ast.unparse(s).split("\n")[0][:90])
        if done:
            fail(s, "statement after final return")
        if match_none_step(s, "allow_None"):
            if state != "raw":
                fail(s, "None test after conversion")
            lines.append(f"(* {src} *)\nif v_allow_None c && match inp with INone => true | _ => false end "
                         "then Stored None else")
        elif isinstance(s, ast.Expr) and isinstance(s.value, ast.Call) and is_name(s.value.func, "is_array_like") \
                and len(s.value.args) == 2 and is_name(s.value.args[0], "inp") and is_text(s.value.args[1]):
            if state != "raw":
                fail(s, "is_array_like order")
            state = "arraylike"
            lines.append(f"(* {src} *)\nmatch inp with INone | INotArrayLike => Rejected | _ =>")
            closers += 1
        elif isinstance(s, ast.Assign) and len(s.targets) == 1 and is_name(s.targets[0], "inp") \
                and isinstance(s.value, ast.Call) and is_name(s.value.func, "make_float_array") \
                and len(s.value.args) == 2 and is_name(s.value.args[0], "inp") and is_text(s.value.args[1]):
            if state != "arraylike":
                fail(s, "make_float_array before is_array_like")
            state = "float"
            lines.append(f"(* {src} *)\nmatch inp with INone | INotArrayLike | INotFloatable => Rejected "
                         "| IArray s vals =>")
            closers += 1
        elif isinstance(s, ast.Expr) and isinstance(s.value, ast.Call) and is_name(s.value.func, "check_array_shape"):
            c = s.value
            if state != "float":
                fail(s, "check_array_shape before conversion")
            if not (len(c.args) == 1 and is_name(c.args[0], "inp")):
                fail(s, "check_array_shape positional args")
            kws = {k.arg: k.value for k in c.keywords}
            if set(kws) != {"dims", "shape_m1", "length", "msg"} or not all(
                    is_name(kws[k], k) for k in ("dims", "shape_m1", "length")) or not is_text(kws["msg"]):
                fail(s, "check_array_shape keywords are not passed through by name")
            state = "checked"
            lines.append(f"(* {src} *)\nmatch check_array_shape (v_dims c) (v_shape_m1 c) (v_length c) s with\n"
                         "| Bad => Rejected | Crash => Crashed | Ok =>")
            closers += 1
        elif isinstance(s, ast.If) and ast.unparse(s.test) == "isinstance(reshape, tuple)" and not s.orelse \
                and ast.unparse(s.body[-1]) == "return np.reshape(inp, reshape)" and len(s.body) in (1, 2):
            if state != "checked":
                fail(s, "reshape before shape check")
            if len(s.body) == 2:
                g = s.body[0]       # if inp.size == 0: raise MagpylibBadUserInput(...)
                if not (isinstance(g, ast.If) and ast.unparse(g.test) == "inp.size == 0" and not g.orelse
                        and len(g.body) == 1 and is_raise_bad(g.body[0])):
                    fail(g, "guard in the reshape branch")
                reshape_guard[0] = True
            lines.append(f"(* {src} *)\nif v_reshape c then (if reshape_rejects_empty && (size s =? 0) then Rejected "
                         "else reshape_rows3 s vals) else")
        elif isinstance(s, ast.If) and is_name(s.test, "forbid_negative0") and not s.orelse and len(s.body) == 1 \
                and isinstance(s.body[0], ast.If) and not s.body[0].orelse and len(s.body[0].body) == 1 \
                and is_raise_bad(s.body[0].body[0]):
            if state != "checked":
                fail(s, "value check before shape check")
            t = ast.unparse(s.body[0].test)
            ops = {"np.any(inp <= 0)": "Qleb x (qz 0)", "np.any(inp < 0)": "Qltb x (qz 0)"}
            if t not in ops:
                fail(s, "forbid_negative0 condition")
            lines.append(f"(* {src}: {t} *)\nif v_forbid_negative0 c && existsb (fun x => {ops[t]}) vals "
                         "then Rejected else")
        elif isinstance(s, ast.Return) and is_name(s.value, "inp"):
            if state != "checked":
                fail(s, "return before shape check")
            lines.append("Stored (Some (s, vals))")
            done = True
        else:
            fail(s, "check_format_input_vector statement")
    if not done:
        raise Untranslatable("check_format_input_vector does not end in `return inp`")
    body = "\n".join(lines) + "\n" + " end" * closers
    pre = ("(* `if inp.size == 0: raise MagpylibBadUserInput` in front of the reshape (an empty path is rejected) *)\n"
           f"Definition reshape_rejects_empty : bool := {coq_bool(reshape_guard[0])}.\n\n"
           "(* np.reshape(inp, (-1, 3)) *)\n"
           "Definition reshape_rows3 (s : shape) (vals : list Q) : vout :=\n"
           "  if (size s) mod 3 =? 0 then Stored (Some ([size s / 3; 3], vals)) else Crashed.\n\n")
    return pre + "Definition check_format_input_vector (c : vcfg) (inp : vinput) : vout :=\n" + body + ".\n", dfl


# ---------------------------------------------------------------- check_format_input_scalar
def gen_scalar(tree):
    fn = get_fn(tree, "check_format_input_scalar")
    if argnames(fn) != ["inp", "sig_name", "sig_type", "allow_None", "forbid_negative"]:
        raise Untranslatable(f"check_format_input_scalar signature changed: {argnames(fn)}")
    if defaults(fn) != {"allow_None": False, "forbid_negative": False}:
        raise Untranslatable(f"check_format_input_scalar defaults changed: {defaults(fn)}")
    lines, closers, state, done = [], 0, "raw", False
    for s in strip_doc(fn.body):
        src = clean(ast.unparse(s).split("\n")[0][:90])
        if done:
            fail(s, "statement after final return")
        if match_none_step(s, "allow_None"):
            if state != "raw":
                fail(s, "None test order")
            lines.append(f"(* {src} *)\nif allow_None && match inp with SNone => true | _ => false end "
                         "then SStored None else")
        elif isinstance(s, ast.Assign) and len(s.targets) == 1 and isinstance(s.targets[0], ast.Name) \
                and s.targets[0].id != "inp" and is_text(s.value):
            continue    # message text
        elif isinstance(s, ast.If) and ast.unparse(s.test) in ("not isinstance(inp, numbers.Number)",
                                                                "not isinstance(inp, numbers.Real)") \
                and not s.orelse and len(s.body) == 1 and is_raise_bad(s.body[0]):
            if state != "raw":
                fail(s, "type test order")
            state = "number"
            # complex is a numbers.Number but not a numbers.Real
            rej = "SNone | SNotNumber" + (" | SComplex" if "numbers.Real" in ast.unparse(s.test) else "")
            lines.append(f"(* {src} *)\nmatch inp with {rej} => SRejected | _ =>")
            closers += 1
        elif ast.unparse(s) == "inp = float(inp)":
            if state != "number":
                fail(s, "float() before the numbers.Number test")
            state = "float"
            lines.append(f"(* {src} *)\nmatch inp with SNone | SNotNumber | SComplex => SCrashed | SReal q =>")
            closers += 1
        elif isinstance(s, ast.If) and is_name(s.test, "forbid_negative") and not s.orelse and len(s.body) == 1 \
                and isinstance(s.body[0], ast.If) and not s.body[0].orelse and len(s.body[0].body) == 1 \
                and is_raise_bad(s.body[0].body[0]):
            if state != "float":
                fail(s, "sign test before float()")
            t = ast.unparse(s.body[0].test)
            ops = {"inp < 0": "Qltb q (qz 0)", "inp <= 0": "Qleb q (qz 0)"}
            if t not in ops:
                fail(s, "forbid_negative condition")
            lines.append(f"(* {src}: {t} *)\nif forbid_negative && {ops[t]} then SRejected else")
        elif isinstance(s, ast.Return) and is_name(s.value, "inp"):
            if state != "float":
                fail(s, "return before float()")
            lines.append("SStored (Some q)")
            done = True
        else:
            fail(s, "check_format_input_scalar statement")
    if not done:
        raise Untranslatable("check_format_input_scalar does not end in `return inp`")
    return ("Definition check_format_input_scalar (allow_None forbid_negative : bool) (inp : sinput) : sout :=\n"
            + "\n".join(lines) + "\n" + " end" * closers + ".\n")


# ---------------------------------------------------------------- expressions over Q (geometry guards)
class QExpr:
    def __init__(self, qnames):
        self.q = set(qnames)
        self.b = set()

    def num(self, e):
        if isinstance(e, ast.Constant) and isinstance(e.value, int) and not isinstance(e.value, bool):
            return f"(qz {coq_z(e.value)})"
        if isinstance(e, ast.Name) and e.id in self.q:
            return e.id
        if isinstance(e, ast.BinOp) and type(e.op) in (ast.Sub, ast.Add, ast.Mult):
            op = {ast.Sub: "Qminus", ast.Add: "Qplus", ast.Mult: "Qmult"}[type(e.op)]
            return f"({op} {self.num(e.left)} {self.num(e.right)})"
        if isinstance(e, ast.UnaryOp) and isinstance(e.op, ast.USub):
            return f"(Qopp {self.num(e.operand)})"
        fail(e, "numeric expression")

    def boolean(self, e):
        if isinstance(e, ast.Name) and e.id in self.b:
            return e.id
        if isinstance(e, ast.Compare) and len(e.ops) == 1:
            ops = {ast.Gt: "Qgtb", ast.Lt: "Qltb", ast.GtE: "Qgeb", ast.LtE: "Qleb"}
            if type(e.ops[0]) not in ops:
                fail(e, "comparison operator")
            return f"({ops[type(e.ops[0])]} {self.num(e.left)} {self.num(e.comparators[0])})"
        if isinstance(e, ast.BinOp) and isinstance(e.op, (ast.BitOr, ast.BitAnd)):
            op = "||" if isinstance(e.op, ast.BitOr) else "&&"
            return f"({self.boolean(e.left)} {op} {self.boolean(e.right)})"
        if isinstance(e, ast.BoolOp):
            op = "||" if isinstance(e.op, ast.Or) else "&&"
            return "(" + f" {op} ".join(self.boolean(v) for v in e.values) + ")"
        if isinstance(e, ast.UnaryOp) and isinstance(e.op, (ast.Not, ast.Invert)):
            return f"(negb {self.boolean(e.operand)})"
        fail(e, "boolean expression")


def inner_vector_call(s, fname):
    """inp = check_format_input_vector(inp, <literal kwargs>)"""
    if not (isinstance(s, ast.Assign) and len(s.targets) == 1 and is_name(s.targets[0], "inp")
            and isinstance(s.value, ast.Call) and is_name(s.value.func, "check_format_input_vector")
            and len(s.value.args) == 1 and is_name(s.value.args[0], "inp")):
        fail(s, f"{fname}: first statement must be inp = check_format_input_vector(inp, ...)")
    return s.value


def gen_vertices(tree, vec_defaults):
    fn = get_fn(tree, "check_format_input_vertices")
    if argnames(fn) != ["inp"]:
        raise Untranslatable("check_format_input_vertices signature changed")
    body = strip_doc(fn.body)
    if len(body) != 3:
        raise Untranslatable("check_format_input_vertices: expected 3 statements")
    cfg = vcfg_from_call(inner_vector_call(body[0], "vertices"), vec_defaults)
    s = body[1]
    ok = (isinstance(s, ast.If) and ast.unparse(s.test) == "inp is not None" and not s.orelse and len(s.body) == 1
          and isinstance(s.body[0], ast.If) and not s.body[0].orelse and len(s.body[0].body) == 1
          and is_raise_bad(s.body[0].body[0]))
    if not ok:
        fail(s, "vertices count guard")
    t = s.body[0].test
    if not (isinstance(t, ast.Compare) and len(t.ops) == 1 and ShapeFn.is_shape_idx(t.left, 0)
            and isinstance(t.comparators[0], ast.Constant) and isinstance(t.comparators[0].value, int)):
        fail(t, "vertices count condition")
    ops = {ast.Lt: "<?", ast.LtE: "<=?", ast.Gt: ">?", ast.GtE: ">=?", ast.Eq: "=?"}
    if type(t.ops[0]) not in ops:
        fail(t, "vertices count operator")
    test = f"(n {ops[type(t.ops[0])]} {coq_z(t.comparators[0].value)})"
    if not (isinstance(body[2], ast.Return) and is_name(body[2].value, "inp")):
        fail(body[2], "vertices return")
    return (f"Definition vertices_cfg : vcfg := {cfg}.\n\n"
            "Definition check_format_input_vertices (inp : vinput) : vout :=\n"
            "match check_format_input_vector vertices_cfg inp with\n"
            f"| Stored (Some (s, vals)) =>\n  (* {clean(ast.unparse(t))} *)\n"
            "  match shape_first s with None => Crashed\n"
            f"  | Some n => if {test} then Rejected else Stored (Some (s, vals)) end\n"
            "| r => r end.\n")


def gen_cylseg(tree, vec_defaults):
    fn = get_fn(tree, "check_format_input_cylinder_segment")
    if argnames(fn) != ["inp"]:
        raise Untranslatable("check_format_input_cylinder_segment signature changed")
    body = strip_doc(fn.body)
    cfg = vcfg_from_call(inner_vector_call(body[0], "cylinder_segment"), vec_defaults)
    if ast.unparse(body[1]) != "if inp is None:\n    return None":
        fail(body[1], "cylinder_segment None step")
    s = body[2]
    if not (isinstance(s, ast.Assign) and len(s.targets) == 1 and isinstance(s.targets[0], ast.Tuple)
            and all(isinstance(x, ast.Name) for x in s.targets[0].elts) and is_name(s.value, "inp")):
        fail(s, "cylinder_segment unpacking")
    names = [x.id for x in s.targets[0].elts]
    qe = QExpr(names)
    lines = []
    i = 3
    while i < len(body) and isinstance(body[i], ast.Assign):
        a = body[i]
        if not (len(a.targets) == 1 and isinstance(a.targets[0], ast.Name)):
            fail(a, "cylinder_segment assignment")
        lines.append(f"  let {a.targets[0].id} := {qe.boolean(a.value)} in   (* {clean(ast.unparse(a))} *)")
        qe.b.add(a.targets[0].id)
        i += 1
    if len(body) != i + 2:
        raise Untranslatable("check_format_input_cylinder_segment: unexpected trailing statements")
    g, r = body[i], body[i + 1]
    if not (isinstance(g, ast.If) and not g.orelse and len(g.body) == 1 and is_raise_bad(g.body[0])):
        fail(g, "cylinder_segment guard")
    if not (isinstance(r, ast.Return) and is_name(r.value, "inp")):
        fail(r, "cylinder_segment return")
    pat = "[" + "; ".join(names) + "]"
    return (f"Definition cylseg_cfg : vcfg := {cfg}.\n\n"
            f"(* the comparison logic on the unpacked entries {', '.join(names)} *)\n"
            f"Definition cylseg_bad ({' '.join(names)} : Q) : bool :=\n" + "\n".join(lines) + "\n"
            f"  {qe.boolean(g.test)}.   (* {clean(ast.unparse(g.test))} *)\n\n"
            "Definition check_format_input_cylinder_segment (inp : vinput) : vout :=\n"
            "match check_format_input_vector cylseg_cfg inp with\n"
            "| Stored (Some (s, vals)) =>\n"
            f"  match vals with\n  | {pat} => if cylseg_bad {' '.join(names)} then Rejected else "
            "Stored (Some (s, vals))\n"
            "  | _ => Crashed   (* tuple unpacking fails *)\n  end\n"
            "| r => r end.\n")


def parse_tetrahedron(tree, vec_defaults):
    """check_format_input_tetrahedron, if the file defines it: the literal inner vector configuration followed by
    `if inp is not None: if np.linalg.matrix_rank(inp[1:] - inp[0]) < 3: raise MagpylibBadUserInput` ; return inp.
    Returns the Coq vcfg term, or None when the function does not exist."""
    fns = [n for n in tree.body if isinstance(n, ast.FunctionDef) and n.name == "check_format_input_tetrahedron"]
    if not fns:
        return None
    fn = fns[0]
    if argnames(fn) != ["inp"]:
        raise Untranslatable("check_format_input_tetrahedron signature")
    body = strip_doc(fn.body)
    if len(body) != 3:
        raise Untranslatable("check_format_input_tetrahedron: expected 3 statements")
    cfg = vcfg_from_call(inner_vector_call(body[0], "tetrahedron"), vec_defaults)
    s = body[1]
    ok = (isinstance(s, ast.If) and ast.unparse(s.test) == "inp is not None" and not s.orelse and len(s.body) == 1
          and isinstance(s.body[0], ast.If) and not s.body[0].orelse and len(s.body[0].body) == 1
          and is_raise_bad(s.body[0].body[0])
          and ast.unparse(s.body[0].test) == "np.linalg.matrix_rank(inp[1:] - inp[0]) < 3")
    if not ok:
        fail(s, "tetrahedron coplanarity guard")
    if not (isinstance(body[2], ast.Return) and is_name(body[2].value, "inp")):
        fail(body[2], "tetrahedron return")
    return cfg


def gen_orientation(tree):
    """check_format_input_orientation: pinned statement by statement; scipy's as_quat / np.reshape are modelled
    (a single rotation has one quaternion, a stack of n has n).  Two forms of the else-branch are known: with and
    without the guard `if inpQ.size == 0: raise MagpylibBadUserInput` (exported as orientation_rejects_empty)."""
    fn = get_fn(tree, "check_format_input_orientation")
    if argnames(fn) != ["inp", "init_format"] or defaults(fn) != {"init_format": False}:
        raise Untranslatable("check_format_input_orientation signature")
    body = strip_doc(fn.body)
    if len(body) != 4:
        raise Untranslatable("check_format_input_orientation: expected 4 statements")
    g = body[0]
    if not (ast.unparse(g).startswith("if not isinstance(inp, (Rotation, type(None))):") and isinstance(g, ast.If)
            and not g.orelse and len(g.body) == 1 and is_raise_bad(g.body[0])):
        fail(g, "orientation type test")
    n = body[1]
    if not (isinstance(n, ast.If) and ast.unparse(n.test) == "inp is None"
            and [ast.unparse(x) for x in n.body] == ["inpQ = np.array((0, 0, 0, 1))", "inp = Rotation.from_quat(inpQ)"]
            and n.orelse and ast.unparse(n.orelse[0]) == "inpQ = inp.as_quat()" and len(n.orelse) in (1, 2)):
        fail(n, "orientation None / as_quat step")
    guard = False
    if len(n.orelse) == 2:
        q = n.orelse[1]
        if not (isinstance(q, ast.If) and ast.unparse(q.test) == "inpQ.size == 0" and not q.orelse
                and len(q.body) == 1 and is_raise_bad(q.body[0])):
            fail(q, "orientation empty-rotation guard")
        guard = True
    for st, w in zip(body[2:], ["if init_format:\n    return np.reshape(inpQ, (-1, 4))", "return (inp, inpQ)"]):
        if ast.unparse(st) != w:
            fail(st, "check_format_input_orientation statement")
    return ("(* `if inpQ.size == 0: raise MagpylibBadUserInput` after inp.as_quat(): an empty Rotation is rejected *)\n"
            f"Definition orientation_rejects_empty : bool := {coq_bool(guard)}.\n\n"
            "(* check_format_input_orientation(inp, init_format=True): the number of quaternions that are stored *)\n"
            "Definition check_format_input_orientation (inp : oinput) : oout :=\n"
            "  match inp with\n"
            "  | ONotRotation => ORejected       (* not isinstance(inp, (Rotation, type(None))) *)\n"
            "  | ONone => OStored 1              (* inpQ = np.array((0, 0, 0, 1)) ; reshape (-1, 4) *)\n"
            "  | ORot single n =>                (* inp.as_quat() ; [inpQ.size == 0 -> raise] ; reshape (-1, 4) *)\n"
            "      if single then OStored 1\n"
            "      else if orientation_rejects_empty && (n =? 0) then ORejected else OStored n\n"
            "  end.\n")


def gen_field_func(tree):
    """validate_field_func: None / callable / argument names / per probed field: None or ndarray of the probe shape"""
    fn = get_fn(tree, "validate_field_func")
    if argnames(fn) != ["val"]:
        raise Untranslatable("validate_field_func signature")
    body = strip_doc(fn.body)
    if len(body) != 6:
        raise Untranslatable("validate_field_func: expected 6 statements")
    if ast.unparse(body[0]) != "if val is None:\n    return None":
        fail(body[0], "validate_field_func None step")
    g = body[1]
    if not (isinstance(g, ast.If) and ast.unparse(g.test) == "not callable(val)" and not g.orelse
            and len(g.body) == 1 and is_raise_bad(g.body[0])):
        fail(g, "validate_field_func callable test")
    if ast.unparse(body[2]) != "fn_args = inspect.getfullargspec(val).args":
        fail(body[2], "validate_field_func argspec")
    g = body[3]
    if not (isinstance(g, ast.If) and ast.unparse(g.test) == "fn_args[:2] != ['field', 'observers']" and not g.orelse
            and len(g.body) == 1 and is_raise_bad(g.body[0])):
        fail(g, "validate_field_func argument-name test")
    loop = body[4]
    if not (isinstance(loop, ast.For) and is_name(loop.target, "field") and isinstance(loop.iter, ast.List)
            and all(isinstance(x, ast.Constant) and isinstance(x.value, str) for x in loop.iter.elts)
            and not loop.orelse and len(loop.body) == 2):
        fail(loop, "validate_field_func loop")
    fields = [x.value for x in loop.iter.elts]
    call = loop.body[0]
    if not (isinstance(call, ast.Assign) and len(call.targets) == 1 and is_name(call.targets[0], "out")
            and isinstance(call.value, ast.Call) and is_name(call.value.func, "val") and len(call.value.args) == 2
            and not call.value.keywords and is_name(call.value.args[0], "field")
            and ast.unparse(call.value.args[1]).startswith("np.array(")):
        fail(call, "validate_field_func probe call")
    probe = call.value.args[1]
    if len(probe.args) != 1 or probe.keywords:
        fail(probe, "probe observers")
    rows = ast.literal_eval(probe.args[0])
    pshape = (len(rows), len(rows[0]))
    if any(len(r) != pshape[1] for r in rows):
        fail(probe, "ragged probe observers")
    chk = loop.body[1]
    if not (isinstance(chk, ast.If) and ast.unparse(chk.test) == "out is not None" and not chk.orelse
            and len(chk.body) == 2):
        fail(chk, "validate_field_func output test")
    c1, c2 = chk.body
    if not (isinstance(c1, ast.If) and ast.unparse(c1.test) == "not isinstance(out, np.ndarray)" and not c1.orelse
            and len(c1.body) == 1 and is_raise_bad(c1.body[0])):
        fail(c1, "validate_field_func ndarray test")
    if not (isinstance(c2, ast.If) and isinstance(c2.test, ast.Compare) and len(c2.test.ops) == 1
            and isinstance(c2.test.ops[0], ast.NotEq) and ast.unparse(c2.test.left) == "out.shape"
            and not c2.orelse and len(c2.body) == 1 and is_raise_bad(c2.body[0])):
        fail(c2, "validate_field_func shape test")
    want = literal(c2.test.comparators[0])
    if not (isinstance(want, tuple) and all(isinstance(x, int) for x in want)):
        fail(c2, "expected output shape")
    if not (isinstance(body[5], ast.Return) and is_none_const(body[5].value)):
        fail(body[5], "validate_field_func return")
    fl = "[" + "; ".join('"%s"' % f for f in fields) + "]"
    return (f"(* for field in {clean(str(fields))}: out = val[field, observers of shape {pshape}] *)\n"
            f"Definition field_func_fields : list string := {fl}%string.\n"
            f"Definition field_func_probe_shape : shape := [{'; '.join(coq_z(x) for x in pshape)}].\n"
            "Definition validate_out (o : fout) : res :=\n"
            "  match o with\n"
            "  | FoRaises => Crash                 (* the user's function raises: propagates *)\n"
            "  | FoNone => Ok                      (* if out is not None: *)\n"
            "  | FoNotArray => Bad                 (* if not isinstance[out, np.ndarray]: raise *)\n"
            f"  | FoArray s => if shape_eqb s [{'; '.join(coq_z(x) for x in want)}] then Ok else Bad"
            f"   (* if out.shape != {clean(str(want))}: raise *)\n"
            "  end.\n"
            "Fixpoint validate_outs (l : list fout) : res :=\n"
            "  match l with [] => Ok | o :: r => match validate_out o with Ok => validate_outs r | x => x end end.\n"
            "Definition validate_field_func (v : finput) : res :=\n"
            "  match v with\n"
            "  | FNone => Ok                       (* if val is None: return None *)\n"
            "  | FNotCallable => Bad               (* if not callable[val]: raise *)\n"
            "  | FCallable args_ok outs =>\n"
            "      if negb args_ok then Bad        (* fn_args[:2] != [field, observers] *)\n"
            "      else validate_outs (firstn (List.length field_func_fields) outs)\n"
            "  end.\n")


def gen_completeness(tree):
    """check_dimensions / check_excitations: for src in sources: for arg in (<names>): if hasattr(src, arg):
    if getattr(src, arg) is None: raise MagpylibMissingInput ; break"""
    out = []
    for fname, dname in (("check_dimensions", "dimension_args"), ("check_excitations", "excitation_args")):
        fn = get_fn(tree, fname)
        if argnames(fn) != ["sources"]:
            raise Untranslatable(f"{fname} signature")
        body = strip_doc(fn.body)
        ok = len(body) == 1 and isinstance(body[0], ast.For) and is_name(body[0].target, "src") \
            and is_name(body[0].iter, "sources") and not body[0].orelse and len(body[0].body) == 1
        inner = body[0].body[0] if ok else None
        ok = ok and isinstance(inner, ast.For) and is_name(inner.target, "arg") and isinstance(inner.iter, ast.Tuple) \
            and all(isinstance(x, ast.Constant) and isinstance(x.value, str) for x in inner.iter.elts) \
            and not inner.orelse and len(inner.body) == 1
        test = inner.body[0] if ok else None
        ok = ok and isinstance(test, ast.If) and ast.unparse(test.test) == "hasattr(src, arg)" and not test.orelse \
            and len(test.body) == 2 and isinstance(test.body[1], ast.Break)
        g = test.body[0] if ok else None
        ok = ok and isinstance(g, ast.If) and ast.unparse(g.test) == "getattr(src, arg) is None" and not g.orelse \
            and len(g.body) == 1 and isinstance(g.body[0], ast.Raise) and isinstance(g.body[0].exc, ast.Call) \
            and is_name(g.body[0].exc.func, "MagpylibMissingInput")
        if not ok:
            raise Untranslatable(f"{fname} no longer has the known shape")
        names = "; ".join('"%s"' % x.value for x in inner.iter.elts)
        out.append(f"(* {fname}: the first of these attributes a source has must not be None (MagpylibMissingInput) *)\n"
                   f"Definition {dname} : list string := [{names}]%string.\n")
    return "\n".join(out)


def generate(repo):
    path = os.path.join(repo, "magpylib/_src/input_checks.py")
    tree = ast.parse(open(path).read())
    out = [HEADER]
    out.append(gen_check_array_shape(tree))
    require_is_array_like(tree)
    require_make_float_array(tree)
    vec, vec_defaults = gen_vector(tree)
    out.append(vec)
    out.append(gen_scalar(tree))
    out.append(gen_vertices(tree, vec_defaults))
    out.append(gen_cylseg(tree, vec_defaults))
    out.append(gen_orientation(tree))
    out.append(gen_field_func(tree))
    out.append(gen_completeness(tree))
    return "\n".join(out)
