"""GenCuboid: the closed-form terms of magnet_cuboid_Bfield (field_BH_cuboid.py) as Gallina over R.  Fail closed.

Translated: the straight-line real arithmetic from `xma, xpa = x - a, x + a` to the six terms
ff1x, ff1y, ff1z (arctan2 sums) and ff2x, ff2y, ff2z (log terms), as one function
    cuboid_ff (at2 : R -> R -> R) (x y z a b c : R) : R * R * R * R * R * R
(arctan2 is a parameter: the theorems hold for every function in its place; np.log -> ln, np.sqrt -> sqrt), and
the table that says which term, with which sign and which entry of `qsigns`, feeds which field component:
    cuboid_contrib : list (nat * nat * bool * nat)      (polarization axis, field axis, negated, term index)
and the three literal sign tables of the octant flips, qs_flipx / qs_flipy / qs_flipz : list (list Z).
Also checked (not translated): x, y, z, a, b, c are bound once from the inputs and only modified by the octant
flips `v[mask] = v[mask] * -1`; the three masks are `x < 0`, `y > 0`, `z > 0`; B is divided by 4*pi.
Anything else in the function raises Untranslatable.
"""
import ast
import os

from .py2coq import Untranslatable, fail, get_function, strip_doc

TERMS = ["ff1x", "ff1y", "ff1z", "ff2x", "ff2y", "ff2z"]
PARAMS = ["x", "y", "z", "a", "b", "c"]
AXIS = {"x": 0, "y": 1, "z": 2}


def expr(e, known):
    if isinstance(e, ast.Name):
        if e.id not in known:
            fail(e, "unknown name in cuboid formula")
        return e.id
    if isinstance(e, ast.Constant) and isinstance(e.value, int) and not isinstance(e.value, bool):
        return f"{e.value}" if e.value >= 0 else f"({e.value})"
    if isinstance(e, ast.UnaryOp) and isinstance(e.op, ast.USub):
        return f"(- {expr(e.operand, known)})"
    if isinstance(e, ast.BinOp):
        if isinstance(e.op, ast.Pow):
            if isinstance(e.right, ast.Constant) and e.right.value == 2:
                return f"({expr(e.left, known)} ^ 2)"
            fail(e, "power other than 2")
        op = {ast.Add: "+", ast.Sub: "-", ast.Mult: "*"}.get(type(e.op))
        if op is None:
            fail(e, "operator")
        return f"({expr(e.left, known)} {op} {expr(e.right, known)})"
    if isinstance(e, ast.Call) and isinstance(e.func, ast.Attribute) and isinstance(e.func.value, ast.Name) \
            and e.func.value.id == "np" and not e.keywords:
        fn = {"sqrt": ("sqrt", 1), "log": ("ln", 1), "arctan2": ("at2", 2)}.get(e.func.attr)
        if fn is None or len(e.args) != fn[1]:
            fail(e, "call")
        return "(" + fn[0] + " " + " ".join(expr(a, known) for a in e.args) + ")"
    fail(e, "expression")
    return None


def flatten(body):
    out = []
    for st in body:
        if isinstance(st, ast.With):
            # `with np.errstate(...)` only
            ok = len(st.items) == 1 and isinstance(st.items[0].context_expr, ast.Call) and \
                ast.unparse(st.items[0].context_expr.func) == "np.errstate"
            if not ok:
                fail(st, "with-block")
            out += flatten(st.body)
        else:
            out.append(st)
    return out


def generate(repo):
    path = os.path.join(repo, "magpylib/_src/fields/field_BH_cuboid.py")
    fn = get_function(path, "magnet_cuboid_Bfield")
    body = flatten(strip_doc(fn.body))
    lets, known = [], set(PARAMS)
    bound, masks, flips, contrib, totals, tail = {}, {}, [], {}, {}, []
    for st in body:
        src = ast.unparse(st)
        if isinstance(st, ast.Assign) and len(st.targets) == 1:
            tgt, val = st.targets[0], st.value
            # inputs
            if src in ("pol_x, pol_y, pol_z = polarizations.T", "a, b, c = dimensions.T / 2",
                       "x, y, z = np.copy(observers).T"):
                for n in tgt.elts:
                    if n.id in bound:
                        fail(st, "input bound twice")
                    bound[n.id] = src
                continue
            if isinstance(tgt, ast.Name) and tgt.id in ("maskx", "masky", "maskz"):
                masks[tgt.id] = ast.unparse(val)
                continue
            if isinstance(tgt, ast.Subscript):
                flips.append(src)
                continue
            if isinstance(tgt, ast.Name) and tgt.id in ("qsigns", "qs_flipx", "qs_flipy", "qs_flipz"):
                flips.append(src)
                continue
            if isinstance(tgt, ast.Name) and tgt.id == "B":
                tail.append(src)
                continue
            names = [tgt] if isinstance(tgt, ast.Name) else list(tgt.elts) if isinstance(tgt, ast.Tuple) else None
            if names is None or not all(isinstance(n, ast.Name) for n in names):
                fail(st, "assignment target")
            vals = [val] if isinstance(tgt, ast.Name) else list(val.elts) if isinstance(val, ast.Tuple) else None
            if vals is None or len(vals) != len(names):
                fail(st, "tuple assignment")
            for n, v in zip(names, vals):
                nm = n.id
                if nm in PARAMS or nm in known and nm not in PARAMS:
                    fail(st, f"{nm} assigned twice")
                if nm[:2] in ("bx", "by", "bz") and "_pol_" in nm:
                    contrib[nm] = v
                    continue
                if nm in ("bx_tot", "by_tot", "bz_tot"):
                    totals[nm] = ast.unparse(v)
                    continue
                lets.append((nm, expr(v, known)))
                known.add(nm)
            continue
        if isinstance(st, ast.AugAssign) and ast.unparse(st) == "B /= 4 * np.pi":
            tail.append("B /= 4 * np.pi")
            continue
        if isinstance(st, ast.Return) and ast.unparse(st) == "return B":
            continue
        fail(st, "statement")
    # fixed facts about the untranslated part
    if masks != {"maskx": "x < 0", "masky": "y > 0", "maskz": "z > 0"}:
        raise Untranslatable(f"octant masks changed: {masks}")
    want_flips = ["x[maskx] = x[maskx] * -1", "y[masky] = y[masky] * -1", "z[maskz] = z[maskz] * -1"]
    if [f for f in flips if "[mask" in f and "qsigns" not in f] != want_flips:
        raise Untranslatable(f"octant flips changed: {flips}")
    if sorted(bound) != sorted(["pol_x", "pol_y", "pol_z", "a", "b", "c", "x", "y", "z"]):
        raise Untranslatable(f"inputs changed: {bound}")
    if "B /= 4 * np.pi" not in tail:
        raise Untranslatable("normalisation B /= 4*pi not found")
    # the sign tables of the octant flips: literal 3x3 matrices of +-1, applied as qsigns[mask] = qsigns[mask] * qs_flip
    mats = {}
    for f in flips:
        for ax in "xyz":
            pre = f"qs_flip{ax} = np.array("
            if f.startswith(pre):
                try:
                    m = ast.literal_eval(f[len(pre):-1])
                except (ValueError, SyntaxError) as e:
                    raise Untranslatable(f"qs_flip{ax} is not a literal matrix: {e}") from e
                if not (isinstance(m, list) and len(m) == 3 and all(isinstance(r, list) and len(r) == 3 and
                                                                     all(v in (1, -1) for v in r) for r in m)):
                    raise Untranslatable(f"qs_flip{ax} is not a 3x3 matrix of +-1: {m}")
                mats[ax] = m
    if sorted(mats) != ["x", "y", "z"]:
        raise Untranslatable(f"flip sign tables not found: {sorted(mats)}")
    want_q = ["qsigns = np.ones((len(pol_x), 3, 3))"] + [f"qsigns[mask{ax}] = qsigns[mask{ax}] * qs_flip{ax}" for ax in "xyz"]
    if [f for f in flips if f.startswith("qsigns")] != want_q:
        raise Untranslatable(f"application of the flip sign tables changed: {[f for f in flips if f.startswith('qsigns')]}")
    for t in TERMS:
        if t not in known:
            raise Untranslatable(f"term {t} not found")
    for ax in "xyz":
        want = f"b{ax}_pol_x + b{ax}_pol_y + b{ax}_pol_z"
        if totals.get(f"b{ax}_tot") != want:
            raise Untranslatable(f"b{ax}_tot is not {want}")
    # contributions: [-]pol_k * ffN * qsigns[:, k, j]
    table = []
    for nm, v in sorted(contrib.items()):
        j, k = AXIS[nm[1]], AXIS[nm[-1]]
        neg = False
        e = v
        if not (isinstance(e, ast.BinOp) and isinstance(e.op, ast.Mult) and isinstance(e.left, ast.BinOp)
                and isinstance(e.left.op, ast.Mult)):
            fail(v, "contribution shape")
        p, t, q = e.left.left, e.left.right, e.right
        if isinstance(p, ast.UnaryOp) and isinstance(p.op, ast.USub):
            neg, p = True, p.operand
        if not (isinstance(p, ast.Name) and p.id == f"pol_{'xyz'[k]}" and isinstance(t, ast.Name) and t.id in TERMS
                and ast.unparse(q) == f"qsigns[:, {k}, {j}]"):
            fail(v, "contribution shape")
        table.append((k, j, neg, TERMS.index(t.id)))
    if len(table) != 9:
        raise Untranslatable(f"expected 9 contributions, found {len(table)}")
    out = ["(* GENERATED by translate/gen_cuboid.py from magpylib/_src/fields/field_BH_cuboid.py -- do not edit *)",
           "From Coq Require Import Reals List.", "Import ListNotations.", "Local Open Scope R_scope.", "",
           "Definition cuboid_ff (at2 : R -> R -> R) (x y z a b c : R) : R * R * R * R * R * R :="]
    for nm, ex in lets:
        out.append(f"  let {nm} := {ex} in")
    out.append("  (" + ", ".join(TERMS) + ").")
    out.append("")
    out.append("(* (polarization axis, field axis, negated, index of the term in cuboid_ff) *)")
    out.append("Definition cuboid_contrib : list (nat * nat * bool * nat) :=")
    out.append("  [" + "; ".join(f"({k}, {j}, {'true' if n else 'false'}, {t})%nat" for k, j, n, t in sorted(table)) + "].")
    out.append("")
    out.append("(* sign tables of the octant flips (rows: polarization axis, columns: field axis); the observer is mirrored")
    out.append("   x -> -x where x < 0, y -> -y where y > 0, z -> -z where z > 0, and qsigns is the product of the tables of")
    out.append("   the mirrors that were applied *)")
    for ax in "xyz":
        rows = "; ".join("[" + "; ".join(f"({v})%Z" if v < 0 else f"{v}%Z" for v in r) + "]" for r in mats[ax])
        out.append(f"Definition qs_flip{ax} : list (list BinNums.Z) := [{rows}].")
    return "\n".join(out) + "\n"
