"""translators: /repo source -> coq/Gen/*.v (fail closed)"""
from . import gen_path, gen_style
from . import gen_tables
from . import gen_shape
from . import gen_const
from . import gen_units

GENERATORS = {
    "GenPath": gen_path.generate,
    "GenStyle": gen_style.generate,
    "GenTables": gen_tables.generate,
    "GenShape": gen_shape.generate,
    "GenConst": gen_const.generate,
    "GenUnits": gen_units.generate,
}
