"""translators: /repo source -> coq/Gen/*.v (fail closed)"""
from . import gen_path, gen_style
from . import gen_tables
from . import gen_shape
from . import gen_const
from . import gen_units
from . import gen_reduce
from . import gen_tol
from . import gen_l2flow

GENERATORS = {
    "GenPath": gen_path.generate,
    "GenStyle": gen_style.generate,
    "GenTables": gen_tables.generate,
    "GenShape": gen_shape.generate,
    "GenConst": gen_const.generate,
    "GenUnits": gen_units.generate,
    "GenReduce": gen_reduce.generate,
    "GenTol": gen_tol.generate,
    "GenL2Flow": gen_l2flow.generate,
}
from . import gen_loop; GENERATORS["GenLoop"] = gen_loop.generate
from . import gen_wraptol; GENERATORS["GenWrapTol"] = gen_wraptol.generate
from . import gen_batch; GENERATORS["GenBatch"] = gen_batch.generate
from . import gen_cuboid; GENERATORS["GenCuboid"] = gen_cuboid.generate
from . import gen_core; GENERATORS["GenCore"] = gen_core.generate
from . import gen_ifaces; GENERATORS["GenIfaces"] = gen_ifaces.generate
from . import gen_cylmask; GENERATORS["GenCylMask"] = gen_cylmask.generate
from . import gen_l2arith; GENERATORS["GenL2Arith"] = gen_l2arith.generate
from . import gen_flat; GENERATORS["GenFlat"] = gen_flat.generate
from . import gen_dictarith; GENERATORS["GenDictArith"] = gen_dictarith.generate
from . import gen_shapes; GENERATORS["GenShapes"] = gen_shapes.generate
from . import gen_forest; GENERATORS["GenForest"] = gen_forest.generate
from . import gen_pathflow; GENERATORS["GenPathFlow"] = gen_pathflow.generate
from . import gen_mesh; GENERATORS["GenMesh"] = gen_mesh.generate
from . import gen_level1; GENERATORS["GenLevel1"] = gen_level1.generate
