"""translators: /repo source -> coq/Gen/*.v (fail closed)"""
from . import gen_path

GENERATORS = {
    "GenPath": gen_path.generate,
}
