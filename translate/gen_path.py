"""GenPath.v: path_padding_param and pad_slice_path translated from /repo's working tree."""
import os
from .py2coq import FunTranslator, get_function, Untranslatable

HEADER = """(* GENERATED on every run from /repo by translate/gen_path.py -- do not edit *)
From Coq Require Import ZArith List Bool.
From MV Require Import Lib.ListZ.
Import ListNotations.
Open Scope Z_scope.
"""


def generate(repo):
    bt = os.path.join(repo, "magpylib/_src/obj_classes/class_BaseTransform.py")
    bg = os.path.join(repo, "magpylib/_src/obj_classes/class_BaseGeo.py")
    out = [HEADER]

    fn = get_function(bt, "path_padding_param")
    args = [a.arg for a in fn.args.args]
    if args != ["scalar_input", "lenop", "lenip", "start"]:
        raise Untranslatable(f"path_padding_param signature changed: {args}")
    tr = FunTranslator(fn, {"scalar_input": "bool", "lenop": "Z", "lenip": "Z", "start": "optZ"},
                       ret_kind="optpair_first")
    out.append("Definition path_padding_param (scalar_input : bool) (lenop lenip : Z) (start : option Z)\n"
               "  : option (Z * Z) * Z :=\n" + tr.body_expr() + ".\n")

    fn = get_function(bg, "pad_slice_path")
    args = [a.arg for a in fn.args.args]
    if args != ["path1", "path2"]:
        raise Untranslatable(f"pad_slice_path signature changed: {args}")
    tr = FunTranslator(fn, {"path1": "list", "path2": "list"})
    out.append("Definition pad_slice_path {A B : Type} (dflt : B) (path1 : list A) (path2 : list B) : list B :=\n"
               + tr.body_expr() + ".\n")
    return "\n".join(out)
