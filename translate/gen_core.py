"""GenCore.v: structural fingerprints of the implementation functions that coq/Model/CoreModel.v
and coq/Model/CoreFrame.v model by hand (C01).

For each modelled function the `ast` of its definition (docstrings removed, positions and
comments ignored) is hashed; Props/C01.v contains an Example stating that these fingerprints
equal the ones pinned in coq/Model/CorePinned.v, i.e. that the hand-written model was written
against exactly this source text.  Any edit of a modelled function breaks that Example (the tie
is then re-established by a human after checking the model); the float correspondence still runs
and tells whether the model's values drifted.  Fails closed: a missing function raises."""
import ast
import hashlib
import os

MODELLED = [
    ("magpylib/_src/fields/field_BH_dipole.py", ["dipole_Hfield", "BHJM_dipole"]),
    ("magpylib/_src/fields/field_BH_sphere.py", ["BHJM_magnet_sphere"]),
    ("magpylib/_src/fields/field_BH_polyline.py", ["current_polyline_Hfield", "BHJM_current_polyline"]),
    ("magpylib/_src/fields/field_BH_circle.py", ["BHJM_circle"]),
    ("magpylib/_src/fields/field_wrap_BH.py", ["getBH_level1"]),
    ("magpylib/_src/utility.py", ["cart_to_cyl_coordinates", "cyl_field_to_cart"]),
]


# whole modules whose functions are NOT modelled but pinned all the same (every top-level function, docstrings
# removed): the 2000-line cylinder-segment core with its case dispatcher determine_cases, and the Bulirsch
# cel / el3 helpers.  An edit turns the Example red and triggers the large search; re-pin after review.
PINNED_MODULES = [
    "magpylib/_src/fields/field_BH_cylinder_segment.py",
    "magpylib/_src/fields/special_el3.py",
    "magpylib/_src/fields/special_cel.py",
]


class Untranslatable(Exception):
    pass


def _strip_docstrings(node):
    for n in ast.walk(node):
        if isinstance(n, (ast.FunctionDef, ast.ClassDef, ast.Module)) and n.body:
            first = n.body[0]
            if isinstance(first, ast.Expr) and isinstance(first.value, ast.Constant) and isinstance(first.value.value, str):
                n.body = n.body[1:] or [ast.Pass()]
    return node


def fingerprint(fn_node):
    return hashlib.sha256(ast.dump(_strip_docstrings(fn_node), annotate_fields=True,
                                   include_attributes=False).encode()).hexdigest()[:32]


def fingerprints(repo):
    out = []
    for rel, names in MODELLED:
        path = os.path.join(repo, rel)
        tree = ast.parse(open(path).read())
        top = {n.name: n for n in tree.body if isinstance(n, ast.FunctionDef)}
        for nm in names:
            if nm not in top:
                raise Untranslatable(f"{rel}: modelled function {nm} not found at module level")
            out.append((os.path.basename(rel)[:-3] + "." + nm, fingerprint(top[nm])))
    for rel in PINNED_MODULES:
        tree = ast.parse(open(os.path.join(repo, rel)).read())
        funs = [n for n in tree.body if isinstance(n, ast.FunctionDef)]
        if not funs:
            raise Untranslatable(f"{rel}: no function definitions found")
        h = hashlib.sha256()
        for n in funs:
            h.update((n.name + ":" + fingerprint(n) + ";").encode())
        out.append((os.path.basename(rel)[:-3] + ".<all " + str(len(funs)) + " functions>", h.hexdigest()[:32]))
    return out


def coq_list(name, fps):
    rows = ";\n  ".join(f'("{k}", "{v}")' for k, v in fps)
    return f"Definition {name} : list (string * string) :=\n  [{rows}].\n"


HEADER = """(* GENERATED on every run from the implementation by translate/gen_core.py -- do not edit *)
From Coq Require Import List String.
Import ListNotations.
Open Scope string_scope.
"""


def generate(repo):
    return HEADER + coq_list("core_fingerprints", fingerprints(repo))


if __name__ == "__main__":
    import sys
    print(coq_list("pinned_fingerprints", fingerprints(sys.argv[1] if len(sys.argv) > 1 else "/repo")))
