"""GenWrapTol.v: the tolerance literals of the BHJM_* wrappers, read from the source by `ast`.

The wrapper models of coq/Model/WrapModel.v are parametric in these values (class Tols; the C02
theorems hold for ALL values), the executable instance used by the correspondence takes the values
found here.  Fails closed: each wrapper must contain exactly the inventory of float literals and
isclose(...) calls the model knows about; anything else raises.
"""
import ast
import os
from fractions import Fraction


class Untranslatable(Exception):
    pass


HEADER = """(* GENERATED on every run from the implementation by translate/gen_wraptol.py -- do not edit *)
From Coq Require Import ZArith QArith.
Open Scope Q_scope.
"""

FIELDS = "magpylib/_src/fields"


def func(tree, name, path):
    for n in tree.body:
        if isinstance(n, ast.FunctionDef) and n.name == name:
            return n
    raise Untranslatable(f"function {name} not found in {path}")


def float_literals(fn):
    """all float-typed literals of a function in source order (docstrings are str, ints are excluded)"""
    out = []
    for n in ast.walk(fn):
        if isinstance(n, ast.Constant) and isinstance(n.value, float):
            out.append((n.lineno, n.col_offset, n.value))
    out.sort()
    return [v for _, _, v in out]


def isclose_calls(fn):
    out = []
    for n in ast.walk(fn):
        if isinstance(n, ast.Call) and isinstance(n.func, ast.Attribute) and n.func.attr == "isclose":
            kw = {k.arg: k.value for k in n.keywords}
            if set(kw) != {"rtol", "atol"} or len(n.args) != 2:
                raise Untranslatable(f"isclose call of unexpected shape at line {n.lineno}: {ast.unparse(n)}")
            vals = {}
            for k, v in kw.items():
                if not (isinstance(v, ast.Constant) and isinstance(v.value, (int, float)) and not isinstance(v.value, bool)):
                    raise Untranslatable(f"isclose {k} is not a literal at line {n.lineno}")
                vals[k] = float(v.value)
            fls = [v.value for v in kw.values() if isinstance(v.value, float)]
            out.append((n.lineno, n.col_offset, ast.unparse(n.args[0]), ast.unparse(n.args[1]), vals["rtol"], vals["atol"], fls))
    out.sort()
    return out


def qlit(x):
    fr = Fraction(float(x))
    return f"({fr.numerator} # {fr.denominator})"


def expect(cond, msg):
    if not cond:
        raise Untranslatable(msg)


def generate(repo):
    defs = []

    def emit(name, value, where):
        defs.append(f"(* {where}: {value!r} *)\nDefinition {name} : Q := {qlit(value)}.\n")

    # ---------------------------------------------------------------- cuboid
    path = os.path.join(repo, FIELDS, "field_BH_cuboid.py")
    fn = func(ast.parse(open(path).read()), "BHJM_magnet_cuboid", path)
    asg = [n for n in ast.walk(fn) if isinstance(n, ast.Assign) and len(n.targets) == 1
           and isinstance(n.targets[0], ast.Name) and n.targets[0].id == "RTOL_SURFACE"]
    expect(len(asg) == 1 and isinstance(asg[0].value, ast.Constant) and isinstance(asg[0].value.value, float),
           "BHJM_magnet_cuboid: RTOL_SURFACE is not assigned one float literal")
    fl = float_literals(fn)
    expect(fl == [asg[0].value.value], f"BHJM_magnet_cuboid: unexpected float literals {fl}")
    uses = sorted(ast.unparse(n) for n in ast.walk(fn) if isinstance(n, ast.BinOp) and isinstance(n.op, ast.Mult)
                  and isinstance(n.left, ast.Name) and n.left.id == "RTOL_SURFACE")
    expect(uses == sorted(["RTOL_SURFACE * a", "RTOL_SURFACE * b", "RTOL_SURFACE * c"] * 2),
           f"BHJM_magnet_cuboid: RTOL_SURFACE used in an unexpected way: {uses}")
    expect(not isclose_calls(fn), "BHJM_magnet_cuboid: unexpected isclose call")
    emit("cub_rtol_surface", fl[0], "field_BH_cuboid.py BHJM_magnet_cuboid RTOL_SURFACE")

    # ---------------------------------------------------------------- cylinder
    path = os.path.join(repo, FIELDS, "field_BH_cylinder.py")
    fn = func(ast.parse(open(path).read()), "BHJM_magnet_cylinder", path)
    ic = isclose_calls(fn)
    expect(len(ic) == 2 and (ic[0][2], ic[0][3]) == ("r", "1") and (ic[1][2], ic[1][3]) == ("abs(z)", "z0"),
           f"BHJM_magnet_cylinder: isclose inventory changed: {[(c[2], c[3]) for c in ic]}")
    fl = float_literals(fn)
    expect(sorted(fl) == sorted(v for c in ic for v in c[6]),
           f"BHJM_magnet_cylinder: unexpected float literals {fl}")
    emit("cyl_hull_rtol", ic[0][4], "field_BH_cylinder.py isclose(r, 1) rtol")
    emit("cyl_hull_atol", ic[0][5], "field_BH_cylinder.py isclose(r, 1) atol")
    emit("cyl_base_rtol", ic[1][4], "field_BH_cylinder.py isclose(abs(z), z0) rtol")
    emit("cyl_base_atol", ic[1][5], "field_BH_cylinder.py isclose(abs(z), z0) atol")

    # ---------------------------------------------------------------- cylinder segment
    path = os.path.join(repo, FIELDS, "field_BH_cylinder_segment.py")
    tree = ast.parse(open(path).read())
    cl = func(tree, "close", path)
    ic = isclose_calls(cl)
    expect(len(ic) == 1 and (ic[0][2], ic[0][3]) == ("arg1", "arg2"), "close(): not one isclose(arg1, arg2, rtol, atol)")
    emit("seg_close_rtol", ic[0][4], "field_BH_cylinder_segment.py close() rtol")
    emit("seg_close_atol", ic[0][5], "field_BH_cylinder_segment.py close() atol")
    fn = func(tree, "BHJM_cylinder_segment", path)
    expect(not isclose_calls(fn), "BHJM_cylinder_segment: unexpected direct isclose call")
    margins = {}
    for n in ast.walk(fn):
        if isinstance(n, ast.Compare) and len(n.ops) == 1 and isinstance(n.ops[0], ast.Lt):
            for side, other, tag in ((n.left, n.comparators[0], "lo"), (n.comparators[0], n.left, "hi")):
                if isinstance(side, ast.BinOp) and isinstance(side.right, ast.Constant) and isinstance(side.right.value, float) \
                        and isinstance(side.left, ast.Name):
                    ok = (tag == "lo" and isinstance(side.op, ast.Sub)) or (tag == "hi" and isinstance(side.op, ast.Add))
                    expect(ok, f"BHJM_cylinder_segment: margin with unexpected sign: {ast.unparse(n)}")
                    key = (side.left.id, ast.unparse(other), tag)
                    expect(key not in margins, f"BHJM_cylinder_segment: duplicate margin {key}")
                    margins[key] = side.right.value
    want = {("r1", "r", "lo"): "seg_r_lo", ("r2", "r", "hi"): "seg_r_hi",
            ("z1", "z", "lo"): "seg_z_lo", ("z2", "z", "hi"): "seg_z_hi"}
    expect(set(margins) == set(want), f"BHJM_cylinder_segment: margin inventory changed: {sorted(margins)}")
    fl = float_literals(fn)
    expect(sorted(fl) == sorted(margins.values()), f"BHJM_cylinder_segment: unexpected float literals {fl}")
    for key, name in want.items():
        emit(name, margins[key], f"field_BH_cylinder_segment.py BHJM_cylinder_segment margin {key}")

    # ---------------------------------------------------------------- circle
    path = os.path.join(repo, FIELDS, "field_BH_circle.py")
    fn = func(ast.parse(open(path).read()), "BHJM_circle", path)
    def scaled_tests(lhs):
        return [n for n in ast.walk(fn) if isinstance(n, ast.Compare) and len(n.ops) == 1 and isinstance(n.ops[0], ast.Lt)
                and ast.unparse(n.left) == lhs and isinstance(n.comparators[0], ast.BinOp)
                and isinstance(n.comparators[0].op, ast.Mult) and isinstance(n.comparators[0].left, ast.Constant)
                and isinstance(n.comparators[0].left.value, float) and ast.unparse(n.comparators[0].right) == "r0"]
    sing, singz = scaled_tests("abs(r - r0)"), scaled_tests("abs(z)")
    expect(len(sing) == 1 and len(singz) == 1,
           "BHJM_circle: singularity tests `abs(r - r0) < c * r0` and `abs(z) < c * r0` not found exactly once each")
    m2 = [n for n in ast.walk(fn) if isinstance(n, ast.Assign) and isinstance(n.targets[0], ast.Name) and n.targets[0].id == "mask2"]
    expect(len(m2) == 1 and ast.unparse(m2[0].value).startswith("np.logical_and(abs(r - r0) <")
           and sing[0] in ast.walk(m2[0]) and singz[0] in ast.walk(m2[0]), "BHJM_circle: mask2 has an unexpected shape")
    c, cz = sing[0].comparators[0].left.value, singz[0].comparators[0].left.value
    fl = float_literals(fn)
    expect(sorted(fl) == sorted([float(c), float(cz), 0.5]), f"BHJM_circle: unexpected float literals {fl}")
    expect(not isclose_calls(fn), "BHJM_circle: unexpected isclose call")
    emit("cir_sing_rtol", float(c), "field_BH_circle.py BHJM_circle mask2 (r)")
    emit("cir_sing_z_rtol", float(cz), "field_BH_circle.py BHJM_circle mask2 (z)")

    return HEADER + "\n" + "\n".join(defs)
