"""GenLoop.v: the convergence loops of magpylib/_src/fields/special_cel.py, translated from /repo's
working tree (C15).

For each of cel0, celv, cel_iter0, cel_iterv the `while` statement is located and translated
literally into three Gallina functions over the numeric signature LoopNum.LNum:

    <f>_cond : state -> bool      the loop test (for celv: the re-definition of `mask`)
    <f>_step : state -> state     the loop body, assignment by assignment, in source order
    <f>_ret  : state -> T         the expression of the `return` that follows the loop

plus the batch-size thresholds and the fall-through behaviour of the dispatchers cel / cel_iter and
the `kc == 0 -> raise` guard of cel0.  The state variables per function are fixed below; any
statement kind, name, call, operator or literal outside the small subset makes the translator
raise (fail closed): an edit of an exit test or of a loop body either changes the generated model
(so the proofs in Proofs/LoopProofs.v are re-checked against it) or breaks the tie.
"""
import ast
import os
from decimal import Decimal

from .py2coq import Untranslatable, fail, get_function, strip_doc

HEADER = """(* GENERATED on every run from /repo by translate/gen_loop.py -- do not edit *)
From Coq Require Import ZArith Bool String.
From MV Require Import Model.LoopNum.

Section GenLoop.
Variable N : LNum.
Notation TT := (T N).
Declare Scope gl_scope.
Delimit Scope gl_scope with gl.
Local Open Scope gl_scope.
Infix "+" := (ladd N) : gl_scope.
Infix "-" := (lsub N) : gl_scope.
Infix "*" := (lmul N) : gl_scope.
Infix "/" := (ldiv N) : gl_scope.
"""

FOOTER = "End GenLoop.\n"

STATE = {
    "cel0": ["k", "kk", "cc", "ss", "pp", "g", "em"],
    "celv": ["k", "kk", "cc", "ss", "pp", "g", "em"],
    "cel_iter0": ["qc", "p", "g", "cc", "ss", "em", "kk"],
    "cel_iterv": ["qc", "p", "g", "cc", "ss", "em", "kk"],
}

ABS = {("", "abs"), ("np", "abs"), ("np", "fabs"), ("m", "fabs"), ("math", "fabs"), ("np", "absolute")}
SQRT = {("np", "sqrt"), ("m", "sqrt"), ("math", "sqrt")}


def bin_parts(v):
    """finite float v = b * 2**x exactly, b an integer of at most 53 bits"""
    import math
    mant, ex = math.frexp(v)
    b = int(mant * 2 ** 53)
    x = ex - 53
    while b and b % 2 == 0:
        b //= 2
        x += 1
    if float(b) * 2.0 ** x != v and math.ldexp(float(b), x) != v:
        raise Untranslatable(f"binary decomposition of {v!r} failed")
    return b, x


def callee(f):
    if isinstance(f, ast.Name):
        return ("", f.id)
    if isinstance(f, ast.Attribute) and isinstance(f.value, ast.Name):
        return (f.value.id, f.attr)
    return None


class Expr:
    """expression translator; env: set of names in scope; consts: name -> Coq text; masked: the
    name of the mask whose subscripts are dropped (celv) or None"""

    def __init__(self, src, env, consts, masked=None):
        self.src, self.env, self.consts, self.masked = src, env, consts, masked

    def lit(self, e):
        v = e.value
        if isinstance(v, bool):
            fail(e, "boolean literal in arithmetic")
        if isinstance(v, int):
            return f"(lofZ N ({v}))"
        if isinstance(v, float):
            seg = ast.get_source_segment(self.src, e)
            try:
                d = Decimal(seg)
            except Exception:   # pylint: disable=broad-except
                fail(e, "float literal text not understood")
            if float(d) != v:
                fail(e, "float literal text does not denote the parsed value")
            sign, digits, exp = d.as_tuple()
            mant = int("".join(map(str, digits))) * (-1 if sign else 1)
            b, x = bin_parts(v)
            return f"(llit N ({mant}) ({exp}) ({b}) ({x}))"
        fail(e, "literal")
        return None

    def tr(self, e):
        if isinstance(e, ast.Constant):
            return self.lit(e)
        if isinstance(e, ast.Name):
            if e.id in self.consts:
                return self.consts[e.id]
            if e.id not in self.env:
                fail(e, f"name {e.id} read before assignment / not a state variable")
            return e.id
        if isinstance(e, ast.Attribute):
            if callee(e) == ("np", "pi"):
                return "(lpi N)"
            fail(e, "attribute")
        if isinstance(e, ast.Subscript):
            if self.masked and isinstance(e.value, ast.Name) and isinstance(e.slice, ast.Name) \
                    and e.slice.id == self.masked:
                return self.tr(e.value)
            fail(e, "subscript")
        if isinstance(e, ast.UnaryOp) and isinstance(e.op, ast.USub):
            return f"(lopp N {self.tr(e.operand)})"
        if isinstance(e, ast.BinOp):
            ops = {ast.Add: "+", ast.Sub: "-", ast.Mult: "*", ast.Div: "/"}
            if type(e.op) not in ops:
                fail(e, "operator")
            return f"({self.tr(e.left)} {ops[type(e.op)]} {self.tr(e.right)})"
        if isinstance(e, ast.Call):
            c = callee(e.func)
            if e.keywords or len(e.args) != 1:
                fail(e, "call shape")
            if c in ABS:
                return f"(labs N {self.tr(e.args[0])})"
            if c in SQRT:
                return f"(lsqrt N {self.tr(e.args[0])})"
            fail(e, "call")
        fail(e, "expression")
        return None

    def cond(self, e):
        if not (isinstance(e, ast.Compare) and len(e.ops) == 1):
            fail(e, "loop test is not a single comparison")
        a, b = self.tr(e.left), self.tr(e.comparators[0])
        op = e.ops[0]
        if isinstance(op, ast.Gt):
            return f"(lltb N {b} {a})"
        if isinstance(op, ast.GtE):
            return f"(lleb N {b} {a})"
        if isinstance(op, ast.Lt):
            return f"(lltb N {a} {b})"
        if isinstance(op, ast.LtE):
            return f"(lleb N {a} {b})"
        fail(e, "comparison operator")
        return None


def float_consts(fn, src):
    """names assigned exactly once in the function, to a float literal (errtol = 0.000001)"""
    count, val = {}, {}
    for node in ast.walk(fn):
        if isinstance(node, (ast.Assign, ast.AugAssign, ast.AnnAssign, ast.For, ast.NamedExpr)):
            tgts = node.targets if isinstance(node, ast.Assign) else [node.target]
            for t in tgts:
                for n in ast.walk(t):
                    if isinstance(n, ast.Name):
                        count[n.id] = count.get(n.id, 0) + 1
                        if isinstance(node, ast.Assign) and isinstance(t, ast.Name) and \
                                isinstance(node.value, ast.Constant) and isinstance(node.value.value, float):
                            val[n.id] = node.value
    ex = Expr(src, set(), {})
    return {k: ex.lit(v) for k, v in val.items() if count[k] == 1}


def the_while(fn):
    body = strip_doc(fn.body)
    idx = [i for i, s in enumerate(body) if isinstance(s, ast.While)]
    if len(idx) != 1:
        fail(fn, f"{fn.name}: expected exactly one top-level while, found {len(idx)}")
    for s in ast.walk(fn):
        if isinstance(s, (ast.While, ast.For)) and s is not body[idx[0]]:
            fail(s, f"{fn.name}: additional loop")
        if isinstance(s, (ast.Break, ast.Continue)):
            fail(s, f"{fn.name}: break/continue")
    i = idx[0]
    w = body[i]
    if w.orelse:
        fail(w, "while-else")
    if i + 1 != len(body) - 1 or not isinstance(body[-1], ast.Return) or body[-1].value is None:
        fail(fn, f"{fn.name}: the loop must be followed by exactly one return <expr>")
    return body[:i], w, body[-1]


def is_np_any(e):
    return isinstance(e, ast.Call) and callee(e.func) == ("np", "any") and len(e.args) == 1 and not e.keywords


def tuple_of(names):
    return "(" + ", ".join(names) + ")"


def emit(name, state, cond_txt, steps, ret_txt):
    ty = " * ".join(["TT"] * len(state))
    pat = f"let '{tuple_of(state)} := st in"
    out = [f"Definition {name}_state : Type := ({ty})%type."]
    out.append(f"Definition {name}_cond (st : {name}_state) : bool :=\n  {pat}\n  {cond_txt}.")
    lets = "\n".join(f"  let {v} := {t} in" for v, t in steps)
    out.append(f"Definition {name}_step (st : {name}_state) : {name}_state :=\n  {pat}\n{lets}\n  {tuple_of(state)}.")
    out.append(f"Definition {name}_ret (st : {name}_state) : TT :=\n  {pat}\n  {ret_txt}.")
    return "\n".join(out) + "\n"


def body_steps(name, stmts, state, consts, src, masked=None):
    env = set(state)
    steps = []
    for s in stmts:
        if not (isinstance(s, ast.Assign) and len(s.targets) == 1):
            fail(s, f"{name}: loop body statement is not a single assignment")
        t = s.targets[0]
        if masked:
            if not (isinstance(t, ast.Subscript) and isinstance(t.value, ast.Name)
                    and isinstance(t.slice, ast.Name) and t.slice.id == masked):
                fail(s, f"{name}: masked loop body must assign x[{masked}] = ...")
            tgt = t.value.id
        else:
            if not isinstance(t, ast.Name):
                fail(s, f"{name}: assignment target")
            tgt = t.id
        if tgt in consts:
            fail(s, f"{name}: assignment to a constant")
        steps.append((tgt, Expr(src, env, consts, masked).tr(s.value)))
        env.add(tgt)
    assigned = {v for v, _ in steps}
    extra_state = [v for v in assigned if v not in state]
    # locals (f) are fine: Expr has already checked that they are assigned before they are read
    return steps, extra_state


def gen_scalar(fn, src, name):
    state = STATE[name]
    _, w, ret = the_while(fn)
    consts = float_consts(fn, src)
    cond = Expr(src, set(state), consts).cond(w.test)
    steps, _ = body_steps(name, w.body, state, consts, src)
    rett = Expr(src, set(state), consts).tr(ret.value)
    return emit(name, state, cond, steps, rett)


def gen_iterv(fn, src, name):
    state = STATE[name]
    _, w, ret = the_while(fn)
    if not is_np_any(w.test):
        fail(w.test, f"{name}: loop test is not np.any(<comparison>)")
    consts = float_consts(fn, src)
    cond = Expr(src, set(state), consts).cond(w.test.args[0])
    steps, _ = body_steps(name, w.body, state, consts, src)
    rett = Expr(src, set(state), consts).tr(ret.value)
    return emit(name, state, cond, steps, rett)


def gen_celv(fn, src, name):
    state = STATE[name]
    pre, w, ret = the_while(fn)
    # mask = np.ones(n, dtype=bool) immediately before the loop: the first pass is unconditional
    last = pre[-1] if pre else None
    ok = (isinstance(last, ast.Assign) and len(last.targets) == 1 and isinstance(last.targets[0], ast.Name)
          and isinstance(last.value, ast.Call) and callee(last.value.func) == ("np", "ones")
          and any(k.arg == "dtype" and isinstance(k.value, ast.Name) and k.value.id == "bool"
                  for k in last.value.keywords))
    if not ok:
        fail(fn, f"{name}: expected `mask = np.ones(n, dtype=bool)` before the loop")
    mask = last.targets[0].id
    if not (is_np_any(w.test) and isinstance(w.test.args[0], ast.Name) and w.test.args[0].id == mask):
        fail(w.test, f"{name}: loop test is not np.any({mask})")
    *body, redef = w.body
    if not (isinstance(redef, ast.Assign) and len(redef.targets) == 1 and isinstance(redef.targets[0], ast.Name)
            and redef.targets[0].id == mask):
        fail(redef, f"{name}: last statement of the loop must redefine {mask}")
    consts = float_consts(fn, src)
    steps, _ = body_steps(name, body, state, consts, src, masked=mask)
    cond = Expr(src, set(state), consts).cond(redef.value)
    rett = Expr(src, set(state), consts).tr(ret.value)
    return emit(name, state, cond, steps, rett)


def raises_on_zero(fn):
    """cel0: `if kc == 0: raise RuntimeError(...)` as first statement"""
    body = strip_doc(fn.body)
    s = body[0] if body else None
    if isinstance(s, ast.If) and isinstance(s.test, ast.Compare) and len(s.test.ops) == 1 \
            and isinstance(s.test.ops[0], ast.Eq) and isinstance(s.test.left, ast.Name) \
            and s.test.left.id == fn.args.args[0].arg \
            and isinstance(s.test.comparators[0], ast.Constant) and s.test.comparators[0].value == 0 \
            and len(s.body) == 1 and isinstance(s.body[0], ast.Raise) and not s.orelse:
        return True
    for n in ast.walk(fn):
        if isinstance(n, ast.Raise):
            fail(n, f"{fn.name}: raise in an unexpected place")
    return False


def dispatcher(fn, scalar_name, vector_name):
    """`n_input = len(x)`; `if n_input < C: <scalar branch>`; `return <vector>(...)`.
    returns (C, scalar branch returns?)"""
    body = strip_doc(fn.body)
    ifs = [s for s in body if isinstance(s, ast.If)]
    if len(ifs) != 1:
        fail(fn, f"{fn.name}: expected one if")
    s = ifs[0]
    t = s.test
    if not (isinstance(t, ast.Compare) and len(t.ops) == 1 and isinstance(t.ops[0], ast.Lt)
            and isinstance(t.left, ast.Name) and isinstance(t.comparators[0], ast.Constant)
            and isinstance(t.comparators[0].value, int) and not s.orelse):
        fail(t, f"{fn.name}: threshold test")
    # the name compared must be len(first argument)
    lens = [a for a in body if isinstance(a, ast.Assign) and isinstance(a.targets[0], ast.Name)
            and a.targets[0].id == t.left.id]
    if not (len(lens) == 1 and isinstance(lens[0].value, ast.Call) and callee(lens[0].value.func) == ("", "len")
            and isinstance(lens[0].value.args[0], ast.Name) and lens[0].value.args[0].id == fn.args.args[0].arg):
        fail(fn, f"{fn.name}: threshold is not on len of the first argument")
    calls = {callee(n.func)[1] for n in ast.walk(s) if isinstance(n, ast.Call) and callee(n.func)}
    if scalar_name not in calls or vector_name in calls:
        fail(s, f"{fn.name}: scalar branch does not call {scalar_name}")
    returns = any(isinstance(n, ast.Return) for n in ast.walk(s))
    last = body[-1]
    if not (isinstance(last, ast.Return) and isinstance(last.value, ast.Call)
            and callee(last.value.func) == ("", vector_name)
            and [a.id if isinstance(a, ast.Name) else None for a in last.value.args] ==
            [a.arg for a in fn.args.args]):
        fail(last, f"{fn.name}: final statement is not return {vector_name}(<the arguments>)")
    return t.comparators[0].value, returns


def generate(repo):
    path = os.path.join(repo, "magpylib/_src/fields/special_cel.py")
    src = open(path).read()
    out = [HEADER]
    for name, gen in (("cel0", gen_scalar), ("celv", gen_celv), ("cel_iter0", gen_scalar),
                      ("cel_iterv", gen_iterv)):
        fn = get_function(path, name)
        args = [a.arg for a in fn.args.args]
        want = ["kc", "p", "c", "s"] if name in ("cel0", "celv") else ["qc", "p", "g", "cc", "ss", "em", "kk"]
        if args != want:
            raise Untranslatable(f"{name} signature changed: {args}")
        out.append(f"(* ---- {name} *)")
        out.append(gen(fn, src, name))
    r0 = raises_on_zero(get_function(path, "cel0"))
    rv = raises_on_zero(get_function(path, "celv"))
    out.append(f"Definition cel0_raises_on_zero : bool := {'true' if r0 else 'false'}.")
    out.append(f"Definition celv_raises_on_zero : bool := {'true' if rv else 'false'}.")
    c, ret = dispatcher(get_function(path, "cel"), "cel0", "celv")
    out.append(f"Definition cel_small_n : nat := {c}.")
    out.append(f"Definition cel_small_returns : bool := {'true' if ret else 'false'}.")
    c, ret = dispatcher(get_function(path, "cel_iter"), "cel_iter0", "cel_iterv")
    out.append(f"Definition cel_iter_small_n : nat := {c}.")
    out.append(f"Definition cel_iter_small_returns : bool := {'true' if ret else 'false'}.")
    out.append(FOOTER)
    # special_el3.py (el3 / el3_angle and friends, used by the CylinderSegment core) is not modelled: it is PINNED.
    # sha256 of the ast dump (comments / formatting do not matter, any change of code or docstrings does)
    import hashlib
    el3 = os.path.join(repo, "magpylib/_src/fields/special_el3.py")
    fp = hashlib.sha256(ast.dump(ast.parse(open(el3).read())).encode()).hexdigest()
    out.append(f'Definition special_el3_fingerprint : string := "{fp}"%string.\n')
    return "\n".join(out)
