"""GenL2Arith.v: the data-flow arithmetic of the level-2 computation, translated from
/repo/magpylib/_src/fields/field_wrap_BH.py (C04 / C06).

For _getBH_level2 (from the pixel bookkeeping on), get_src_dict, tile_group_property and getBH_level1
every statement that defines or uses an index, a shape, a tiling factor, an axis, a slice bound or a
scatter position is emitted, in source order, as
        (function, kind, target, expression)
with the expression translated node by node into the deep embedding `pyexp` of Model/L2Arith.v
(names, integers, + - * / //, comparisons, calls with positional and keyword arguments, attributes,
subscripts, slices, tuples, lists, starred items, conditional expressions, single-generator
comprehensions).  kind is assign / aug<op> / if / for / return.

Fail closed: an expression node outside this subset, a tracked name assigned through a statement kind
that is not handled (with, try, while, del, walrus...), or a missing anchor (each name of REQUIRED must
be assigned at least once) raises Untranslatable.

Proofs/L2ArithProofs.v proves `arith = expected_arith` by reflexivity and evaluates the translated
index expressions (n_pix, m_tile, the collection slice bounds, the pix_slice bounds, the pixel_agg axis
range, the split indices) to show that they are the numbers the hand model Level2Model.v uses -- an
off-by-one edit of one of these expressions breaks a proof.
"""
import ast
import os

from .py2coq import Untranslatable

FILE = "magpylib/_src/fields/field_wrap_BH.py"

# _getBH_level2: statements are tracked from the first assignment of `pix_nums` on, when they assign
# one of these names (or an attribute / subscript of one of them)
TRACKED = {
    "pix_nums", "pix_inds", "pix_all_same", "unrotated_sensors", "static_sensor_rot", "num_of_sources",
    "num_of_src_list", "num_of_sensors", "path_lengths", "max_path_len", "m_tile", "tile_pos", "tile_orient", "obj",
    "poso", "n_pp", "n_pix", "field_func_groups", "group_key", "B", "lg", "gr", "src_dict", "B_group", "col_len",
    "pix_slice", "Bpart", "Bpart_orig_shape", "Bpart_flat", "sens_orient", "Bpart_flat_rot", "Bsplit", "Bagg",
}
REQUIRED = {"pix_nums", "pix_inds", "pix_all_same", "max_path_len", "m_tile", "tile_pos", "tile_orient", "poso",
            "n_pp", "n_pix", "B", "B_group", "col_len", "pix_slice", "Bpart_flat", "sens_orient", "Bsplit", "Bagg"}
HELPERS = ["tile_group_property", "get_src_dict", "getBH_level1"]

BINOPS = {ast.Add: "+", ast.Sub: "-", ast.Mult: "*", ast.Div: "/", ast.FloorDiv: "//", ast.Mod: "%",
          ast.BitAnd: "&", ast.BitOr: "|"}
UNOPS = {ast.USub: "-", ast.Not: "not", ast.Invert: "~"}
CMPOPS = {ast.Eq: "==", ast.NotEq: "!=", ast.Lt: "<", ast.LtE: "<=", ast.Gt: ">", ast.GtE: ">=", ast.Is: "is",
          ast.IsNot: "is not", ast.In: "in", ast.NotIn: "not in"}


def q(s):
    return '"' + s.replace('"', "'") + '"'


def zlit(n):
    return f"({n})" if n < 0 else str(n)


def clist(items):
    return "[" + "; ".join(items) + "]"


def opt(node):
    return "None" if node is None else f"(Some {exp(node)})"


def exp(n):
    """python expression -> Coq term of type pyexp"""
    if isinstance(n, ast.Name):
        return f"(PName {q(n.id)})"
    if isinstance(n, ast.Constant):
        v = n.value
        if v is None:
            return "PNone"
        if v is True:
            return "PTrue"
        if v is False:
            return "PFalse"
        if v is Ellipsis:
            return "PEllipsis"
        if isinstance(v, int):
            return f"(PInt {zlit(v)})"
        if isinstance(v, float):
            return f"(PFloat {q(repr(v))})"
        if isinstance(v, str):
            return f"(PStr {q(v)})"
        raise Untranslatable(f"constant {v!r}")
    if isinstance(n, ast.BinOp):
        if type(n.op) not in BINOPS:
            raise Untranslatable(f"binary operator {type(n.op).__name__}")
        return f"(PBin {q(BINOPS[type(n.op)])} {exp(n.left)} {exp(n.right)})"
    if isinstance(n, ast.UnaryOp):
        if isinstance(n.op, ast.USub) and isinstance(n.operand, ast.Constant) and isinstance(n.operand.value, int):
            return f"(PInt {zlit(-n.operand.value)})"
        if type(n.op) not in UNOPS:
            raise Untranslatable(f"unary operator {type(n.op).__name__}")
        return f"(PUn {q(UNOPS[type(n.op)])} {exp(n.operand)})"
    if isinstance(n, ast.BoolOp):
        op = "and" if isinstance(n.op, ast.And) else "or"
        out = exp(n.values[-1])
        for v in reversed(n.values[:-1]):
            out = f"(PBin {q(op)} {exp(v)} {out})"
        return out
    if isinstance(n, ast.Compare):
        if len(n.ops) != 1 or type(n.ops[0]) not in CMPOPS:
            raise Untranslatable("chained / unknown comparison " + ast.unparse(n))
        return f"(PCmp {q(CMPOPS[type(n.ops[0])])} {exp(n.left)} {exp(n.comparators[0])})"
    if isinstance(n, ast.Call):
        kws = []
        for k in n.keywords:
            if k.arg is None:
                kws.append(f"({q('**')}, {exp(k.value)})")
            else:
                kws.append(f"({q(k.arg)}, {exp(k.value)})")
        return f"(PCall {exp(n.func)} {clist([exp(a) for a in n.args])} {clist(kws)})"
    if isinstance(n, ast.Attribute):
        return f"(PAttr {exp(n.value)} {q(n.attr)})"
    if isinstance(n, ast.Subscript):
        return f"(PSub {exp(n.value)} {exp(n.slice)})"
    if isinstance(n, ast.Slice):
        if n.step is not None:
            raise Untranslatable("slice with step " + ast.unparse(n))
        return f"(PSlice {opt(n.lower)} {opt(n.upper)})"
    if isinstance(n, ast.Tuple):
        return f"(PTuple {clist([exp(e) for e in n.elts])})"
    if isinstance(n, ast.List):
        return f"(PList {clist([exp(e) for e in n.elts])})"
    if isinstance(n, ast.Starred):
        return f"(PStar {exp(n.value)})"
    if isinstance(n, ast.IfExp):
        return f"(PIfExp {exp(n.test)} {exp(n.body)} {exp(n.orelse)})"
    if isinstance(n, (ast.ListComp, ast.GeneratorExp)):
        if len(n.generators) != 1 or n.generators[0].is_async:
            raise Untranslatable("comprehension with several generators " + ast.unparse(n))
        g = n.generators[0]
        conds = clist([exp(c) for c in g.ifs])
        return f"(PComp {exp(n.elt)} {exp(g.target)} {exp(g.iter)} {conds})"
    if isinstance(n, ast.Dict):
        if any(k is None for k in n.keys):
            raise Untranslatable("dict unpacking " + ast.unparse(n))
        return f"(PDict {clist(['(' + exp(k) + ', ' + exp(v) + ')' for k, v in zip(n.keys, n.values)])})"
    if isinstance(n, ast.JoinedStr):
        return f"(PStr {q('<f-string>')})"
    raise Untranslatable(f"expression node {type(n).__name__}: {ast.unparse(n)[:80]}")


def root_name(t):
    while isinstance(t, (ast.Attribute, ast.Subscript)):
        t = t.value
    return t.id if isinstance(t, ast.Name) else None


def walk_body(fname, stmts, out, tracked, started):
    """emit entries for a statement list, in order; `started` is a 1-element list flag"""
    for s in stmts:
        if isinstance(s, (ast.Assign, ast.AugAssign, ast.AnnAssign)):
            targets = s.targets if isinstance(s, ast.Assign) else [s.target]
            names = set()
            for t in targets:
                for e in (t.elts if isinstance(t, (ast.Tuple, ast.List)) else [t]):
                    names.add(root_name(e))
            if tracked is not None and not started[0]:
                if "pix_nums" in names:
                    started[0] = True
                else:
                    continue
            if tracked is not None and not (names & tracked):
                continue
            if isinstance(s, ast.AugAssign):
                if type(s.op) not in BINOPS:
                    raise Untranslatable("augmented assignment operator in " + ast.unparse(s))
                kind = "aug" + BINOPS[type(s.op)]
            else:
                kind = "assign"
            if getattr(s, "value", None) is None:
                raise Untranslatable("annotation without value: " + ast.unparse(s))
            tgt = " = ".join(ast.unparse(t) for t in targets)
            out.append((fname, kind, tgt, exp(s.value)))
        elif isinstance(s, ast.If):
            if tracked is None or started[0]:
                out.append((fname, "if", "", exp(s.test)))
            walk_body(fname, s.body, out, tracked, started)
            if s.orelse:
                if tracked is None or started[0]:
                    out.append((fname, "else", "", "PNone"))
                walk_body(fname, s.orelse, out, tracked, started)
        elif isinstance(s, ast.For):
            if tracked is None or started[0]:
                out.append((fname, "for", ast.unparse(s.target), exp(s.iter)))
            if s.orelse:
                raise Untranslatable("for-else")
            walk_body(fname, s.body, out, tracked, started)
        elif isinstance(s, ast.Return):
            if tracked is None:
                out.append((fname, "return", "", exp(s.value) if s.value is not None else "PNone"))
            elif started[0] and s.value is not None and isinstance(s.value, ast.Name):
                out.append((fname, "return", "", exp(s.value)))
        elif isinstance(s, (ast.Expr, ast.Raise, ast.Pass, ast.Import, ast.ImportFrom)):
            # calls for effect (warnings, tiled.extend: C08's translator), raises: no data-flow arithmetic
            continue
        else:
            # any other statement kind must not touch tracked names
            touched = {n.id for n in ast.walk(s) if isinstance(n, ast.Name) and isinstance(n.ctx, ast.Store)}
            if tracked is None or (touched & tracked):
                raise Untranslatable(f"{fname}: statement kind {type(s).__name__} assigns {sorted(touched)}")


def entries(repo):
    path = os.path.join(repo, FILE)
    tree = ast.parse(open(path).read())
    funcs = {n.name: n for n in tree.body if isinstance(n, ast.FunctionDef)}
    out = []
    for h in HELPERS:
        if h not in funcs:
            raise Untranslatable(f"function {h} not found")
        walk_body(h, funcs[h].body, out, None, [True])
    if "_getBH_level2" not in funcs:
        raise Untranslatable("function _getBH_level2 not found")
    body = []
    walk_body("_getBH_level2", funcs["_getBH_level2"].body, body, TRACKED, [False])
    assigned = set()
    for (_, kind, tgt, _) in body:
        if kind.startswith(("assign", "aug")):
            for part in tgt.split(" = "):
                assigned.add(part.split("[")[0].split(".")[0].strip())
    missing = REQUIRED - assigned
    if missing:
        raise Untranslatable(f"_getBH_level2: no assignment of {sorted(missing)}")
    # the dataframe branch only reformats the finished array
    return out + body


HEADER = """(* GENERATED on every run from the implementation by translate/gen_l2arith.py -- do not edit *)
From Coq Require Import ZArith List String.
From MV Require Import Model.L2Arith.
Import ListNotations.
Open Scope string_scope.
Open Scope Z_scope.

"""


def generate(repo):
    es = entries(repo)
    rows = [f"  ({q(f)}, {q(k)}, {q(t)},\n     {e})" for (f, k, t, e) in es]
    return HEADER + "Definition arith : list (string * string * string * pyexp) := [\n" + ";\n".join(rows) + "].\n"


if __name__ == "__main__":
    import sys
    print(generate(sys.argv[1] if len(sys.argv) > 1 else "/repo"))
