"""GenIfaces.v (C07): the interface wrappers in front of getBH_level2, read by `ast` from the source. Nothing is imported
from magpylib.

  wrappers       : one row per getB/getH/getJ/getM of BaseSource (class_BaseExcitations.py), Sensor (class_Sensor.py),
                   BaseCollection (class_Collection.py) and of the module fields/field_wrap_BH.py: parameters with
                   defaults, what is applied to the star argument, the positional and keyword arguments of the single
                   `return getBH_level2(...)`
  star_input     : format_star_input (utility.py) is exactly `if len(inp) == 1: return inp[0]; return list(inp)`
  gen_validate   : BaseCollection._validate_getBH_inputs as a decision function (has_sens, has_src, number of inputs)
  df_product / df_columns / df_values / df_sumup_cond : the dataframe assembly of _getBH_level2

Fail closed: every function must have exactly the statement shapes listed here; anything else raises Untranslatable.
"""
import ast
import os

from .py2coq import Untranslatable, fail, strip_doc

HEADER = """(* GENERATED on every run from /repo/magpylib/_src (class_BaseExcitations.py, class_Sensor.py, class_Collection.py,
   fields/field_wrap_BH.py, utility.py) by translate/gen_ifaces.py -- do not edit *)
From Coq Require Import ZArith List Bool String.
From MV Require Import Model.InputTypes Model.DictIface.
Import ListNotations.
Open Scope string_scope.
Open Scope bool_scope.
"""

METHODS = ("getB", "getH", "getJ", "getM")


def cstr(s):
    if '"' in s or "\\" in s or "\n" in s:
        raise Untranslatable(f"string literal {s!r}")
    return '"' + s + '"'


def clist(xs):
    return "[" + "; ".join(xs) + "]"


def warg(e, params):
    if isinstance(e, ast.Name):
        if e.id not in params:
            fail(e, "keyword value is not a parameter of the method")
        return f"WParam {cstr(e.id)}"
    if isinstance(e, ast.Constant):
        if e.value is None:
            return "WNone"
        if isinstance(e.value, bool):
            return "WBool " + ("true" if e.value else "false")
        if isinstance(e.value, str):
            return f"WStr {cstr(e.value)}"
    fail(e, "keyword value")


def default_term(e):
    return warg(e, ())


def wrapper_row(owner, fn):
    a = fn.args
    if a.posonlyargs:
        fail(fn, "positional-only parameters")
    names = [x.arg for x in a.args]
    if owner:
        if not names or names[0] != "self":
            fail(fn, "method without self")
        names = names[1:]
    if owner and names:
        fail(fn, f"{owner}.{fn.name}: positional parameters {names} besides self (the flags must be keyword-only)")
    if not owner and a.kwonlyargs:
        fail(fn, f"{fn.name}: keyword-only parameters in a module-level function")
    defaults = list(a.defaults)
    if len(defaults) != len(names):
        fail(fn, "positional parameter without default")
    params = [(n, default_term(d)) for n, d in zip(names, defaults)]
    for x, d in zip(a.kwonlyargs, a.kw_defaults):
        if d is None:
            fail(fn, "keyword-only parameter without default")
        params.append((x.arg, default_term(d)))
    star = a.vararg.arg if a.vararg else None
    kwname = a.kwarg.arg if a.kwarg else None
    pnames = {p for p, _ in params}
    body = strip_doc(fn.body)
    pre = ""
    if len(body) == 2:
        s = body[0]
        src = ast.unparse(s)
        if star and src == f"{star} = format_star_input({star})":
            pre = "format_star_input"
        elif star and src == f"sources, sensors = self._validate_getBH_inputs(*{star})":
            pre = "_validate_getBH_inputs"
        else:
            fail(s, f"{owner}.{fn.name}: first statement")
        body = body[1:]
    if len(body) != 1 or not isinstance(body[0], ast.Return) or not isinstance(body[0].value, ast.Call):
        fail(fn, f"{owner}.{fn.name}: body is not `return getBH_level2(...)`")
    call = body[0].value
    if not (isinstance(call.func, ast.Name) and call.func.id == "getBH_level2"):
        fail(call, "callee")
    pos = []
    for e in call.args:
        if not isinstance(e, ast.Name):
            fail(e, "positional argument")
        pos.append(e.id)
    field, kws, starkw = None, [], False
    for k in call.keywords:
        if k.arg is None:
            if not (kwname and isinstance(k.value, ast.Name) and k.value.id == kwname):
                fail(call, "**argument")
            starkw = True
        elif k.arg == "field":
            if not (isinstance(k.value, ast.Constant) and isinstance(k.value.value, str)):
                fail(k.value, "field")
            field = k.value.value
        else:
            kws.append((k.arg, warg(k.value, pnames)))
    if field is None:
        fail(call, "no field keyword")
    if kwname and not starkw:
        fail(fn, "**kwargs accepted but not passed on")
    if len({k for k, _ in kws}) != len(kws):
        fail(call, "duplicate keyword")
    return ("  mkWrapper %s %s %s\n    %s %s %s %s %s\n    %s" % (
        cstr(owner), cstr(fn.name), "None" if star is None else f"(Some {cstr(star)})",
        clist([f"({cstr(n)}, {d})" for n, d in params]), "true" if starkw else "false", cstr(pre),
        clist([cstr(p) for p in pos]), cstr(field), clist([f"({cstr(k)}, {v})" for k, v in kws])))


def find_class(tree, name):
    for n in tree.body:
        if isinstance(n, ast.ClassDef) and n.name == name:
            return n
    raise Untranslatable(f"class {name} not found")


def find_fn(body, name):
    hits = [n for n in body if isinstance(n, ast.FunctionDef) and n.name == name]
    if len(hits) != 1:
        raise Untranslatable(f"function {name}: {len(hits)} definitions")
    return hits[0]


# ---- _validate_getBH_inputs -> decision function
CONDS = {
    "current_sensors and current_sources": "(has_sens && has_src)",
    "current_sources and current_sensors": "(has_src && has_sens)",
    "not current_sources": "(negb has_src)",
    "not current_sensors": "(negb has_sens)",
    "inputs": "(negb (Nat.eqb n_inputs 0))",
    "len(inputs) == 1": "(Nat.eqb n_inputs 1)",
}
ROLE = {"self": "ASelf", "inputs": "AInputs", "inputs[0]": "AInput0"}


def tr_validate(stmts, state):
    if not stmts:
        raise Untranslatable("_validate_getBH_inputs: falls off the end")
    s, rest = stmts[0], stmts[1:]
    if isinstance(s, ast.Assign):
        if ast.unparse(s.targets[0]) not in ("(sources, sensors)", "sources, sensors") or len(s.targets) != 1 \
                or not isinstance(s.value, ast.Tuple) or len(s.value.elts) != 2:
            fail(s, "assignment")
        vals = [ast.unparse(e) for e in s.value.elts]
        for v in vals:
            if v not in ROLE:
                fail(s, "role expression")
        return tr_validate(rest, (ROLE[vals[0]], ROLE[vals[1]]))
    if isinstance(s, ast.If):
        c = ast.unparse(s.test)
        if c not in CONDS:
            fail(s.test, "condition")
        return (f"(if {CONDS[c]} then {tr_validate(list(s.body) + rest, state)} "
                f"else {tr_validate(list(s.orelse) + rest, state)})")
    if isinstance(s, ast.Raise):
        if not (isinstance(s.exc, ast.Call) and isinstance(s.exc.func, ast.Name)
                and s.exc.func.id == "MagpylibBadUserInput"):
            fail(s, "raise")
        return "VBad"
    if isinstance(s, ast.Return):
        if ast.unparse(s.value) not in ("(sources, sensors)", "sources, sensors"):
            fail(s, "return")
        if state is None:
            return "VUnbound"
        return f"(VRoles {state[0]} {state[1]})"
    fail(s, "statement")


def gen_validate(cls):
    fn = find_fn(cls.body, "_validate_getBH_inputs")
    a = fn.args
    if [x.arg for x in a.args] != ["self"] or not a.vararg or a.vararg.arg != "inputs" or a.kwonlyargs or a.kwarg:
        fail(fn, "signature")
    body = strip_doc(fn.body)
    want = ["current_sources = format_obj_input(self, allow='sources')",
            "current_sensors = format_obj_input(self, allow='sensors')"]
    if [ast.unparse(s) for s in body[:2]] != want:
        fail(fn, "_validate_getBH_inputs: the two format_obj_input lines")
    return ("Definition gen_validate (has_sens has_src : bool) (n_inputs : nat) : vres :=\n  "
            + tr_validate(body[2:], None) + ".\n")


# ---- dataframe assembly
def gen_dataframe(fw):
    fn = find_fn(fw.body, "_getBH_level2")
    blocks = [n for n in ast.walk(fn) if isinstance(n, ast.If) and ast.unparse(n.test) == "output == 'dataframe'"]
    if len(blocks) != 1:
        raise Untranslatable("dataframe block not found")
    body = [s for s in blocks[0].body if not isinstance(s, ast.Import)]
    src = [ast.unparse(s) for s in body]
    if len(body) != 6:
        raise Untranslatable(f"dataframe block has {len(body)} statements")
    s0 = body[0]
    if not (isinstance(s0, ast.If) and len(s0.body) == 1 and len(s0.orelse) == 1
            and ast.unparse(s0.body[0]) == "src_ids = [f'sumup ({len(sources)})']"
            and ast.unparse(s0.orelse[0]) == "src_ids = [s.style.label if s.style.label else f'{s}' for s in sources]"):
        fail(s0, "src_ids")
    cond = ast.unparse(s0.test)
    if src[1] != "sens_ids = [s.style.label if s.style.label else f'{s}' for s in sensors]":
        fail(body[1], "sens_ids")
    if src[2] != "num_of_pixels = np.prod(pix_shapes[0][:-1]) if pixel_agg is None else 1":
        fail(body[2], "num_of_pixels")
    s3 = body[3]
    if not (isinstance(s3, ast.Assign) and ast.unparse(s3.targets[0]) == "df" and isinstance(s3.value, ast.Call)
            and ast.unparse(s3.value.func) == "pd.DataFrame" and not s3.value.args):
        fail(s3, "DataFrame construction")
    kw = {k.arg: k.value for k in s3.value.keywords}
    if set(kw) != {"data", "columns"}:
        fail(s3, "DataFrame keywords")
    d = kw["data"]
    if not (isinstance(d, ast.Call) and isinstance(d.func, ast.Name) and d.func.id == "product" and not d.keywords):
        fail(d, "data=product(...)")
    prod = [ast.unparse(e) for e in d.args]
    c = kw["columns"]
    if not (isinstance(c, ast.List) and all(isinstance(e, ast.Constant) and isinstance(e.value, str) for e in c.elts)):
        fail(c, "columns")
    cols = [e.value for e in c.elts]
    if src[4] != "df[[field + k for k in 'xyz']] = B.reshape(-1, 3)":
        fail(body[4], "value columns")
    if src[5] != "return df":
        fail(body[5], "return")
    # `product` must be itertools.product
    imp = [n for n in fw.body if isinstance(n, ast.ImportFrom) and n.module == "itertools"
           and any(al.name == "product" and al.asname is None for al in n.names)]
    if not imp:
        raise Untranslatable("product is not imported from itertools")
    return (f"Definition df_product : list string := {clist([cstr(p) for p in prod])}.\n"
            f"Definition df_columns : list string := {clist([cstr(x) for x in cols])}.\n"
            f"Definition df_sumup_cond : string := {cstr(cond)}.\n")


def generate(repo):
    def parse(rel):
        return ast.parse(open(os.path.join(repo, rel)).read())

    rows = []
    fw = parse("magpylib/_src/fields/field_wrap_BH.py")
    for m in METHODS:
        rows.append(wrapper_row("", find_fn(fw.body, m)))
    coll = None
    for rel, cname in (("magpylib/_src/obj_classes/class_BaseExcitations.py", "BaseSource"),
                       ("magpylib/_src/obj_classes/class_Sensor.py", "Sensor"),
                       ("magpylib/_src/obj_classes/class_Collection.py", "BaseCollection")):
        cls = find_class(parse(rel), cname)
        if cname == "BaseCollection":
            coll = cls
        for m in METHODS:
            rows.append(wrapper_row(cname, find_fn(cls.body, m)))
    # no subclass may override the wrappers
    import glob
    for path in sorted(glob.glob(os.path.join(repo, "magpylib/_src/obj_classes/class_*.py"))):
        for cd in ast.parse(open(path).read()).body:
            if isinstance(cd, ast.ClassDef) and cd.name not in ("BaseSource", "Sensor", "BaseCollection"):
                for n in cd.body:
                    if isinstance(n, ast.FunctionDef) and n.name in METHODS + ("_validate_getBH_inputs",):
                        raise Untranslatable(f"{cd.name} overrides {n.name}")
    ut = parse("magpylib/_src/utility.py")
    fsi = find_fn(ut.body, "format_star_input")
    if [ast.unparse(s) for s in strip_doc(fsi.body)] != ["if len(inp) == 1:\n    return inp[0]", "return list(inp)"] \
            or [x.arg for x in fsi.args.args] != ["inp"]:
        fail(fsi, "format_star_input changed")
    out = [HEADER]
    out.append("Definition wrappers : list wrapper_row := [\n" + ";\n".join(rows) + "\n].\n")
    out.append("(* format_star_input(inp): `if len(inp) == 1: return inp[0]` / `return list(inp)` -- checked literally *)\n"
               "Definition star_input_single_is_bare : bool := true.\n")
    out.append(gen_validate(coll))
    out.append(gen_dataframe(fw))
    return "\n".join(out)
