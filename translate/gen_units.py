"""GenUnits.v: the unit-prefix table and the decision logic of get_unit_factor / unit_prefix,
translated from /repo/magpylib/_src/utility.py (and the two call sites in traces_generic.get_frames).

Fail closed: the functions are compared, statement by statement, with the shape this translator
knows (rendered from the literals it extracted); any other statement, name, operator or literal
kind raises Untranslatable.  Strings become lists of code points (list Z).
"""
import ast
import os

from .py2coq import Untranslatable, get_function, strip_doc

HEADER = """(* GENERATED on every run from /repo by translate/gen_units.py -- do not edit *)
From Coq Require Import ZArith List Bool.
Import ListNotations.
Open Scope Z_scope.

(* python str = list of code points *)
Definition pystr := list Z.
Fixpoint str_eqb (a b : pystr) : bool :=
  match a, b with
  | [], [] => true
  | x :: a', y :: b' => (x =? y) && str_eqb a' b'
  | _, _ => false
  end.
Definition str_len (a : pystr) : Z := Z.of_nat (length a).

(* python dict built from an item list: a later item with the same key overrides an earlier one *)
Fixpoint dict_get {B : Type} (d : list (pystr * B)) (k : pystr) : option B :=
  match d with
  | [] => None
  | (k', v) :: r => match dict_get r k with Some w => Some w | None => if str_eqb k' k then Some v else None end
  end.
Fixpoint zdict_get {B : Type} (d : list (Z * B)) (k : Z) : option B :=
  match d with
  | [] => None
  | (k', v) :: r => match zdict_get r k with Some w => Some w | None => if k' =? k then Some v else None end
  end.

Inductive uf_result := UF_one | UF_power (p : Z) | UF_invalid.
"""


def cz(n):
    return f"({n})" if n < 0 else str(n)


def cstr(s):
    return "[" + "; ".join(str(ord(c)) for c in s) + "]"


def int_const(node, what):
    if isinstance(node, ast.UnaryOp) and isinstance(node.op, ast.USub) and isinstance(node.operand, ast.Constant) \
            and type(node.operand.value) is int:
        return -node.operand.value
    if isinstance(node, ast.Constant) and type(node.value) is int:
        return node.value
    raise Untranslatable(f"{what}: expected an integer literal, got {ast.dump(node)[:120]}")


def str_const(node, what):
    if isinstance(node, ast.Constant) and isinstance(node.value, str):
        return node.value
    raise Untranslatable(f"{what}: expected a string literal, got {ast.dump(node)[:120]}")


def module_assign(tree, name):
    hits = [n for n in tree.body if isinstance(n, ast.Assign) and len(n.targets) == 1
            and isinstance(n.targets[0], ast.Name) and n.targets[0].id == name]
    if len(hits) != 1:
        raise Untranslatable(f"{name}: expected exactly one module-level assignment, found {len(hits)}")
    return hits[0].value


def norm(stmts):
    return [ast.dump(s) for s in stmts]


def same(actual_stmts, template_src, what):
    exp = ast.parse(template_src).body
    a, e = norm(actual_stmts), norm(exp)
    if a != e:
        for i, (x, y) in enumerate(zip(a, e)):
            if x != y:
                raise Untranslatable(f"{what}: statement {i} has an unknown shape: {x[:300]}")
        raise Untranslatable(f"{what}: {len(a)} statements, known shape has {len(e)}")


def generate(repo):
    upath = os.path.join(repo, "magpylib/_src/utility.py")
    tree = ast.parse(open(upath).read())
    out = [HEADER]

    # ---- _UNIT_PREFIX (pure literal) and its reversal
    d = module_assign(tree, "_UNIT_PREFIX")
    if not isinstance(d, ast.Dict) or any(k is None for k in d.keys):
        raise Untranslatable("_UNIT_PREFIX is not a plain dict literal")
    table = [(int_const(k, "_UNIT_PREFIX key"), str_const(v, "_UNIT_PREFIX value")) for k, v in zip(d.keys, d.values)]
    out.append("Definition unit_prefix_table : list (Z * pystr) :=\n  [" +
               ";\n   ".join(f"({cz(e)}, {cstr(p)})" for e, p in table) + "].\n")
    rev = module_assign(tree, "_UNIT_PREFIX_REVERSED")
    if ast.dump(rev) != ast.dump(ast.parse("{v: k for k, v in _UNIT_PREFIX.items()}").body[0].value):
        raise Untranslatable("_UNIT_PREFIX_REVERSED is not {v: k for k, v in _UNIT_PREFIX.items()}")
    out.append("Definition unit_prefix_reversed : list (pystr * Z) :=\n"
               "  map (fun ep : Z * pystr => (snd ep, fst ep)) unit_prefix_table.\n")

    # ---- get_unit_factor
    fn = get_function(upath, "get_unit_factor")
    a = fn.args
    if [x.arg for x in a.args] != ["unit_input"] or [x.arg for x in a.kwonlyargs] != ["target_unit", "deci_centi"] \
            or a.vararg or a.kwarg or a.posonlyargs or a.defaults \
            or [None if k is None else ast.dump(k) for k in a.kw_defaults] != [None, ast.dump(ast.Constant(value=True))]:
        raise Untranslatable("get_unit_factor signature changed")
    body = strip_doc(fn.body)
    if len(body) != 9:
        raise Untranslatable(f"get_unit_factor: {len(body)} statements, known shape has 9")
    # holes
    try:
        extra = body[3].body[0].value
        ekeys, evals = extra.keys[1:], extra.values[1:]
        extras = [(str_const(k, "extra prefix"), int_const(v, "extra exponent")) for k, v in zip(ekeys, evals)]
        split_len = int_const(body[5].body[0].test.comparators[0], "split length")
        max_len = int_const(body[6].test.values[1].comparators[0], "max length")
        num = int_const(body[7].value.left, "factor numerator")
        base = int_const(body[7].value.right.left, "factor base")
        raise_body = body[6].body
    except (AttributeError, IndexError) as e:
        raise Untranslatable(f"get_unit_factor: unknown shape ({e})") from e
    if not (raise_body and isinstance(raise_body[-1], ast.Raise)
            and all(isinstance(s, (ast.Assign, ast.Raise)) for s in raise_body)):
        raise Untranslatable("get_unit_factor: the invalid-unit branch does not end in raise")
    body[6].body = [ast.parse("raise ValueError").body[0]]
    extras_src = "".join(f", {k!r}: {v}" for k, v in extras)
    same(body, f"""
if unit_input is None or unit_input == target_unit:
    return 1
pref, suff, factor_power = "", "", None
prefs = _UNIT_PREFIX_REVERSED
if deci_centi:
    prefs = {{**_UNIT_PREFIX_REVERSED{extras_src}}}
unit_input_str = str(unit_input)
if unit_input_str:
    if len(unit_input_str) >= {split_len}:
        pref, *suff = unit_input_str
        suff = "".join(suff)
    if suff == target_unit:
        factor_power = prefs.get(pref, None)
if factor_power is None or len(unit_input_str) > {max_len}:
    raise ValueError
factor = {num} / ({base}**factor_power)
return factor
""", "get_unit_factor")
    if split_len < 1:
        raise Untranslatable("get_unit_factor: `pref, *suff = s` needs len(s) >= 1")
    out.append(f"""(* factor = {num} / ({base} ** factor_power) *)
Definition uf_factor_num : Z := {cz(num)}.
Definition uf_factor_base : Z := {cz(base)}.
Definition uf_extra_prefixes : list (pystr * Z) := [{"; ".join(f"({cstr(k)}, {cz(v)})" for k, v in extras)}].

(* unit_input : None | a str (str(x) of a str is x); the star-unpacking `pref, *suff = s` takes the
   first character and joins the rest *)
Definition get_unit_factor (unit_input : option pystr) (target_unit : pystr) (deci_centi : bool) : uf_result :=
  if (match unit_input with None => true | Some u => str_eqb u target_unit end) then UF_one else
  let pref : pystr := [] in
  let suff : pystr := [] in
  let factor_power : option Z := None in
  let prefs := unit_prefix_reversed in
  let prefs := if deci_centi then prefs ++ uf_extra_prefixes else prefs in
  let unit_input_str : pystr := match unit_input with Some u => u | None => [78; 111; 110; 101] end in
  let '(pref, suff, factor_power) :=
    if negb (str_len unit_input_str =? 0) then
      let '(pref, suff) :=
        if str_len unit_input_str >=? {split_len} then (firstn 1 unit_input_str, skipn 1 unit_input_str)
        else (pref, suff) in
      let factor_power := if str_eqb suff target_unit then dict_get prefs pref else factor_power in
      (pref, suff, factor_power)
    else (pref, suff, factor_power) in
  match factor_power with
  | None => UF_invalid
  | Some p => if str_len unit_input_str >? {max_len} then UF_invalid else UF_power p
  end.
""")

    # ---- unit_prefix: which table entry 'auto' picks for a number with int(log10(|x|)) = t
    fn = get_function(upath, "unit_prefix")
    body = strip_doc(fn.body)
    if len(body) < 2:
        raise Untranslatable("unit_prefix: too short")
    try:
        div = int_const(body[0].value.body.left.right, "digits divisor")
        mul = int_const(body[0].value.body.right, "digits multiplier")
        dflt = str_const(body[1].value.args[1], "prefix default")
    except (AttributeError, IndexError) as e:
        raise Untranslatable(f"unit_prefix: unknown shape ({e})") from e
    same(body[:2], f"""
digits = int(log10(abs(number))) // {div} * {mul} if number != 0 else 0
prefix = _UNIT_PREFIX.get(digits, {dflt!r})
""", "unit_prefix")
    if div <= 0:
        raise Untranslatable("unit_prefix: non-positive divisor")
    for s in body[2:]:
        for n in ast.walk(s):
            if isinstance(n, ast.Name) and n.id == "prefix" and isinstance(n.ctx, ast.Store):
                raise Untranslatable("unit_prefix: prefix is reassigned")
    out.append(f"""(* unit_prefix: digits = int(log10(|x|)) // {div} * {mul}; prefix = _UNIT_PREFIX.get(digits, {dflt!r}) *)
Definition auto_digits (t : Z) : Z := t / {div} * {mul}.
Definition auto_prefix (t : Z) : pystr :=
  match zdict_get unit_prefix_table (auto_digits t) with Some p => p | None => {cstr(dflt)} end.
""")

    # ---- the call sites in get_frames: f"{{unit_prefix(rmax, as_tuple=True)[2]}}m", target_unit="m"
    gpath = os.path.join(repo, "magpylib/_src/display/traces_generic.py")
    gf = get_function(gpath, "get_frames")
    calls = [n for n in ast.walk(gf) if isinstance(n, ast.Call) and isinstance(n.func, ast.Name)
             and n.func.id == "get_unit_factor"]
    if len(calls) != 1:
        raise Untranslatable(f"get_frames: {len(calls)} calls of get_unit_factor, expected 1")
    c = calls[0]
    if len(c.args) != 1 or not isinstance(c.args[0], ast.Name) or c.args[0].id != "units_length" \
            or [k.arg for k in c.keywords] != ["target_unit"]:
        raise Untranslatable("get_frames: get_unit_factor call has an unknown shape")
    target = str_const(c.keywords[0].value, "target_unit")
    autos = [n for n in ast.walk(gf) if isinstance(n, ast.Assign) and len(n.targets) == 1
             and isinstance(n.targets[0], ast.Name) and n.targets[0].id == "units_length"
             and isinstance(n.value, ast.JoinedStr)]
    if len(autos) != 1:
        raise Untranslatable("get_frames: automatic units_length assignment not found")
    js = autos[0].value
    exp = ast.parse('f"{unit_prefix(rmax, as_tuple=True)[2]}X"').body[0].value
    if len(js.values) != 2:
        raise Untranslatable("get_frames: automatic units_length has an unknown shape")
    suffix = str_const(js.values[1], "auto unit suffix")
    exp.values[1] = ast.Constant(value=suffix)
    if ast.dump(js) != ast.dump(exp):
        raise Untranslatable("get_frames: automatic units_length has an unknown shape")
    out.append(f"""(* get_frames: units_length = f"{{unit_prefix(rmax, as_tuple=True)[2]}}{suffix}" when 'auto';
   scale factor = get_unit_factor(units_length, target_unit={target!r}) *)
Definition display_target_unit : pystr := {cstr(target)}.
Definition auto_unit_suffix : pystr := {cstr(suffix)}.
Definition auto_units_length (t : Z) : pystr := auto_prefix t ++ auto_unit_suffix.
Definition display_unit_factor (units_length : pystr) : uf_result :=
  get_unit_factor (Some units_length) display_target_unit true.
""")
    return "\n".join(out)
