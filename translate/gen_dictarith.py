"""GenDictArith.v (C07): every statement of getBH_dict_level2 (fields/field_wrap_BH.py), in source order, as
        (function, kind, target, expression)
with the expression translated node by node into the deep embedding `pyexp` of Model/L2Arith.v (the expression
translator `exp` of translate/gen_l2arith.py is reused unchanged).  kind is assign / if / else / for / try / except /
raise / return / expr.  These are the statements that carry the ranks, lengths, tiling factors, the squeeze and the
ragged test of the functional interface: the base rank table, `expected_dim = table.get(key, 1)`, the ragged test, the
`len(val) == 1` squeeze, the vec_lengths collection, `len(set(...)) > 1`, `vec_len = max(..., default=1)`, the tiling
loop, the final squeeze.

Fail closed: any statement kind or expression node outside this subset raises Untranslatable.
Proofs/DictArithProofs.v proves `dict_arith = expected_dict_arith` (a reviewed table) by reflexivity and evaluates the
translated conditions / tiling factors to show that they are the ones of the hand model Model/DictIface.v.
"""
import ast
import os

from .py2coq import Untranslatable, strip_doc
from .gen_l2arith import exp, q

FILE = "magpylib/_src/fields/field_wrap_BH.py"
FUNC = "getBH_dict_level2"


def walk(stmts, out):
    for s in stmts:
        if isinstance(s, ast.Assign):
            out.append(("assign", " = ".join(ast.unparse(t) for t in s.targets), exp(s.value)))
        elif isinstance(s, ast.If):
            out.append(("if", "", exp(s.test)))
            walk(s.body, out)
            if s.orelse:
                out.append(("else", "", "PNone"))
                walk(s.orelse, out)
            out.append(("endif", "", "PNone"))
        elif isinstance(s, ast.For):
            if s.orelse:
                raise Untranslatable("for-else")
            out.append(("for", ast.unparse(s.target), exp(s.iter)))
            walk(s.body, out)
            out.append(("endfor", "", "PNone"))
        elif isinstance(s, ast.Try):
            if s.orelse or s.finalbody:
                raise Untranslatable("try with else/finally")
            out.append(("try", "", "PNone"))
            walk(s.body, out)
            for h in s.handlers:
                if h.type is None:
                    raise Untranslatable("bare except")
                out.append(("except", ast.unparse(h.type), "PNone"))
                walk(h.body, out)
            out.append(("endtry", "", "PNone"))
        elif isinstance(s, ast.Raise):
            if not (isinstance(s.exc, ast.Call) and isinstance(s.exc.func, ast.Name)):
                raise Untranslatable("raise " + ast.unparse(s)[:60])
            out.append(("raise", s.exc.func.id, "PNone"))
        elif isinstance(s, ast.Return):
            out.append(("return", "", exp(s.value) if s.value is not None else "PNone"))
        elif isinstance(s, ast.Expr):
            if isinstance(s.value, ast.Constant) and isinstance(s.value.value, str):
                continue        # comment string
            out.append(("expr", "", exp(s.value)))
        else:
            raise Untranslatable(f"{FUNC}: statement kind {type(s).__name__}: {ast.unparse(s)[:60]}")


def entries(repo):
    tree = ast.parse(open(os.path.join(repo, FILE)).read())
    fns = [n for n in tree.body if isinstance(n, ast.FunctionDef) and n.name == FUNC]
    if len(fns) != 1:
        raise Untranslatable(f"{FUNC}: {len(fns)} definitions")
    fn = fns[0]
    a = fn.args
    sig = ([x.arg for x in a.args], [x.arg for x in a.kwonlyargs],
           [None if d is None else ast.unparse(d) for d in a.kw_defaults], a.kwarg and a.kwarg.arg)
    want = (["source_type", "observers"], ["field", "position", "orientation", "squeeze", "in_out"],
            [None, "(0, 0, 0)", "R.identity()", "True", "'auto'"], "kwargs")
    if sig != want or a.vararg or a.defaults:
        raise Untranslatable(f"{FUNC}: signature {sig}")
    out = []
    walk(strip_doc(fn.body), out)
    return out


HEADER = """(* GENERATED on every run from the implementation by translate/gen_dictarith.py -- do not edit *)
From Coq Require Import ZArith List String.
From MV Require Import Model.L2Arith.
Import ListNotations.
Open Scope string_scope.
Open Scope Z_scope.

"""


def generate(repo):
    rows = [f"  ({q(FUNC)}, {q(k)}, {q(t)},\n     {e})" for (k, t, e) in entries(repo)]
    return HEADER + "Definition dict_arith : list (string * string * string * pyexp) := [\n" + ";\n".join(rows) + "].\n"
