"""GenDictArith.v (C07): every statement of getBH_dict_level2 (fields/field_wrap_BH.py), in source order, as
        (function, kind, target, expression)
with the expression translated node by node into the deep embedding `pyexp` of Model/L2Arith.v (the expression
translator `exp` of translate/gen_l2arith.py is reused unchanged).  kind is assign / if / else / for / try / except /
raise / return / expr.  These are the statements that carry the ranks, lengths, tiling factors, the squeeze and the
ragged test of the functional interface: the base rank table, `expected_dim = table.get(key, 1)`, the ragged test, the
`len(val) == 1` squeeze, the vec_lengths collection, `len(set(...)) > 1`, `vec_len = max(..., default=1)`, the tiling
loop, the final squeeze.

Fail closed: any statement kind or expression node outside this subset raises Untranslatable.
Proofs/DictArithProofs.v proves `dict_arith = expected_dict_arith` (a reviewed table) by reflexivity and evaluates the
translated conditions / tiling factors to show that they are the ones of the hand model Model/DictIface.v.
"""
import ast
import os

from .py2coq import Untranslatable, strip_doc
from .gen_l2arith import exp, q

FILE = "magpylib/_src/fields/field_wrap_BH.py"
FUNC = "getBH_dict_level2"


def walk(stmts, out):
    for s in stmts:
        if isinstance(s, ast.Assign):
            out.append(("assign", " = ".join(ast.unparse(t) for t in s.targets), exp(s.value)))
        elif isinstance(s, ast.If):
            out.append(("if", "", exp(s.test)))
            walk(s.body, out)
            if s.orelse:
                out.append(("else", "", "PNone"))
                walk(s.orelse, out)
            out.append(("endif", "", "PNone"))
        elif isinstance(s, ast.For):
            if s.orelse:
                raise Untranslatable("for-else")
            out.append(("for", ast.unparse(s.target), exp(s.iter)))
            walk(s.body, out)
            out.append(("endfor", "", "PNone"))
        elif isinstance(s, ast.Try):
            if s.orelse or s.finalbody:
                raise Untranslatable("try with else/finally")
            out.append(("try", "", "PNone"))
            walk(s.body, out)
            for h in s.handlers:
                if h.type is None:
                    raise Untranslatable("bare except")
                out.append(("except", ast.unparse(h.type), "PNone"))
                walk(h.body, out)
            out.append(("endtry", "", "PNone"))
        elif isinstance(s, ast.Raise):
            if not (isinstance(s.exc, ast.Call) and isinstance(s.exc.func, ast.Name)):
                raise Untranslatable("raise " + ast.unparse(s)[:60])
            out.append(("raise", s.exc.func.id, "PNone"))
        elif isinstance(s, ast.Return):
            out.append(("return", "", exp(s.value) if s.value is not None else "PNone"))
        elif isinstance(s, ast.Expr):
            if isinstance(s.value, ast.Constant) and isinstance(s.value.value, str):
                continue        # comment string
            out.append(("expr", "", exp(s.value)))
        elif isinstance(s, (ast.Import, ast.ImportFrom)):
            continue
        else:
            raise Untranslatable(f"{FUNC}: statement kind {type(s).__name__}: {ast.unparse(s)[:60]}")


def entries(repo):
    tree = ast.parse(open(os.path.join(repo, FILE)).read())
    fns = [n for n in tree.body if isinstance(n, ast.FunctionDef) and n.name == FUNC]
    if len(fns) != 1:
        raise Untranslatable(f"{FUNC}: {len(fns)} definitions")
    fn = fns[0]
    a = fn.args
    sig = ([x.arg for x in a.args], [x.arg for x in a.kwonlyargs],
           [None if d is None else ast.unparse(d) for d in a.kw_defaults], a.kwarg and a.kwarg.arg)
    want = (["source_type", "observers"], ["field", "position", "orientation", "squeeze", "in_out"],
            [None, "(0, 0, 0)", "R.identity()", "True", "'auto'"], "kwargs")
    if sig != want or a.vararg or a.defaults:
        raise Untranslatable(f"{FUNC}: signature {sig}")
    out = []
    walk(strip_doc(fn.body), out)
    return out


HEADER = """(* GENERATED on every run from the implementation by translate/gen_dictarith.py -- do not edit *)
From Coq Require Import ZArith List String.
From MV Require Import Model.L2Arith.
Import ListNotations.
Open Scope string_scope.
Open Scope Z_scope.

"""


def observers_entries(repo):
    """check_format_input_observers (input_checks.py): how a mixed observer list becomes the ordered sensor list"""
    tree = ast.parse(open(os.path.join(repo, "magpylib/_src/input_checks.py")).read())
    fns = [n for n in tree.body if isinstance(n, ast.FunctionDef) and n.name == "check_format_input_observers"]
    if len(fns) != 1 or [x.arg for x in fns[0].args.args] != ["inp", "pixel_agg"]:
        raise Untranslatable("check_format_input_observers: definition / signature")
    out = []
    walk(strip_doc(fns[0].body), out)
    return out


def reduce_entries(repo):
    """_getBH_level2: the block that sums the rows of each Collection (source-row bookkeeping)"""
    tree = ast.parse(open(os.path.join(repo, FILE)).read())
    fns = [n for n in tree.body if isinstance(n, ast.FunctionDef) and n.name == "_getBH_level2"]
    if len(fns) != 1:
        raise Untranslatable("_getBH_level2 not found")
    blocks = [n for n in ast.walk(fns[0]) if isinstance(n, ast.If)
              and ast.unparse(n.test) == "num_of_src_list > num_of_sources"]
    if len(blocks) != 1:
        raise Untranslatable("_getBH_level2: the collection-reduction block was not found")
    out = []
    walk([blocks[0]], out)
    # B must not be assigned between this block and the sensor loop other than inside it
    return out


def table(name, fname, es):
    rows = [f"  ({q(fname)}, {q(k)}, {q(t)},\n     {e})" for (k, t, e) in es]
    return f"Definition {name} : list (string * string * string * pyexp) := [\n" + ";\n".join(rows) + "].\n"


def generate(repo):
    return (HEADER + table("dict_arith", FUNC, entries(repo)) + "\n"
            + table("observers_arith", "check_format_input_observers", observers_entries(repo)) + "\n"
            + table("reduce_arith", "_getBH_level2", reduce_entries(repo)))
