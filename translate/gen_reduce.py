"""GenReduce.v: the collection slice-sum loop and the sumup statement of `_getBH_level2`
(/repo/magpylib/_src/fields/field_wrap_BH.py), translated statement by statement into Gallina over
the list primitives of Lib/ListIdx.v (set_nth, delete_range, firstn/skipn for slices).

Fail closed: the guard, the loop header, the isinstance test, the col_len definition and the kinds
of the body statements are compared with the shapes this translator knows; the INDEX ARITHMETIC of
the slices (src_ind, col_len, integer literals, + and -) is translated as written, so an edit of a
bound gives a different Gallina term and breaks the proof `gen_reduce_loop = reduce_loop`.
"""
import ast
import os

from .py2coq import Untranslatable, get_function

HEADER = """(* GENERATED on every run from /repo by translate/gen_reduce.py -- do not edit *)
From Coq Require Import List Arith Bool.
From MV Require Import Lib.Rigid Lib.ListIdx Model.Level2Model.
Import ListNotations.

Section GenReduce.
Context {O : RigidOps}.
Variable P : Type.
"""


def dump(n):
    return ast.dump(n)[:160]


def expect(cond, node, what):
    if not cond:
        raise Untranslatable(f"{what}: unexpected {dump(node)}")


def is_name(n, name):
    return isinstance(n, ast.Name) and n.id == name


def idx(n):
    """index arithmetic over nat: src_ind -> i, col_len, literals, + and - (as written)"""
    if is_name(n, "src_ind"):
        return "i"
    if is_name(n, "col_len"):
        return "col_len"
    if isinstance(n, ast.Constant) and type(n.value) is int and n.value >= 0:
        return str(n.value)
    if isinstance(n, ast.BinOp) and isinstance(n.op, (ast.Add, ast.Sub)):
        return f"({idx(n.left)} {'+' if isinstance(n.op, ast.Add) else '-'} {idx(n.right)})"
    raise Untranslatable(f"index expression: unexpected {dump(n)}")


def is_attr(n, mod, name):
    return isinstance(n, ast.Attribute) and n.attr == name and is_name(n.value, mod)


def slice_bounds(s, what):
    expect(isinstance(s, ast.Slice) and s.lower is not None and s.upper is not None and s.step is None, s, what)
    return idx(s.lower), idx(s.upper)


def kw(call, name):
    for k in call.keywords:
        if k.arg == name:
            return k.value
    return None


def stmt(st, cur):
    """one statement of the `if isinstance(src, Collection)` body -> Gallina term for the new B"""
    expect(isinstance(st, ast.Assign) and len(st.targets) == 1, st, "loop body statement")
    tgt, val = st.targets[0], st.value
    # B[<i>] = np.sum(B[<lo>:<hi>], axis=0)
    if isinstance(tgt, ast.Subscript) and is_name(tgt.value, "B"):
        expect(isinstance(val, ast.Call) and is_attr(val.func, "np", "sum") and len(val.args) == 1
               and len(val.keywords) == 1, val, "slice sum")
        ax = kw(val, "axis")
        expect(isinstance(ax, ast.Constant) and ax.value == 0, val, "slice sum axis")
        arg = val.args[0]
        expect(isinstance(arg, ast.Subscript) and is_name(arg.value, "B"), arg, "slice sum argument")
        lo, hi = slice_bounds(arg.slice, "slice sum bounds")
        return f"set_nth {idx(tgt.slice)} (sum_blocks (firstn ({hi} - {lo}) (skipn {lo} {cur}))) {cur}"
    # B = np.delete(B, np.s_[<lo>:<hi>], 0)
    if is_name(tgt, "B"):
        expect(isinstance(val, ast.Call) and is_attr(val.func, "np", "delete") and len(val.args) == 3
               and not val.keywords, val, "delete")
        a0, a1, a2 = val.args
        expect(is_name(a0, "B"), a0, "delete array")
        expect(isinstance(a2, ast.Constant) and a2.value == 0, a2, "delete axis")
        expect(isinstance(a1, ast.Subscript) and is_attr(a1.value, "np", "s_"), a1, "delete index")
        lo, hi = slice_bounds(a1.slice, "delete bounds")
        return f"delete_range {lo} {hi} {cur}"
    raise Untranslatable(f"loop body statement: unexpected {dump(st)}")


def generate(repo):
    path = os.path.join(repo, "magpylib", "_src", "fields", "field_wrap_BH.py")
    fn = get_function(path, "_getBH_level2")
    # the two counters
    seen = {}
    for st in ast.walk(fn):
        if isinstance(st, ast.Assign) and len(st.targets) == 1 and isinstance(st.targets[0], ast.Name) \
                and st.targets[0].id in ("num_of_sources", "num_of_src_list"):
            v = st.value
            expect(isinstance(v, ast.Call) and is_name(v.func, "len") and len(v.args) == 1
                   and isinstance(v.args[0], ast.Name), st, "counter definition")
            expect(st.targets[0].id not in seen, st, "counter defined twice")
            seen[st.targets[0].id] = v.args[0].id
    if seen != {"num_of_sources": "sources", "num_of_src_list": "src_list"}:
        raise Untranslatable(f"counters: {seen}")
    guards = [st for st in ast.walk(fn) if isinstance(st, ast.If) and isinstance(st.test, ast.Compare)
              and is_name(st.test.left, "num_of_src_list")]
    if len(guards) != 1:
        raise Untranslatable(f"expected one `num_of_src_list > num_of_sources` guard, found {len(guards)}")
    g = guards[0]
    expect(len(g.test.ops) == 1 and isinstance(g.test.ops[0], ast.Gt) and is_name(g.test.comparators[0], "num_of_sources")
           and not g.orelse and len(g.body) == 1, g, "guard")
    loop = g.body[0]
    expect(isinstance(loop, ast.For) and not loop.orelse and isinstance(loop.target, ast.Tuple)
           and [getattr(e, "id", None) for e in loop.target.elts] == ["src_ind", "src"]
           and isinstance(loop.iter, ast.Call) and is_name(loop.iter.func, "enumerate")
           and len(loop.iter.args) == 1 and is_name(loop.iter.args[0], "sources") and not loop.iter.keywords
           and len(loop.body) == 1, loop, "loop header")
    test = loop.body[0]
    expect(isinstance(test, ast.If) and not test.orelse and isinstance(test.test, ast.Call)
           and is_name(test.test.func, "isinstance") and len(test.test.args) == 2
           and is_name(test.test.args[0], "src") and is_name(test.test.args[1], "Collection"), test, "isinstance test")
    body = list(test.body)
    first = body.pop(0)
    # col_len = len(format_obj_input(src, allow="sources"))
    ok = (isinstance(first, ast.Assign) and len(first.targets) == 1 and is_name(first.targets[0], "col_len")
          and isinstance(first.value, ast.Call) and is_name(first.value.func, "len") and len(first.value.args) == 1)
    inner = first.value.args[0] if ok else None
    ok = ok and isinstance(inner, ast.Call) and is_name(inner.func, "format_obj_input") and len(inner.args) == 1 \
        and is_name(inner.args[0], "src") and len(inner.keywords) == 1 and inner.keywords[0].arg == "allow" \
        and isinstance(inner.keywords[0].value, ast.Constant) and inner.keywords[0].value.value == "sources"
    expect(ok, first, "col_len definition")
    if not body:
        raise Untranslatable("empty collection branch")
    lets, cur = [], "B"
    for k, st in enumerate(body):
        lets.append(f"        let B{k + 1} := {stmt(st, cur)} in")
        cur = f"B{k + 1}"
    # sumup: `if sumup: B = np.sum(B, axis=0, keepdims=True)`
    sums = [st for st in ast.walk(fn) if isinstance(st, ast.If) and is_name(st.test, "sumup")]
    if len(sums) != 1:
        raise Untranslatable(f"expected one `if sumup:` statement, found {len(sums)}")
    s = sums[0]
    expect(not s.orelse and len(s.body) == 1 and isinstance(s.body[0], ast.Assign) and is_name(s.body[0].targets[0], "B"),
           s, "sumup statement")
    v = s.body[0].value
    ax, kd = (kw(v, "axis"), kw(v, "keepdims")) if isinstance(v, ast.Call) else (None, None)
    expect(isinstance(v, ast.Call) and is_attr(v.func, "np", "sum") and len(v.args) == 1 and is_name(v.args[0], "B")
           and len(v.keywords) == 2 and isinstance(ax, ast.Constant) and ax.value == 0
           and isinstance(kd, ast.Constant) and kd.value is True, v, "sumup expression")
    out = HEADER
    out += "\n(* for src_ind, src in enumerate(sources): if isinstance(src, Collection): ... *)\n"
    out += "Fixpoint gen_reduce_loop (srcs : list (srcin P)) (i : nat) (B : list block) : list block :=\n"
    out += "  match srcs with\n  | [] => B\n  | s :: rest =>\n"
    out += "      let B' := match s with\n"
    out += "        | Coll ls =>\n        let col_len := length ls in\n" + "\n".join(lets) + f"\n        {cur}\n"
    out += "        | Bare _ => B\n        end in\n"
    out += "      gen_reduce_loop rest (S i) B'\n  end.\n\n"
    out += "(* if num_of_src_list > num_of_sources: <loop> *)\n"
    out += "Definition gen_reduce_collections (srcs : list (srcin P)) (B : list block) : list block :=\n"
    out += "  if length srcs <? length (src_list srcs) then gen_reduce_loop srcs 0 B else B.\n\n"
    out += "(* if sumup: B = np.sum(B, axis=0, keepdims=True) *)\n"
    out += "Definition gen_sumup (sumup : bool) (o : out_t) : out_t := if sumup then sum_out o else o.\n\n"
    out += "End GenReduce.\n"
    return out
