"""GenL2Flow.v: the state-relevant skeleton of getBH_level2 / _getBH_level2
(/repo/magpylib/_src/fields/field_wrap_BH.py) for property C08.

Emits (a) the shape of the public wrapper `getBH_level2` (plain body, or `tiled = []; try: return
_getBH_level2(.., tiled, ..) finally: trim every (obj, m0) in tiled`) and (b) one instruction of
Model/Level2State.v per top-level statement of the body function, in source order.

Fail closed:
  * the statements that touch object state (path-length bookkeeping, `tiled.extend`, the tiling loop,
    the reset loop, the wrapper's finally) must be VERBATIM the ones this translator knows;
  * everywhere else in the body and in the level-1 helpers no attribute may be assigned, subscript
    stores are allowed on the function's own arrays only, and only calls on a fixed list of names
    may occur; the validators / formatters the body calls are scanned for attribute stores too;
  * any top-level statement that matches no rule raises Untranslatable.
`flow(repo)` returns the same information (plus the line range of every instruction) to the harness.
"""
import ast
import os

from .py2coq import Untranslatable

FILE = "magpylib/_src/fields/field_wrap_BH.py"


def _dump(node):
    return ast.dump(node, annotate_fields=False, include_attributes=False)


def _tmpl(src):
    return _dump(ast.parse(src).body[0])


T_TILED_INIT = _tmpl("tiled = []")
T_FINALLY = _tmpl(
    "for obj, m0 in tiled:\n"
    "    obj._position = obj._position[:m0]\n"
    "    obj._orientation = obj._orientation[:m0]\n")
T_OBJ_LIST = _tmpl("obj_list = set(src_list + sensors)")
T_PATH_LENS = _tmpl("path_lengths = [len(obj._position) for obj in obj_list]")
T_MAX = _tmpl("max_path_len = max(path_lengths)")
T_MASK = _tmpl("mask_reset = [max_path_len != pl for pl in path_lengths]")
T_RESET_OBJ = _tmpl("reset_obj = [obj for obj, mask in zip(obj_list, mask_reset) if mask]")
T_RESET_M0 = _tmpl("reset_obj_m0 = [pl for pl, mask in zip(path_lengths, mask_reset) if mask]")
T_RECORD = _tmpl("tiled.extend(zip(reset_obj, reset_obj_m0))")
# the variant that saves the original path objects (proposed_fixes/C08-restore-original-path-objects.diff)
T_FINALLY_RESTORE = _tmpl(
    "for obj, pos0, ori0 in tiled:\n"
    "    obj._position = pos0\n"
    "    obj._orientation = ori0\n")
T_RECORD_ORIG = _tmpl("tiled.extend((obj, obj._position, obj._orientation) for obj in reset_obj)")
T_TILE = _tmpl(
    "if max_path_len > 1:\n"
    "    for obj, m0 in zip(reset_obj, reset_obj_m0):\n"
    "        m_tile = max_path_len - m0\n"
    "        tile_pos = np.tile(obj._position[-1], (m_tile, 1))\n"
    "        obj._position = np.concatenate((obj._position, tile_pos))\n"
    "        tile_orient = np.tile(obj._orientation.as_quat()[-1], (m_tile, 1))\n"
    "        tile_orient = np.concatenate((obj._orientation.as_quat(), tile_orient))\n"
    "        obj._orientation = R.from_quat(tile_orient)\n")
T_TRIM = _tmpl(
    "for obj, m0 in zip(reset_obj, reset_obj_m0):\n"
    "    obj._position = obj._position[:m0]\n"
    "    obj._orientation = obj._orientation[:m0]\n")

BOOKKEEPING = {T_OBJ_LIST: "IPure", T_PATH_LENS: "IPathLens", T_MAX: "IPure", T_MASK: "IPure",
               T_RESET_OBJ: "IPure", T_RESET_M0: "IPure"}
BOOK_ORDER = [T_OBJ_LIST, T_PATH_LENS, T_MAX, T_MASK, T_RESET_OBJ, T_RESET_M0]
BOOK_NAMES = {"obj_list", "path_lengths", "max_path_len", "mask_reset", "reset_obj", "reset_obj_m0", "tiled"}

LOCAL_ARRAYS = {"B", "field_func_groups", "df", "kwargs", "vec_lengths", "ragged_seq"}

CALLS_BODY = {
    ".DataFrame", ".append", ".apply", ".array", ".as_quat", ".concatenate", ".cumsum", ".delete", ".empty",
    ".expand_dims", ".extend", ".from_quat", ".inv", ".items", ".keys", ".prod", ".repeat", ".reshape",
    ".split", ".squeeze", ".sum", ".tile", ".warn", "MagpylibBadUserInput", "MagpylibMissingInput", "all",
    "any", "check_dimensions", "check_excitations", "check_format_input_observers", "check_format_pixel_agg",
    "check_getBH_output_type", "check_static_sensor_orient", "enumerate", "format_obj_input",
    "format_src_inputs", "getBH_dict_level2", "getBH_level1", "get_src_dict", "int", "isinstance", "len",
    "max", "pixel_agg_func", "product", "range", "set", "slice", "tuple", "zip"}
CALLS_HELPERS = {
    "tile_group_property": {".array", ".asarray", ".isscalar", ".repeat", "any", "getattr"},
    "get_src_dict": {".array", ".as_quat", ".from_quat", ".reshape", ".tile", "hasattr", "len",
                     "tile_group_property"},
    "getBH_level1": {".apply", ".pop", "field_func", "has_parameter"},
    "getBH_dict_level2": {".array", ".as_quat", ".from_quat", ".get", ".identity", ".items", ".squeeze", ".tile",
                          ".update", ".values", "MagpylibBadUserInput", "any", "getBH_level1",
                          "get_registered_sources", "isinstance", "len", "list", "max", "set"},
}
# validators / formatters called with the user's objects: must not assign attributes at all
FOREIGN = {
    "magpylib/_src/utility.py": ["format_src_inputs", "format_obj_input", "filter_objects",
                                 "check_static_sensor_orient", "has_parameter"],
    "magpylib/_src/input_checks.py": ["check_dimensions", "check_excitations", "check_format_pixel_agg",
                                      "check_format_input_observers", "check_getBH_output_type", "all_same"],
}


def _functions(tree):
    return {n.name: n for n in tree.body if isinstance(n, ast.FunctionDef)}


def _call_name(call):
    f = call.func
    if isinstance(f, ast.Name):
        return f.id
    if isinstance(f, ast.Attribute):
        return "." + f.attr
    return "?"


def _store_targets(fn):
    out = []

    def flat(t):
        if isinstance(t, (ast.Tuple, ast.List)):
            for e in t.elts:
                flat(e)
        elif isinstance(t, ast.Starred):
            flat(t.value)
        else:
            out.append(t)
    for n in ast.walk(fn):
        if isinstance(n, ast.Assign):
            for t in n.targets:
                flat(t)
        elif isinstance(n, (ast.AugAssign, ast.AnnAssign, ast.NamedExpr)):
            flat(n.target)
        elif isinstance(n, (ast.For, ast.AsyncFor, ast.comprehension)):
            flat(n.target)
        elif isinstance(n, ast.Delete):
            for t in n.targets:
                flat(t)
        elif isinstance(n, ast.withitem) and n.optional_vars is not None:
            flat(n.optional_vars)
        elif isinstance(n, (ast.Global, ast.Nonlocal)):
            raise Untranslatable(f"{fn.name}: global/nonlocal statement")
    return out


def _base_name(t):
    while isinstance(t, (ast.Subscript, ast.Attribute)):
        t = t.value
    return t.id if isinstance(t, ast.Name) else None


def _scan_effects(fn, allowed_attr_stores, calls):
    """no attribute stores beyond the verbatim ones, subscript stores on own arrays only, known calls only"""
    attr = 0
    for t in _store_targets(fn):
        if isinstance(t, ast.Name):
            continue
        if isinstance(t, ast.Attribute):
            attr += 1
            continue
        if isinstance(t, ast.Subscript):
            if isinstance(t.value, ast.Name) and t.value.id in LOCAL_ARRAYS:
                continue
            if isinstance(t.value, ast.Subscript) and _base_name(t) in LOCAL_ARRAYS \
                    and not any(isinstance(x, ast.Attribute) for x in ast.walk(t.value)):
                continue
            raise Untranslatable(f"{fn.name}: store into {_dump(t)[:100]}")
        raise Untranslatable(f"{fn.name}: unknown store target {_dump(t)[:100]}")
    if attr != allowed_attr_stores:
        raise Untranslatable(f"{fn.name}: {attr} attribute assignments, the model knows {allowed_attr_stores}")
    if calls is not None:
        for n in ast.walk(fn):
            if isinstance(n, ast.Call) and _call_name(n) not in calls:
                raise Untranslatable(f"{fn.name}: call of {_call_name(n)!r} is not known to the model")


def _is_call(node, name, nargs=None):
    return isinstance(node, ast.Call) and _call_name(node) == name and (nargs is None or len(node.args) == nargs)


def _names(t):
    if isinstance(t, ast.Name):
        return [t.id]
    if isinstance(t, ast.Tuple) and all(isinstance(e, ast.Name) for e in t.elts):
        return [e.id for e in t.elts]
    return None


def _contains(stmt, pred):
    return any(pred(n) for n in ast.walk(stmt))


def _classify(st, seen):
    d = _dump(st)
    if d in BOOKKEEPING:
        return BOOKKEEPING[d]
    if d == T_RECORD:
        return "IRecord"
    if d == T_RECORD_ORIG:
        return "IRecordOrig"
    if d == T_TILE:
        return "ITile"
    if d == T_TRIM:
        return "ITrim"
    if isinstance(st, ast.If):
        t = _dump(st.test)
        if t == _dump(ast.parse("isinstance(sources, str)").body[0].value):
            if len(st.body) == 1 and isinstance(st.body[0], ast.Return) and _is_call(st.body[0].value, "getBH_dict_level2") \
                    and not st.orelse:
                return "IDict"
        elif t == _dump(ast.parse("kwargs").body[0].value):
            if len(st.body) == 1 and isinstance(st.body[0], ast.Raise) and not st.orelse:
                return "IKwargs"
        elif t == _dump(ast.parse("in_out != 'auto'").body[0].value) or t == _dump(ast.parse("field == 'B'").body[0].value):
            return "IWarn"
        elif t == _dump(ast.parse("num_of_src_list > num_of_sources").body[0].value):
            return "IReduce"
        elif t == _dump(ast.parse("pix_all_same").body[0].value):
            return "IAggregate"
        elif t == _dump(ast.parse("sumup").body[0].value):
            return "ISumup"
        elif t == _dump(ast.parse("output == 'dataframe'").body[0].value):
            if isinstance(st.body[-1], ast.Return) and not st.orelse:
                return "IDataframe"
        elif t == _dump(ast.parse("squeeze").body[0].value):
            return "ISqueeze"
        raise Untranslatable(f"line {st.lineno}: unknown `if` statement")
    if isinstance(st, ast.For):
        tg, it = _names(st.target), st.iter
        if tg == ["ind", "src"] and _dump(it) == _dump(ast.parse("enumerate(src_list)").body[0].value):
            if _contains(st, lambda n: isinstance(n, ast.Raise)):
                return "IGroupKeys"
        elif tg == ["field_func", "group"] and _dump(it) == _dump(ast.parse("field_func_groups.items()").body[0].value):
            if _contains(st, lambda n: _is_call(n, "getBH_level1")) and _contains(st, lambda n: isinstance(n, ast.Raise)):
                return "IEval"
        elif tg == ["sens_ind", "sens"] and _dump(it) == _dump(ast.parse("enumerate(sensors)").body[0].value):
            return "IRotate"
        raise Untranslatable(f"line {st.lineno}: unknown `for` loop")
    if isinstance(st, ast.Expr) and isinstance(st.value, ast.Call):
        if _dump(st) == _tmpl("check_dimensions(src_list)"):
            return "ICheckDim"
        if _dump(st) == _tmpl("check_excitations(src_list)"):
            return "ICheckExc"
        raise Untranslatable(f"line {st.lineno}: unknown call statement {_call_name(st.value)}")
    if isinstance(st, ast.Assign) and len(st.targets) == 1:
        tg = _names(st.targets[0])
        if tg is None:
            raise Untranslatable(f"line {st.lineno}: assignment to a non-name at top level")
        if set(tg) & BOOK_NAMES:
            raise Untranslatable(f"line {st.lineno}: unexpected assignment to {tg}")
        if d == _tmpl("sources, src_list = format_src_inputs(sources)"):
            return "IFormatSrc"
        if d == _tmpl("pixel_agg_func = check_format_pixel_agg(pixel_agg)"):
            return "IPixAgg"
        if d == _tmpl("sensors, pix_shapes = check_format_input_observers(observers, pixel_agg)"):
            return "IObservers"
        if d == _tmpl("output = check_getBH_output_type(output)"):
            return "IOutput"
        for landmark in ("format_src_inputs", "check_format_pixel_agg", "check_format_input_observers",
                         "check_getBH_output_type", "getBH_level1", "get_src_dict"):
            if _contains(st, lambda n, lm=landmark: _is_call(n, lm)):
                raise Untranslatable(f"line {st.lineno}: unexpected use of {landmark}")
        if tg == ["poso"] and "poso" not in seen:
            seen.add("poso")
            return "IPoso"
        return "IPure"
    if isinstance(st, ast.Return):
        if _dump(st) == _tmpl("return B"):
            return "IReturn"
    raise Untranslatable(f"line {st.lineno}: statement of kind {type(st).__name__} not known to the model")


def _strip(body):
    out = []
    for st in body:
        if isinstance(st, ast.Expr) and isinstance(st.value, ast.Constant) and isinstance(st.value.value, str):
            continue
        if isinstance(st, (ast.Import, ast.ImportFrom, ast.Pass)):
            continue
        out.append(st)
    return out


def flow(repo):
    path = os.path.join(repo, FILE)
    tree = ast.parse(open(path).read())
    fns = _functions(tree)
    if "getBH_level2" not in fns:
        raise Untranslatable("getBH_level2 not found")
    pub = fns["getBH_level2"]
    pbody = _strip(pub.body)
    has_try = any(isinstance(s, ast.Try) for s in pbody)
    if has_try:
        if "_getBH_level2" not in fns:
            raise Untranslatable("try statement in getBH_level2 but no _getBH_level2")
        if len(pbody) != 2 or _dump(pbody[0]) != T_TILED_INIT or not isinstance(pbody[1], ast.Try):
            raise Untranslatable("getBH_level2: wrapper is not `tiled = []; try: ... finally: ...`")
        tr = pbody[1]
        if tr.handlers or tr.orelse:
            raise Untranslatable("getBH_level2: wrapper has except/else clauses")
        if len(tr.finalbody) == 1 and _dump(tr.finalbody[0]) == T_FINALLY:
            wrapper = "WFinallyTrim"
        elif len(tr.finalbody) == 1 and _dump(tr.finalbody[0]) == T_FINALLY_RESTORE:
            wrapper = "WFinallyRestore"
        else:
            raise Untranslatable("getBH_level2: the finally clause is not a known trimming / restoring loop")
        if len(tr.body) != 1 or not isinstance(tr.body[0], ast.Return) or not _is_call(tr.body[0].value, "_getBH_level2"):
            raise Untranslatable("getBH_level2: try body is not `return _getBH_level2(...)`")
        call = tr.body[0].value
        if [_dump(a) for a in call.args] != [_dump(ast.parse(x).body[0].value)
                                             for x in ("sources", "observers", "tiled")]:
            raise Untranslatable("getBH_level2: positional arguments of _getBH_level2 changed")
        body_fn = fns["_getBH_level2"]
        if [a.arg for a in body_fn.args.args][:3] != ["sources", "observers", "tiled"]:
            raise Untranslatable("_getBH_level2: parameter list changed")
        n_attr = 4
    else:
        if "_getBH_level2" in fns:
            raise Untranslatable("_getBH_level2 exists but getBH_level2 has no try statement")
        body_fn = pub
        wrapper = "WPlain"
        n_attr = 4
    # effects
    n_attr = 2 + 2 * sum(1 for st in _strip(body_fn.body) if _dump(st) == T_TRIM)
    _scan_effects(body_fn, n_attr, CALLS_BODY)
    for name, calls in CALLS_HELPERS.items():
        if name not in fns:
            raise Untranslatable(f"helper {name} not found")
        _scan_effects(fns[name], 0, calls)
    for rel, names in FOREIGN.items():
        ftree = ast.parse(open(os.path.join(repo, rel)).read())
        ffns = _functions(ftree)
        for name in names:
            if name not in ffns:
                raise Untranslatable(f"{rel}: {name} not found")
            for t in _store_targets(ffns[name]):
                if not isinstance(t, ast.Name):
                    raise Untranslatable(f"{rel}:{name} stores into {_dump(t)[:80]}")
            for n in ast.walk(ffns[name]):
                if isinstance(n, ast.Call) and _call_name(n) in ("setattr", "delattr", ".__setattr__", "exec", "eval"):
                    raise Untranslatable(f"{rel}:{name} calls {_call_name(n)}")
    # statements
    prog, lines, seen = [], [], set()
    for st in _strip(body_fn.body):
        ins = _classify(st, seen)
        prog.append(ins)
        lines.append((st.lineno, st.end_lineno))
    # the bookkeeping block: each statement exactly once and in the known order
    dumps = [_dump(s) for s in _strip(body_fn.body)]
    pos = []
    for t in BOOK_ORDER:
        if dumps.count(t) != 1:
            raise Untranslatable("path-length bookkeeping statement missing or duplicated")
        pos.append(dumps.index(t))
    if pos != sorted(pos):
        raise Untranslatable("path-length bookkeeping statements are out of order")
    for nm in BOOK_NAMES - {"tiled"}:
        stores = [t for t in _store_targets(body_fn) if isinstance(t, ast.Name) and t.id == nm]
        if len(stores) != 1:
            raise Untranslatable(f"{nm} is assigned {len(stores)} times")
    for must in ("IDict", "IFormatSrc", "ICheckDim", "ICheckExc", "IPixAgg", "IObservers", "IPathLens", "ITile",
                 "IGroupKeys", "IEval", "IOutput", "IReturn"):
        if prog.count(must) != 1:
            raise Untranslatable(f"{must} occurs {prog.count(must)} times")
    if prog.count("ITrim") > 1:          # the body's own reset loop is optional when the wrapper restores
        raise Untranslatable("more than one reset loop")
    nrec = prog.count("IRecord") + prog.count("IRecordOrig")
    if wrapper != "WPlain" and nrec != 1:
        raise Untranslatable("wrapper has a finally but the body does not record exactly once in `tiled`")
    if wrapper == "WPlain" and nrec:
        raise Untranslatable("`tiled` used without the wrapper")
    return {"wrapper": wrapper, "prog": prog, "lines": lines, "body": body_fn.name, "file": path,
            "body_first_line": body_fn.lineno}


def generate(repo):
    f = flow(repo)
    items = []
    for ins, (a, b) in zip(f["prog"], f["lines"]):
        items.append(f"  {ins} (* lines {a}-{b} *)")
    return ("(* GENERATED on every run from /repo by translate/gen_l2flow.py -- do not edit *)\n"
            "From Coq Require Import List.\n"
            "From MV Require Import Model.Level2State.\n"
            "Import ListNotations.\n\n"
            f"(* shape of the public function getBH_level2 *)\nDefinition gen_wrapper : wrapper := {f['wrapper']}.\n\n"
            f"(* top-level statements of {f['body']}, in source order *)\n"
            "Definition gen_prog : list instr := [\n" + ";\n".join(items) + "\n].\n")
