"""GenTol.v: every comparison / np.isclose / close(...) / tolerance literal of the anchored field
functions and mesh utilities of /repo, as dimension-typed expressions (coq/Lib/Dim.v).

How: a FAIL-CLOSED abstract interpreter over the python `ast` of the source files.  The anchored
functions are executed statement by statement on SYMBOLIC arrays: numpy object arrays whose
elements are expression nodes (`N`), one fresh variable per input element, with every batch axis
instantiated at a small concrete size (1 or 2 rows).  numpy is used only for shapes/indexing/
broadcasting of those object arrays; every numpy function that may be called is in the explicit
table CALLS below, every statement/expression kind is handled explicitly, anything else raises
Untranslatable.  Each `ast.Compare` whose operands are symbolic, each np.isclose, each
astype(bool) is RECORDED with an id built from the call chain and the source text of the node
(never line numbers), one `bexpr` per array element.  Values returned by the entry points and
values passed to a parameter of known dimension are recorded as DEGREE OBLIGATIONS.

Idioms (documented deviations, all per-row equivalent):
  * `X[mask]` with a symbolic boolean mask reads X itself (rows are independent);
    `X[mask] = V` becomes where(mask, V, X);
  * `if np.any(mask): body` executes body; `if np.all(mask): return ...` and
    `if not np.any(mask): return ...` are skipped (batch-level shortcuts, C06 checks them);
  * np.linalg.norm is sqrt(sum(x*x)); x**(3/2) is x*sqrt(x); np.log(a) - np.log(b) is log(a/b);
    np.isnan(x) is False and np.nan_to_num the identity (reals); `x / 0.0` marks a singular
    branch that is dropped (dipole at r == 0); np.empty is 0; astype(float32) is the identity;
  * cel/el3/the dimensionless cylinder cores are opaque functions of DIMENSIONLESS arguments
    (Dim.Fn0); arctan2 is an opaque function invariant under positive rescaling (Dim.FnH).
A final inventory walks the ast of every anchored file: each Compare / isclose / close call must
have been visited by the interpreter or be listed in STATIC_OK / OPAQUE_* with a reason.
"""
import ast
import operator
import os
from fractions import Fraction

import numpy as np


class Untranslatable(Exception):
    pass


def fail(node, why):
    src = ""
    if isinstance(node, ast.AST):
        try:
            src = ast.unparse(node)[:160]
        except Exception:   # pylint: disable=broad-except
            src = ast.dump(node)[:160]
    raise Untranslatable(f"{why}: line {getattr(node, 'lineno', '?')}: {src}")


# =================================================================== expression nodes
class N:
    """hash-consed expression node; kind in num | bool | cnt | par"""
    __slots__ = ("op", "args", "kind", "id", "size")
    table = {}
    nodes = []

    @staticmethod
    def reset():
        N.table = {}
        N.nodes = []

    def __repr__(self):
        return f"<{self.op}#{self.id}>"

    def __bool__(self):
        raise Untranslatable(f"truth value of a symbolic value {self!r}")

    def _cmp(self, other):
        raise Untranslatable("python comparison of symbolic values outside an ast.Compare node")
    __lt__ = __le__ = __gt__ = __ge__ = _cmp
    __hash__ = object.__hash__

    # arithmetic (used by numpy object loops: sum, cross, einsum, mean ...)
    def __add__(self, o):
        return _arr_defer(o) or add(self, o)

    def __radd__(self, o):
        return add(o, self)

    def __sub__(self, o):
        return _arr_defer(o) or sub(self, o)

    def __rsub__(self, o):
        return sub(o, self)

    def __mul__(self, o):
        return _arr_defer(o) or mul(self, o)

    def __rmul__(self, o):
        return mul(o, self)

    def __truediv__(self, o):
        return _arr_defer(o) or div(self, o)

    def __rtruediv__(self, o):
        return div(o, self)

    def __neg__(self):
        return neg(self)

    def __abs__(self):
        return fabs(self)

    def __pow__(self, o):
        return _arr_defer(o) or power(self, o)

    def __mod__(self, o):
        return _arr_defer(o) or mod(self, o)

    def __and__(self, o):
        return _arr_defer(o) or band(self, o)

    def __rand__(self, o):
        return band(o, self)

    def __or__(self, o):
        return _arr_defer(o) or bor(self, o)

    def __ror__(self, o):
        return bor(o, self)

    def __invert__(self):
        return bnot(self)


def _arr_defer(o):
    return NotImplemented if isinstance(o, np.ndarray) else None


MAX_SIZE = 400000


def mk(kind, op, *args):
    key = (op,) + tuple(("n", a.id) if isinstance(a, N) else a for a in args)
    n = N.table.get(key)
    if n is None:
        n = N.__new__(N)
        n.op, n.args, n.kind, n.id = op, args, kind, len(N.nodes)
        n.size = 1 + sum(a.size for a in args if isinstance(a, N))
        if n.size > MAX_SIZE:
            raise Untranslatable(f"expression too large ({n.size} nodes) at {op}")
        N.table[key] = n
        N.nodes.append(n)
    return n


def const(x):
    if isinstance(x, (bool, np.bool_)):
        raise Untranslatable("boolean used as a number")
    if isinstance(x, (int, np.integer)):
        fr = Fraction(int(x))
    elif isinstance(x, (float, np.floating)):
        if not np.isfinite(x):
            raise Untranslatable(f"non-finite literal {x}")
        fr = Fraction(repr(float(x)))
    elif isinstance(x, Fraction):
        fr = x
    else:
        raise Untranslatable(f"cannot make a constant of {type(x).__name__}")
    return mk("num", "Const", fr.numerator, fr.denominator)


PI = None


def num(x):
    """coerce to a numeric node"""
    if isinstance(x, N):
        if x.kind == "num":
            return x
        raise Untranslatable(f"{x.kind} value used as a number")
    if isinstance(x, (float, np.floating)) and float(x) == float(np.pi):
        return mk("num", "CPi")
    if isinstance(x, np.ndarray) and x.ndim == 0:
        return num(x[()])
    return const(x)


def is_const(n, v=None):
    return n.op == "Const" and (v is None or Fraction(n.args[0], n.args[1]) == v)


class InfMarker:
    """x / 0.0 : a singular value; only allowed as the value of a masked assignment (dropped)"""


INF = InfMarker()


def isbool(x):
    return isinstance(x, (bool, np.bool_)) or (isinstance(x, N) and x.kind == "bool")


def add(a, b):
    if isbool(a) and isbool(b) or (isinstance(a, N) and a.kind == "cnt") or (isinstance(b, N) and b.kind == "cnt"):
        return cnt_add(a, b)
    a, b = num(a), num(b)
    if is_const(a, 0):
        return b
    if is_const(b, 0):
        return a
    if is_const(a) and is_const(b):
        return const(Fraction(*a.args) + Fraction(*b.args))
    return mk("num", "Add", a, b)


def sub(a, b):
    a, b = num(a), num(b)
    if is_const(b, 0):
        return a
    if is_const(a) and is_const(b):
        return const(Fraction(*a.args) - Fraction(*b.args))
    # np.log(a) - np.log(b)  ==>  log(a / b)
    if a.op == "Fn0" and b.op == "Fn0" and a.args[0] == "log" and b.args[0] == "log":
        return fn0("log", div(a.args[1].args[0], b.args[1].args[0]))
    return mk("num", "Sub", a, b)


def mul(a, b):
    if isbool(a) and isbool(b):
        return band(a, b)
    if isbool(a) or isbool(b):
        raise Untranslatable("product of a boolean and a number")
    a, b = num(a), num(b)
    if is_const(a, 1):
        return b
    if is_const(b, 1):
        return a
    if is_const(a) and is_const(b):
        return const(Fraction(*a.args) * Fraction(*b.args))
    return mk("num", "Mul", a, b)


def div(a, b):
    if isinstance(b, (int, float, np.integer, np.floating)) and float(b) == 0.0:
        return INF
    a, b = num(a), num(b)
    if is_const(b, 1):
        return a
    if is_const(b, 0):
        return INF
    if is_const(a) and is_const(b):
        return const(Fraction(*a.args) / Fraction(*b.args))
    return mk("num", "Div", a, b)


def neg(a):
    a = num(a)
    if is_const(a):
        return const(-Fraction(*a.args))
    return mk("num", "Neg", a)


def fabs(a):
    a = num(a)
    if is_const(a):
        return const(abs(Fraction(*a.args)))
    return mk("num", "Abs", a)


def sqrt(a):
    return mk("num", "Sqrt", num(a))


def sign(a):
    return mk("num", "Sign", num(a))


def power(a, e):
    a = num(a)
    if isinstance(e, N):
        if not is_const(e):
            raise Untranslatable("symbolic exponent")
        e = Fraction(*e.args)
    e = Fraction(repr(float(e))) if isinstance(e, (float, np.floating)) else Fraction(int(e))
    if e.denominator == 1 and e >= 0:
        return mk("num", "Pow", a, int(e))
    if e.denominator == 2 and e > 0:          # x ** (k/2) = x**((k-1)/2) * sqrt(x)
        k = (e.numerator - 1) // 2
        return mul(mk("num", "Pow", a, k), sqrt(a)) if k else sqrt(a)
    if e.denominator == 1 and e < 0:
        return div(const(1), mk("num", "Pow", a, int(-e)))
    raise Untranslatable(f"exponent {e}")


def fn0(name, *args):
    alist = None
    for a in reversed(args):
        alist = mk("args", "ACons", num(a), alist) if alist is not None else mk("args", "ACons", num(a))
    return mk("num", "Fn0", name, alist) if alist is not None else mk("num", "Fn0", name)


def fnh(name, *args):
    alist = None
    for a in reversed(args):
        alist = mk("args", "ACons", num(a), alist) if alist is not None else mk("args", "ACons", num(a))
    return mk("num", "FnH", name, alist)


def mod(a, b):
    if isinstance(a, N) and a.kind == "cnt":
        if b != 2:
            raise Untranslatable("count % k with k != 2")
        return mk("par", "Par", a)
    return fn0("mod", a, b)


def vmin(a, b):
    return mk("num", "Min", num(a), num(b))


def vmax(a, b):
    return mk("num", "Max", num(a), num(b))


def bconst(b):
    return mk("bool", "BConst", bool(b))


def boolean(x):
    if isinstance(x, N):
        if x.kind == "bool":
            return x
        raise Untranslatable(f"{x.kind} value used as a boolean")
    if isinstance(x, (bool, np.bool_)):
        return bconst(x)
    raise Untranslatable(f"{type(x).__name__} used as a boolean")


def band(a, b):
    a, b = boolean(a), boolean(b)
    if a.op == "BConst":
        return b if a.args[0] else a
    if b.op == "BConst":
        return a if b.args[0] else b
    return mk("bool", "BAnd", a, b)


def bor(a, b):
    a, b = boolean(a), boolean(b)
    if a.op == "BConst":
        return a if a.args[0] else b
    if b.op == "BConst":
        return b if b.args[0] else a
    return mk("bool", "BOr", a, b)


def bnot(a):
    a = boolean(a)
    if a.op == "BConst":
        return bconst(not a.args[0])
    if a.op == "BNot":
        return a.args[0]
    return mk("bool", "BNot", a)


def bxor(a, b):
    return bor(band(a, bnot(b)), band(bnot(a), b))


def cnt_add(a, b):
    def items(x):
        if isinstance(x, N) and x.kind == "cnt":
            return list(x.args)
        if isinstance(x, (int, np.integer)) and not isinstance(x, (bool, np.bool_)) and int(x) == 0:
            return []
        return [boolean(x)]
    return mk("cnt", "Cnt", *(items(a) + items(b)))


def ite(c, a, b):
    """where(c, a, b) on scalars"""
    if a is INF:
        return b          # singular branch dropped
    if b is INF:
        return a
    c = boolean(c)
    if c.op == "BConst":
        return a if c.args[0] else b
    if isbool(a) or isbool(b):
        a, b = boolean(a), boolean(b)
        return bor(band(c, a), band(bnot(c), b))
    a, b = num(a), num(b)
    if a is b:
        return a
    return mk("num", "Ite", c, a, b)


CMP = {ast.Lt: "lt", ast.LtE: "le", ast.Gt: "gt", ast.GtE: "ge", ast.Eq: "eq", ast.NotEq: "ne"}


def compare_scalar(op, a, b):
    if isinstance(a, N) and a.kind == "par":
        if op not in ("ne", "eq") or b != 0:
            raise Untranslatable("parity compared with something else than 0")
        acc = bconst(False)
        for x in a.args[0].args:
            acc = bxor(acc, x)
        return acc if op == "ne" else bnot(acc)
    if isbool(a) or isbool(b):
        if op not in ("eq", "ne"):
            raise Untranslatable("ordering of booleans")
        r = bnot(bxor(boolean(a), boolean(b)))
        return r if op == "eq" else bnot(r)
    a, b = num(a), num(b)
    if op == "lt":
        return mk("bool", "BLt", a, b)
    if op == "le":
        return mk("bool", "BLe", a, b)
    if op == "gt":
        return mk("bool", "BLt", b, a)
    if op == "ge":
        return mk("bool", "BLe", b, a)
    if op == "eq":
        return mk("bool", "BEq", a, b)
    return bnot(mk("bool", "BEq", a, b))


def is_symbolic(v):
    if isinstance(v, N):
        return True
    if isinstance(v, np.ndarray) and v.dtype == object:
        return True
    if isinstance(v, (list, tuple)):
        return any(is_symbolic(x) for x in v)
    return False


def ufunc(f, nin):
    g = np.frompyfunc(f, nin, 1)

    def call(*a):
        r = g(*a)
        if isinstance(r, np.ndarray) and r.ndim == 0:
            return r[()]
        return r
    return call


u_sqrt, u_abs, u_sign, u_neg = ufunc(sqrt, 1), ufunc(fabs, 1), ufunc(sign, 1), ufunc(neg, 1)
u_ite = ufunc(ite, 3)
u_bnot, u_band, u_bor = ufunc(bnot, 1), ufunc(band, 2), ufunc(bor, 2)
u_min, u_max = ufunc(vmin, 2), ufunc(vmax, 2)
u_num = ufunc(num, 1)


def u_fn0(name):
    return ufunc(lambda *a: fn0(name, *a), 1)


def obj(a):
    """as an object array"""
    return a if isinstance(a, np.ndarray) and a.dtype == object else np.array(a, dtype=object)


# =================================================================== the interpreter
class Return(Exception):
    def __init__(self, value):
        super().__init__()
        self.value = value


class FuncRef:
    def __init__(self, module, node):
        self.module, self.node = module, node


class Opaque:
    """a function modelled as an uninterpreted Fn0 of (dimensionless) arguments, elementwise"""
    def __init__(self, name, nout=None, rowwise=False):
        self.name, self.nout, self.rowwise = name, nout, rowwise


class Module:
    def __init__(self, interp, path):
        self.path = path
        self.name = os.path.basename(path)[:-3]
        self.tree = ast.parse(open(path).read())
        self.globals = {}
        self.funcs = {}
        for st in self.tree.body:
            if isinstance(st, ast.FunctionDef):
                self.funcs[st.name] = st
                self.globals[st.name] = FuncRef(self, st)
            elif isinstance(st, ast.ImportFrom):
                for al in st.names:
                    self.globals[al.asname or al.name] = ("import", st.module, al.name)
            elif isinstance(st, ast.Import):
                for al in st.names:
                    self.globals[al.asname or al.name] = ("module", al.name)
            elif isinstance(st, ast.Expr) and isinstance(st.value, ast.Constant):
                pass
            elif isinstance(st, ast.Assign) and len(st.targets) == 1 and isinstance(st.targets[0], ast.Name) \
                    and isinstance(st.value, ast.Constant):
                self.globals[st.targets[0].id] = st.value.value
            # other module-level statements define names this translator does not know: using one fails


NPNAMES = {"numpy": "np", "numpy.linalg": "np.linalg", "math": "math", "scipy.spatial": "scipy.spatial"}
OPAQUE_DIMLESS = {   # imported name -> Opaque : special functions / cores that take dimensionless arguments
    "cel": Opaque("cel"), "cel_iter": Opaque("cel_iter"), "el3": Opaque("el3"), "el3_angle": Opaque("el3_angle"),
}


class Interp:
    def __init__(self, repo, opaque_funcs):
        self.repo = repo
        self.modules = {}
        self.records = []         # (id, src, [bexpr nodes])
        self.rec_index = {}
        self.visited = set()      # (module name, lineno, col) of Compare / isclose / close nodes seen
        self.stack = []           # call chain for ids
        self.notes = set()
        self.opaque_funcs = opaque_funcs   # (module, function) -> Opaque
        self.mu0 = mk("num", "Var", "MU0")
        self.arg_obligations = []
        self.envs = None
        self.inline_modular = False     # the harness validation executes modular callees inline

    def module(self, dotted):
        rel = dotted.replace(".", "/") + ".py"
        path = os.path.join(self.repo, rel)
        if path not in self.modules:
            if not os.path.exists(path):
                raise Untranslatable(f"module {dotted} not found")
            self.modules[path] = Module(self, path)
        return self.modules[path]

    # ---------------------------------------------------------------- recording
    def record(self, node, mod, result, what=None):
        self.visited.add((mod.name, node.lineno, node.col_offset))
        src = what or ast.unparse(node)
        rid = ">".join(self.stack + [src])
        elems = []
        for x in np.ravel(obj(result)):
            if isinstance(x, N) and x.kind == "bool" and x.op != "BConst":
                elems.append(x)
        if not elems:
            return
        if rid not in self.rec_index:
            self.rec_index[rid] = len(self.records)
            self.records.append((rid, src, []))
        lst = self.records[self.rec_index[rid]][2]
        for x in elems:
            if x not in lst:
                lst.append(x)

    # ---------------------------------------------------------------- calls
    def call_function(self, fref, args, kwargs, callsrc):
        fn, mod = fref.node, fref.module
        key = (mod.name, fn.name)
        if key in self.opaque_funcs:
            return self.call_opaque(self.opaque_funcs[key], args, kwargs)
        params = [a.arg for a in fn.args.args]
        if fn.args.vararg or fn.args.kwarg or fn.args.kwonlyargs or fn.args.posonlyargs:
            fail(fn, "unsupported signature")
        env = {}
        defaults = fn.args.defaults
        for i, d in enumerate(defaults):
            env[params[len(params) - len(defaults) + i]] = self.expr(d, {}, mod)
        if len(args) > len(params):
            fail(fn, "too many arguments")
        for p, a in zip(params, args):
            env[p] = a
        for k, v in kwargs.items():
            if k not in params:
                fail(fn, f"unknown keyword {k}")
            env[k] = v
        for p in params:
            if p not in env:
                fail(fn, f"missing argument {p}")
        self.stack.append(f"{fn.name}" if callsrc is None else callsrc)
        try:
            try:
                self.block(fn.body, env, mod)
            except Return as r:
                return r.value
            return None
        finally:
            self.stack.pop()

    def call_modular(self, fref, key, args, kwargs, e):
        """a call of a function that is an entry point of its own: the callee is verified for arbitrary
        arguments of the declared dimension, the caller owes `argument has that dimension`"""
        spec, outshape = MODULAR[key][:2]
        retdeg = MODULAR[key][2] if len(MODULAR[key]) > 2 else None
        if len(MODULAR[key]) > 3 and self.stack and self.stack[0] in MODULAR[key][3]:
            spec = MODULAR[key][3][self.stack[0]]
        params = [a.arg for a in fref.node.args.args]
        bound = dict(zip(params, args))
        bound.update(kwargs)
        src = ast.unparse(e)
        for p, d in spec.items():
            if p not in bound:
                fail(e, f"modular call without argument {p}")
            for i, x in enumerate(np.ravel(obj(bound[p]))):
                self.arg_obligations.append((">".join(self.stack + [src, f"arg:{p}.{i}"]), d, num(x)))
        shp = outshape(bound)
        out = np.empty(shp, dtype=object)
        for idx in np.ndindex(*shp):
            nm = ">".join(self.stack + [src]) + "".join(f".{i}" for i in idx)
            if retdeg is None:
                out[idx] = mk("bool", "BUnknown", nm)
            else:
                out[idx] = mk("num", "Var", nm)
                self.envs[nm] = retdeg
        return out

    def call_opaque(self, op, args, kwargs):
        vals = list(args) + [kwargs[k] for k in kwargs]
        if op.rowwise:
            arrs = [obj(v) for v in vals]
            n = arrs[0].shape[0]
            out = np.empty((n, op.nout), dtype=object)
            for r in range(n):
                row = [x for a in arrs for x in np.ravel(a[r])]
                for i in range(op.nout):
                    out[r, i] = fn0(f"{op.name}.{i}", *row)
            return out
        arrs = [obj(v) if not isinstance(v, N) else v for v in vals]
        f = ufunc(lambda *a: [fn0(f"{op.name}.{i}", *a) for i in range(op.nout)] if op.nout else fn0(op.name, *a),
                  len(arrs))
        r = f(*arrs)
        if op.nout:
            # r: object array of lists -> array with a leading axis of size nout
            r = obj(r)
            out = np.empty((op.nout,) + r.shape, dtype=object)
            for idx in np.ndindex(r.shape):
                for i in range(op.nout):
                    out[(i,) + idx] = r[idx][i]
            return out
        return r

    # ---------------------------------------------------------------- statements
    def block(self, stmts, env, mod):
        for st in stmts:
            self.stmt(st, env, mod)

    def stmt(self, st, env, mod):
        if isinstance(st, ast.Expr):
            if isinstance(st.value, ast.Constant):
                return
            self.expr(st.value, env, mod)
            return
        if isinstance(st, ast.Return):
            raise Return(self.expr(st.value, env, mod) if st.value is not None else None)
        if isinstance(st, ast.Assign):
            v = self.expr(st.value, env, mod)
            for t in st.targets:
                self.assign(t, v, env, mod)
            return
        if isinstance(st, ast.AugAssign):
            ops = {ast.Add: operator.add, ast.Sub: operator.sub, ast.Mult: operator.mul, ast.Div: operator.truediv,
                   ast.BitOr: operator.or_, ast.BitAnd: operator.and_, ast.BitXor: operator.xor}
            if type(st.op) not in ops:
                fail(st, "augmented assignment operator")
            cur = self.expr(st.target, env, mod)
            v = self.expr(st.value, env, mod)
            self.assign(st.target, self.binop(ops[type(st.op)], cur, v, st), env, mod)
            return
        if isinstance(st, ast.If):
            kind, c = self.condition(st.test, env, mod)
            if kind == "concrete":
                self.block(st.body if c else st.orelse, env, mod)
            elif kind == "any":
                if st.orelse:
                    fail(st, "else branch of a batch-level `if np.any(...)`")
                self.block(st.body, env, mod)
            elif kind == "skip":
                if st.orelse or not all(isinstance(s, ast.Return) for s in st.body):
                    fail(st, "batch-level `if np.all(...)` with a body that is not a plain return")
            elif kind == "assume":
                if st.orelse:
                    fail(st, "else branch of a non-degeneracy guard")
                self.block(st.body, env, mod)
            else:
                fail(st, "symbolic branch condition")
            return
        if isinstance(st, ast.With):
            for it in st.items:
                if ast.unparse(it.context_expr).split("(")[0] != "np.errstate":
                    fail(st, "with-statement")
            self.block(st.body, env, mod)
            return
        if isinstance(st, ast.For):
            it = self.expr(st.iter, env, mod)
            if is_symbolic(it) and not isinstance(it, (list, tuple)):
                fail(st, "loop over a symbolic value")
            if st.orelse:
                fail(st, "for-else")
            for x in list(it):
                self.assign(st.target, x, env, mod)
                self.block(st.body, env, mod)
            return
        if isinstance(st, ast.Raise):
            fail(st, "reached a raise statement")
        if isinstance(st, ast.Pass):
            return
        fail(st, f"statement {type(st).__name__}")

    def condition(self, test, env, mod):
        """classify an `if` condition"""
        neg_ = False
        t = test
        if isinstance(t, ast.UnaryOp) and isinstance(t.op, ast.Not):
            neg_, t = True, t.operand
        if isinstance(t, ast.Call) and ast.unparse(t.func) in ("np.any", "any", "np.all") and len(t.args) == 1 \
                and not t.keywords:
            v = self.expr(t.args[0], env, mod)
            if is_symbolic(v):
                fname = ast.unparse(t.func)
                self.notes.add("batch-level shortcut `if %s%s(...)` treated per row" % ("not " if neg_ else "", fname))
                if fname in ("np.any", "any") and not neg_:
                    return "any", None
                if (fname == "np.all" and not neg_) or (fname in ("np.any", "any") and neg_):
                    return "skip", None
                fail(test, "batch-level condition")
            r = bool(np.any(v)) if ast.unparse(t.func) != "np.all" else bool(np.all(v))
            return "concrete", (not r if neg_ else r)
        v = self.expr(test, env, mod)
        if is_symbolic(v):
            # non-degeneracy guard `if <scalar> > 0:` : the model ASSUMES it holds (a mesh / body of extent 0 is
            # outside the model); the comparison itself is against the literal 0 and is recorded as usual
            if isinstance(test, ast.Compare) and len(test.ops) == 1 and isinstance(test.ops[0], ast.Gt) \
                    and isinstance(test.left, ast.Name) and isinstance(test.comparators[0], ast.Constant) \
                    and test.comparators[0].value == 0 and isinstance(v, N):
                self.notes.add(f"non-degeneracy guard `if {ast.unparse(test)}:` assumed to hold")
                return "assume", None
            return "symbolic", None
        return "concrete", bool(v)

    # ---------------------------------------------------------------- assignment targets
    def assign(self, t, v, env, mod):
        if isinstance(t, ast.Name):
            env[t.id] = v
            return
        if isinstance(t, (ast.Tuple, ast.List)):
            vals = list(v)
            if len(vals) != len(t.elts):
                fail(t, "unpacking length")
            for e, x in zip(t.elts, vals):
                self.assign(e, x, env, mod)
            return
        if isinstance(t, ast.Subscript):
            if not isinstance(t.value, ast.Name):
                fail(t, "assignment through a view")
            base = env.get(t.value.id)
            if not isinstance(base, np.ndarray):
                fail(t, "subscript assignment to a non-array")
            idx = self.index(t.slice, env, mod)
            env[t.value.id] = self.setitem(base, idx, v, t)
            return
        fail(t, "assignment target")

    def index(self, s, env, mod):
        if isinstance(s, ast.Tuple):
            return tuple(self.index1(e, env, mod) for e in s.elts)
        return self.index1(s, env, mod)

    def index1(self, s, env, mod):
        if isinstance(s, ast.Slice):
            f = lambda e: None if e is None else self.concrete_int(self.expr(e, env, mod), e)
            return slice(f(s.lower), f(s.upper), f(s.step))
        v = self.expr(s, env, mod)
        if isinstance(v, tuple) and all(isinstance(i, (int, np.integer)) for i in v):
            return list(v)
        return v

    @staticmethod
    def concrete_int(v, node):
        if isinstance(v, (int, np.integer)) and not isinstance(v, bool):
            return int(v)
        fail(node, "slice bound is not a concrete integer")
        return None

    @staticmethod
    def split_mask(idx):
        """(mask or None, index with the mask replaced by a full slice)"""
        tup = idx if isinstance(idx, tuple) else (idx,)
        mask, out = None, []
        for i in tup:
            if isinstance(i, np.ndarray) and i.dtype == object or (isinstance(i, N) and i.kind == "bool"):
                if mask is not None:
                    raise Untranslatable("two symbolic masks in one index")
                if out:
                    raise Untranslatable("symbolic mask not in first position")
                mask = i
                out.append(slice(None))
            else:
                out.append(i)
        return mask, tuple(out)

    def getitem(self, base, idx, node):
        mask, cidx = self.split_mask(idx)
        if isinstance(base, (list, tuple)):
            if mask is not None:
                fail(node, "mask on a list")
            return base[cidx[0]] if len(cidx) == 1 else fail(node, "list index")
        if not isinstance(base, np.ndarray):
            fail(node, f"subscript of {type(base).__name__}")
        if mask is not None:
            mask = obj(mask)
            if mask.shape != base.shape[:mask.ndim]:
                fail(node, "symbolic mask must cover the leading axes")
            cidx = (slice(None),) * mask.ndim + cidx[1:]
        try:
            return base[cidx]
        except (IndexError, TypeError) as e:
            fail(node, f"indexing failed: {e}")
        return None

    def setitem(self, base, idx, v, node):
        if isinstance(idx, tuple) and len(idx) > 1 and isinstance(idx[0], (int, np.integer)) \
                and any(is_symbolic(i) for i in idx[1:]):
            new = base.astype(object)
            rest = idx[1:] if len(idx) > 2 else idx[1]
            new[int(idx[0])] = self.setitem(new[int(idx[0])].copy(), rest, v, node)
            return new
        mask, cidx = self.split_mask(idx)
        new = base.copy()
        if mask is None:
            if is_symbolic(v) and new.dtype != object:
                new = new.astype(object)
            if v is INF:
                fail(node, "singular value stored without a mask")
            try:
                new[cidx] = v
            except (IndexError, TypeError, ValueError) as e:
                fail(node, f"item assignment failed: {e}")
            return new
        mask = obj(mask)
        if mask.shape != base.shape[:mask.ndim]:
            fail(node, "symbolic mask must cover the leading axes")
        cidx = (slice(None),) * mask.ndim + cidx[1:]
        new = new.astype(object)
        sub_ = new[cidx]
        m = mask.reshape(mask.shape + (1,) * (sub_.ndim - mask.ndim))
        if v is INF or (isinstance(v, np.ndarray) and v.dtype == object and any(x is INF for x in np.ravel(v))):
            self.notes.add("singular branch `x / 0.0` dropped (outside the real-number model)")
            return new
        new[cidx] = u_ite(m, v, sub_)
        return new

    # ---------------------------------------------------------------- expressions
    def binop(self, f, a, b, node):
        try:
            r = f(a, b)
        except Untranslatable:
            raise
        except Exception as e:   # pylint: disable=broad-except
            fail(node, f"binary operation failed: {type(e).__name__}: {e}")
        if isinstance(r, np.ndarray) and r.dtype == object and r.ndim == 0:
            r = r[()]
        if r is NotImplemented:
            fail(node, "binary operation not implemented")
        return r

    def expr(self, e, env, mod):
        if isinstance(e, ast.Constant):
            if isinstance(e.value, (int, float, str, bool)) or e.value is None or e.value is Ellipsis:
                return e.value
            fail(e, "constant")
        if isinstance(e, ast.Name):
            if e.id in env:
                return env[e.id]
            if e.id in mod.globals:
                return self.resolve(mod.globals[e.id], e)
            if e.id in BUILTINS:
                return ("builtin", e.id)
            fail(e, "unknown name")
        if isinstance(e, ast.NamedExpr):
            v = self.expr(e.value, env, mod)
            self.assign(e.target, v, env, mod)
            return v
        if isinstance(e, (ast.Tuple, ast.List)):
            vals = []
            for x in e.elts:
                if isinstance(x, ast.Starred):
                    vals += list(self.expr(x.value, env, mod))
                else:
                    vals.append(self.expr(x, env, mod))
            return tuple(vals) if isinstance(e, ast.Tuple) else vals
        if isinstance(e, ast.Starred):
            fail(e, "starred expression")
        if isinstance(e, ast.UnaryOp):
            v = self.expr(e.operand, env, mod)
            if isinstance(e.op, ast.USub):
                return u_neg(v) if is_symbolic(v) else -v
            if isinstance(e.op, ast.Invert):
                return u_bnot(v) if is_symbolic(v) else ~np.asarray(v, dtype=bool) if isinstance(v, np.ndarray) else (not v)
            if isinstance(e.op, ast.Not):
                if is_symbolic(v):
                    fail(e, "`not` of a symbolic value")
                return not v
            if isinstance(e.op, ast.UAdd):
                return v
            fail(e, "unary operator")
        if isinstance(e, ast.BinOp):
            ops = {ast.Add: operator.add, ast.Sub: operator.sub, ast.Mult: operator.mul, ast.Div: operator.truediv,
                   ast.Pow: operator.pow, ast.Mod: operator.mod, ast.BitAnd: operator.and_, ast.BitOr: operator.or_,
                   ast.FloorDiv: operator.floordiv}
            if type(e.op) not in ops:
                fail(e, "binary operator")
            a, b = self.expr(e.left, env, mod), self.expr(e.right, env, mod)
            if isinstance(e.op, ast.FloorDiv) and (is_symbolic(a) or is_symbolic(b)):
                fail(e, "floor division of symbolic values")
            if isinstance(e.op, ast.Div) and not is_symbolic(a) and not is_symbolic(b):
                if np.any(np.asarray(b) == 0):
                    return INF if np.ndim(b) == 0 else fail(e, "division by a zero array")
            return self.binop(ops[type(e.op)], a, b, e)
        if isinstance(e, ast.BoolOp):
            vals = [self.expr(x, env, mod) for x in e.values]
            if any(is_symbolic(v) for v in vals):
                fail(e, "and/or of symbolic values")
            r = vals[0]
            for v in vals[1:]:
                r = (r and v) if isinstance(e.op, ast.And) else (r or v)
            return r
        if isinstance(e, ast.Compare):
            return self.compare(e, env, mod)
        if isinstance(e, ast.Subscript):
            base = self.expr(e.value, env, mod)
            idx = self.index(e.slice, env, mod)
            return self.getitem(base, idx, e)
        if isinstance(e, ast.Attribute):
            return self.attribute(e, env, mod)
        if isinstance(e, ast.Call):
            return self.call(e, env, mod)
        if isinstance(e, ast.ListComp):
            if len(e.generators) != 1 or e.generators[0].ifs:
                fail(e, "comprehension")
            g = e.generators[0]
            it = self.expr(g.iter, env, mod)
            out = []
            for x in list(it):
                env2 = dict(env)
                self.assign(g.target, x, env2, mod)
                out.append(self.expr(e.elt, env2, mod))
            return out
        if isinstance(e, ast.IfExp):
            kind, c = self.condition(e.test, env, mod)
            if kind != "concrete":
                fail(e, "symbolic conditional expression")
            return self.expr(e.body if c else e.orelse, env, mod)
        fail(e, f"expression {type(e).__name__}")
        return None

    def resolve(self, g, node):
        if isinstance(g, FuncRef):
            return g
        if isinstance(g, tuple) and g[0] == "module":
            if g[1] in NPNAMES:
                return ("npmod", NPNAMES[g[1]])
            fail(node, f"module {g[1]}")
        if isinstance(g, tuple) and g[0] == "import":
            _, modname, name = g
            if modname == "scipy.constants" and name == "mu_0":
                return self.mu0
            if modname == "numpy.linalg" and name == "norm":
                return ("np", "np.linalg.norm")
            if name in OPAQUE_DIMLESS and modname.startswith("magpylib._src.fields.special_"):
                return OPAQUE_DIMLESS[name]
            if modname == "magpylib._src.input_checks" and name == "check_field_input":
                return ("builtin", "check_field_input")
            if modname.startswith("magpylib._src."):
                m = self.module(modname)
                if name in m.funcs:
                    return m.globals[name]
            fail(node, f"import {modname}.{name}")
        return g

    def attribute(self, e, env, mod):
        # np.xxx / np.linalg.xxx names
        src = ast.unparse(e)
        root = e
        while isinstance(root, ast.Attribute):
            root = root.value
        if isinstance(root, ast.Name) and root.id not in env and root.id in mod.globals:
            g = mod.globals[root.id]
            if isinstance(g, tuple) and g[0] == "module" and g[1] in NPNAMES:
                full = NPNAMES[g[1]] + src[len(root.id):]
                if full == "np.pi":
                    return mk("num", "CPi")
                if full == "np.newaxis":
                    return None
                if full in ("np.inf",):
                    return float("inf")
                if full in ("np.float32", "np.float64"):
                    return ("dtype", "float")
                return ("np", full)
        v = self.expr(e.value, env, mod)
        if isinstance(v, np.ndarray):
            if e.attr == "T":
                return v.T
            if e.attr == "shape":
                return tuple(int(i) for i in v.shape)
            if e.attr == "ndim":
                return v.ndim
            return ("method", v, e.attr)
        if isinstance(v, list) and e.attr == "append":
            return ("method", v, "append")
        fail(e, f"attribute .{e.attr} of {type(v).__name__}")
        return None

    def compare(self, e, env, mod):
        left = self.expr(e.left, env, mod)
        result = None
        cur = left
        for op, rnode in zip(e.ops, e.comparators):
            right = self.expr(rnode, env, mod)
            if isinstance(op, (ast.Is, ast.IsNot)):
                r = (cur is right) if isinstance(op, ast.Is) else (cur is not right)
            elif isinstance(op, (ast.In, ast.NotIn)):
                if is_symbolic(cur) or is_symbolic(right):
                    fail(e, "symbolic membership test")
                r = (cur in right) if isinstance(op, ast.In) else (cur not in right)
            elif type(op) in CMP:
                if is_symbolic(cur) or is_symbolic(right):
                    name = CMP[type(op)]
                    r = ufunc(lambda a, b, name=name: compare_scalar(name, a, b), 2)(
                        cur if isinstance(cur, N) else obj(cur), right if isinstance(right, N) else obj(right))
                else:
                    pyop = {"lt": operator.lt, "le": operator.le, "gt": operator.gt, "ge": operator.ge,
                            "eq": operator.eq, "ne": operator.ne}[CMP[type(op)]]
                    r = pyop(cur, right)
            else:
                fail(e, "comparison operator")
            result = r if result is None else self.binop(operator.and_, result, r, e)
            cur = right
        if is_symbolic(result):
            self.record(e, mod, result)
        else:
            self.visited.add((mod.name, e.lineno, e.col_offset))
        return result

    # ---------------------------------------------------------------- calls
    def call(self, e, env, mod):
        f = self.expr(e.func, env, mod)
        args = []
        for a in e.args:
            if isinstance(a, ast.Starred):
                args += list(self.expr(a.value, env, mod))
            else:
                args.append(self.expr(a, env, mod))
        kwargs = {}
        for k in e.keywords:
            if k.arg is None:
                fail(e, "**kwargs")
            kwargs[k.arg] = self.expr(k.value, env, mod)
        if isinstance(f, FuncRef):
            key = (f.module.name, f.node.name)
            if key in MODULAR and len(self.stack) > 1 and not self.inline_modular:
                return self.call_modular(f, key, args, kwargs, e)
            return self.call_function(f, args, kwargs, ast.unparse(e))
        if isinstance(f, Opaque):
            return self.call_opaque(f, args, kwargs)
        if isinstance(f, tuple) and f[0] == "np":
            if f[1] not in CALLS:
                fail(e, f"numpy function {f[1]} is not in the supported table")
            return CALLS[f[1]](self, e, mod, args, kwargs)
        if isinstance(f, tuple) and f[0] == "builtin":
            return self.builtin(f[1], e, mod, args, kwargs)
        if isinstance(f, tuple) and f[0] == "method":
            return self.method(f[1], f[2], e, mod, args, kwargs)
        fail(e, "call of an unknown function")
        return None

    def builtin(self, name, e, mod, args, kwargs):
        if kwargs:
            fail(e, "keyword arguments to a builtin")
        if name == "check_field_input":
            if args[0] not in ("B", "H", "J", "M"):
                fail(e, "field")
            return None
        if name == "len":
            if isinstance(args[0], (np.ndarray, list, tuple, str)):
                return len(args[0])
            fail(e, "len")
        if name == "abs":
            return u_abs(args[0]) if is_symbolic(args[0]) else abs(args[0])
        if name in ("any", "all"):
            v = args[0]
            if is_symbolic(v):
                f = u_bor if name == "any" else u_band
                acc = bconst(name == "all")
                for x in np.ravel(obj(v)):
                    acc = f(acc, x)
                return acc
            return any(v) if name == "any" else all(v)
        if name in ("max", "min"):
            items = list(args[0]) if len(args) == 1 else list(args)
            if not any(is_symbolic(x) for x in items):
                return max(items) if name == "max" else min(items)
            acc = items[0]
            for x in items[1:]:
                acc = (u_max if name == "max" else u_min)(acc, x)
            return acc
        if name == "range":
            return range(*[self.concrete_int(a, e) for a in args])
        if name == "zip":
            return list(zip(*args))
        if name == "list":
            return list(args[0])
        if name == "float":
            return args[0] if is_symbolic(args[0]) else float(args[0])
        if name == "bool":
            return ("dtype", "bool") if not args else fail(e, "bool()")
        if name == "int":
            return ("dtype", "int") if not args else fail(e, "int()")
        fail(e, f"builtin {name}")
        return None

    def method(self, v, name, e, mod, args, kwargs):
        if isinstance(v, list) and name == "append":
            v.append(args[0])
            return None
        if name == "astype":
            t = args[0]
            if t == ("builtin", "float") or t == ("dtype", "float"):
                return v.copy() if v.dtype == object else v.astype(float)
            if t == ("builtin", "bool") or t == ("dtype", "bool"):
                if v.dtype == object:
                    r = ufunc(lambda a: compare_scalar("ne", a, 0), 1)(v)
                    self.record(e, mod, r)
                    return r
                return v.astype(bool)
            fail(e, "astype target")
        if name == "copy":
            return v.copy()
        if name == "flatten":
            return v.flatten()
        if name == "reshape":
            shp = args[0] if len(args) == 1 and isinstance(args[0], (tuple, list)) else tuple(args)
            return v.reshape(tuple(int(i) for i in shp))
        if name == "swapaxes":
            return v.swapaxes(int(args[0]), int(args[1]))
        if name in ("sum", "mean", "min", "max", "all", "any"):
            return CALLS["np." + name](self, e, mod, [v] + args, kwargs)
        fail(e, f"array method .{name}")
        return None


BUILTINS = {"len", "abs", "any", "all", "range", "zip", "list", "float", "bool", "int", "max", "min"}


# ------------------------------------------------------------------- numpy table
def _axis(kwargs, args, pos=1, default=None):
    if "axis" in kwargs:
        return kwargs["axis"]
    if len(args) > pos:
        return args[pos]
    return default


def _reduce(f, init=None):
    def red(interp, e, mod, args, kwargs):
        a = args[0]
        axis = _axis(kwargs, args)
        extra = set(kwargs) - {"axis", "keepdims"}
        if extra:
            fail(e, f"keyword {extra}")
        a = obj(np.array(a, dtype=object) if isinstance(a, (list, tuple)) else a)

        def red1(v):
            items = list(v)
            acc = items[0] if init is None else init
            for x in (items[1:] if init is None else items):
                acc = f(acc, x)
            return acc
        if axis is None:
            r = red1(np.ravel(a))
            return r
        if isinstance(axis, tuple):
            fail(e, "tuple axis")
        r = np.apply_along_axis(lambda v: np.array([red1(v)], dtype=object), int(axis), a)
        r = np.squeeze(r, axis=int(axis)) if not kwargs.get("keepdims") else r
        if r.ndim == 0:
            return r[()]
        return r
    return red


def np_sum(interp, e, mod, args, kwargs):
    a = args[0]
    if not is_symbolic(a):
        return np.sum(a, **kwargs) if len(args) == 1 else np.sum(a, args[1], **kwargs)
    return _reduce(add)(interp, e, mod, args, kwargs)


def np_mean(interp, e, mod, args, kwargs):
    a = obj(args[0])
    axis = _axis(kwargs, args)
    n = a.size if axis is None else a.shape[int(axis)]
    s = _reduce(add)(interp, e, mod, [a], {"axis": axis})
    return interp.binop(operator.truediv, s, n, e)


def np_minmax(f, g):
    def h(interp, e, mod, args, kwargs):
        if not is_symbolic(args[0]):
            return g(*args, **kwargs)
        return _reduce(f)(interp, e, mod, args, kwargs)
    return h


def np_anyall(name):
    def h(interp, e, mod, args, kwargs):
        if not is_symbolic(args[0]):
            return getattr(np, name)(*args, **kwargs)
        return _reduce(bor if name == "any" else band, bconst(name == "all"))(interp, e, mod, args, kwargs)
    return h


def np_elem(symf, concf):
    def h(interp, e, mod, args, kwargs):
        if kwargs:
            fail(e, "keyword arguments")
        if any(is_symbolic(a) for a in args):
            return symf(*[a if isinstance(a, N) else obj(a) for a in args])
        return concf(*args)
    return h


def np_norm(interp, e, mod, args, kwargs):
    a = obj(args[0])
    axis = _axis(kwargs, args)
    extra = set(kwargs) - {"axis", "keepdims"}
    if extra:
        fail(e, f"keyword {extra}")
    if axis is None and a.ndim != 1:
        fail(e, "matrix norm")
    interp.notes.add("np.linalg.norm modelled as sqrt(sum(x*x))")
    s = _reduce(add)(interp, e, mod, [a * a], {"axis": axis, "keepdims": kwargs.get("keepdims", False)})
    return u_sqrt(s)


def np_cross(interp, e, mod, args, kwargs):
    if kwargs:
        fail(e, "np.cross keywords")
    a, b = obj(args[0]), obj(args[1])
    if a.shape[-1] != 3 or b.shape[-1] != 3:
        fail(e, "np.cross of non 3-vectors")
    c0 = a[..., 1] * b[..., 2] - a[..., 2] * b[..., 1]
    c1 = a[..., 2] * b[..., 0] - a[..., 0] * b[..., 2]
    c2 = a[..., 0] * b[..., 1] - a[..., 1] * b[..., 0]
    return np.stack([obj(c0), obj(c1), obj(c2)], axis=-1)


def np_det(interp, e, mod, args, kwargs):
    m = obj(args[0])
    if m.shape[-2:] != (3, 3):
        fail(e, "determinant of a non 3x3 matrix")
    d = (m[..., 0, 0] * (m[..., 1, 1] * m[..., 2, 2] - m[..., 1, 2] * m[..., 2, 1])
         - m[..., 0, 1] * (m[..., 1, 0] * m[..., 2, 2] - m[..., 1, 2] * m[..., 2, 0])
         + m[..., 0, 2] * (m[..., 1, 0] * m[..., 2, 1] - m[..., 1, 1] * m[..., 2, 0]))
    return d


def np_inv(interp, e, mod, args, kwargs):
    m = obj(args[0])
    if m.shape[-2:] != (3, 3):
        fail(e, "inverse of a non 3x3 matrix")
    interp.notes.add("np.linalg.inv of 3x3 matrices modelled as adjugate / determinant")
    d = np_det(interp, e, mod, [m], {})
    out = np.empty(m.shape, dtype=object)
    for i in range(3):
        for j in range(3):
            r = [k for k in range(3) if k != j]
            c = [k for k in range(3) if k != i]
            minor = m[..., r[0], c[0]] * m[..., r[1], c[1]] - m[..., r[0], c[1]] * m[..., r[1], c[0]]
            out[..., i, j] = (minor if (i + j) % 2 == 0 else -minor) / d
    return out


def np_matmul(interp, e, mod, args, kwargs):
    a, b = obj(args[0]), obj(args[1])
    if a.ndim < 2 or b.ndim < 2:
        fail(e, "matmul of vectors")
    return np.einsum("...ij,...jk->...ik", a, b)


def np_where(interp, e, mod, args, kwargs):
    if len(args) != 3 or kwargs:
        fail(e, "np.where form")
    c, a, b = args
    if not is_symbolic(c):
        c = np.asarray(c, dtype=bool)
        if not is_symbolic(a) and not is_symbolic(b):
            return np.where(c, a, b)
    return u_ite(obj(c) if not isinstance(c, N) else c, obj(a) if not isinstance(a, N) else a,
                 obj(b) if not isinstance(b, N) else b)


def np_isclose(interp, e, mod, args, kwargs):
    a, b = args[0], args[1]
    rtol = kwargs.get("rtol", args[2] if len(args) > 2 else 1e-5)
    atol = kwargs.get("atol", args[3] if len(args) > 3 else 1e-8)
    if set(kwargs) - {"rtol", "atol"}:
        fail(e, "np.isclose keywords")
    if not (is_symbolic(a) or is_symbolic(b)):
        interp.visited.add((mod.name, e.lineno, e.col_offset))
        return np.isclose(a, b, rtol=rtol, atol=atol)

    def one(x, y):
        rhs = add(const(atol), mul(const(rtol), fabs(y))) if atol != 0 else mul(const(rtol), fabs(y))
        return mk("bool", "BLe", fabs(sub(x, y)), rhs)
    r = ufunc(one, 2)(a if isinstance(a, N) else obj(a), b if isinstance(b, N) else obj(b))
    interp.record(e, mod, r)
    return r


def np_array(interp, e, mod, args, kwargs):
    dt = kwargs.get("dtype")
    if set(kwargs) - {"dtype"}:
        fail(e, "np.array keywords")
    a = args[0]
    if is_symbolic(a):
        if dt == ("dtype", "int") or dt == ("builtin", "int"):
            interp.notes.add("np.array(x, dtype=int) of symbolic case numbers modelled as the identity")
        r = np.empty(np.shape(_tolist_shape(a)), dtype=object) if False else _stack(a)
        return r
    if dt in (("dtype", "int"), ("builtin", "int")):
        return np.array(a, dtype=int)
    return np.array(a, dtype=float) if dt is not None else np.array(a)


def _tolist_shape(a):
    return a


def _stack(a):
    if isinstance(a, np.ndarray):
        return a.astype(object) if a.dtype != object else a
    if isinstance(a, (list, tuple)):
        parts = [_stack(x) for x in a]
        shapes = {p.shape for p in parts}
        if len(shapes) != 1:
            raise Untranslatable("ragged array literal")
        out = np.empty((len(parts),) + parts[0].shape, dtype=object)
        for i, p in enumerate(parts):
            out[i] = p
        return out
    r = np.empty((), dtype=object)
    r[()] = a
    return r


def np_shape_fn(name):
    def h(interp, e, mod, args, kwargs):
        args = [(_stack(a) if is_symbolic(a) and not isinstance(a, np.ndarray) else a) for a in args[:1]] + list(args[1:])
        try:
            return getattr(np, name)(*args, **kwargs)
        except Exception as ex:   # pylint: disable=broad-except
            fail(e, f"np.{name} failed: {ex}")
        return None
    return h


def np_concatenate(interp, e, mod, args, kwargs):
    parts = [(_stack(p) if not isinstance(p, np.ndarray) else p) for p in args[0]]
    if any(p.dtype == object for p in parts):
        parts = [p.astype(object) for p in parts]
    axis = _axis(kwargs, args, 1, 0)
    return np.concatenate(parts, axis=int(axis))


def np_vstack(interp, e, mod, args, kwargs):
    parts = [np.atleast_2d(_stack(p) if not isinstance(p, np.ndarray) else p) for p in args[0]]
    if any(p.dtype == object for p in parts):
        parts = [p.astype(object) for p in parts]
    return np.concatenate(parts, axis=0)


def np_c_(interp, e, mod, args, kwargs):
    fail(e, "np.c_")


def np_zeros(val):
    def h(interp, e, mod, args, kwargs):
        shp = args[0]
        shp = (int(shp),) if isinstance(shp, (int, np.integer)) else tuple(int(i) for i in shp)
        if val == "empty":
            interp.notes.add("np.empty modelled as zeros")
        return np.zeros(shp) if val in (0, "empty") else np.ones(shp)
    return h


def np_zeros_like(interp, e, mod, args, kwargs):
    return np.zeros(np.shape(args[0]), dtype=float)


def np_full(interp, e, mod, args, kwargs):
    return np.full(args[0], args[1])


def np_isnan(interp, e, mod, args, kwargs):
    a = args[0]
    if is_symbolic(a):
        interp.notes.add("np.isnan(x) is False on the reals")
        return np.zeros(np.shape(a), dtype=bool)
    return np.isnan(a)


def np_nan_to_num(interp, e, mod, args, kwargs):
    return args[0]


def np_einsum(interp, e, mod, args, kwargs):
    if kwargs:
        fail(e, "einsum keywords")
    spec = args[0].replace(" ", "")
    ops = [obj(a) for a in args[1:]]
    return np.einsum(spec, *ops)


def np_logical(f):
    def h(interp, e, mod, args, kwargs):
        if any(is_symbolic(a) for a in args):
            return f(*[a if isinstance(a, N) else obj(a) for a in args])
        return {u_band: np.logical_and, u_bor: np.logical_or, u_bnot: np.logical_not}[f](*args)
    return h


def np_mod(interp, e, mod, args, kwargs):
    return interp.binop(operator.mod, args[0], args[1], e)


def np_log(interp, e, mod, args, kwargs):
    return u_fn0("log")(args[0]) if is_symbolic(args[0]) else np.log(args[0])


def np_arctan2(interp, e, mod, args, kwargs):
    if any(is_symbolic(a) for a in args):
        return ufunc(lambda y, x: fnh("arctan2", y, x), 2)(*[a if isinstance(a, N) else obj(a) for a in args])
    return np.arctan2(*args)


def np_copy(interp, e, mod, args, kwargs):
    return np.array(args[0], dtype=object).copy() if is_symbolic(args[0]) else np.copy(args[0])


def np_expand_dims(interp, e, mod, args, kwargs):
    return np.expand_dims(args[0], _axis(kwargs, args))


def np_tile(interp, e, mod, args, kwargs):
    return np.tile(args[0], args[1])


def np_repeat(interp, e, mod, args, kwargs):
    return np.repeat(args[0], args[1], axis=_axis(kwargs, args, 2))


def np_round(interp, e, mod, args, kwargs):
    return u_fn0("round")(args[0]) if is_symbolic(args[0]) else np.round(args[0])


def np_rounding(name):
    """np.ceil / np.floor: an opaque function of a DIMENSIONLESS argument (Dim.Fn0)"""
    def h(interp, e, mod, args, kwargs):
        if kwargs or len(args) != 1:
            fail(e, f"np.{name} form")
        return u_fn0(name)(args[0]) if is_symbolic(args[0]) else getattr(np, name)(args[0])
    return h


CALLS = {
    "np.sum": np_sum, "np.mean": np_mean,
    "np.min": np_minmax(vmin, np.min), "np.max": np_minmax(vmax, np.max),
    "np.any": np_anyall("any"), "np.all": np_anyall("all"),
    "np.sqrt": np_elem(u_sqrt, np.sqrt), "np.abs": np_elem(u_abs, np.abs), "np.fabs": np_elem(u_abs, np.fabs),
    "np.sign": np_elem(u_sign, np.sign),
    "np.sin": np_elem(u_fn0("sin"), np.sin), "np.cos": np_elem(u_fn0("cos"), np.cos),
    "np.tan": np_elem(u_fn0("tan"), np.tan), "np.arctan": np_elem(u_fn0("arctan"), np.arctan),
    "np.log": np_log, "np.arctan2": np_arctan2, "np.round": np_round, "np.ceil": np_rounding("ceil"), "np.floor": np_rounding("floor"), "np.mod": np_mod,
    "np.linalg.norm": np_norm, "np.cross": np_cross, "np.linalg.det": np_det, "np.linalg.inv": np_inv,
    "np.matmul": np_matmul, "np.einsum": np_einsum,
    "np.where": np_where, "np.isclose": np_isclose,
    "np.logical_and": np_logical(u_band), "np.logical_or": np_logical(u_bor), "np.logical_not": np_logical(u_bnot),
    "np.array": np_array, "np.copy": np_copy,
    "np.zeros": np_zeros(0), "np.ones": np_zeros(1), "np.empty": np_zeros("empty"), "np.zeros_like": np_zeros_like,
    "np.full": np_full,
    "np.concatenate": np_concatenate, "np.vstack": np_vstack,
    "np.tile": np_tile, "np.repeat": np_repeat, "np.expand_dims": np_expand_dims,
    "np.swapaxes": np_shape_fn("swapaxes"), "np.transpose": np_shape_fn("transpose"),
    "np.reshape": np_shape_fn("reshape"),
    "np.isnan": np_isnan, "np.nan_to_num": np_nan_to_num,
}


# =================================================================== entry points
F = "magpylib._src.fields."
L, E0 = (2, 0), (0, 2)        # (degree under the length scaling, degree under the excitation scaling), half units
D0 = (0, 0)


def sym_array(name, shape, degs, envs):
    """fresh variables name.i.j..; degs: one (len, exc) pair or an array of pairs over the LAST axis"""
    a = np.empty(shape, dtype=object)
    for idx in np.ndindex(*shape):
        v = "".join(f"{i}." for i in idx) + name      # index first: string comparisons fail fast
        a[idx] = mk("num", "Var", v)
        d = degs if isinstance(degs[0], int) else degs[idx[-1]]
        envs[v] = d
    return a


# entry: (key, module, function, {param: spec}, variants {param: [values]}, expected degree of the returned
#         components (len, exc) | None (not a field), extra)
#   spec: ("arr", shape, degs) | ("val", value)
ENTRIES = [
    ("dipole", F + "field_BH_dipole", "BHJM_dipole",
     {"observers": ("arr", (1, 3), L), "moment": ("arr", (1, 3), E0)}, {"field": ["B", "H"]}, (-6, 2)),
    ("sphere", F + "field_BH_sphere", "BHJM_magnet_sphere",
     {"observers": ("arr", (1, 3), L), "diameter": ("arr", (1,), L), "polarization": ("arr", (1, 3), E0)},
     {"field": ["B", "H", "J", "M"]}, (0, 2)),
    ("cuboid", F + "field_BH_cuboid", "BHJM_magnet_cuboid",
     {"observers": ("arr", (1, 3), L), "dimension": ("arr", (1, 3), L), "polarization": ("arr", (1, 3), E0)},
     {"field": ["B", "H", "J", "M"]}, (0, 2)),
    ("cylinder", F + "field_BH_cylinder", "BHJM_magnet_cylinder",
     {"observers": ("arr", (1, 3), L), "dimension": ("arr", (1, 2), L), "polarization": ("arr", (1, 3), E0)},
     {"field": ["B", "H", "J", "M"]}, (0, 2)),
    ("cylinder_segment", F + "field_BH_cylinder_segment", "BHJM_cylinder_segment",
     {"observers": ("arr", (1, 3), L), "dimension": ("arr", (1, 5), [L, L, L, D0, D0]),
      "polarization": ("arr", (1, 3), E0)},
     {"field": ["B", "H", "J", "M"]}, (0, 2)),
    ("cylinder_segment_cases", F + "field_BH_cylinder_segment", "determine_cases",
     {"r": ("arr", (1,), L), "phi": ("arr", (1,), D0), "z": ("arr", (1,), L),
      "r1": ("arr", (1,), L), "phi1": ("arr", (1,), D0), "z1": ("arr", (1,), L)}, {}, None),
    ("circle", F + "field_BH_circle", "BHJM_circle",
     {"observers": ("arr", (1, 3), L), "diameter": ("arr", (1,), L), "current": ("arr", (1,), E0)},
     {"field": ["B", "H"]}, (-2, 2)),
    ("polyline", F + "field_BH_polyline", "BHJM_current_polyline",
     {"observers": ("arr", (1, 3), L), "segment_start": ("arr", (1, 3), L), "segment_end": ("arr", (1, 3), L),
      "current": ("arr", (1,), E0)},
     {"field": ["B", "H"]}, (-2, 2)),
    ("triangle", F + "field_BH_triangle", "BHJM_triangle",
     {"observers": ("arr", (1, 3), L), "vertices": ("arr", (1, 3, 3), L), "polarization": ("arr", (1, 3), E0)},
     {"field": ["B", "H"]}, (0, 2)),
    ("tetrahedron", F + "field_BH_tetrahedron", "BHJM_magnet_tetrahedron",
     {"observers": ("arr", (1, 3), L), "vertices": ("arr", (1, 4, 3), L), "polarization": ("arr", (1, 3), E0),
      "in_out": ("val", "auto")},
     {"field": ["B", "H", "J", "M"]}, (0, 2)),
    ("trimesh_inside", F + "field_BH_triangularmesh", "mask_inside_trimesh",
     {"points": ("arr", (1, 3), L), "faces": ("arr", (2, 3, 3), L)}, {}, None),
    # lines_end_in_trimesh is only called by mask_inside_trimesh (ONLY_CALLED_FROM), which hands it the ray and
    # the faces of the unit-size copy of the problem: DIMENSIONLESS inputs (owed by the caller, see MODULAR)
    ("trimesh_lines_end", F + "field_BH_triangularmesh", "lines_end_in_trimesh",
     {"lines": ("arr", (1, 2, 3), D0), "faces": ("arr", (2, 3, 3), D0)}, {}, None),
    # is_facet_inwards and segments_intersect_facets are only reached through get_inwards_mask /
    # get_intersecting_triangles, which hand them a copy of the mesh normalised to unit size (checked by the
    # two prefix entries below and by CALL_ROOTS): their inputs are DIMENSIONLESS
    ("trimesh_facet_inwards", F + "field_BH_triangularmesh", "is_facet_inwards",
     {"face": ("arr", (3, 3), D0), "faces": ("arr", (2, 3, 3), D0)}, {}, None),
    ("trimesh_selfintersect", F + "field_BH_triangularmesh", "segments_intersect_facets",
     {"segments": ("arr", (1, 2, 3), D0), "facets": ("arr", (1, 3, 3), D0)}, {}, None),
    # prefix entries: the straight-line head of the function is executed up to the first statement for which
    # `stop` holds; the watched variables must then have the stated degree (they are what the rest of the
    # function hands to the seed test / the intersection test)
    ("trimesh_inwards_mask", F + "field_BH_triangularmesh", "get_inwards_mask",
     {"vertices": ("arr", (3, 3), L), "triangles": ("val", np.array([[0, 1, 2]]))}, {}, None,
     {"stop": "while", "watch": {"msh": D0}}),
    ("trimesh_intersecting", F + "field_BH_triangularmesh", "get_intersecting_triangles",
     {"vertices": ("arr", (3, 3), L), "triangles": ("val", np.array([[0, 1, 2]]))}, {}, None,
     {"stop": "kdtree", "watch": {"facets": D0, "centers": D0, "r": D0}}),
]

# functions typed with dimensionless inputs may only be referenced from the functions that normalise first
ONLY_CALLED_FROM = {
    "lines_end_in_trimesh": {"mask_inside_trimesh"},
    "is_facet_inwards": {"get_inwards_mask"},
    "segments_intersect_facets": {"get_intersecting_triangles"},
}


def check_only_called_from(repo):
    root = os.path.join(repo, "magpylib")
    for dirpath, _dirs, files in os.walk(root):
        for fnm in files:
            if not fnm.endswith(".py"):
                continue
            path = os.path.join(dirpath, fnm)
            tree = ast.parse(open(path).read())
            owner = {}
            for fn in ast.walk(tree):
                if isinstance(fn, (ast.FunctionDef, ast.AsyncFunctionDef, ast.Lambda)):
                    for node in ast.walk(fn):
                        owner.setdefault(id(node), getattr(fn, "name", "<lambda>"))
            for node in ast.walk(tree):
                nm = node.id if isinstance(node, ast.Name) else node.attr if isinstance(node, ast.Attribute) else None
                if nm in ONLY_CALLED_FROM:
                    # ast.walk visits outer functions first: the recorded owner is the outermost function
                    own = owner.get(id(node))
                    if own not in ONLY_CALLED_FROM[nm]:
                        raise Untranslatable(f"{nm} is referenced from {own or 'module level'} in "
                                             f"{os.path.relpath(path, repo)}: it is typed with dimensionless inputs "
                                             f"and may only be used by {sorted(ONLY_CALLED_FROM[nm])}")
            for node in ast.walk(tree):
                if isinstance(node, (ast.ImportFrom,)):
                    for al in node.names:
                        if al.name in ONLY_CALLED_FROM:
                            raise Untranslatable(f"{al.name} is imported in {os.path.relpath(path, repo)}")


# syntactic tie between the prefix entries and the calls in the un-executed rest of those functions: every
# array argument of the callee is (an index expression of) one of the watched, normalised variables
CALL_ROOTS = [
    ("field_BH_triangularmesh", "get_inwards_mask", "is_facet_inwards", {"msh"}, {}),
    ("field_BH_triangularmesh", "get_intersecting_triangles", "segments_intersect_facets", {"facets"},
     {"eps": "eps"}),
]


def check_call_roots(interp):
    for modname, fname, callee, roots, kw_names in CALL_ROOTS:
        mod = interp.module(F + modname)
        fn = mod.funcs.get(fname)
        if fn is None:
            raise Untranslatable(f"{fname} not found")
        alias = {}
        for node in ast.walk(fn):       # one level of `a, b = X[..], X[..]` / `a = X[..]`
            if isinstance(node, ast.Assign) and len(node.targets) == 1:
                t, v = node.targets[0], node.value
                pairs = list(zip(t.elts, v.elts)) if isinstance(t, ast.Tuple) and isinstance(v, ast.Tuple) \
                    and len(t.elts) == len(v.elts) else [(t, v)]
                for tt, vv in pairs:
                    if isinstance(tt, ast.Name):
                        alias.setdefault(tt.id, []).append(vv)

        def root(e, depth=0):
            while isinstance(e, ast.Subscript):
                e = e.value
            if isinstance(e, ast.Name):
                if e.id in roots:
                    return True
                if depth < 2 and e.id in alias and e.id not in ("vertices",):
                    return all(root(v, depth + 1) for v in alias[e.id])
            return False
        calls = [n for n in ast.walk(fn) if isinstance(n, ast.Call) and isinstance(n.func, ast.Name)
                 and n.func.id == callee]
        if not calls:
            raise Untranslatable(f"{fname} no longer calls {callee}")
        for c in calls:
            for a in c.args:
                if not root(a):
                    raise Untranslatable(f"{fname}: argument `{ast.unparse(a)}` of {callee} is not derived from "
                                         f"the normalised {sorted(roots)}")
            for k in c.keywords:
                if k.arg in kw_names and ast.unparse(k.value) == kw_names[k.arg]:
                    continue
                if not root(k.value):
                    raise Untranslatable(f"{fname}: keyword `{ast.unparse(k)}` of {callee} not understood")


# the cores below take DIMENSIONLESS arguments only (the wrapper divides by the radius first): they are
# modelled as opaque functions whose arguments must have degree 0 (checked by Dim.deg: Fn0)
OPAQUE_FUNCS = {
    ("field_BH_cylinder", "magnet_cylinder_axial_Bfield"): Opaque("cylinder_axial", 3),
    ("field_BH_cylinder", "magnet_cylinder_diametral_Hfield"): Opaque("cylinder_diametral", 3),
    # cylinder segment core: ~2000 lines of closed forms, NOT modelled: an opaque function of dimensional
    # arguments; its degree cannot be inferred (the returned field of this class is `not shown`)
    ("field_BH_cylinder_segment", "magnet_cylinder_segment_Hfield"): Opaque("cylinder_segment_H", 3, rowwise=True),
}

# functions that are entry points of their own and are called from other entry points: (parameter
# degrees owed by the caller, shape of the boolean result)
MODULAR = {
    # called from BHJM_magnet_trimesh with lengths; from is_facet_inwards with the normalised (dimensionless)
    # mesh: a function applied to dimensionless data cannot depend on the unit, whatever it does inside
    ("field_BH_triangularmesh", "mask_inside_trimesh"):
        ({"points": L, "faces": L}, lambda b: (len(b["points"]),), None,
         {"trimesh_facet_inwards": {"points": D0, "faces": D0}}),
    ("field_BH_triangularmesh", "lines_end_in_trimesh"):
        ({"lines": D0, "faces": D0}, lambda b: (len(b["lines"]),)),
    # the triangle field is an entry of its own (degree 0 in length, 1 in excitation for field B and H)
    ("field_BH_triangle", "BHJM_triangle"):
        ({"observers": L, "vertices": L, "polarization": E0}, lambda b: np.shape(b["observers"]), (0, 2)),
}

ANCHORED = ["field_BH_triangularmesh", "field_BH_triangle", "field_BH_cylinder_segment", "field_BH_cuboid",
            "field_BH_cylinder", "field_BH_circle", "field_BH_polyline", "field_BH_tetrahedron",
            "field_BH_sphere", "field_BH_dipole"]

# functions whose comparisons are NOT visited by the interpreter, with the reason
STATIC_FUNCS = {
    # dimensionless special functions and cores (reached only through Fn0 = dimensionless arguments)
    ("field_BH_cylinder", "magnet_cylinder_axial_Bfield"): "dimensionless-core",
    ("field_BH_cylinder", "magnet_cylinder_diametral_Hfield"): "dimensionless-core",
    # cylinder-segment closed forms: opaque, not modelled (degree of this class is searched, not proved)
    ("field_BH_cylinder_segment", "magnet_cylinder_segment_Hfield"): "not-modelled-core",
    ("field_BH_cylinder_segment", "arctan_k_tan_2"): "not-modelled-core",
    ("field_BH_cylinder_segment", "BHJM_cylinder_segment_internal"): "angles-only",
    # combinatorial code on integer index arrays / strings / shapes
    ("field_BH_triangularmesh", "get_disconnected_faces_subsets"): "combinatorial",
    ("field_BH_triangularmesh", "get_open_edges"): "combinatorial",
    ("field_BH_triangularmesh", "get_intersecting_triangles"): "combinatorial",
    ("field_BH_triangularmesh", "BHJM_magnet_trimesh"): "combinatorial",
    ("field_BH_triangularmesh", "get_inwards_mask"): "combinatorial",
    ("field_BH_polyline", "current_vertices_field"): "combinatorial",
}
# comparisons inside executed functions that the interpreter decides concretely or never reaches
STATIC_OK = {
    ("segments_intersect_facets", "eps <= 0"): "parameter check",
}


def run_prefix(interp, mod, fn, kw, opts, key):
    """execute the head of fn up to the first statement whose source starts with opts['stop']"""
    params = [a.arg for a in fn.args.args]
    env = {}
    defaults = fn.args.defaults
    for i, d in enumerate(defaults):
        env[params[len(params) - len(defaults) + i]] = interp.expr(d, {}, mod)
    env.update(kw)
    for p in params:
        if p not in env:
            raise Untranslatable(f"{fn.name}: missing argument {p}")
    interp.stack.append(fn.name)
    stopped = False
    for st in fn.body:
        if ast.unparse(st).lstrip().startswith(opts["stop"]):
            stopped = True
            break
        interp.stmt(st, env, mod)
    if not stopped:
        raise Untranslatable(f"{fn.name}: stop statement `{opts['stop']}` not found")
    for name, d in opts["watch"].items():
        if name not in env:
            raise Untranslatable(f"{fn.name}: watched variable {name} is not defined before `{opts['stop']}`")
        for i, x in enumerate(np.ravel(obj(env[name]))):
            interp.arg_obligations.append((">".join(interp.stack + [f"arg:{name}.{i}"]), d, num(x)))
    interp.stack.pop()


def run_entry(interp, entry, envs):
    key, modname, fname, params, variants, ret = entry[:6]
    mod = interp.module(modname)
    if fname not in mod.funcs:
        raise Untranslatable(f"{fname} not found in {modname}")
    fn = mod.funcs[fname]
    sig = [a.arg for a in fn.args.args]
    for p in list(params) + list(variants):
        if p not in sig:
            raise Untranslatable(f"{fname}: parameter {p} not in signature {sig}")
    base = {}
    for p, spec in params.items():
        if spec[0] == "arr":
            base[p] = sym_array(f"{p}@{key}", spec[1], spec[2], envs)
        else:
            base[p] = spec[1]
    degs = []
    names = list(variants)
    combos = [[]]
    for n in names:
        combos = [c + [v] for c in combos for v in variants[n]]
    for combo in combos:
        kw = dict(base)
        kw.update(dict(zip(names, combo)))
        kw = {k: (v.copy() if isinstance(v, np.ndarray) else v) for k, v in kw.items()}
        tag = ",".join(f"{n}={v}" for n, v in zip(names, combo))
        interp.stack = [key]
        interp.arg_obligations = []
        if len(entry) > 6:
            val = None
            run_prefix(interp, mod, fn, kw, entry[6], key)
        else:
            val = interp.call_function(mod.globals[fname], [], kw, fname)
        for did, d, x in interp.arg_obligations:
            if not any(did == o[0] and x is o[2] for o in degs):
                if any(did == o[0] for o in degs):
                    did = did + f"[{tag}]"
                degs.append((did, d, x))
        if ret is not None:
            comps = [x for x in np.ravel(obj(val))]
            for i, x in enumerate(comps):
                degs.append((f"{key}>{fname}[{tag}]>return.{i}", ret, num(x)))
    return degs


def inventory(interp):
    """every Compare / isclose / close in the anchored files is visited, or statically classified"""
    missing, static = [], []
    for name in ANCHORED:
        mod = interp.module(F + name)
        for fn in mod.funcs.values():
            for node in ast.walk(fn):
                iscmp = isinstance(node, ast.Compare)
                iscall = isinstance(node, ast.Call) and ast.unparse(node.func) in ("np.isclose", "np.allclose")
                if not (iscmp or iscall):
                    continue
                if (mod.name, node.lineno, node.col_offset) in interp.visited:
                    continue
                src = ast.unparse(node)
                if (mod.name, fn.name) in STATIC_FUNCS:
                    static.append((mod.name, fn.name, src, STATIC_FUNCS[(mod.name, fn.name)]))
                elif (fn.name, src) in STATIC_OK:
                    static.append((mod.name, fn.name, src, STATIC_OK[(fn.name, src)]))
                else:
                    missing.append(f"{mod.name}.{fn.name}: {src}")
    if missing:
        raise Untranslatable("comparisons not reached by the symbolic execution and not classified: "
                             + "; ".join(missing[:8]))
    return static


# =================================================================== emission
def cstr(s):
    return '"' + s.replace('"', '""') + '"'


class Emitter:
    def __init__(self):
        self.defs = []
        self.names = {}
        self.refs = {}

    def count(self, roots):
        seen = set()
        stack = list(roots)
        while stack:
            n = stack.pop()
            for a in n.args:
                if isinstance(a, N):
                    self.refs[a.id] = self.refs.get(a.id, 0) + 1
                    if a.id not in seen:
                        seen.add(a.id)
                        stack.append(a)

    def ref(self, n):
        if n.id in self.names:
            return self.names[n.id]
        txt = self.text(n)
        if self.refs.get(n.id, 0) >= 2 and n.size >= 5 and n.kind in ("num", "bool", "args"):
            nm = f"t{n.id}"
            ty = {"num": "dexpr", "bool": "bexpr", "args": "dargs"}[n.kind]
            self.defs.append(f"Definition {nm} : {ty} := {txt}.")
            self.names[n.id] = nm
            return nm
        return txt

    def text(self, n):
        op, a = n.op, n.args
        if op == "Var":
            return f"(Var {cstr(a[0])})"
        if op == "Const":
            return f"(Const ({a[0]}) {a[1]})"
        if op == "CPi":
            return "CPi"
        if op in ("Add", "Sub", "Mul", "Div", "Min", "Max", "BLt", "BLe", "BEq", "BAnd", "BOr"):
            return f"({op} {self.ref(a[0])} {self.ref(a[1])})"
        if op in ("Neg", "Abs", "Sqrt", "Sign", "BNot"):
            return f"({op} {self.ref(a[0])})"
        if op == "Pow":
            return f"(Pow {self.ref(a[0])} {a[1]})"
        if op in ("Fn0", "FnH"):
            return f"({op} {cstr(a[0])} {self.ref(a[1]) if len(a) > 1 else 'ANil'})"
        if op == "ACons":
            return f"(ACons {self.ref(a[0])} {self.ref(a[1]) if len(a) > 1 else 'ANil'})"
        if op == "Ite":
            return f"(Ite {self.ref(a[0])} {self.ref(a[1])} {self.ref(a[2])})"
        if op == "BConst":
            return f"(BConst {'true' if a[0] else 'false'})"
        if op == "BUnknown":
            return f"(BUnknown {cstr(a[0])})"
        raise Untranslatable(f"cannot emit node {op} ({n.kind})")


HEADER = """(* GENERATED on every run from /repo by translate/gen_tol.py -- do not edit.
   Every comparison of the anchored field functions and mesh utilities as a Dim.bexpr (one per array
   element), the degree obligations (fn_rets: returned field components with the expected degrees;
   fn_args: arguments handed to a parameter of known dimension) as Dim.dexpr, and the dimension of every
   input element:
   env_len  : degree under the LENGTH scaling (half units: a length has degree 2),
   env_exc  : degree under the EXCITATION scaling (polarization / current / moment have degree 2). *)
From Coq Require Import ZArith String List.
From MV Require Import Lib.Dim.
Import ListNotations.
Open Scope string_scope.
Open Scope Z_scope.
"""


def analyse(repo):
    """run the symbolic execution; returns a dict with everything the generator and the harness need"""
    N.reset()
    interp = Interp(repo, OPAQUE_FUNCS)
    per_entry = []
    for entry in ENTRIES:
        envs = {"MU0": D0}
        interp.envs = envs
        n0 = len(interp.records)
        degs = run_entry(interp, entry, envs)
        per_entry.append((entry[0], n0, degs, envs))
    check_call_roots(interp)
    check_only_called_from(repo)
    static = inventory(interp)
    return {"interp": interp, "per_entry": per_entry, "static": static}


def generate(repo):
    res = analyse(repo)
    interp = res["interp"]
    em = Emitter()
    roots = [x for r in interp.records for x in r[2]]
    for _, _, degs, _ in res["per_entry"]:
        roots += [d[2] for d in degs]
    em.count(roots)
    # group the records per entry
    bounds = [pe[1] for pe in res["per_entry"]] + [len(interp.records)]
    body = []
    fn_rows = []
    for i, (key, n0, degs, envs) in enumerate(res["per_entry"]):
        recs = interp.records[bounds[i]:bounds[i + 1]]
        rows = []
        for rid, _, elems in recs:
            rows.append("  (%s,\n   [%s])" % (cstr(rid), ";\n    ".join(em.ref(x) for x in elems)))
        drows, arows = [], []
        for did, (kl, ke), x in degs:
            (drows if ">return." in did else arows).append(
                "  (%s, (%d, %d), %s)" % (cstr(did), kl, ke, em.ref(x)))
        ident = key
        body.append((ident, rows, drows, envs, arows))
        fn_rows.append(ident)
    out = [HEADER]
    out.append("(* shared subterms *)")
    out += em.defs
    for ident, rows, drows, envs, arows in body:
        vs = sorted(envs)
        out.append("\nDefinition env_len_%s : list (string * Z) :=\n  [%s]." %
                   (ident, ";\n   ".join(f"({cstr(v)}, {envs[v][0]})" for v in vs)))
        out.append("\nDefinition env_exc_%s : list (string * Z) :=\n  [%s]." %
                   (ident, ";\n   ".join(f"({cstr(v)}, {envs[v][1]})" for v in vs)))
        out.append(f"\nDefinition cmps_{ident} : list (string * list bexpr) :=\n  [" + ";\n".join(rows).lstrip() + "].")
        out.append(f"\nDefinition rets_{ident} : list (string * (Z * Z) * dexpr) :=\n  ["
                   + ";\n".join(drows).lstrip() + "].")
        out.append(f"\nDefinition args_{ident} : list (string * (Z * Z) * dexpr) :=\n  ["
                   + ";\n".join(arows).lstrip() + "].")
    out.append("\n(* one record per anchored entry point *)")
    out.append("Record fn_record := mkFn { fn_name : string; fn_env_len : list (string * Z); "
               "fn_env_exc : list (string * Z);\n  fn_cmps : list (string * list bexpr); "
               "fn_rets : list (string * (Z * Z) * dexpr);\n  fn_args : list (string * (Z * Z) * dexpr) }.")
    out.append("Definition functions : list fn_record :=\n  ["
               + ";\n   ".join(f"mkFn {cstr(i)} env_len_{i} env_exc_{i} cmps_{i} rets_{i} args_{i}" for i in fn_rows) + "].")
    out.append("\n(* comparisons classified statically (not dimension-typed), with the reason:")
    for m, f, src, why in res["static"]:
        out.append(f"     {m}.{f}: {src.replace('*)', '* )')}   [{why}]")
    out.append("   modelling notes:")
    for n in sorted(interp.notes):
        out.append("     " + n)
    out.append("*)")
    return "\n".join(out) + "\n"
