"""GenBatch.v: inventory of batch-level constructs in the field code (C06).

A construct is *batch-level* when one row's result can depend on the other rows of the call:
  * aggregate tests  np.any(x) / np.all(x) (no axis), builtin any(..) / all(..), x.any() / x.all()
  * branch tests (if / while / conditional expression) on len(..), .shape, .ndim, .size or on a
    name computed from them
  * `for .. in range(..len..)` loops, flagged when the body compares two different rows of one array
For each construct the translator records (file, function, kind, source text of the test); `kind`
says syntactically what the construct guards:
    store   assignments to subscripts (masked stores)         rebind  plain names are rebound
    return  the guarded block returns                         raise / call / loop
The list is emitted in source order.  Proofs/BatchProofs.v proves `inventory = expected_inventory`
by reflexivity, every expected entry carrying its verdict -- a new batch-level construct anywhere in
these modules breaks that proof.

Besides the inventory, four constructs are translated structurally (fail closed: the AST must have
exactly the expected shape) into the parameters of the list-level models of Model/BatchModel.v:
the TriangularMesh equal-mesh grouping loop, the cel / cel_iter size switches, the position of the
CylinderSegment all-on-surface exit relative to the J/M branches, and the ragged / non-ragged
switches of current_vertices_field and BHJM_magnet_trimesh.
"""
import ast
import glob
import os


class Untranslatable(Exception):
    pass


FIELDS = "magpylib/_src/fields"
WRAP_FUNCS = {"tile_group_property", "get_src_dict", "getBH_level1", "_getBH_level2", "getBH_level2"}
SIZE_ATTRS = {"shape", "ndim", "size"}
AGG_NAMES = {"np.any", "np.all", "any", "all"}


def q(s):
    return '"' + s.replace('"', "'") + '"'


def own_nodes(fn):
    """nodes of a function, not descending into nested function definitions"""
    out, stack = [], list(fn.body)
    while stack:
        n = stack.pop()
        out.append(n)
        for c in ast.iter_child_nodes(n):
            if not isinstance(c, (ast.FunctionDef, ast.AsyncFunctionDef, ast.Lambda)):
                stack.append(c)
    return out


def is_size_expr(node, tainted):
    for n in ast.walk(node):
        if isinstance(n, ast.Call) and isinstance(n.func, ast.Name) and n.func.id == "len":
            return True
        if isinstance(n, ast.Attribute) and n.attr in SIZE_ATTRS:
            return True
        if isinstance(n, ast.Name) and n.id in tainted:
            return True
    return False


def scalar_like(node):
    """arithmetic over names/constants/len()/shape subscripts only (no array-producing calls)"""
    for n in ast.walk(node):
        if isinstance(n, ast.Call):
            f = ast.unparse(n.func)
            if f not in ("len", "int", "max", "min", "np.prod", "sum"):
                return False
    return True


def effects(stmts):
    eff = set()
    for s in stmts:
        for n in ast.walk(s):
            if isinstance(n, (ast.Assign, ast.AugAssign, ast.AnnAssign)):
                tg = n.targets if isinstance(n, ast.Assign) else [n.target]
                for t in tg:
                    for e in (t.elts if isinstance(t, (ast.Tuple, ast.List)) else [t]):
                        eff.add("store" if isinstance(e, ast.Subscript) else "rebind")
            elif isinstance(n, ast.Return):
                eff.add("return")
            elif isinstance(n, ast.Raise):
                eff.add("raise")
            elif isinstance(n, (ast.For, ast.While)):
                eff.add("loop")
            elif isinstance(n, ast.Expr) and isinstance(n.value, ast.Call):
                eff.add("call")
    return "+".join(sorted(eff)) or "none"


def context_of(node, parents):
    """(ctx, negated, guarded statements) of an expression node"""
    neg = False
    cur = node
    while True:
        p = parents.get(cur)
        if p is None:
            return "expr", neg, []
        if isinstance(p, ast.UnaryOp) and isinstance(p.op, ast.Not):
            neg = not neg
        elif isinstance(p, (ast.BoolOp, ast.Compare, ast.BinOp)):
            pass
        elif isinstance(p, ast.If) and cur is p.test:
            return "if", neg, p.body + p.orelse
        elif isinstance(p, ast.While) and cur is p.test:
            return "while", neg, p.body
        elif isinstance(p, ast.IfExp) and cur is p.test:
            return "ifexp", neg, []
        elif isinstance(p, (ast.GeneratorExp, ast.ListComp, ast.comprehension)):
            return "comprehension", neg, []
        else:
            return "expr", neg, []
        cur = p


def agg_name(call):
    f = call.func
    name = ast.unparse(f)
    kws = [k.arg for k in call.keywords]
    if name in AGG_NAMES:
        if name.startswith("np.") and ("axis" in kws or len(call.args) > 1):
            return None
        return name
    if isinstance(f, ast.Attribute) and f.attr in ("any", "all") and not call.args and "axis" not in kws:
        if name.startswith("np."):
            return None
        return "." + f.attr + "()"
    return None


def neighbour_compare(loop):
    for n in ast.walk(loop):
        if isinstance(n, ast.Compare):
            subs = [s for side in [n.left] + n.comparators for s in ast.walk(side)
                    if isinstance(s, ast.Subscript) and isinstance(s.slice, ast.Name)]
            for a in subs:
                for b in subs:
                    if ast.unparse(a.value) == ast.unparse(b.value) and a.slice.id != b.slice.id:
                        return True
    return False


def inventory_of_function(fname, fn):
    nodes = own_nodes(fn)
    parents = {}
    for n in nodes + [fn]:
        for c in ast.iter_child_nodes(n):
            parents[c] = n
    # names computed from sizes, in source order
    tainted = set()
    for n in sorted([x for x in nodes if isinstance(x, ast.Assign)], key=lambda x: (x.lineno, x.col_offset)):
        if is_size_expr(n.value, tainted) and scalar_like(n.value):
            for t in n.targets:
                for e in (t.elts if isinstance(t, (ast.Tuple, ast.List)) else [t]):
                    if isinstance(e, ast.Name):
                        tainted.add(e.id)
    entries = []
    plain_len = 0
    size_tests_seen = set()
    for n in nodes:
        if isinstance(n, ast.Call):
            nm = agg_name(n)
            if nm is not None:
                ctx, neg, guarded = context_of(n, parents)
                kind = f"agg {ctx}{'-not' if neg else ''} -> {effects(guarded)}"
                entries.append((n.lineno, n.col_offset, kind, ast.unparse(n)))
            elif isinstance(n.func, ast.Name) and n.func.id == "len":
                ctx, _, _ = context_of(n, parents)
                if ctx in ("expr", "comprehension"):
                    plain_len += 1
        if isinstance(n, (ast.If, ast.While, ast.IfExp)):
            if is_size_expr(n.test, tainted) and id(n) not in size_tests_seen:
                size_tests_seen.add(id(n))
                ctx = {"If": "if", "While": "while", "IfExp": "ifexp"}[type(n).__name__]
                guarded = [] if isinstance(n, ast.IfExp) else n.body + getattr(n, "orelse", [])
                entries.append((n.lineno, n.col_offset, f"size-test {ctx} -> {effects(guarded)}",
                                ast.unparse(n.test)))
        if isinstance(n, ast.For):
            it = n.iter
            if isinstance(it, ast.Call) and ast.unparse(it.func) == "range" and is_size_expr(it, tainted):
                kind = "for-range-size" + (" neighbour-compare" if neighbour_compare(n) else "")
                entries.append((n.lineno, n.col_offset, kind, ast.unparse(it)))
    entries.sort()
    out = [(fname, fn.name, k, t) for (_, _, k, t) in entries]
    return out, plain_len


# ------------------------------------------------------------------ structural translations
def find_func(tree, name):
    for n in ast.walk(tree):
        if isinstance(n, ast.FunctionDef) and n.name == name:
            return n
    raise Untranslatable(f"function {name} not found")


def same(node, template):
    return ast.dump(node) == ast.dump(ast.parse(template).body[0])


def int_const(node, what):
    if isinstance(node, ast.Constant) and isinstance(node.value, int) and not isinstance(node.value, bool):
        return node.value
    raise Untranslatable(f"{what}: integer literal expected, got {ast.unparse(node)}")


def trimesh_loop(tree):
    fn = find_func(tree, "BHJM_magnet_trimesh")
    loops = [n for n in ast.walk(fn) if isinstance(n, ast.For)]
    if len(loops) != 1:
        raise Untranslatable(f"BHJM_magnet_trimesh: expected exactly one for loop, found {len(loops)}")
    loop = loops[0]
    # enclosing `if in_out == 'auto':` block must start with `prev_ind = 0`
    holder = [n for n in ast.walk(fn) if isinstance(n, ast.If) and loop in n.body]
    if len(holder) != 1 or ast.unparse(holder[0].test) != "in_out == 'auto'":
        raise Untranslatable("BHJM_magnet_trimesh: grouping loop is not directly inside `if in_out == 'auto'`")
    body = holder[0].body
    if len(body) != 2 or not same(body[0], "prev_ind = 0"):
        raise Untranslatable("BHJM_magnet_trimesh: `prev_ind = 0` followed by the loop expected")
    it = loop.iter
    if not (isinstance(loop.target, ast.Name) and loop.target.id == "new_ind" and isinstance(it, ast.Call)
            and ast.unparse(it.func) == "range" and len(it.args) == 2 and not loop.orelse):
        raise Untranslatable("BHJM_magnet_trimesh: `for new_ind in range(lo, hi)` expected, got "
                             + ast.unparse(loop.target) + " in " + ast.unparse(it))
    lo = int_const(it.args[0], "range start")
    hi = it.args[1]
    if ast.unparse(hi) == "len(BHJM)":
        hi_off = 0
    elif isinstance(hi, ast.BinOp) and isinstance(hi.op, ast.Add) and ast.unparse(hi.left) == "len(BHJM)":
        hi_off = int_const(hi.right, "range stop offset")
    else:
        raise Untranslatable("range stop: len(BHJM) [+ c] expected, got " + ast.unparse(hi))
    if len(loop.body) != 1 or not isinstance(loop.body[0], ast.If) or loop.body[0].orelse:
        raise Untranslatable("loop body: a single `if` without else expected")
    cond = loop.body[0]
    t = cond.test
    if not (isinstance(t, ast.BoolOp) and isinstance(t.op, ast.Or) and len(t.values) == 3):
        raise Untranslatable("group-closing test: `a or b or c` expected, got " + ast.unparse(t))
    last, shp, eq = t.values
    if not (isinstance(last, ast.Compare) and len(last.ops) == 1 and isinstance(last.ops[0], ast.Eq)
            and ast.unparse(last.left) == "new_ind"):
        raise Untranslatable("first disjunct: new_ind == len(BHJM) [- c] expected, got " + ast.unparse(last))
    rhs = last.comparators[0]
    if ast.unparse(rhs) == "len(BHJM)":
        last_off = 0
    elif isinstance(rhs, ast.BinOp) and isinstance(rhs.op, ast.Sub) and ast.unparse(rhs.left) == "len(BHJM)":
        last_off = int_const(rhs.right, "last-row offset")
    else:
        raise Untranslatable("first disjunct: new_ind == len(BHJM) [- c] expected, got " + ast.unparse(last))
    if ast.unparse(shp) != "mesh[new_ind].shape != mesh[prev_ind].shape":
        raise Untranslatable("second disjunct: shape comparison of rows new_ind / prev_ind expected, got "
                             + ast.unparse(shp))
    if ast.unparse(eq) != "not np.all(mesh[new_ind] == mesh[prev_ind])":
        raise Untranslatable("third disjunct: not np.all(mesh[new_ind] == mesh[prev_ind]) expected, got "
                             + ast.unparse(eq))
    b = cond.body
    ok = (len(b) == 3
          and same(b[0], "mask_inside = mask_inside_trimesh(observers[prev_ind:new_ind], mesh[prev_ind])")
          and same(b[1], "BHJM[prev_ind:new_ind][mask_inside] += polarization[prev_ind:new_ind][mask_inside]")
          and same(b[2], "prev_ind = new_ind"))
    if not ok:
        raise Untranslatable("group-closing block: inside test on observers[prev:new] against mesh[prev], "
                             "masked `+= polarization`, `prev_ind = new_ind` expected, got:\n"
                             + "\n".join(ast.unparse(s) for s in b))
    return lo, hi_off, last_off


def size_switch(tree, name, var):
    """`if <var> < c:` of cel / cel_iter: threshold and whether the small branch returns"""
    fn = find_func(tree, name)
    ifs = [s for s in fn.body if isinstance(s, ast.If)]
    if len(ifs) != 1:
        raise Untranslatable(f"{name}: exactly one top-level `if` expected, found {len(ifs)}")
    t = ifs[0].test
    if not (isinstance(t, ast.Compare) and len(t.ops) == 1 and isinstance(t.ops[0], ast.Lt)
            and ast.unparse(t.left) == var):
        raise Untranslatable(f"{name}: `{var} < c` expected, got {ast.unparse(t)}")
    c = int_const(t.comparators[0], f"{name} threshold")
    returns = any(isinstance(n, ast.Return) for s in ifs[0].body for n in ast.walk(s))
    idx = fn.body.index(ifs[0])
    if not (idx >= 1 and same(fn.body[idx - 1], f"{var} = len({fn.args.args[0].arg})")):
        raise Untranslatable(f"{name}: `{var} = len(<first argument>)` expected before the switch")
    tail = fn.body[idx + 1:]
    if len(tail) != 1 or not isinstance(tail[0], ast.Return):
        raise Untranslatable(f"{name}: a single `return <vector version>` expected after the switch")
    return c, returns, ast.unparse(tail[0].value.func)


def cylseg_order(tree):
    fn = find_func(tree, "BHJM_cylinder_segment")
    pos = {}
    for i, s in enumerate(fn.body):
        if isinstance(s, ast.If):
            t = ast.unparse(s.test)
            if t == "not np.any(mask_not_on_surf)":
                if not (len(s.body) == 1 and isinstance(s.body[0], ast.Return)):
                    raise Untranslatable("CylinderSegment exit: a bare return expected")
                pos["exit"] = i
            elif t in ("field == 'J'", "field == 'M'"):
                pos[t[-2]] = i
    if set(pos) != {"exit", "J", "M"}:
        raise Untranslatable(f"BHJM_cylinder_segment: exit / J / M branches not found as top-level ifs: {pos}")
    # which rows the J / M branch zeroes: outside only, or outside and on-surface rows
    zero_surf = {}
    for key in ("J", "M"):
        b = fn.body[pos[key]].body
        if len(b) != 2 or not isinstance(b[1], ast.Return):
            raise Untranslatable(f"BHJM_cylinder_segment {key} branch: `BHJM[<mask>] = 0; return ..` expected")
        st = ast.unparse(b[0])
        if st == "BHJM[~mask_inside] = 0":
            zero_surf[key] = False
        elif st in ("BHJM[~(mask_inside & mask_not_on_surf)] = 0", "BHJM[~(mask_not_on_surf & mask_inside)] = 0",
                    "BHJM[~mask_inside | ~mask_not_on_surf] = 0"):
            zero_surf[key] = True
        else:
            raise Untranslatable(f"BHJM_cylinder_segment {key} branch: unknown zeroing statement `{st}`")
    return pos["exit"] < pos["J"], pos["exit"] < pos["M"], zero_surf["J"], zero_surf["M"]


def ragged_switch(tree, name, test_src):
    fn = find_func(tree, name)
    hits = [n for n in ast.walk(fn) if isinstance(n, ast.If) and ast.unparse(n.test) == test_src and n.orelse]
    if len(hits) != 1:
        raise Untranslatable(f"{name}: `if {test_src}: .. else: ..` expected exactly once")
    return True


HEADER = """(* GENERATED on every run from the implementation by translate/gen_batch.py -- do not edit *)
From Coq Require Import List String.
Import ListNotations.
Open Scope string_scope.

"""


def generate(repo):
    base = os.path.join(repo, FIELDS)
    files = sorted(glob.glob(os.path.join(base, "field_BH_*.py")) + glob.glob(os.path.join(base, "special_*.py")))
    files.append(os.path.join(base, "field_wrap_BH.py"))
    if len(files) < 12:
        raise Untranslatable(f"only {len(files)} field modules found under {base}")
    trees = {}
    inv, lens = [], []
    for path in files:
        fname = os.path.basename(path)
        tree = ast.parse(open(path).read())
        trees[fname] = tree
        for fn in [n for n in ast.walk(tree) if isinstance(n, ast.FunctionDef)]:
            if fname == "field_wrap_BH.py" and fn.name not in WRAP_FUNCS:
                continue
            e, pl = inventory_of_function(fname, fn)
            inv += e
            if pl:
                lens.append((fname, fn.name, pl))
    # keep file order, then function order of appearance
    lo, hi_off, last_off = trimesh_loop(trees["field_BH_triangularmesh.py"])
    cel_c, cel_ret, cel_vec = size_switch(trees["special_cel.py"], "cel", "n_input")
    it_c, it_ret, it_vec = size_switch(trees["special_cel.py"], "cel_iter", "n_input")
    exit_before_j, exit_before_m, zsj, zsm = cylseg_order(trees["field_BH_cylinder_segment.py"])
    ragged_switch(trees["field_BH_polyline.py"], "current_vertices_field", "all((v == nvs[0] for v in nvs))")
    ragged_switch(trees["field_BH_triangularmesh.py"], "BHJM_magnet_trimesh", "mesh.ndim != 1")

    out = [HEADER]
    out.append("(* (file, function, kind, test) in source order *)\n")
    out.append("Definition inventory : list (string * string * string * string) := [\n")
    out.append(";\n".join(f"  ({q(a)}, {q(b)}, {q(c)}, {q(d)})" for a, b, c, d in inv))
    out.append("].\n\n")
    out.append("(* len() calls outside tests (allocation sizes, tiling factors), per function *)\n")
    out.append("Definition plain_len_calls : list (string * string * nat) := [\n")
    out.append(";\n".join(f"  ({q(a)}, {q(b)}, {c})" for a, b, c in lens))
    out.append("].\n\n")
    out.append("(* BHJM_magnet_trimesh: prev_ind = 0; for new_ind in range(lo, len + hi_off):\n"
               "     if new_ind == len - last_off or <row new differs from row prev>: close [prev, new); prev = new *)\n")
    out.append(f"Definition trimesh_lo : nat := {lo}.\n")
    out.append(f"Definition trimesh_hi_off : nat := {hi_off}.\n")
    out.append(f"Definition trimesh_last_off : nat := {last_off}.\n\n")
    out.append("(* cel: if n < c: return [cel0 ..] ; return celv(..) *)\n")
    out.append(f"Definition cel_threshold : nat := {cel_c}.\n")
    out.append(f"Definition cel_small_returns : bool := {'true' if cel_ret else 'false'}.\n")
    out.append(f"Definition cel_vector : string := {q(cel_vec)}.\n")
    out.append(f"Definition cel_iter_threshold : nat := {it_c}.\n")
    out.append(f"Definition cel_iter_small_returns : bool := {'true' if it_ret else 'false'}.\n")
    out.append(f"Definition cel_iter_vector : string := {q(it_vec)}.\n\n")
    out.append("(* BHJM_cylinder_segment: is `if not np.any(mask_not_on_surf): return 0` placed before the J / M branch *)\n")
    out.append(f"Definition cylseg_exit_before_J : bool := {'true' if exit_before_j else 'false'}.\n")
    out.append(f"Definition cylseg_exit_before_M : bool := {'true' if exit_before_m else 'false'}.\n")
    out.append("(* do the J / M branches also zero the on-surface rows (BHJM[~(mask_inside & mask_not_on_surf)] = 0) *)\n")
    out.append(f"Definition cylseg_J_zero_on_surface : bool := {'true' if zsj else 'false'}.\n")
    out.append(f"Definition cylseg_M_zero_on_surface : bool := {'true' if zsm else 'false'}.\n")
    return "".join(out)


if __name__ == "__main__":
    import sys
    print(generate(sys.argv[1] if len(sys.argv) > 1 else "/repo"))
