"""GenShapes.v: the literal vertex / facet tables of the display shape generators that Model/DisplayShapes.v
reasons about (make_Cuboid sign and index tables, make_Tetrahedron triangle table, vertex-count constants),
TRANSLATED from /repo/magpylib/_src/display/traces_base.py and traces_core.py, plus a fail-closed fingerprint of
every shape-generator function whose formula is modelled by hand (Model/DisplayRound.v, DisplayDipole.v,
DisplayTriangle.v, DisplayCircle.v, DisplayShapes.v).

Fail closed: a function whose AST (docstring stripped) differs from the one the hand model was written against
raises Untranslatable -- the tie between the model and the code is broken until the model is re-read.
"""
import ast
import hashlib
import os

from .py2coq import Untranslatable, get_function, strip_doc

BASE = "magpylib/_src/display/traces_base.py"
CORE = "magpylib/_src/display/traces_core.py"
TETRA = "magpylib/_src/fields/field_BH_tetrahedron.py"
UTIL = "magpylib/_src/display/traces_utility.py"

# sha1 of ast.dump(<function without docstring>) at the time the hand model was compared with the code
EXPECTED = {
    "magpylib/_src/display/traces_base.py:make_Cuboid": "fda8fdf2fb686eb3961d05f7b143ff6ad3d8cac8",
    "magpylib/_src/display/traces_base.py:make_Prism": "8017e43ee3905fbfdc351a5a4ccfd225b9204299",
    "magpylib/_src/display/traces_base.py:make_Ellipsoid": "b9e3ee2d1c641e10c3264d5d9f31f3f27117202f",
    "magpylib/_src/display/traces_base.py:make_CylinderSegment": "2c0918cf2e47e6be34eb58e2cf5e9f7b010b37af",
    "magpylib/_src/display/traces_base.py:make_Pyramid": "42be4389292c5fc971b1b5b5f29b86c43ac26a39",
    "magpylib/_src/display/traces_base.py:make_Arrow": "c898f0c6e9925101a5cf89ffb0a0d49605e86dfa",
    "magpylib/_src/display/traces_base.py:make_Tetrahedron": "cd8fb9c462c947243028bcae3c9d8f3bd0b2c3a2",
    "magpylib/_src/display/traces_base.py:get_model": "8350a578d5586114a6b743d60ea9f1cea14cad8b",
    "magpylib/_src/display/traces_core.py:make_Polyline": "76ecd358d672824c8c4e057fc79b35240577e040",
    "magpylib/_src/display/traces_core.py:make_Circle": "3db102256864d12cf5d53eeef5a98c6a199c8262",
    "magpylib/_src/display/traces_core.py:make_Dipole": "01abe6ddd58d00563bec13c913067c69461de77b",
    "magpylib/_src/display/traces_core.py:make_Cuboid": "9a9900195c686b00037317786541d64feac936f7",
    "magpylib/_src/display/traces_core.py:make_Cylinder": "914bc6021d9394fea5c8ca7200f2ec83f7f6d175",
    "magpylib/_src/display/traces_core.py:make_CylinderSegment": "227cae7eedb44fdf1bf4e9116bc49edfb1914ab9",
    "magpylib/_src/display/traces_core.py:make_Sphere": "b570039d7160bbd3f1ad37f554236a754b03eb07",
    "magpylib/_src/display/traces_core.py:make_Tetrahedron": "38f5b70dd58366f9c0ee8f9d1b31b73bc6d44594",
    "magpylib/_src/display/traces_core.py:make_Triangle": "08ab99293ec9917ec9ff0a13c4ca9fbdc6a5e2f0",
    "magpylib/_src/fields/field_BH_tetrahedron.py:check_chirality": "5aa4271c4aaa264d5541bc014b2f70e46a7301db",
    "magpylib/_src/display/traces_utility.py:place_and_orient_model3d": "2d86725c1c6d87d018c7cce9c9293ae77ce164d6",
    "magpylib/_src/display/traces_utility.py:get_rot_pos_from_path": "c96043474850e90b2baa209273388dc86ff164b2",
    "magpylib/_src/display/traces_utility.py:merge_mesh3d": "1a4bc239c7c1acc3f904a3d89ba6de0a8e555df6",
}


def fingerprint(fn):
    node = ast.FunctionDef(name=fn.name, args=fn.args, body=strip_doc(fn.body), decorator_list=[], lineno=0,
                           col_offset=0)
    return hashlib.sha1(ast.dump(node, include_attributes=False).encode()).hexdigest()


def cz(n):
    return f"({n})" if n < 0 else str(n)


def int_list(node, what):
    """np.array([ints...]) or a plain list of ints"""
    if isinstance(node, ast.Call) and ast.unparse(node.func) == "np.array" and len(node.args) == 1 and not node.keywords:
        node = node.args[0]
    if not isinstance(node, ast.List):
        raise Untranslatable(f"{what}: expected a list literal, got {ast.dump(node)[:100]}")
    out = []
    for e in node.elts:
        if isinstance(e, ast.UnaryOp) and isinstance(e.op, ast.USub) and isinstance(e.operand, ast.Constant) \
                and type(e.operand.value) is int:
            out.append(-e.operand.value)
        elif isinstance(e, ast.Constant) and type(e.value) is int:
            out.append(e.value)
        else:
            raise Untranslatable(f"{what}: non-integer entry {ast.dump(e)[:80]}")
    return out


def coq_list(xs):
    return "[" + "; ".join(cz(x) for x in xs) + "]"


def generate(repo):
    out = ["(* GENERATED on every run from /repo by translate/gen_shapes.py -- do not edit *)",
           "From Coq Require Import ZArith List.", "Import ListNotations.", "Open Scope Z_scope.", ""]
    # ---- fingerprints
    lines = []
    for path, name in FUNCTIONS:
        fn = get_function(os.path.join(repo, path), name)
        fp = fingerprint(fn)
        key = f"{path}:{name}"
        if EXPECTED.get(key) != fp:
            raise Untranslatable(f"{key} changed (fingerprint {fp}, the hand model was written against "
                                 f"{EXPECTED.get(key)}): re-read the function and update the model")
        lines.append(f"   {key} {fp}")
    out.append("(* fingerprints of the hand-modelled shape generators (all equal to the recorded ones):\n"
               + "\n".join(lines) + " *)\n")

    # ---- make_Cuboid tables
    fn = get_function(os.path.join(repo, BASE), "make_Cuboid")
    tables = None
    for st in strip_doc(fn.body):
        if isinstance(st, ast.Assign) and isinstance(st.value, ast.Dict) and ast.unparse(st.targets[0]) == "trace":
            tables = dict(zip([k.value for k in st.value.keys], st.value.values))
    if tables is None or set(tables) != set("ijkxyz"):
        raise Untranslatable("make_Cuboid: trace dict literal with keys i, j, k, x, y, z not found")
    for k in "ijk":
        out.append(f"Definition cub_{k} : list Z := {coq_list(int_list(tables[k], 'make_Cuboid ' + k))}.")
    for ax, k in enumerate("xyz"):
        v = tables[k]
        want = f"np.array(LIST) * 0.5 * dimension[{ax}]"
        if not (isinstance(v, ast.BinOp) and isinstance(v.op, ast.Mult) and ast.unparse(v.right) == f"dimension[{ax}]"
                and isinstance(v.left, ast.BinOp) and isinstance(v.left.op, ast.Mult)
                and isinstance(v.left.right, ast.Constant) and v.left.right.value == 0.5):
            raise Untranslatable(f"make_Cuboid {k}: expected {want}, got {ast.unparse(v)}")
        out.append(f"Definition cub_s{k} : list Z := {coq_list(int_list(v.left.left, 'make_Cuboid ' + k))}.")
    out.append("")

    # ---- make_Tetrahedron triangle table
    fn = get_function(os.path.join(repo, BASE), "make_Tetrahedron")
    tri = None
    for st in strip_doc(fn.body):
        if isinstance(st, ast.Assign) and ast.unparse(st.targets[0]) == "triangles":
            node = st.value
            if isinstance(node, ast.Call) and ast.unparse(node.func) == "np.array":
                node = node.args[0]
            if isinstance(node, ast.List):
                tri = [int_list(r, "make_Tetrahedron triangles") for r in node.elts]
    if tri is None or any(len(r) != 3 for r in tri):
        raise Untranslatable("make_Tetrahedron: triangles table not found")
    out.append("Definition tetra_triangles : list (Z * Z * Z) := ["
               + "; ".join(f"({cz(a)}, {cz(b)}, {cz(c)})" for a, b, c in tri) + "].\n")

    # ---- vertex-count constants
    def default_of(path, name, arg):
        f = get_function(os.path.join(repo, path), name)
        names = [a.arg for a in f.args.args]
        defaults = dict(zip(names[len(names) - len(f.args.defaults):], f.args.defaults))
        d = defaults.get(arg)
        if not (isinstance(d, ast.Constant) and type(d.value) is int):
            raise Untranslatable(f"{name}: integer default for {arg} not found")
        return d.value
    consts = {"circle_base_gen": default_of(CORE, "make_Circle", "base"),
              "cylinder_base_gen": default_of(CORE, "make_Cylinder", "base"),
              "segment_vert_gen": default_of(CORE, "make_CylinderSegment", "vertices"),
              "sphere_vert_gen": default_of(CORE, "make_Sphere", "vertices")}
    fn = get_function(os.path.join(repo, BASE), "make_CylinderSegment")
    nmin = None
    for st in strip_doc(fn.body):
        if isinstance(st, ast.Assign) and ast.unparse(st.targets[0]) == "N":
            if ast.unparse(st.value) != f"max({ast.unparse(st.value.args[0])}, int(vert * abs(phi1 - phi2) / 360))":
                raise Untranslatable("make_CylinderSegment: N has an unknown shape: " + ast.unparse(st.value))
            nmin = st.value.args[0].value
    if type(nmin) is not int:
        raise Untranslatable("make_CylinderSegment: minimum vertex count not found")
    consts["segment_min_count_gen"] = nmin
    for k, v in consts.items():
        out.append(f"Definition {k} : Z := {cz(v)}.")
    return "\n".join(out) + "\n"


FUNCTIONS = [
    (BASE, "make_Cuboid"), (BASE, "make_Prism"), (BASE, "make_Ellipsoid"), (BASE, "make_CylinderSegment"),
    (BASE, "make_Pyramid"), (BASE, "make_Arrow"), (BASE, "make_Tetrahedron"), (BASE, "get_model"),
    (CORE, "make_Polyline"), (CORE, "make_Circle"), (CORE, "make_Dipole"), (CORE, "make_Cuboid"),
    (CORE, "make_Cylinder"), (CORE, "make_CylinderSegment"), (CORE, "make_Sphere"), (CORE, "make_Tetrahedron"),
    (CORE, "make_Triangle"), (TETRA, "check_chirality"), (UTIL, "place_and_orient_model3d"),
    (UTIL, "get_rot_pos_from_path"), (UTIL, "merge_mesh3d"),
]
