"""GenForest.v: structural fingerprints of the methods that coq/Model/ForestModel.v (C11) and
coq/Model/CopyModel.v (C18) model by hand.

The hand model mirrors order of effects and exits of these functions statement by statement; the
theorems C11_forest_invariant / C18_* are about the model.  For each modelled function the `ast` of
its definition (docstrings removed; positions and comments ignored) is hashed; Props/C11.v contains
an Example stating that these fingerprints equal the ones pinned in coq/Model/ForestPinned.v, i.e.
that the model was written against exactly this source text.  ANY edit of one of these functions
breaks that Example (-> broken proof -> the large search for a failing input of the property runs);
the tie is re-established by a human after re-reading the function and updating model and pins.
The history correspondence (harness/props/C11.py) still runs and tells whether behaviour drifted.
Fails closed: a missing class / method / setter raises."""
import ast
import hashlib
import os

from .py2coq import Untranslatable

# (file, class or None, [(kind, name)])  kind: "def" plain function/method, "setter" property setter
MODELLED = [
    ("magpylib/_src/obj_classes/class_Collection.py", "BaseCollection",
     [("def", "__init__"), ("def", "add"), ("def", "remove"), ("def", "_update_src_and_sens"),
      ("setter", "children"), ("setter", "sources"), ("setter", "sensors"), ("setter", "collections"),
      ("getter", "children_all"), ("getter", "sources_all"), ("getter", "sensors_all"),
      ("getter", "collections_all"), ("def", "__iter__")]),
    ("magpylib/_src/obj_classes/class_BaseGeo.py", "BaseGeo",
     [("setter", "parent"), ("def", "__add__"), ("def", "copy"), ("getter", "style"),
      ("def", "_process_style_kwargs")]),
    ("magpylib/_src/utility.py", None,
     [("def", "rec_obj_remover"), ("def", "format_obj_input"), ("def", "filter_objects"),
      ("def", "add_iteration_suffix")]),
    ("magpylib/_src/input_checks.py", None, [("def", "check_format_input_obj")]),
]


def _strip_docstrings(node):
    for n in ast.walk(node):
        if isinstance(n, (ast.FunctionDef, ast.ClassDef, ast.Module)) and n.body:
            first = n.body[0]
            if isinstance(first, ast.Expr) and isinstance(first.value, ast.Constant) \
                    and isinstance(first.value.value, str):
                n.body = n.body[1:] or [ast.Pass()]
    return node


def fingerprint(fn_node):
    return hashlib.sha256(ast.dump(_strip_docstrings(fn_node), annotate_fields=True,
                                   include_attributes=False).encode()).hexdigest()[:32]


def _kind(fn):
    for d in fn.decorator_list:
        if isinstance(d, ast.Attribute) and d.attr == "setter":
            return "setter"
        if isinstance(d, ast.Name) and d.id == "property":
            return "getter"
    return "def"


def fingerprints(repo):
    out = []
    for rel, cls, items in MODELLED:
        tree = ast.parse(open(os.path.join(repo, rel)).read())
        body = tree.body
        if cls is not None:
            found = [n for n in body if isinstance(n, ast.ClassDef) and n.name == cls]
            if len(found) != 1:
                raise Untranslatable(f"{rel}: class {cls} not found exactly once")
            body = found[0].body
        fns = {}
        for n in body:
            if isinstance(n, ast.FunctionDef):
                key = (_kind(n), n.name)
                if key in fns:
                    raise Untranslatable(f"{rel}: {key} defined twice")
                fns[key] = n
        for kind, nm in items:
            if (kind, nm) not in fns:
                raise Untranslatable(f"{rel}: modelled {kind} {cls or ''}.{nm} not found")
            label = f"{cls + '.' if cls else os.path.basename(rel)[:-3] + '.'}{nm}" + \
                ("" if kind == "def" else ":" + kind)
            out.append((label, fingerprint(fns[(kind, nm)])))
    return out


def coq_list(name, fps):
    rows = ";\n  ".join(f'("{k}", "{v}")' for k, v in fps)
    return f"Definition {name} : list (string * string) :=\n  [{rows}].\n"


HEADER = """(* GENERATED on every run from the implementation by translate/gen_forest.py -- do not edit *)
From Coq Require Import List String.
Import ListNotations.
Open Scope string_scope.
"""


def generate(repo):
    return HEADER + coq_list("forest_fingerprints", fingerprints(repo))


if __name__ == "__main__":
    import sys
    print(coq_list("pinned_forest_fingerprints", fingerprints(sys.argv[1] if len(sys.argv) > 1 else "/repo")))
