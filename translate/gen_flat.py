"""GenFlat.v: control flow of format_obj_input / filter_objects / format_src_inputs
(/repo/magpylib/_src/utility.py) translated into Gallina over object trees
(node = NSrc | NSens | NColl children, Model/Level2Flat.v).

How: the bodies are interpreted statement by statement for each of the three kinds of objects
(source / sensor / collection): `isinstance` tests are decided per kind from the class tuple written
in the source, membership tests on `allow.split("+")` become the boolean flags a_src / a_sens /
a_coll, `x += e` appends, the recursive call `format_obj_input(*obj, ...)` becomes the call on the
children, `raise` becomes None.  Fail closed: any other statement, name, call or operator raises
Untranslatable.  Not modelled: the text of the error messages, `warn` printing, the try/except that
turns any exception into MagpylibBadUserInput (no exception arises on these three kinds), and the
wrapping of a bare source into a list (`if not isinstance(sources, (list, tuple))`, checked present).
"""
import ast
import os

from .py2coq import Untranslatable, get_function, strip_doc

KINDS = ["src", "sens", "coll"]
KIND_CLASS = {"src": "BaseSource", "sens": "Sensor", "coll": "Collection"}
CTOR = {"src": "NSrc _", "sens": "NSens _", "coll": "NColl cs"}
FLAG = {"sources": "a_src", "sensors": "a_sens", "collections": "a_coll"}

HEADER = """(* GENERATED on every run from /repo by translate/gen_flat.py -- do not edit *)
From Coq Require Import List Bool.
From MV Require Import Lib.Rigid Model.Level2Model Model.Level2Flat.
Import ListNotations.

Section GenFlat.
Context {O : RigidOps}.
Variable P : Type.
Notation node := (@node O P).
"""


def bad(node, what):
    raise Untranslatable(f"{what}: unexpected {ast.dump(node)[:200]}")


def is_name(n, name):
    return isinstance(n, ast.Name) and n.id == name


def class_tuple(n):
    if isinstance(n, ast.Name):
        return [n.id]
    if isinstance(n, ast.Tuple) and all(isinstance(e, ast.Name) for e in n.elts):
        return [e.id for e in n.elts]
    bad(n, "class tuple")
    return None


def in_allow(n):
    """`"token" in allow.split("+")` -> flag name"""
    ok = isinstance(n, ast.Compare) and len(n.ops) == 1 and isinstance(n.ops[0], ast.In) \
        and isinstance(n.left, ast.Constant) and n.left.value in FLAG
    c = n.comparators[0] if ok else None
    ok = ok and isinstance(c, ast.Call) and isinstance(c.func, ast.Attribute) and c.func.attr == "split" \
        and is_name(c.func.value, "allow") and len(c.args) == 1 and isinstance(c.args[0], ast.Constant) \
        and c.args[0].value == "+" and not c.keywords
    if not ok:
        bad(n, "membership test on allow")
    return FLAG[n.left.value]


def band(a, b):
    if a is True:
        return b
    if b is True:
        return a
    if a is False or b is False:
        return False
    return f"({a} && {b})"


def bor(a, b):
    if a is False:
        return b
    if b is False:
        return a
    if a is True or b is True:
        return True
    return f"({a} || {b})"


def bnot(a):
    if a is True:
        return False
    if a is False:
        return True
    return f"(negb {a})"


def cond(n, kind, var, env):
    """python condition -> True / False / Gallina bool text, for an object `var` of the given kind"""
    if isinstance(n, ast.Call) and is_name(n.func, "isinstance") and len(n.args) == 2 and not n.keywords:
        if not is_name(n.args[0], var):
            bad(n, "isinstance subject")
        if isinstance(n.args[1], ast.Name) and n.args[1].id in env.get("class_sets", {}):
            return env["class_sets"][n.args[1].id][kind]
        classes = class_tuple(n.args[1])
        for c in classes:
            if c not in ("BaseSource", "Sensor", "Collection", "list", "tuple"):
                bad(n, "class in isinstance")
        return KIND_CLASS[kind] in classes
    if isinstance(n, ast.Name) and n.id in env.get("bools", {}):
        return env["bools"][n.id]
    if isinstance(n, ast.BoolOp):
        vals = [cond(v, kind, var, env) for v in n.values]
        out = vals[0]
        for v in vals[1:]:
            out = bor(out, v) if isinstance(n.op, ast.Or) else band(out, v)
        return out
    if isinstance(n, ast.UnaryOp) and isinstance(n.op, ast.Not):
        if isinstance(n.operand, ast.Compare):
            return bnot(in_allow(n.operand))
        return bnot(cond(n.operand, kind, var, env))
    if isinstance(n, ast.Compare):
        return in_allow(n)
    bad(n, "condition")
    return None


def ite(c, a, b):
    if c is True:
        return a
    if c is False:
        return b
    return f"(if {c} then {a} else {b})"


# ---------------------------------------------------------------------------------- format_obj_input
def obj_expr(e, kind, var):
    """list-valued expression appended to obj_list"""
    if isinstance(e, ast.List) and len(e.elts) == 1 and is_name(e.elts[0], var):
        return "[n]"
    if isinstance(e, ast.Call) and is_name(e.func, "format_obj_input"):
        ok = len(e.args) == 1 and isinstance(e.args[0], ast.Starred) and is_name(e.args[0].value, var) \
            and sorted(k.arg for k in e.keywords) == ["allow", "warn"] \
            and all(is_name(k.value, k.arg) for k in e.keywords)
        if not ok:
            bad(e, "recursive call")
        if kind != "coll":
            raise Untranslatable(f"recursive flattening reached for an object of kind {kind}")
        return "(gen_filter a_src a_sens a_coll (flat_map (gen_fmt_obj a_src a_sens a_coll) cs))"
    bad(e, "appended expression")
    return None


def obj_block(stmts, kind, var, acc_name, env):
    """statements that only append to acc_name -> Gallina list expression (the appended part)"""
    parts = []
    for st in stmts:
        if isinstance(st, ast.AugAssign) and is_name(st.target, acc_name) and isinstance(st.op, ast.Add):
            parts.append(obj_expr(st.value, kind, var))
        elif isinstance(st, ast.If):
            c = cond(st.test, kind, var, env)
            if c is True:
                parts.append(obj_block(st.body, kind, var, acc_name, env))
            elif c is False:
                parts.append(obj_block(st.orelse, kind, var, acc_name, env))
            else:
                parts.append(ite(c, obj_block(st.body, kind, var, acc_name, env),
                                 obj_block(st.orelse, kind, var, acc_name, env)))
        else:
            bad(st, "statement in loop body")
    if not parts:
        return "[]"
    return parts[0] if len(parts) == 1 else "(" + " ++ ".join(parts) + ")"


def gen_format_obj_input(path):
    fn = get_function(path, "format_obj_input")
    a = fn.args
    if not (a.vararg and a.vararg.arg == "objects" and [k.arg for k in a.kwonlyargs] == ["allow", "warn"] and not a.args):
        bad(fn, "signature of format_obj_input")
    body = [s for s in strip_doc(fn.body) if not isinstance(s, ast.ImportFrom)]
    if len(body) != 5:
        raise Untranslatable(f"format_obj_input: {len(body)} statements")
    s0, s1, loop, s3, s4 = body
    if not (isinstance(s0, ast.Assign) and is_name(s0.targets[0], "obj_list") and isinstance(s0.value, ast.List)
            and not s0.value.elts):
        bad(s0, "obj_list = []")
    if not (isinstance(s1, ast.Assign) and is_name(s1.targets[0], "flatten_collection")):
        bad(s1, "flatten_collection")
    env = {"bools": {"flatten_collection": cond(s1.value, "src", "obj", {})}}
    if not (isinstance(loop, ast.For) and is_name(loop.target, "obj") and is_name(loop.iter, "objects")
            and not loop.orelse and len(loop.body) == 1 and isinstance(loop.body[0], ast.Try)):
        bad(loop, "loop over objects")
    tr = loop.body[0]
    if tr.orelse or tr.finalbody or len(tr.handlers) != 1 or len(tr.handlers[0].body) != 1 \
            or not isinstance(tr.handlers[0].body[0], ast.Raise):
        bad(tr, "try/except")
    # obj_list = filter_objects(obj_list, allow=allow, warn=False); return obj_list
    v = s3.value if isinstance(s3, ast.Assign) and is_name(s3.targets[0], "obj_list") else None
    ok = isinstance(v, ast.Call) and is_name(v.func, "filter_objects") and len(v.args) == 1 and is_name(v.args[0], "obj_list") \
        and sorted(k.arg for k in v.keywords) == ["allow", "warn"] \
        and all((k.arg == "allow" and is_name(k.value, "allow")) or
                (k.arg == "warn" and isinstance(k.value, ast.Constant) and k.value.value is False) for k in v.keywords)
    if not ok:
        bad(s3, "final filter")
    if not (isinstance(s4, ast.Return) and is_name(s4.value, "obj_list")):
        bad(s4, "return")
    out = "(* one iteration of `for obj in objects` of format_obj_input: what is appended to obj_list *)\n"
    out += "Fixpoint gen_fmt_obj (a_src a_sens a_coll : bool) (n : node) : list node :=\n  match n with\n"
    for k in KINDS:
        out += f"  | {CTOR[k]} => {obj_block(tr.body, k, 'obj', 'obj_list', env)}\n"
    out += "  end.\n\n"
    out += "Definition gen_format_obj_input (a_src a_sens a_coll : bool) (objs : list node) : list node :=\n"
    out += "  gen_filter a_src a_sens a_coll (flat_map (gen_fmt_obj a_src a_sens a_coll) objs).\n\n"
    return out


# ---------------------------------------------------------------------------------- filter_objects
def gen_filter_objects(path):
    fn = get_function(path, "filter_objects")
    if [x.arg for x in fn.args.args] != ["obj_list", "allow", "warn"]:
        bad(fn, "signature of filter_objects")
    body = [s for s in strip_doc(fn.body) if not isinstance(s, ast.ImportFrom)]
    if len(body) < 4:
        raise Untranslatable("filter_objects: too short")
    s0, ifs, s_new, loop, ret = body[0], body[1:-3], body[-3], body[-2], body[-1]
    if not (isinstance(s0, ast.Assign) and is_name(s0.targets[0], "allowed_classes") and isinstance(s0.value, ast.Tuple)
            and not s0.value.elts):
        bad(s0, "allowed_classes = ()")
    allowed = {k: False for k in KINDS}
    for st in ifs:
        ok = isinstance(st, ast.If) and not st.orelse and len(st.body) == 1 and isinstance(st.body[0], ast.AugAssign) \
            and is_name(st.body[0].target, "allowed_classes") and isinstance(st.body[0].op, ast.Add)
        if not ok:
            bad(st, "allowed_classes update")
        flag = in_allow(st.test)
        for c in class_tuple(st.body[0].value):
            hit = [k for k in KINDS if KIND_CLASS[k] == c]
            if not hit:
                bad(st, "class in allowed_classes")
            allowed[hit[0]] = bor(allowed[hit[0]], flag)
    if not (isinstance(s_new, ast.Assign) and is_name(s_new.targets[0], "new_list") and isinstance(s_new.value, ast.List)
            and not s_new.value.elts):
        bad(s_new, "new_list = []")
    if not (isinstance(loop, ast.For) and is_name(loop.target, "obj") and is_name(loop.iter, "obj_list") and not loop.orelse
            and len(loop.body) == 1 and isinstance(loop.body[0], ast.If)):
        bad(loop, "filter loop")
    test = loop.body[0]
    env = {"class_sets": {"allowed_classes": allowed}}
    keep = {}
    for k in KINDS:
        c = cond(test.test, k, "obj", env)
        # kept branch appends [obj]; the other branch may only print
        yes = obj_block(test.body, k, "obj", "new_list", env)
        for st in test.orelse:
            okp = isinstance(st, ast.If) and is_name(st.test, "warn") and not st.orelse and len(st.body) == 1 \
                and isinstance(st.body[0], ast.Expr) and isinstance(st.body[0].value, ast.Call) \
                and is_name(st.body[0].value.func, "print")
            if not okp:
                bad(st, "else branch of the filter")
        if yes != "[n]":
            raise Untranslatable(f"filter keeps {yes}")
        keep[k] = c
    if not (isinstance(ret, ast.Return) and is_name(ret.value, "new_list")):
        bad(ret, "return of filter_objects")

    def txt(c):
        return "true" if c is True else "false" if c is False else c
    out = "(* filter_objects: isinstance(obj, allowed_classes) *)\n"
    out += "Definition gen_allowed (a_src a_sens a_coll : bool) (n : node) : bool :=\n  match n with\n"
    for k in KINDS:
        out += f"  | {CTOR[k].replace('cs', '_')} => {txt(keep[k])}\n"
    out += "  end.\n"
    out += "Definition gen_filter (a_src a_sens a_coll : bool) (l : list node) : list node :=\n"
    out += "  filter (gen_allowed a_src a_sens a_coll) l.\n\n"
    return out


# ---------------------------------------------------------------------------------- format_src_inputs
def allow_flags(call):
    """format_obj_input(src, allow="a+b") -> the three flags as Gallina booleans"""
    ok = isinstance(call, ast.Call) and is_name(call.func, "format_obj_input") and len(call.args) == 1 \
        and is_name(call.args[0], "src") and len(call.keywords) == 1 and call.keywords[0].arg == "allow" \
        and isinstance(call.keywords[0].value, ast.Constant) and isinstance(call.keywords[0].value.value, str)
    if not ok:
        bad(call, "call of format_obj_input in format_src_inputs")
    toks = call.keywords[0].value.value.split("+")
    for t in toks:
        if t not in FLAG:
            bad(call, "allow token")
    return " ".join("true" if t in toks else "false" for t in ("sources", "sensors", "collections"))


def src_block(stmts, kind, env):
    """-> Gallina option (list node): what one iteration appends to src_list, None = raise"""
    if not stmts:
        raise Untranslatable("iteration of format_src_inputs appends nothing")
    st, rest = stmts[0], stmts[1:]
    if isinstance(st, ast.Raise):
        return "None"
    if isinstance(st, ast.If):
        # `if not x: raise`
        if isinstance(st.test, ast.UnaryOp) and isinstance(st.test.op, ast.Not) and isinstance(st.test.operand, ast.Name) \
                and st.test.operand.id in env:
            if not (len(st.body) == 1 and isinstance(st.body[0], ast.Raise) and not st.orelse):
                bad(st, "emptiness test")
            return f"match {env[st.test.operand.id]} with [] => None | _ => {src_block(rest, kind, env)} end"
        c = cond(st.test, kind, "src", {})
        if c not in (True, False) or rest:
            bad(st, "branch in format_src_inputs")
        return src_block(st.body if c else st.orelse, kind, env)
    if isinstance(st, ast.Assign) and len(st.targets) == 1 and isinstance(st.targets[0], ast.Name):
        if kind != "coll":
            raise Untranslatable("format_obj_input(src) for a non-collection")
        env = dict(env)
        env[st.targets[0].id] = f"(gen_format_obj_input {allow_flags(st.value)} [n])"
        return src_block(rest, kind, env)
    if isinstance(st, ast.AugAssign) and is_name(st.target, "src_list") and isinstance(st.op, ast.Add) and not rest:
        if isinstance(st.value, ast.Name) and st.value.id in env:
            return f"Some {env[st.value.id]}"
        if isinstance(st.value, ast.List) and len(st.value.elts) == 1 and is_name(st.value.elts[0], "src"):
            return "Some [n]"
    bad(st, "statement in format_src_inputs loop")
    return None


def gen_format_src_inputs(path):
    fn = get_function(path, "format_src_inputs")
    if [x.arg for x in fn.args.args] != ["sources"]:
        bad(fn, "signature of format_src_inputs")
    body = [s for s in strip_doc(fn.body) if not isinstance(s, ast.ImportFrom)]
    if len(body) != 5:
        raise Untranslatable(f"format_src_inputs: {len(body)} statements")
    s0, wrap, empty, loop, ret = body
    if not (isinstance(s0, ast.Assign) and is_name(s0.targets[0], "src_list") and isinstance(s0.value, ast.List)
            and not s0.value.elts):
        bad(s0, "src_list = []")
    if ast.unparse(wrap) != "if not isinstance(sources, (list, tuple)):\n    sources = [sources]":
        bad(wrap, "wrapping of a bare source")
    if not (isinstance(empty, ast.If) and ast.unparse(empty.test) == "not sources" and len(empty.body) == 1
            and isinstance(empty.body[0], ast.Raise) and not empty.orelse):
        bad(empty, "empty input test")
    if not (isinstance(loop, ast.For) and is_name(loop.target, "src") and is_name(loop.iter, "sources") and not loop.orelse):
        bad(loop, "loop over sources")
    if ast.unparse(ret) != "return (list(sources), src_list)":
        bad(ret, "return of format_src_inputs")
    out = "(* one iteration of `for src in sources` of format_src_inputs: what is appended to src_list; None = raise *)\n"
    out += "Definition gen_src_step (n : node) : option (list node) :=\n  match n with\n"
    for k in KINDS:
        out += f"  | {CTOR[k].replace('cs', '_')} => {src_block(loop.body, k, {})}\n"
    out += "  end.\n\n"
    out += """Fixpoint gen_src_loop (sources : list node) : option (list node) :=
  match sources with
  | [] => Some []
  | n :: r => match gen_src_step n with
              | None => None
              | Some d => match gen_src_loop r with None => None | Some sl => Some (d ++ sl) end
              end
  end.

(* `if not sources: raise`; the loop; `return list(sources), src_list` *)
Definition gen_format_src_inputs (sources : list node) : option (list node * list node) :=
  match sources with
  | [] => None
  | _ => match gen_src_loop sources with Some sl => Some (sources, sl) | None => None end
  end.
"""
    return out


def generate(repo):
    path = os.path.join(repo, "magpylib", "_src", "utility.py")
    return HEADER + "\n" + gen_filter_objects(path) + gen_format_obj_input(path) + gen_format_src_inputs(path) + \
        "\nEnd GenFlat.\n"
