"""GenMesh.v: structural fingerprints of the mesh functions behind C16.

coq/Model/MeshModel.v models get_open_edges / get_disconnected_faces_subsets / get_inwards_mask /
fix_trimesh_orientation by hand (tied by the exact correspondence of every run); the geometric functions
(is_facet_inwards, mask_inside_trimesh, lines_end_in_trimesh, mask_inside_enclosing_box, segments_intersect_facets,
get_intersecting_triangles) are floating-point code that is only searched.  For all of them, and for the
TriangularMesh methods that call them, the `ast` of the definition (docstrings removed; positions and comments
ignored) is hashed; Props/C16.v contains an Example stating that these fingerprints equal the ones pinned in
coq/Model/MeshPinned.v.  ANY edit of one of these functions (a dropped normalisation, a changed tolerance, a
swapped keyword) breaks that Example -> broken proof -> the large search for a failing input of the property runs;
the tie is re-established by a human after re-reading the function and updating the pins
(`python -m translate.gen_mesh [repo]` prints them).  Fails closed: a missing function raises."""
from . import gen_forest as gf

MODELLED = [
    ("magpylib/_src/fields/field_BH_triangularmesh.py", None,
     [("def", n) for n in ("v_norm2", "v_norm_proj", "v_cross", "v_dot_cross3d", "get_disconnected_faces_subsets",
                           "get_open_edges", "fix_trimesh_orientation", "is_facet_inwards", "get_inwards_mask",
                           "lines_end_in_trimesh", "segments_intersect_facets", "get_intersecting_triangles",
                           "mask_inside_enclosing_box", "mask_inside_trimesh")]),
    ("magpylib/_src/obj_classes/class_magnet_TriangularMesh.py", "TriangularMesh",
     [("def", n) for n in ("__init__", "_validate_mode_arg", "check_open", "check_disconnected",
                           "check_selfintersecting", "reorient_faces", "get_faces_subsets", "get_open_edges",
                           "get_selfintersecting_faces", "_input_check", "from_ConvexHull", "from_pyvista",
                           "from_triangles", "from_mesh")] +
     [("getter", n) for n in ("faces", "mesh", "status_open", "status_disconnected", "status_reoriented",
                              "status_selfintersecting")]),
]


def fingerprints(repo):
    saved = gf.MODELLED
    gf.MODELLED = MODELLED
    try:
        return gf.fingerprints(repo)
    finally:
        gf.MODELLED = saved


def generate(repo):
    return gf.HEADER + gf.coq_list("mesh_fingerprints", fingerprints(repo))


if __name__ == "__main__":
    import sys
    print(gf.coq_list("pinned_mesh_fingerprints", fingerprints(sys.argv[1] if len(sys.argv) > 1 else "/repo")))
