"""GenPathFlow.v: the statement-level control and data flow of the path machinery, translated from
/repo/magpylib/_src/obj_classes/class_BaseTransform.py and class_BaseGeo.py (C09 / C10).

For multi_anchor_behavior, path_padding, apply_move, apply_rotation, BaseTransform.move / _rotate /
rotate / rotate_from_*, BaseGeo._init_position_orientation, the position / orientation setters and
reset_path EVERY statement is emitted, in source order, as
        (function, kind, target, expression)
with kind in  def (target = the unparsed parameter list with defaults) / assign / aug<op> / if / else /
for / expr (a call for its effect) / return / raise / end (target "if" | "for": end of the block),
and the expression translated node by node into the deep embedding `pyexp` of Model/L2Arith.v
(translate/gen_l2arith.exp).  Docstrings are skipped; nothing else is.

In addition the rotate_from_* front ends are checked to have EXACTLY the shape
        rot = R.from_<x>(<parameters of the method passed through unchanged>)
        return self.rotate(rot, anchor[=anchor], start[=start])
(rotate_from_angax: these are its last two statements; the angle/axis preparation before them is part
of the flow) and emitted as records (method, R-constructor, [(keyword or "", parameter)], rotate args).

Fail closed: any other statement kind (while, try, with, del, nested def, ...), any expression node
outside the subset, a missing function, or a front end of another shape raises Untranslatable.

Proofs/PathFlowProofs.v proves `flow = expected_flow` and `front_ends = expected_front_ends` by
reflexivity and interprets the translated pad widths, slice bounds, call arguments and forwarded
keywords to show that they are what the hand models PathModel.v / CompoundModel.v use.
"""
import ast
import os

from .py2coq import Untranslatable, strip_doc
from .gen_l2arith import exp, q, clist, BINOPS

BT = "magpylib/_src/obj_classes/class_BaseTransform.py"
BG = "magpylib/_src/obj_classes/class_BaseGeo.py"

FRONT_ENDS = ["rotate_from_angax", "rotate_from_rotvec", "rotate_from_euler", "rotate_from_matrix",
              "rotate_from_mrp", "rotate_from_quat"]

# (file, class or None, function, decorator suffix or None, name used in the Gen file)
FUNCTIONS = [
    (BT, None, "multi_anchor_behavior", None, "multi_anchor_behavior"),
    (BT, None, "path_padding", None, "path_padding"),
    (BT, None, "apply_move", None, "apply_move"),
    (BT, None, "apply_rotation", None, "apply_rotation"),
    (BT, "BaseTransform", "move", None, "move"),
    (BT, "BaseTransform", "_rotate", None, "_rotate"),
    (BT, "BaseTransform", "rotate", None, "rotate"),
] + [(BT, "BaseTransform", f, None, f) for f in FRONT_ENDS] + [
    (BG, "BaseGeo", "_init_position_orientation", None, "_init_position_orientation"),
    (BG, "BaseGeo", "position", "setter", "position.setter"),
    (BG, "BaseGeo", "orientation", "setter", "orientation.setter"),
    (BG, "BaseGeo", "reset_path", None, "reset_path"),
]


def find_function(tree, cls, name, deco):
    scope = tree.body
    if cls is not None:
        cands = [n for n in tree.body if isinstance(n, ast.ClassDef) and n.name == cls]
        if len(cands) != 1:
            raise Untranslatable(f"class {cls} not found")
        scope = cands[0].body
    out = []
    for n in scope:
        if isinstance(n, ast.FunctionDef) and n.name == name:
            decos = [ast.unparse(d) for d in n.decorator_list]
            if deco is None and not any(d.endswith((".setter", "property")) for d in decos):
                out.append(n)
            elif deco is not None and any(d == f"{name}.{deco}" for d in decos):
                out.append(n)
    if len(out) != 1:
        raise Untranslatable(f"function {cls or ''}.{name} ({deco or 'plain'}): found {len(out)} definitions")
    return out[0]


def walk(fname, stmts, out):
    for s in stmts:
        if isinstance(s, (ast.Assign, ast.AugAssign, ast.AnnAssign)):
            targets = s.targets if isinstance(s, ast.Assign) else [s.target]
            if isinstance(s, ast.AugAssign):
                if type(s.op) not in BINOPS:
                    raise Untranslatable("augmented assignment operator in " + ast.unparse(s))
                kind = "aug" + BINOPS[type(s.op)]
            else:
                kind = "assign"
            if getattr(s, "value", None) is None:
                raise Untranslatable("annotation without value: " + ast.unparse(s))
            out.append((fname, kind, " = ".join(ast.unparse(t) for t in targets), exp(s.value)))
        elif isinstance(s, ast.If):
            out.append((fname, "if", "", exp(s.test)))
            walk(fname, s.body, out)
            if s.orelse:
                out.append((fname, "else", "", "PNone"))
                walk(fname, s.orelse, out)
            out.append((fname, "end", "if", "PNone"))
        elif isinstance(s, ast.For):
            if s.orelse:
                raise Untranslatable("for-else")
            out.append((fname, "for", ast.unparse(s.target), exp(s.iter)))
            walk(fname, s.body, out)
            out.append((fname, "end", "for", "PNone"))
        elif isinstance(s, ast.Return):
            out.append((fname, "return", "", exp(s.value) if s.value is not None else "PNone"))
        elif isinstance(s, ast.Expr):
            if isinstance(s.value, ast.Constant) and isinstance(s.value.value, str):
                continue                                   # docstring / comment string
            out.append((fname, "expr", "", exp(s.value)))
        elif isinstance(s, ast.Raise):
            out.append((fname, "raise", "", exp(s.exc.func) if isinstance(s.exc, ast.Call) else
                        (exp(s.exc) if s.exc is not None else "PNone")))
        elif isinstance(s, ast.Pass):
            continue
        elif isinstance(s, (ast.Import, ast.ImportFrom)):
            out.append((fname, "import", ast.unparse(s), "PNone"))
        else:
            raise Untranslatable(f"{fname}: statement kind {type(s).__name__}: {ast.unparse(s)[:80]}")


def front_end(fn):
    """(constructor, [(kw, param)], [(kw, name)] of the rotate call) of a rotate_from_* method"""
    params = [a.arg for a in fn.args.args]
    body = strip_doc(fn.body)
    if fn.name != "rotate_from_angax" and len(body) != 2:
        raise Untranslatable(f"{fn.name}: body is not `rot = R.from_...(...)` + `return self.rotate(...)`")
    if len(body) < 2:
        raise Untranslatable(f"{fn.name}: body too short")
    a, r = body[-2], body[-1]
    ok = (isinstance(a, ast.Assign) and len(a.targets) == 1 and isinstance(a.targets[0], ast.Name)
          and a.targets[0].id == "rot" and isinstance(a.value, ast.Call)
          and isinstance(a.value.func, ast.Attribute) and isinstance(a.value.func.value, ast.Name)
          and a.value.func.value.id == "R" and a.value.func.attr.startswith("from_"))
    if not ok:
        raise Untranslatable(f"{fn.name}: `rot = R.from_<x>(...)` expected, found {ast.unparse(a)[:80]}")
    cargs = []
    for x in a.value.args:
        if not isinstance(x, ast.Name):
            raise Untranslatable(f"{fn.name}: argument of R.{a.value.func.attr} is not a plain name: {ast.unparse(x)}")
        cargs.append(("", x.id))
    for k in a.value.keywords:
        if k.arg is None or not isinstance(k.value, ast.Name):
            raise Untranslatable(f"{fn.name}: keyword of R.{a.value.func.attr} is not a plain name: {ast.unparse(k.value)}")
        cargs.append((k.arg, k.value.id))
    if fn.name != "rotate_from_angax":
        for _, v in cargs:
            if v not in params:
                raise Untranslatable(f"{fn.name}: R.{a.value.func.attr} receives {v}, which is not a parameter")
    ok = (isinstance(r, ast.Return) and isinstance(r.value, ast.Call) and isinstance(r.value.func, ast.Attribute)
          and isinstance(r.value.func.value, ast.Name) and r.value.func.value.id == "self"
          and r.value.func.attr == "rotate")
    if not ok:
        raise Untranslatable(f"{fn.name}: `return self.rotate(...)` expected, found {ast.unparse(r)[:80]}")
    rargs = []
    for x in r.value.args:
        if not isinstance(x, ast.Name):
            raise Untranslatable(f"{fn.name}: argument of self.rotate is not a plain name")
        rargs.append(("", x.id))
    for k in r.value.keywords:
        if k.arg is None or not isinstance(k.value, ast.Name):
            raise Untranslatable(f"{fn.name}: keyword of self.rotate is not a plain name")
        rargs.append((k.arg, k.value.id))
    return a.value.func.attr, cargs, rargs


HEADER = """(* GENERATED on every run from the implementation by translate/gen_pathflow.py -- do not edit *)
From Coq Require Import ZArith List String.
From MV Require Import Model.L2Arith.
Import ListNotations.
Open Scope string_scope.
Open Scope Z_scope.

"""


def pairs(l):
    return clist([f"({q(a)}, {q(b)})" for a, b in l])


def generate(repo):
    trees = {}
    rows, fes = [], []
    for path, cls, name, deco, gname in FUNCTIONS:
        if path not in trees:
            trees[path] = ast.parse(open(os.path.join(repo, path)).read())
        fn = find_function(trees[path], cls, name, deco)
        if fn.args.vararg or fn.args.kwarg or fn.args.kwonlyargs or fn.args.posonlyargs:
            raise Untranslatable(f"{gname}: unexpected parameter kinds")
        out = [(gname, "def", ast.unparse(fn.args), "PNone")]
        walk(gname, strip_doc(fn.body), out)
        rows += out
        if name in FRONT_ENDS:
            ctor, cargs, rargs = front_end(fn)
            fes.append(f"  ({q(name)}, {q(ctor)}, {pairs(cargs)}, {pairs(rargs)})")
    body = ";\n".join(f"  ({q(f)}, {q(k)}, {q(t)},\n     {e})" for (f, k, t, e) in rows)
    return (HEADER + "Definition flow : list (string * string * string * pyexp) := [\n" + body + "].\n\n"
            "Definition front_ends : list (string * string * list (string * string) * list (string * string)) := [\n"
            + ";\n".join(fes) + "].\n")


if __name__ == "__main__":
    import sys
    print(generate(sys.argv[1] if len(sys.argv) > 1 else "/repo"))
